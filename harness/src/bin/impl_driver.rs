//! The implementation side of the line protocol: same requests as the Lean driver, answered by the
//! real chokan crates (in-process, panics captured).
use std::io::{self, BufRead, Write};

use chokan_verif_harness as h;

fn split_op(line: &str) -> (&str, &str) {
    match line.find(' ') {
        Some(i) => (&line[..i], &line[i + 1..]),
        None => (line, ""),
    }
}

fn main() {
    h::quiet_panics();
    let mut st = h::State::new();
    let stdin = io::stdin();
    let stdout = io::stdout();
    let mut out = io::BufWriter::new(stdout.lock());
    for line in stdin.lock().lines() {
        let line = match line {
            Ok(l) => l,
            Err(_) => break,
        };
        let l = line.trim_end_matches(&['\n', '\r'][..]);
        if l.is_empty() {
            continue;
        }
        let (op, arg) = split_op(l);
        let reply = h::guarded(|| h::handle(&mut st, op, arg))
            .unwrap_or(Some("panic-in-harness".to_string()))
            .unwrap_or_else(|| "bad-op".to_string());
        writeln!(out, "{}", reply.trim_end()).unwrap();
    }
    out.flush().unwrap();
}
