//! chokan-dic operations (C11): load the image written by the real `chokan-dic` binary through postcard and
//! dump it canonically; conversions on the loaded dictionary go through the kkc ops (`kcands` …).
use crate::dic_ops::speech_token;
use crate::kkc_ops::KkcState;
use crate::{guarded, parse_cps};
use std::collections::HashMap;

use dic::base::word::Word;
use kkc::frequency::ConversionFrequency;

pub struct BuilderState {
    pub tankan: Option<kkc::TankanDictionary>,
}

impl BuilderState {
    pub fn new() -> Self {
        BuilderState { tankan: None }
    }
}

fn dotted(s: &[char]) -> String {
    if s.is_empty() { "-".into() } else { s.iter().map(|c| (*c as u32).to_string()).collect::<Vec<_>>().join(".") }
}

fn dump_map(m: &HashMap<String, Vec<Word>>) -> String {
    let mut keys: Vec<&String> = m.keys().collect();
    keys.sort_by(|a, b| a.chars().collect::<Vec<_>>().cmp(&b.chars().collect::<Vec<_>>()));
    let v: Vec<String> = keys
        .iter()
        .map(|k| {
            let ws: Vec<String> = m[*k]
                .iter()
                .map(|w| format!("{}/{}/{}", dotted(&w.word), dotted(&w.reading), speech_token(&w.speech)))
                .collect();
            format!("{}={}", dotted(&k.chars().collect::<Vec<_>>()), ws.join(","))
        })
        .collect();
    format!("ok {}", v.join(" "))
}

pub fn handle(st: &mut BuilderState, k: &mut KkcState, op: &str, arg: &str) -> Option<String> {
    Some(match op {
        // bload <path>: read the image of chokan-dic
        "bload" => {
            let path = parse_cps(arg);
            match guarded(|| {
                let bytes = std::fs::read(&path).ok()?;
                postcard::from_bytes::<chokan_dic::ChokanDictionary>(&bytes).ok()
            }) {
                Ok(Some(d)) => {
                    k.dic = Some(d.graph);
                    k.freq = ConversionFrequency::new();
                    st.tankan = Some(d.tankan);
                    "ok".into()
                }
                Ok(None) => "unreadable".into(),
                Err(_) => "panic".into(),
            }
        }
        "bdump" => {
            let d = k.dic.as_ref()?;
            match arg.trim() {
                "std" => dump_map(&d.standard_dic),
                "anc" => dump_map(&d.ancillary_dic),
                "tankan" => dump_map(&st.tankan.as_ref()?.kanji_map),
                _ => "bad-dict".into(),
            }
        }
        // bhas std|anc <key>: does the loaded trie report the key?
        "bhas" => {
            let d = k.dic.as_ref()?;
            let (which, key) = match arg.find(' ') {
                Some(i) => (&arg[..i], parse_cps(&arg[i + 1..])),
                None => (arg, String::new()),
            };
            let t = if which == "std" { &d.standard_trie } else { &d.ancillary_trie };
            if t.search(&key, &|_, _| {}).is_some() { "yes".into() } else { "no".into() }
        }
        // bstruct std|anc: the complete base/check/free state of a loaded trie (same format as `tdump`)
        "bstruct" => {
            let d = k.dic.as_ref()?;
            let t = if arg.trim() == "std" { &d.standard_trie } else { &d.ancillary_trie };
            format!("ok {}", crate::trie_ops::dump(t))
        }
        "btankan" => {
            let t = st.tankan.as_ref()?;
            let v = kkc::get_tankan_candidates(&parse_cps(arg), t);
            format!("ok {}", v.iter().map(|s| dotted(&s.chars().collect::<Vec<_>>())).collect::<Vec<_>>().join(","))
        }
        _ => return None,
    })
}
