//! dic crate operations (C10, C12, C07, C08): conjugation, guessing, text format.
use dic::base::{
    dictionary::Dictionary,
    entry::Entry,
    io::{DictionaryReader, DictionaryWriter},
    speech::{AffixVariant, NounVariant, ParticleType, Speech, VerbForm},
    word::Word,
};
use dic::standard::io::{StandardDictionaryReader, StandardDictionaryWriter};

use crate::{fields, guarded, parse_cps, show_chars, show_cps};

/// Speech token: N.common | V.godan.<cp.cp…> | ADJ | ADV | ADJV | VERBATIM | CONJ | P.case | AUX | PRE | CNT | AFX.prefix
pub fn parse_speech_token(t: &str) -> Option<Speech> {
    let parts: Vec<&str> = t.split('.').collect();
    Some(match parts[0] {
        "N" => Speech::Noun(match *parts.get(1)? {
            "sahen" => NounVariant::Sahen,
            "proper" => NounVariant::Proper,
            "common" => NounVariant::Common,
            _ => return None,
        }),
        "V" => {
            let row: String = parts[2..]
                .iter()
                .filter_map(|w| w.parse::<u32>().ok())
                .filter_map(char::from_u32)
                .collect();
            Speech::Verb(match *parts.get(1)? {
                "godan" => VerbForm::Godan(row),
                "yodan" => VerbForm::Yodan(row),
                "simoIchidan" => VerbForm::SimoIchidan(row),
                "kamiIchidan" => VerbForm::KamiIchidan(row),
                "simoNidan" => VerbForm::SimoNidan(row),
                "kamiNidan" => VerbForm::KamiNidan(row),
                "hen" => VerbForm::Hen(row),
                _ => return None,
            })
        }
        "ADJ" => Speech::Adjective,
        "ADV" => Speech::Adverb,
        "ADJV" => Speech::AdjectivalVerb,
        "VERBATIM" => Speech::Verbatim,
        "CONJ" => Speech::Conjunction,
        "P" => Speech::Particle(match *parts.get(1)? {
            "case" => ParticleType::Case,
            "adverbial" => ParticleType::Adverbial,
            "conjunctive" => ParticleType::Conjunctive,
            "sentenceFinal" => ParticleType::SentenceFinal,
            "other" => ParticleType::Other,
            _ => return None,
        }),
        "AUX" => Speech::AuxiliaryVerb,
        "PRE" => Speech::PreNounAdjectival,
        "CNT" => Speech::Counter,
        "AFX" => Speech::Affix(match *parts.get(1)? {
            "prefix" => AffixVariant::Prefix,
            "suffix" => AffixVariant::Suffix,
            _ => return None,
        }),
        _ => return None,
    })
}

pub fn speech_token(s: &Speech) -> String {
    fn row(r: &str) -> String {
        r.chars().map(|c| format!(".{}", c as u32)).collect()
    }
    match s {
        Speech::Noun(NounVariant::Sahen) => "N.sahen".into(),
        Speech::Noun(NounVariant::Proper) => "N.proper".into(),
        Speech::Noun(NounVariant::Common) => "N.common".into(),
        Speech::Verb(VerbForm::Godan(r)) => format!("V.godan{}", row(r)),
        Speech::Verb(VerbForm::Yodan(r)) => format!("V.yodan{}", row(r)),
        Speech::Verb(VerbForm::SimoIchidan(r)) => format!("V.simoIchidan{}", row(r)),
        Speech::Verb(VerbForm::KamiIchidan(r)) => format!("V.kamiIchidan{}", row(r)),
        Speech::Verb(VerbForm::SimoNidan(r)) => format!("V.simoNidan{}", row(r)),
        Speech::Verb(VerbForm::KamiNidan(r)) => format!("V.kamiNidan{}", row(r)),
        Speech::Verb(VerbForm::Hen(r)) => format!("V.hen{}", row(r)),
        Speech::Adjective => "ADJ".into(),
        Speech::Adverb => "ADV".into(),
        Speech::AdjectivalVerb => "ADJV".into(),
        Speech::Verbatim => "VERBATIM".into(),
        Speech::Conjunction => "CONJ".into(),
        Speech::Particle(ParticleType::Case) => "P.case".into(),
        Speech::Particle(ParticleType::Adverbial) => "P.adverbial".into(),
        Speech::Particle(ParticleType::Conjunctive) => "P.conjunctive".into(),
        Speech::Particle(ParticleType::SentenceFinal) => "P.sentenceFinal".into(),
        Speech::Particle(ParticleType::Other) => "P.other".into(),
        Speech::AuxiliaryVerb => "AUX".into(),
        Speech::PreNounAdjectival => "PRE".into(),
        Speech::Counter => "CNT".into(),
        Speech::Affix(AffixVariant::Prefix) => "AFX.prefix".into(),
        Speech::Affix(AffixVariant::Suffix) => "AFX.suffix".into(),
    }
}

/// An entry is shown through its Display line (the only public view of the private `stem`).
fn show_entry(e: &Entry) -> String {
    format!("{} ; {}", show_cps(&e.to_string()), speech_token(&e.speech))
}

fn show_words(mut ws: Vec<Word>) -> String {
    let mut v: Vec<String> = ws
        .drain(..)
        .map(|w| format!("{} : {} : {}", show_chars(&w.word), show_chars(&w.reading), speech_token(&w.speech)))
        .collect();
    v.sort();
    v.dedup();
    if v.is_empty() {
        "ok".to_string()
    } else {
        format!("ok {}", v.join(" ; "))
    }
}

pub fn handle(op: &str, arg: &str) -> Option<String> {
    let f = fields(arg);
    Some(match op {
        // conj <speech token> | <stem> | <reading>  -> sorted, de-duplicated set of stem:reading pairs
        "conj" => {
            let sp = parse_speech_token(&f[0])?;
            let stem = parse_cps(&f[1]);
            let rd = parse_cps(&f[2]);
            match guarded(|| sp.to_forms(&stem, &rd)) {
                Ok(set) => {
                    let mut v: Vec<String> =
                        set.into_iter().map(|(a, b)| format!("{} : {}", show_cps(&a), show_cps(&b))).collect();
                    v.sort();
                    if v.is_empty() { "ok".into() } else { format!("ok {}", v.join(" ; ")) }
                }
                Err(_) => "panic".into(),
            }
        }
        // guessform <one char>
        "guessform" => {
            let s = parse_cps(&f[0]);
            let c = s.chars().next()?;
            match VerbForm::guess_form(c) {
                Some(vf) => format!("ok {}", speech_token(&Speech::Verb(vf))),
                None => "ok none".into(),
            }
        }
        // newguessed <reading> | <word>  -> the entry line and speech, or panic
        "newguessed" => {
            let rd = parse_cps(&f[0]);
            let w = parse_cps(&f[1]);
            match guarded(|| Entry::new_guessed(&rd, &w)) {
                Ok(e) => format!("ok {}", show_entry(&e)),
                Err(_) => "panic".into(),
            }
        }
        // guessedwords <reading> | <word> -> words of the guessed entry (what RegisterWord Guess adds)
        "guessedwords" => {
            let rd = parse_cps(&f[0]);
            let w = parse_cps(&f[1]);
            match guarded(|| {
                let e = Entry::new_guessed(&rd, &w);
                let ws: Vec<Word> = e.into();
                ws
            }) {
                Ok(ws) => show_words(ws),
                Err(_) => "panic".into(),
            }
        }
        // words <speech token> | <reading> | <stem>  -> Vec<Word>::from(Entry::from_jisyo(..))
        "words" => {
            let sp = parse_speech_token(&f[0])?;
            let rd = parse_cps(&f[1]);
            let stem = parse_cps(&f[2]);
            match guarded(|| {
                let ws: Vec<Word> = Entry::from_jisyo(&rd, &stem, sp).into();
                ws
            }) {
                Ok(ws) => show_words(ws),
                Err(_) => "panic".into(),
            }
        }
        // the same through `From<&Entry>` (used by chokan-dic and by the start-up merge of user.dic)
        "wordsref" => {
            let sp = parse_speech_token(&f[0])?;
            let rd = parse_cps(&f[1]);
            let stem = parse_cps(&f[2]);
            match guarded(|| {
                let e = Entry::from_jisyo(&rd, &stem, sp);
                let ws: Vec<Word> = (&e).into();
                ws
            }) {
                Ok(ws) => show_words(ws),
                Err(_) => "panic".into(),
            }
        }
        // print <speech token> | <reading> | <stem>  -> Display line
        "print" => {
            let sp = parse_speech_token(&f[0])?;
            let e = Entry::from_jisyo(&parse_cps(&f[1]), &parse_cps(&f[2]), sp);
            format!("ok {}", show_cps(&e.to_string()))
        }
        // parse <line> -> entries read from this single line by the real reader (bad line / comment = none)
        "parse" => {
            let line = parse_cps(&f[0]);
            match guarded(|| {
                let mut d = Dictionary::default();
                let mut r = StandardDictionaryReader::new(line.as_bytes());
                let _ = r.read_all(&mut d);
                d
            }) {
                Ok(d) => {
                    let v: Vec<String> = d.entries_ref().iter().map(show_entry).collect();
                    if v.is_empty() { "ok".into() } else { format!("ok {}", v.join(" ;; ")) }
                }
                Err(_) => "panic".into(),
            }
        }
        // readall <file content> -> entries read by the real reader
        "readall" => {
            let content = parse_cps(&f[0]);
            match guarded(|| {
                let mut d = Dictionary::default();
                let mut r = StandardDictionaryReader::new(content.as_bytes());
                let n = r.read_all(&mut d);
                (n.ok(), d)
            }) {
                Ok((n, d)) => {
                    let v: Vec<String> = d.entries_ref().iter().map(show_entry).collect();
                    format!("ok {} {}", n.map(|x| x as i64).unwrap_or(-1), v.join(" ;; "))
                }
                Err(_) => "panic".into(),
            }
        }
        // writeread <file content>: read entries, write them with the real writer, return the bytes written (as text)
        "rewrite" => {
            let content = parse_cps(&f[0]);
            match guarded(|| {
                let mut d = Dictionary::default();
                let mut r = StandardDictionaryReader::new(content.as_bytes());
                let _ = r.read_all(&mut d);
                let mut buf: Vec<u8> = Vec::new();
                {
                    let mut w = StandardDictionaryWriter::new(&mut buf);
                    let _ = w.write_all(&d);
                }
                String::from_utf8_lossy(&buf).to_string()
            }) {
                Ok(s) => format!("ok {}", show_cps(&s)),
                Err(_) => "panic".into(),
            }
        }
        _ => return None,
    })
}
