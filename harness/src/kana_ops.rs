//! kana-alpha operations (C17).
use crate::{guarded, parse_cps, show_cps};

pub fn handle(op: &str, arg: &str) -> Option<String> {
    Some(match op {
        // kana <string> -> kana_alpha::convert
        "kana" => {
            let s = parse_cps(arg);
            match guarded(|| kana_alpha::convert(&s)) {
                Ok(r) => format!("ok {}", show_cps(&r)),
                Err(_) => "panic".into(),
            }
        }
        _ => return None,
    })
}
