//! kkc operations (C01 C02 C03 C06 C16 C20): a dictionary is assembled word by word (map `Vec` order =
//! insertion order, keys inserted into real `trie::Trie`s), then the real lattice / candidates are
//! dumped through the `chokan_verif` hooks.
use std::collections::HashMap;

use dic::base::word::Word;
use kkc::{context::Context, frequency::ConversionFrequency, verif::VerifNode, GraphDictionary};

use crate::dic_ops::{parse_speech_token, speech_token};
use crate::{fields, guarded, parse_cps};

pub struct KkcState {
    pub alpha: Vec<char>,
    pub dic: Option<GraphDictionary>,
    pub freq: ConversionFrequency,
}

impl KkcState {
    pub fn new() -> Self {
        KkcState { alpha: vec![], dic: None, freq: ConversionFrequency::new() }
    }
}

fn dotted(s: &[char]) -> String {
    if s.is_empty() {
        "-".into()
    } else {
        s.iter().map(|c| (*c as u32).to_string()).collect::<Vec<_>>().join(".")
    }
}

fn ctx_of(s: &str) -> Context {
    match s {
        "foreign" => Context::foreign_word(),
        "numeral" => Context::numeral(),
        "proper" => Context::proper(),
        _ => Context::normal(),
    }
}

fn show_node(n: &VerifNode) -> String {
    match n.kind {
        "word" => format!(
            "w/{}/{}/{}/{}/{}/{}",
            n.end,
            n.index,
            n.forward,
            dotted(&n.surface),
            dotted(&n.reading),
            n.speech.as_ref().map(speech_token).unwrap_or("-".into())
        ),
        "virtual" => format!("v/{}/{}/{}/{}/{}/-", n.end, n.index, n.forward, dotted(&n.surface), dotted(&n.reading)),
        "bos" => "bos".into(),
        _ => "eos".into(),
    }
}

fn node_id(n: &VerifNode) -> String {
    match n.kind {
        "word" => format!("w{}.{}", n.end, n.index),
        "virtual" => format!("v{}.{}", n.end, n.index),
        "bos" => "bos".into(),
        _ => "eos".into(),
    }
}

fn node_full(n: &VerifNode) -> String {
    match n.kind {
        "word" => format!(
            "w{}.{}~{}~{}~{}",
            n.end,
            n.index,
            dotted(&n.surface),
            dotted(&n.reading),
            n.speech.as_ref().map(speech_token).unwrap_or("-".into())
        ),
        "virtual" => format!("v{}.{}~{}~{}~-", n.end, n.index, dotted(&n.surface), dotted(&n.reading)),
        "bos" => "bos".into(),
        _ => "eos".into(),
    }
}

fn split_head(s: &str) -> (String, String) {
    match s.find(' ') {
        Some(i) => (s[..i].to_string(), s[i + 1..].to_string()),
        None => (s.to_string(), String::new()),
    }
}

pub fn handle(st: &mut KkcState, op: &str, arg: &str) -> Option<String> {
    let f = fields(arg);
    Some(match op {
        "kreset" => {
            st.alpha = parse_cps(arg).chars().collect();
            st.freq = ConversionFrequency::new();
            if st.alpha.is_empty() {
                st.dic = None;
                return Some("ok".into());
            }
            st.dic = Some(GraphDictionary {
                standard_trie: trie::Trie::from_keys(&st.alpha),
                standard_dic: HashMap::new(),
                ancillary_trie: trie::Trie::from_keys(&st.alpha),
                ancillary_dic: HashMap::new(),
            });
            "ok".into()
        }
        "kword" => {
            let (which, rd) = split_head(&f[0]);
            let reading = parse_cps(&rd);
            let sp = match parse_speech_token(&f[2]) {
                Some(s) => s,
                None => return Some("bad-speech".into()),
            };
            let w = Word::new(&parse_cps(&f[1]), &reading, sp);
            let d = st.dic.as_mut()?;
            let (trie, map, with_trie) = match which.as_str() {
                "std" => (&mut d.standard_trie, &mut d.standard_dic, true),
                "anc" => (&mut d.ancillary_trie, &mut d.ancillary_dic, true),
                "stdmap" => (&mut d.standard_trie, &mut d.standard_dic, false),
                "ancmap" => (&mut d.ancillary_trie, &mut d.ancillary_dic, false),
                _ => return Some("bad-dict".into()),
            };
            if with_trie {
                let _ = trie.insert(&reading);
            }
            map.entry(reading).or_insert_with(Vec::new).push(w);
            "ok".into()
        }
        "ktrie" => {
            let (which, k) = split_head(&f[0]);
            let key = parse_cps(&k);
            let d = st.dic.as_mut()?;
            let r = match which.as_str() {
                "std" => d.standard_trie.insert(&key),
                "anc" => d.ancillary_trie.insert(&key),
                _ => return Some("bad-dict".into()),
            };
            if r.is_ok() { "ok".into() } else { "reject".into() }
        }
        "kfreq" => {
            let (c, w) = split_head(&f[0]);
            let ctx = ctx_of(&c);
            let word = parse_cps(&w);
            let n: u64 = f[1].parse().unwrap_or(0);
            // counts can only be built by confirmations; rebuild the state so that the count is exactly n
            // read through the hook, not through the public look-up: the history the oracle describes (search, update,
            // search) must not contain a look-up of our own in between
            let cname = format!("{:?}", ctx);
            let cur = st
                .freq
                .verif_entries()
                .into_iter()
                .find(|(c, w, _, _)| *c == cname && *w == word)
                .map(|(_, _, n, _)| n)
                .unwrap_or(0);
            if cur > n {
                return Some("cannot-decrease".into());
            }
            for _ in cur..n {
                st.freq.update_word(&word, &ctx, 0);
            }
            "ok".into()
        }
        // the learned counts serialised and read back, as a save followed by a restart does
        "kfreqrt" => {
            let bytes = match postcard::to_allocvec(&st.freq) {
                Ok(b) => b,
                Err(_) => return Some("serialize-error".into()),
            };
            match postcard::from_bytes::<ConversionFrequency>(&bytes) {
                Ok(f) => {
                    st.freq = f;
                    "ok".into()
                }
                Err(_) => "deserialize-error".into(),
            }
        }
        "klattice" => {
            let (c, inp) = split_head(arg);
            let ctx = ctx_of(&c);
            let input = parse_cps(&inp);
            let d = st.dic.as_ref()?;
            match guarded(|| kkc::verif::lattice(&input, d, &ctx, &st.freq)) {
                Ok(l) => {
                    let pos: Vec<String> = l
                        .positions
                        .iter()
                        .map(|v| v.iter().map(show_node).collect::<Vec<_>>().join(" "))
                        .collect();
                    format!("ok {}", pos.join(" | "))
                }
                Err(_) => "panic".into(),
            }
        }
        "kedges" => {
            let (c, inp) = split_head(arg);
            let ctx = ctx_of(&c);
            let input = parse_cps(&inp);
            let d = st.dic.as_ref()?;
            match guarded(|| kkc::verif::lattice(&input, d, &ctx, &st.freq)) {
                Ok(l) => {
                    let es: Vec<String> = l
                        .edges
                        .iter()
                        .map(|e| format!("{}>{}:{}:{}", node_id(&e.prev), node_id(&e.node), e.edge_score, e.node_score))
                        .collect();
                    format!("ok {}", es.join(" "))
                }
                Err(_) => "panic".into(),
            }
        }
        "kcands" => {
            let (c, rest) = split_head(arg);
            let (n, inp) = split_head(&rest);
            let ctx = ctx_of(&c);
            let n: usize = n.parse().unwrap_or(1);
            let input = parse_cps(&inp);
            let d = st.dic.as_ref()?;
            match guarded(|| kkc::get_candidates(&input, d, &ctx, &st.freq, n)) {
                Ok(cs) => {
                    let v: Vec<String> = cs
                        .iter()
                        .map(|c| {
                            let (nodes, score, prio) = kkc::verif::candidate_view(c);
                            let text: Vec<char> = c.to_string().chars().collect();
                            let ind = c
                                .to_string_only_independent()
                                .map(|s| dotted(&s.chars().collect::<Vec<_>>()))
                                .unwrap_or("-".into());
                            let aff = c
                                .to_string_with_affix()
                                .map(|(w, r)| {
                                    format!(
                                        "{},{}",
                                        dotted(&w.chars().collect::<Vec<_>>()),
                                        dotted(&r.chars().collect::<Vec<_>>())
                                    )
                                })
                                .unwrap_or("-".into());
                            format!(
                                "{};{};{};{};{};{}",
                                dotted(&text),
                                score,
                                prio,
                                nodes.iter().map(node_full).collect::<Vec<_>>().join(","),
                                ind,
                                aff
                            )
                        })
                        .collect();
                    format!("ok {}", v.join(" | "))
                }
                Err(_) => "panic".into(),
            }
        }
        _ => return None,
    })
}
