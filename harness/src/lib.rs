//! Shared helpers of the correspondence harness: the line protocol (strings as space separated
//! decimal code points, "-" = empty; fields separated by " | "), panic capture, canonical encodings.
use std::panic::{catch_unwind, AssertUnwindSafe};

pub fn parse_cps(s: &str) -> String {
    let t = s.trim();
    if t == "-" || t.is_empty() {
        return String::new();
    }
    t.split(' ')
        .filter_map(|w| w.parse::<u32>().ok())
        .filter_map(char::from_u32)
        .collect()
}

pub fn show_cps(s: &str) -> String {
    if s.is_empty() {
        "-".to_string()
    } else {
        s.chars().map(|c| (c as u32).to_string()).collect::<Vec<_>>().join(" ")
    }
}

pub fn show_chars(s: &[char]) -> String {
    if s.is_empty() {
        "-".to_string()
    } else {
        s.iter().map(|c| (*c as u32).to_string()).collect::<Vec<_>>().join(" ")
    }
}

pub fn fields(s: &str) -> Vec<String> {
    s.split('|').map(|f| f.trim().to_string()).collect()
}

/// Run `f`, mapping a panic to `Err(message)`. The default panic hook is silenced by `quiet_panics`.
pub fn guarded<T>(f: impl FnOnce() -> T) -> Result<T, String> {
    catch_unwind(AssertUnwindSafe(f)).map_err(|e| {
        if let Some(s) = e.downcast_ref::<&str>() {
            s.to_string()
        } else if let Some(s) = e.downcast_ref::<String>() {
            s.clone()
        } else {
            "panic".to_string()
        }
    })
}

pub fn quiet_panics() {
    std::panic::set_hook(Box::new(|_| {}));
}

pub mod dic_ops;
pub mod kana_ops;
pub mod trie_ops;
pub mod kkc_ops;
pub mod builder_ops;
pub mod skk_ops;

// the line parsers / converters of the SKK import tools are modules of bin crates: compile them from the
// repository's sources
#[allow(dead_code, unused_imports)]
#[path = "/repo/skk-noun-converter/src/noun_converter.rs"]
pub mod noun_converter;
#[allow(dead_code, unused_imports)]
#[path = "/repo/skk-jinmei-converter/src/jinmei_converter.rs"]
pub mod jinmei_converter;
#[allow(dead_code, unused_imports)]
#[path = "/repo/skk-tankan-converter/src/tankan_grammer.rs"]
pub mod tankan_grammer;
#[allow(dead_code, unused_imports)]
#[path = "/repo/skk-notes-converter/src/note_grammer.rs"]
pub mod note_grammer;
#[allow(dead_code, unused_imports)]
#[path = "/repo/skk-notes-converter/src/converter.rs"]
pub mod converter;

/// Mutable state of the implementation driver.
pub struct State {
    pub trie: trie_ops::TrieState,
    pub kkc: kkc_ops::KkcState,
    pub builder: builder_ops::BuilderState,
}

impl State {
    pub fn new() -> Self {
        State { trie: trie_ops::TrieState::new(), kkc: kkc_ops::KkcState::new(), builder: builder_ops::BuilderState::new() }
    }
}

/// Dispatch one request to the module that knows the operation.
pub fn handle(st: &mut State, op: &str, arg: &str) -> Option<String> {
    if let Some(r) = trie_ops::handle(&mut st.trie, op, arg) {
        return Some(r);
    }
    if let Some(r) = builder_ops::handle(&mut st.builder, &mut st.kkc, op, arg) {
        return Some(r);
    }
    if let Some(r) = kkc_ops::handle(&mut st.kkc, op, arg) {
        return Some(r);
    }
    dic_ops::handle(op, arg).or_else(|| kana_ops::handle(op, arg)).or_else(|| skk_ops::handle(op, arg))
}
