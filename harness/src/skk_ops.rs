//! SKK import operations (C18): the five line parsers / converters of the repository, compiled from its
//! sources (`#[path]` includes of the bin-crate modules in lib.rs), plus the real text-format reader on
//! what they emit.
use crate::dic_ops::speech_token;
use crate::{guarded, parse_cps, show_cps};

fn show_entries(es: Vec<dic::base::entry::Entry>) -> String {
    let v: Vec<String> = es.iter().map(|e| format!("{} ; {}", show_cps(&e.to_string()), speech_token(&e.speech))).collect();
    if v.is_empty() { "some".into() } else { format!("some {}", v.join(" ;; ")) }
}

pub fn handle(op: &str, arg: &str) -> Option<String> {
    let line = parse_cps(arg);
    Some(match op {
        // skk <line> -> err | none | some reading ; okuri ; word , word …
        "skk" => match guarded(|| skk_dic_parser::parse_skk_entry(&line)) {
            Err(_) => "panic".into(),
            Ok(Err(_)) => "err".into(),
            Ok(Ok(None)) => "none".into(),
            Ok(Ok(Some(e))) => format!(
                "some {} ; {} ; {}",
                show_cps(&e.reading()),
                e.okuri().map(|o| show_cps(&o)).unwrap_or("none".into()),
                e.words().iter().map(|w| show_cps(w)).collect::<Vec<_>>().join(" , ")
            ),
        },
        "skknoun" => match guarded(|| crate::noun_converter::parse_nouns(&line).map(|o| o.map(|n| n.to_entries()))) {
            Err(_) => "panic".into(),
            Ok(Err(_)) => "err".into(),
            Ok(Ok(None)) => "none".into(),
            Ok(Ok(Some(es))) => show_entries(es),
        },
        "skkproper" => match guarded(|| crate::jinmei_converter::parse_propers(&line).map(|o| o.map(|n| n.to_entries()))) {
            Err(_) => "panic".into(),
            Ok(Err(_)) => "err".into(),
            Ok(Ok(None)) => "none".into(),
            Ok(Ok(Some(es))) => show_entries(es),
        },
        "skktankan" => match guarded(|| crate::tankan_grammer::parse_tankan(&line).map(|o| o.map(|n| n.to_entries()))) {
            Err(_) => "panic".into(),
            Ok(Err(_)) => "err".into(),
            Ok(Ok(None)) => "none".into(),
            Ok(Ok(Some(es))) => show_entries(es),
        },
        // skknote <line> -> err | none | some <emitted dictionary lines incl. affix entries>; conversion may hit the
        // converters' explicit unsupported-conjugation panic ("unsupported") or any other panic ("panic")
        "skknote" => {
            let parsed = guarded(|| crate::note_grammer::parse_note(&line));
            match parsed {
                Err(_) => "panic-parse".into(),
                Ok(Err(_)) => "err".into(),
                Ok(Ok(None)) => "none".into(),
                Ok(Ok(Some(note))) => {
                    let dbg = format!("{:?}", note);
                    match guarded(|| note.to_entries()) {
                        Ok(es) => {
                            let v: Vec<String> = es
                                .iter()
                                .map(|e| format!("{} ; {}", show_cps(&e.to_string()), speech_token(&e.speech)))
                                .collect();
                            format!("some {} || {}", v.join(" ;; "), show_cps(&dbg))
                        }
                        Err(m) => {
                            if m.starts_with("Can not get okuri for") {
                                format!("unsupported || {}", show_cps(&dbg))
                            } else {
                                format!("panic-convert || {}", show_cps(&dbg))
                            }
                        }
                    }
                }
            }
        }
        _ => return None,
    })
}
