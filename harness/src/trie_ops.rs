//! trie operations (C04): the real `trie::Trie`, with the `chokan_verif` hooks for dumps and the
//! xcheck log. State: one current trie.
use crate::{guarded, parse_cps};

pub struct TrieState {
    pub trie: Option<trie::Trie>,
}

impl TrieState {
    pub fn new() -> Self {
        TrieState { trie: None }
    }
}

fn show_i(v: i32) -> String {
    v.to_string()
}

pub fn dump(t: &trie::Trie) -> String {
    let (nodes, empties, _labels) = t.verif_dump();
    let slots: Vec<String> = nodes.iter().map(|(b, c)| format!("{}:{}", show_i(*b), show_i(*c))).collect();
    let free: Vec<String> = empties.iter().map(|e| e.to_string()).collect();
    format!("size={} slots={} free={}", nodes.len(), slots.join(","), free.join(","))
}

pub fn handle(st: &mut TrieState, op: &str, arg: &str) -> Option<String> {
    Some(match op {
        "tnew" => {
            let alpha: Vec<char> = parse_cps(arg).chars().collect();
            match guarded(|| trie::Trie::from_keys(&alpha)) {
                Ok(t) => {
                    st.trie = Some(t);
                    "ok".into()
                }
                Err(_) => "panic".into(),
            }
        }
        "tins" => {
            let key = parse_cps(arg.split('|').next().unwrap_or(""));
            match st.trie.as_mut() {
                None => "no-trie".into(),
                Some(t) => {
                    let _ = trie::verif::take_xcheck_log();
                    // insert mutates in place; on a panic the trie may be half-updated, like in the server
                    let r = guarded(|| t.insert(&key));
                    let log = trie::verif::take_xcheck_log();
                    match r {
                        Ok(Ok(())) => format!(
                            "ok | {}",
                            log.iter().map(|b| b.to_string()).collect::<Vec<_>>().join(" ")
                        ),
                        Ok(Err(())) => "reject".into(),
                        Err(_) => "panic".into(),
                    }
                }
            }
        }
        "tq" => match st.trie.as_ref() {
            None => "no-trie".into(),
            Some(t) => {
                let key = parse_cps(arg);
                match guarded(|| t.search(&key, &|_, _| {})) {
                    Ok(Some(i)) => format!("some {}", i),
                    Ok(None) => "none".into(),
                    Err(_) => "panic".into(),
                }
            }
        },
        "tdump" => match st.trie.as_ref() {
            None => "no-trie".into(),
            Some(t) => dump(t),
        },
        // clone, then postcard serialize + deserialize; the trie continues from the deserialized copy
        "trt" => match st.trie.take() {
            None => "no-trie".into(),
            Some(t) => {
                let c = t.clone();
                drop(t);
                match guarded(|| {
                    let bytes = postcard::to_allocvec(&c).unwrap();
                    postcard::from_bytes::<trie::Trie>(&bytes).unwrap()
                }) {
                    Ok(t2) => {
                        st.trie = Some(t2);
                        "ok".into()
                    }
                    Err(_) => {
                        st.trie = Some(c);
                        "panic".into()
                    }
                }
            }
        },
        _ => return None,
    })
}
