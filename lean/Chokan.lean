-- Root of the `Chokan` library: models, generated tables and property theorems.
import Chokan.Model.Romaji
import Chokan.Gen.Romaji
import Chokan.Lemmas.Romaji
import Chokan.Props.C19
