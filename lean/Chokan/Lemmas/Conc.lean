/-
Lemmas about the fine-grained concurrency model (Model/Conc): the lock discipline is an invariant of every
schedule, and under it the lock-wait graph of every reachable state ends in a thread that can move.
-/
import Chokan.Model.Conc

namespace Chokan.Conc
open Chokan.Gen.Server

theorem lockFree_false {s : St} {l : Lock} (h : lockFree s l = false) :
    ∃ (j : Nat) (tj : Thread), s.threads[j]? = some tj ∧ l ∈ tj.held := by
  unfold lockFree at h
  obtain ⟨t, ht, hc⟩ := List.all_eq_false.1 h
  obtain ⟨j, hj⟩ := List.mem_iff_getElem?.1 ht
  exact ⟨j, t, hj, by simpa using hc⟩

theorem lockFree_true {s : St} {l : Lock} (h : lockFree s l = true) (j : Nat) (tj : Thread)
    (hj : s.threads[j]? = some tj) : l ∉ tj.held := by
  unfold lockFree at h
  rw [List.all_eq_true] at h
  have := h tj (List.mem_of_getElem? hj)
  simpa using this

/-- A thread that holds a lock and cannot move is itself waiting for a lock that ranks above the ones it holds. -/
theorem holder_not_enabled {rank : Lock → Nat} {unb : Chan → Bool} {s : St} (hinv : Inv rank unb s)
    {t : Thread} (ht : t ∈ s.threads) {l : Lock} (hl : l ∈ t.held) (hne : enabled s t = false) :
    ∃ l' r, t.rest = .acq l' :: r ∧ rank l < rank l' := by
  have hd := hinv.disc t ht
  have hheld : t.held.isEmpty = false := by
    cases hh : t.held with
    | nil => rw [hh] at hl; cases hl
    | cons a b => rfl
  cases hr : t.rest with
  | nil =>
    rw [hr] at hd
    simp only [disc] at hd
    rw [hheld] at hd
    cases hd
  | cons e r =>
    rw [hr] at hd
    cases e with
    | acq l' =>
      simp only [disc, Bool.and_eq_true, List.all_eq_true, decide_eq_true_eq] at hd
      exact ⟨l', r, rfl, hd.1 l hl⟩
    | rel l' => simp [enabled, hr] at hne
    | recv c =>
      simp only [disc, Bool.and_eq_true] at hd
      rw [hheld] at hd
      exact absurd hd.1 (by simp)
    | send c =>
      simp only [disc, Bool.and_eq_true, Bool.or_eq_true] at hd
      rw [hheld] at hd
      rcases hd.1 with h | h
      · cases h
      · have := hinv.cap c h
        simp [enabled, hr, this] at hne
    | act a => simp [enabled, hr] at hne
    | respond => simp [enabled, hr] at hne

/-- **No deadlock on locks.** In a state that satisfies the discipline, whenever a thread wants a lock, either
it can take it now or some thread that holds a lock can take its next event now. -/
theorem wait_chain_ends {rank : Lock → Nat} {unb : Chan → Bool} {s : St} (hinv : Inv rank unb s)
    (B : Nat) (hB : ∀ l, rank l ≤ B) :
    ∀ (n : Nat) (t : Thread) (l : Lock) (r : List Ev), t ∈ s.threads → t.rest = .acq l :: r → B - rank l ≤ n →
      enabled s t = true ∨ ∃ tj ∈ s.threads, tj.held ≠ [] ∧ enabled s tj = true := by
  intro n
  induction n with
  | zero =>
    intro t l r ht hr hn
    cases he : enabled s t with
    | true => exact Or.inl rfl
    | false =>
      have hlf : lockFree s l = false := by simpa [enabled, hr] using he
      obtain ⟨j, tj, hj, hlj⟩ := lockFree_false hlf
      have htj := List.mem_of_getElem? hj
      cases hej : enabled s tj with
      | true => exact Or.inr ⟨tj, htj, (by intro h; rw [h] at hlj; cases hlj), hej⟩
      | false =>
        obtain ⟨l', r', _, hlt⟩ := holder_not_enabled hinv htj hlj hej
        have := hB l'
        omega
  | succ n ih =>
    intro t l r ht hr hn
    cases he : enabled s t with
    | true => exact Or.inl rfl
    | false =>
      have hlf : lockFree s l = false := by simpa [enabled, hr] using he
      obtain ⟨j, tj, hj, hlj⟩ := lockFree_false hlf
      have htj := List.mem_of_getElem? hj
      have hne : tj.held ≠ [] := by intro h; rw [h] at hlj; cases hlj
      cases hej : enabled s tj with
      | true => exact Or.inr ⟨tj, htj, hne, hej⟩
      | false =>
        obtain ⟨l', r', hr', hlt⟩ := holder_not_enabled hinv htj hlj hej
        have := hB l'
        rcases ih tj l' r' htj hr' (by omega) with h | h
        · rw [h] at hej; cases hej
        · exact Or.inr h

/-! ### the discipline is an invariant -/

theorem disc_step {rank : Lock → Nat} {unb : Chan → Bool} (q : Chan → Nat) (t : Thread) (k : Nat)
    (hd : disc rank unb t.held t.rest = true)
    (hb : ∀ ps, t.body = some ps → ∀ p ∈ ps, disc rank unb [] p = true) :
    disc rank unb (stepThread q t k).1.held (stepThread q t k).1.rest = true ∧ (stepThread q t k).1.body = t.body := by
  unfold stepThread
  cases hr : t.rest with
  | nil =>
    rw [hr] at hd
    simp only [disc, List.isEmpty_iff] at hd
    cases hbody : t.body with
    | none => simp [hr, hd, disc, hbody]
    | some ps =>
      refine ⟨?_, by simp⟩
      simp only [hd]
      cases hk : ps[k]? with
      | none => simp [disc]
      | some p => simpa using hb ps hbody p (List.mem_of_getElem? hk)
  | cons e r =>
    rw [hr] at hd
    cases e with
    | acq l => simp only [disc, Bool.and_eq_true] at hd; exact ⟨hd.2, rfl⟩
    | rel l => simp only [disc, Bool.and_eq_true] at hd; exact ⟨hd.2, rfl⟩
    | recv c => simp only [disc, Bool.and_eq_true] at hd; exact ⟨hd.2, rfl⟩
    | send c => simp only [disc, Bool.and_eq_true] at hd; exact ⟨hd.2, rfl⟩
    | act a => simp only [disc] at hd; exact ⟨hd, rfl⟩
    | respond => simp only [disc] at hd; exact ⟨hd, rfl⟩

theorem held_step_sub (q : Chan → Nat) (t : Thread) (k : Nat) (l : Lock)
    (h : l ∈ (stepThread q t k).1.held) : l ∈ t.held ∨ ∃ r, t.rest = .acq l :: r := by
  unfold stepThread at h
  cases hr : t.rest with
  | nil =>
    rw [hr] at h
    cases hb : t.body <;> simp_all
  | cons e r =>
    rw [hr] at h
    cases e with
    | acq l' =>
      simp only [List.mem_cons] at h
      rcases h with rfl | h
      · exact Or.inr ⟨r, rfl⟩
      · exact Or.inl h
    | rel l' => exact Or.inl (List.mem_of_mem_erase h)
    | recv c => exact Or.inl h
    | send c => exact Or.inl h
    | act a => exact Or.inl h
    | respond => exact Or.inl h

theorem Inv_step {rank : Lock → Nat} {unb : Chan → Bool} {s : St} (hinv : Inv rank unb s) (ik : Nat × Nat) :
    Inv rank unb (step s ik) := by
  unfold step
  cases hi : s.threads[ik.1]? with
  | none => exact hinv
  | some t =>
    simp only
    cases he : enabled s t with
    | false => simpa using hinv
    | true =>
      simp only [if_true]
      have hit : ik.1 < s.threads.length := by
        rcases List.getElem?_eq_some_iff.1 hi with ⟨h, _⟩; exact h
      have htm := List.mem_of_getElem? hi
      have hds := disc_step (rank := rank) (unb := unb) s.queued t ik.2 (hinv.disc t htm) (hinv.body t htm)
      have hget : ∀ j tj, (s.threads.set ik.1 (stepThread s.queued t ik.2).1)[j]? = some tj →
          (j = ik.1 ∧ tj = (stepThread s.queued t ik.2).1) ∨ (j ≠ ik.1 ∧ s.threads[j]? = some tj) := by
        intro j tj h
        rw [List.getElem?_set] at h
        by_cases hj : ik.1 = j
        · subst hj
          simp only [if_true, hit] at h
          exact Or.inl ⟨rfl, by simpa using h.symm⟩
        · simp only [hj, if_false] at h
          exact Or.inr ⟨fun h' => hj h'.symm, h⟩
      refine ⟨?_, ?_, ?_, hinv.cap⟩
      · intro t' ht'
        obtain ⟨j, hj⟩ := List.mem_iff_getElem?.1 ht'
        rcases hget j t' hj with ⟨_, rfl⟩ | ⟨_, h⟩
        · exact hds.1
        · exact hinv.disc t' (List.mem_of_getElem? h)
      · intro t' ht' ps hps
        obtain ⟨j, hj⟩ := List.mem_iff_getElem?.1 ht'
        rcases hget j t' hj with ⟨_, rfl⟩ | ⟨_, h⟩
        · rw [hds.2] at hps; exact hinv.body t htm ps hps
        · exact hinv.body t' (List.mem_of_getElem? h) ps hps
      · intro i j ti tj l hi' hj' hli hlj
        -- a lock newly taken by the stepping thread was free
        have hfree : ∀ r, t.rest = .acq l :: r → ∀ (j' : Nat) (tj' : Thread), s.threads[j']? = some tj' → l ∉ tj'.held := by
          intro r hr j' tj' h
          have : lockFree s l = true := by simpa [enabled, hr] using he
          exact lockFree_true this j' tj' h
        rcases hget i ti hi' with ⟨rfl, rfl⟩ | ⟨hine, hi''⟩ <;> rcases hget j tj hj' with ⟨rfl, rfl⟩ | ⟨hjne, hj''⟩
        · rfl
        · rcases held_step_sub _ _ _ _ hli with h | ⟨r, hr⟩
          · exact absurd (hinv.excl _ _ _ _ l hi hj'' h hlj) (fun h' => hjne h'.symm)
          · exact absurd hlj (hfree r hr j tj hj'')
        · rcases held_step_sub _ _ _ _ hlj with h | ⟨r, hr⟩
          · exact absurd (hinv.excl _ _ _ _ l hi'' hi hli h) hine
          · exact absurd hli (hfree r hr i ti hi'')
        · exact hinv.excl _ _ _ _ l hi'' hj'' hli hlj

theorem Inv_run {rank : Lock → Nat} {unb : Chan → Bool} (sched : List (Nat × Nat)) :
    ∀ {s : St}, Inv rank unb s → Inv rank unb (run s sched) := by
  induction sched with
  | nil => intro s h; exact h
  | cons a t ih => intro s h; exact ih (Inv_step h a)

theorem Inv_init (rank : Lock → Nat) (unb : Chan → Bool) (capOf : Chan → Nat) (reqs : List (List Ev))
    (tasks : List (List (List Ev)))
    (hreq : ∀ p ∈ reqs, disc rank unb [] p = true)
    (htask : ∀ ps ∈ tasks, ∀ p ∈ ps, disc rank unb [] p = true) :
    Inv rank unb (initSt unb capOf reqs tasks) := by
  have hmem : ∀ t ∈ (initSt unb capOf reqs tasks).threads,
      t.held = [] ∧ ((t.body = none ∧ t.rest ∈ reqs) ∨ (t.rest = [] ∧ ∃ ps ∈ tasks, t.body = some ps)) := by
    intro t ht
    simp only [initSt, List.mem_append, List.mem_map] at ht
    rcases ht with ⟨p, hp, rfl⟩ | ⟨ps, hps, rfl⟩
    · exact ⟨rfl, Or.inl ⟨rfl, hp⟩⟩
    · exact ⟨rfl, Or.inr ⟨rfl, ps, hps, rfl⟩⟩
  refine ⟨?_, ?_, ?_, ?_⟩
  · intro t ht
    obtain ⟨hh, h⟩ := hmem t ht
    rw [hh]
    rcases h with ⟨_, h⟩ | ⟨h, _⟩
    · exact hreq _ h
    · rw [h]; rfl
  · intro t ht ps hps p hp
    obtain ⟨_, h⟩ := hmem t ht
    rcases h with ⟨h, _⟩ | ⟨_, ⟨ps', hps', h⟩⟩
    · rw [h] at hps; cases hps
    · rw [h] at hps
      have : ps' = ps := by simpa using hps
      subst this
      exact htask ps' hps' p hp
  · intro i j ti tj l hi _ hli _
    have := (hmem ti (List.mem_of_getElem? hi)).1
    rw [this] at hli
    cases hli
  · intro c hc
    simp [initSt, hc]

end Chokan.Conc

namespace Chokan.Conc
open Chokan.Gen.Server

/-! ### requests never wait for messages -/

def ReqNoWait (unb : Chan → Bool) (s : St) : Prop := ∀ t ∈ s.threads, t.body = none → noWait unb t.rest = true

theorem noWait_tail {unb : Chan → Bool} {e : Ev} {r : List Ev} (h : noWait unb (e :: r) = true) : noWait unb r = true := by
  cases e <;> simp_all [noWait]

theorem ReqNoWait_step {unb : Chan → Bool} {s : St} (h : ReqNoWait unb s) (ik : Nat × Nat) : ReqNoWait unb (step s ik) := by
  unfold step
  cases hi : s.threads[ik.1]? with
  | none => exact h
  | some t =>
    simp only
    cases he : enabled s t with
    | false => simpa using h
    | true =>
      simp only [if_true]
      intro t' ht' hb
      obtain ⟨j, hj⟩ := List.mem_iff_getElem?.1 ht'
      rw [List.getElem?_set] at hj
      by_cases hji : ik.1 = j
      · subst hji
        have hlt : ik.1 < s.threads.length := (List.getElem?_eq_some_iff.1 hi).1
        simp only [if_true, hlt] at hj
        have ht'' : t' = (stepThread s.queued t ik.2).1 := by simpa using hj.symm
        subst ht''
        have htm := List.mem_of_getElem? hi
        unfold stepThread at hb ⊢
        cases hr : t.rest with
        | nil =>
          rw [hr] at hb
          cases hbody : t.body with
          | none => simpa [hr] using h t htm hbody
          | some ps => rw [hbody] at hb; simp at hb
        | cons e r =>
          rw [hr] at hb
          have hbt : t.body = none := by cases e <;> simpa using hb
          have h1 := h t htm hbt
          rw [hr] at h1
          have h2 := noWait_tail h1
          cases e <;> simpa using h2
      · simp only [hji, if_false] at hj
        exact h t' (List.mem_of_getElem? hj) hb

theorem ReqNoWait_run {unb : Chan → Bool} (sched : List (Nat × Nat)) :
    ∀ {s : St}, ReqNoWait unb s → ReqNoWait unb (run s sched) := by
  induction sched with
  | nil => intro s h; exact h
  | cons a t ih => intro s h; exact ih (ReqNoWait_step h a)

theorem ReqNoWait_init (unb : Chan → Bool) (capOf : Chan → Nat) (reqs : List (List Ev)) (tasks : List (List (List Ev)))
    (hreq : ∀ p ∈ reqs, noWait unb p = true) : ReqNoWait unb (initSt unb capOf reqs tasks) := by
  intro t ht hb
  simp only [initSt, List.mem_append, List.mem_map] at ht
  rcases ht with ⟨p, hp, rfl⟩ | ⟨ps, _, rfl⟩
  · exact hreq p hp
  · simp at hb

/-- An unfinished request whose next event is not a lock acquisition can always take it. -/
theorem request_enabled {unb : Chan → Bool} {s : St} (hcap : ∀ c, unb c = true → s.cap c = none)
    (h : ReqNoWait unb s) (t : Thread) (ht : t ∈ s.threads) (hb : t.body = none)
    (e : Ev) (r : List Ev) (hr : t.rest = e :: r) (hacq : ∀ l, e ≠ .acq l) : enabled s t = true := by
  have := h t ht hb
  rw [hr] at this
  cases e with
  | acq l => exact absurd rfl (hacq l)
  | recv c => simp [noWait] at this
  | send c =>
    simp only [noWait, Bool.and_eq_true] at this
    simp [enabled, hr, hcap c this.1]
  | rel l => simp [enabled, hr]
  | act a => simp [enabled, hr]
  | respond => simp [enabled, hr]

end Chokan.Conc
