/-
The session store under interleaving (Model/Conc, `DSt` / `dstep`): invariants of every schedule and the
fine-grained form of C15 — a confirmation whose `pop_session` runs after the conversion has answered finds the
session, and finds it once.
-/
import Chokan.Lemmas.Conc

namespace Chokan.Conc
open Chokan.Gen.Server

/-! ### what one scheduler step does to the thread table -/

theorem step_other (s : St) (ik : Nat × Nat) (j : Nat) (hj : j ≠ ik.1) :
    (step s ik).threads[j]? = s.threads[j]? := by
  unfold step
  cases hi : s.threads[ik.1]? with
  | none => rfl
  | some t =>
    simp only
    split
    · simp only
      rw [List.getElem?_set, if_neg (fun h => hj h.symm)]
    · rfl

theorem step_none (s : St) (ik : Nat × Nat) (h : s.threads[ik.1]? = none) : step s ik = s := by
  unfold step; rw [h]

theorem step_self (s : St) (ik : Nat × Nat) (t : Thread) (h : s.threads[ik.1]? = some t) :
    ∃ t', (step s ik).threads[ik.1]? = some t' ∧ t'.body = t.body ∧
      ((∃ e r, headEv s ik.1 = some e ∧ t.rest = e :: r ∧ t'.rest = r) ∨
       (headEv s ik.1 = none ∧ (t' = t ∨ (t.rest = [] ∧ t.body.isSome = true)))) := by
  have hlt : ik.1 < s.threads.length := (List.getElem?_eq_some_iff.1 h).1
  unfold step
  rw [h]
  simp only
  cases he : enabled s t with
  | false =>
    refine ⟨t, by simpa using h, rfl, Or.inr ⟨?_, Or.inl rfl⟩⟩
    simp [headEv, h, he]
  | true =>
    simp only [if_true]
    refine ⟨(stepThread s.queued t ik.2).1, ?_, ?_, ?_⟩
    · rw [List.getElem?_set]; simp [hlt]
    · unfold stepThread
      cases hr : t.rest with
      | nil => cases hb : t.body <;> simp [hb]
      | cons e r => cases e <;> rfl
    · cases hr : t.rest with
      | nil =>
        right
        refine ⟨by simp [headEv, h, he, hr], Or.inr ⟨rfl, ?_⟩⟩
        simpa [enabled, hr] using he
      | cons e r =>
        left
        refine ⟨e, r, by simp [headEv, h, he, hr], rfl, ?_⟩
        unfold stepThread
        rw [hr]
        cases e <;> rfl

/-! ### the invariant -/

/-- `conv i`: thread `i` is a conversion request (a path of a converting handler) -/
structure SInv (conv : Nat → Prop) (d : DSt) : Prop where
  len : d.locals.length = d.st.threads.length
  below : ∀ (i : Nat) (l : Local) (k : Nat), d.locals[i]? = some l → l.sid = some k → k < d.next
  sessBelow : ∀ k ∈ d.sess, k < d.next
  inj : ∀ (i j : Nat) (li lj : Local) (k : Nat), d.locals[i]? = some li → d.locals[j]? = some lj →
    li.sid = some k → lj.sid = some k → i = j
  /-- an issued id is in the store until a confirmation aimed at it has popped -/
  kept : ∀ (i : Nat) (l : Local) (k : Nat), d.locals[i]? = some l → l.sid = some k →
    k ∈ d.sess ∨ ∃ (u : Nat) (lu : Local), d.locals[u]? = some lu ∧ lu.target = some i ∧ lu.found ≠ none
  /-- a conversion that has not stored its session yet still has both `add_session` and, after it, the answer ahead -/
  ahead : ∀ (i : Nat) (t : Thread) (l : Local), conv i → d.st.threads[i]? = some t → d.locals[i]? = some l →
    t.body = none ∧ (l.sid = none → occursBefore (.act .addSession) .respond t.rest = true ∧ .respond ∈ t.rest)

theorem firstIdx_cons_ne {e a : Ev} {r : List Ev} (h : e ≠ a) :
    firstIdx a (e :: r) = (firstIdx a r).map (· + 1) := by
  unfold firstIdx
  have : (e == a) = false := by simpa using h
  simp only [List.findIdx_cons, this, List.length_cons]
  by_cases hlt : List.findIdx (fun x => x == a) r < r.length
  · simp [hlt]
  · simp [hlt]

theorem firstIdx_cons_self (a : Ev) (r : List Ev) : firstIdx a (a :: r) = some 0 := by
  unfold firstIdx
  simp [List.findIdx_cons]

theorem occursBefore_tail {a b e : Ev} {r : List Ev} (ha : e ≠ a) (hb : e ≠ b)
    (h : occursBefore a b (e :: r) = true) : occursBefore a b r = true := by
  unfold occursBefore at h ⊢
  rw [firstIdx_cons_ne ha, firstIdx_cons_ne hb] at h
  cases h1 : firstIdx a r <;> cases h2 : firstIdx b r <;> simp_all

theorem occursBefore_head_b {a b : Ev} {r : List Ev} (hab : b ≠ a) : occursBefore a b (b :: r) = false := by
  unfold occursBefore
  rw [firstIdx_cons_self, firstIdx_cons_ne hab]
  cases firstIdx a r <;> simp

theorem modify_get_self {α} (l : List α) (i : Nat) (f : α → α) (x : α) (h : l[i]? = some x) :
    (l.modify i f)[i]? = some (f x) := by
  rw [List.getElem?_modify]; simp [h]

theorem modify_get_other {α} (l : List α) (i j : Nat) (f : α → α) (h : j ≠ i) :
    (l.modify i f)[j]? = l[j]? := by
  rw [List.getElem?_modify]
  have : ¬ i = j := fun h' => h h'.symm
  simp [this]

/-- locals after `modify i f`: either the untouched entry of another thread, or `f` of thread `i`'s entry -/
theorem modify_cases {α} (l : List α) (i j : Nat) (f : α → α) (y : α) (h : (l.modify i f)[j]? = some y) :
    (j ≠ i ∧ l[j]? = some y) ∨ (j = i ∧ ∃ x, l[i]? = some x ∧ y = f x) := by
  by_cases hji : j = i
  · subst hji
    right
    rw [List.getElem?_modify] at h
    simp only [if_true] at h
    cases hx : l[j]? with
    | none => rw [hx] at h; simp at h
    | some x => rw [hx] at h; exact ⟨rfl, x, rfl, by simpa using h.symm⟩
  · left
    rw [modify_get_other l i j f hji] at h
    exact ⟨hji, h⟩

end Chokan.Conc

namespace Chokan.Conc
open Chokan.Gen.Server

theorem step_length (s : St) (ik : Nat × Nat) : (step s ik).threads.length = s.threads.length := by
  unfold step
  cases s.threads[ik.1]? with
  | none => rfl
  | some t => simp only; split <;> simp

/-- the `ahead` clause survives a step whose effect on the ids is: an id, once set, stays set; and a thread that
executes `add_session` has its id set -/
theorem ahead_step {conv : Nat → Prop} {d : DSt} (h : SInv conv d) (ik : Nat × Nat) (locals' : List Local)
    (hloc : ∀ (j : Nat) (l' : Local), locals'[j]? = some l' → ∃ l, d.locals[j]? = some l ∧ (l'.sid = none → l.sid = none))
    (hadd : headEv d.st ik.1 = some (.act .addSession) → ∀ l', locals'[ik.1]? = some l' → l'.sid ≠ none) :
    ∀ (i : Nat) (t : Thread) (l : Local), conv i → (step d.st ik).threads[i]? = some t → locals'[i]? = some l →
      t.body = none ∧ (l.sid = none → occursBefore (.act .addSession) .respond t.rest = true ∧ .respond ∈ t.rest) := by
  intro i t' l' hc ht' hl'
  obtain ⟨l, hl, hsid⟩ := hloc i l' hl'
  by_cases hi : i = ik.1
  · subst hi
    cases hold : d.st.threads[ik.1]? with
    | none => rw [step_none _ _ hold, hold] at ht'; cases ht'
    | some t =>
      obtain ⟨hb, hah⟩ := h.ahead ik.1 t l hc hold hl
      obtain ⟨t'', ht'', hbody, hcase⟩ := step_self d.st ik t hold
      rw [ht''] at ht'
      cases ht'
      refine ⟨by rw [hbody]; exact hb, ?_⟩
      intro hnone
      obtain ⟨hob, hmem⟩ := hah (hsid hnone)
      rcases hcase with ⟨e, r, hhe, hr, hr'⟩ | ⟨_, hsame | ⟨_, hbs⟩⟩
      · rw [hr'] 
        rw [hr] at hob hmem
        have hne_a : e ≠ .act .addSession := by
          intro he
          subst he
          exact hadd hhe l' hl' hnone
        have hne_b : e ≠ .respond := by
          intro he
          subst he
          rw [occursBefore_head_b (by simp)] at hob
          cases hob
        refine ⟨occursBefore_tail hne_a hne_b hob, ?_⟩
        simp only [List.mem_cons] at hmem
        rcases hmem with h' | h'
        · exact absurd h'.symm hne_b
        · exact h'
      · rw [hsame]; exact ⟨hob, hmem⟩
      · rw [hb] at hbs; cases hbs
  · rw [step_other _ _ _ hi] at ht'
    obtain ⟨hb, hah⟩ := h.ahead i t' l hc ht' hl
    exact ⟨hb, fun hnone => hah (hsid hnone)⟩

/-- a step that leaves every thread's id alone and at most sets `found` -/
theorem SInv_step_sameSid {conv : Nat → Prop} {d : DSt} (h : SInv conv d) (ik : Nat × Nat) (f : Local → Local)
    (hsid : ∀ l, (f l).sid = l.sid) (htarget : ∀ l, (f l).target = l.target) (hfound : ∀ l, l.found ≠ none → (f l).found ≠ none)
    (sess' : List Nat) (hsub : ∀ k ∈ sess', k ∈ d.sess)
    (hkept : ∀ (i : Nat) (l : Local) (k : Nat), d.locals[i]? = some l → l.sid = some k → k ∈ d.sess →
      k ∈ sess' ∨ ∃ (lu : Local), d.locals[ik.1]? = some lu ∧ lu.target = some i ∧ (f lu).found ≠ none)
    (hnotadd : headEv d.st ik.1 ≠ some (.act .addSession)) :
    SInv conv { st := step d.st ik, locals := d.locals.modify ik.1 f, sess := sess', next := d.next } := by
  have back : ∀ (j : Nat) (l' : Local), (d.locals.modify ik.1 f)[j]? = some l' →
      ∃ l, d.locals[j]? = some l ∧ l'.sid = l.sid ∧ l'.target = l.target := by
    intro j l' hl'
    rcases modify_cases _ _ _ _ _ hl' with ⟨_, h'⟩ | ⟨rfl, x, hx, rfl⟩
    · exact ⟨l', h', rfl, rfl⟩
    · exact ⟨x, hx, hsid x, htarget x⟩
  have fwd : ∀ (u : Nat) (lu : Local), d.locals[u]? = some lu →
      ∃ lu', (d.locals.modify ik.1 f)[u]? = some lu' ∧ lu'.target = lu.target ∧ (lu.found ≠ none → lu'.found ≠ none) := by
    intro u lu hu
    by_cases hui : u = ik.1
    · subst hui
      exact ⟨f lu, modify_get_self _ _ _ _ hu, htarget lu, hfound lu⟩
    · exact ⟨lu, by rw [modify_get_other _ _ _ _ hui]; exact hu, rfl, id⟩
  refine ⟨?_, ?_, ?_, ?_, ?_, ?_⟩
  · simp [step_length, h.len]
  · intro i l' k hl' hk
    obtain ⟨l, hl, hs, _⟩ := back i l' hl'
    exact h.below i l k hl (by rw [← hs]; exact hk)
  · intro k hk; exact h.sessBelow k (hsub k hk)
  · intro i j li lj k hi hj hki hkj
    obtain ⟨li0, hli0, hsi, _⟩ := back i li hi
    obtain ⟨lj0, hlj0, hsj, _⟩ := back j lj hj
    exact h.inj i j li0 lj0 k hli0 hlj0 (by rw [← hsi]; exact hki) (by rw [← hsj]; exact hkj)
  · intro i l' k hl' hk
    obtain ⟨l, hl, hs, _⟩ := back i l' hl'
    have hk0 : l.sid = some k := by rw [← hs]; exact hk
    rcases h.kept i l k hl hk0 with hin | ⟨u, lu, hu, htu, hfu⟩
    · rcases hkept i l k hl hk0 hin with h1 | ⟨lu, hlu, htu, hfu⟩
      · exact Or.inl h1
      · exact Or.inr ⟨ik.1, f lu, modify_get_self _ _ _ _ hlu, by rw [htarget]; exact htu, hfu⟩
    · obtain ⟨lu', hlu', ht', hf'⟩ := fwd u lu hu
      exact Or.inr ⟨u, lu', hlu', by rw [ht']; exact htu, hf' hfu⟩
  · exact ahead_step h ik _ (fun j l' hl' => by
      obtain ⟨l, hl, hs, _⟩ := back j l' hl'
      exact ⟨l, hl, fun hn => by rw [← hs]; exact hn⟩) (fun he => absurd he hnotadd)

end Chokan.Conc

namespace Chokan.Conc
open Chokan.Gen.Server

theorem SInv_dstep {conv : Nat → Prop} {d : DSt} (h : SInv conv d) (ik : Nat × Nat) : SInv conv (dstep d ik) := by
  unfold dstep
  cases hhe : headEv d.st ik.1 with
  | none =>
    simp only
    have := SInv_step_sameSid h ik id (fun _ => rfl) (fun _ => rfl) (fun _ hf => hf) d.sess (fun _ hk => hk)
      (fun i l k _ _ hin => Or.inl hin) (by rw [hhe]; simp)
    simpa [List.modify_id] using this
  | some e =>
    by_cases hadd : e = .act .addSession
    · subst hadd
      simp only
      -- the thread stores its session under the next fresh id
      have hthr : ∃ t, d.st.threads[ik.1]? = some t := by
        unfold headEv at hhe
        cases ht : d.st.threads[ik.1]? with
        | none => rw [ht] at hhe; cases hhe
        | some t => exact ⟨t, rfl⟩
      obtain ⟨t, ht⟩ := hthr
      have hlt : ik.1 < d.locals.length := by rw [h.len]; exact (List.getElem?_eq_some_iff.1 ht).1
      obtain ⟨l0, hl0⟩ : ∃ l0, d.locals[ik.1]? = some l0 := ⟨d.locals[ik.1], by simp [hlt]⟩
      have back : ∀ (j : Nat) (l' : Local), (d.locals.modify ik.1 fun l => { l with sid := some d.next })[j]? = some l' →
          (j ≠ ik.1 ∧ d.locals[j]? = some l') ∨ (j = ik.1 ∧ l'.sid = some d.next ∧ l'.target = l0.target ∧ l'.found = l0.found) := by
        intro j l' hl'
        rcases modify_cases _ _ _ _ _ hl' with ⟨hne, h'⟩ | ⟨rfl, x, hx, rfl⟩
        · exact Or.inl ⟨hne, h'⟩
        · rw [hl0] at hx; cases hx; exact Or.inr ⟨rfl, rfl, rfl, rfl⟩
      have fwd : ∀ (u : Nat) (lu : Local), d.locals[u]? = some lu →
          ∃ lu', (d.locals.modify ik.1 fun l => { l with sid := some d.next })[u]? = some lu' ∧ lu'.target = lu.target ∧
            lu'.found = lu.found := by
        intro u lu hu
        by_cases hui : u = ik.1
        · subst hui
          exact ⟨_, modify_get_self _ _ _ _ hu, rfl, rfl⟩
        · exact ⟨lu, by rw [modify_get_other _ _ _ _ hui]; exact hu, rfl, rfl⟩
      refine ⟨?_, ?_, ?_, ?_, ?_, ?_⟩
      · simp [step_length, h.len]
      · intro i l' k hl' hk
        rcases back i l' hl' with ⟨_, hl⟩ | ⟨_, hs, _, _⟩
        · have := h.below i l' k hl hk; show k < d.next + 1; omega
        · rw [hs] at hk; cases hk; show d.next < d.next + 1; omega
      · intro k hk
        simp only [List.mem_append, List.mem_singleton] at hk
        rcases hk with hk | rfl
        · have := h.sessBelow k hk; show k < d.next + 1; omega
        · show d.next < d.next + 1; omega
      · intro i j li lj k hi hj hki hkj
        rcases back i li hi with ⟨_, hli⟩ | ⟨rfl, hsi, _, _⟩ <;> rcases back j lj hj with ⟨_, hlj⟩ | ⟨rfl, hsj, _, _⟩
        · exact h.inj i j li lj k hli hlj hki hkj
        · rw [hsj] at hkj; cases hkj
          have := h.below i li _ hli hki; omega
        · rw [hsi] at hki; cases hki
          have := h.below j lj _ hlj hkj; omega
        · rfl
      · intro i l' k hl' hk
        rcases back i l' hl' with ⟨_, hl⟩ | ⟨_, hs, _, _⟩
        · rcases h.kept i l' k hl hk with hin | ⟨u, lu, hu, htu, hfu⟩
          · exact Or.inl (List.mem_append_left _ hin)
          · obtain ⟨lu', hlu', ht', hf'⟩ := fwd u lu hu
            exact Or.inr ⟨u, lu', hlu', by rw [ht']; exact htu, by rw [hf']; exact hfu⟩
        · rw [hs] at hk; cases hk
          exact Or.inl (by simp)
      · exact ahead_step h ik _ (fun j l' hl' => by
          rcases back j l' hl' with ⟨_, hl⟩ | ⟨rfl, hs, _, _⟩
          · exact ⟨l', hl, id⟩
          · exact ⟨l0, hl0, fun hn => by rw [hs] at hn; cases hn⟩)
          (fun _ l' hl' => by
            rcases back ik.1 l' hl' with ⟨hne, _⟩ | ⟨_, hs, _, _⟩
            · exact absurd rfl hne
            · rw [hs]; simp)
    · by_cases hpop : e = .act .popSession
      · subst hpop
        simp only
        cases hw : wanted d ik.1 with
        | none =>
          simp only
          exact SInv_step_sameSid h ik (fun l => { l with found := some false }) (fun _ => rfl) (fun _ => rfl)
            (fun _ _ => by simp) d.sess (fun _ hk => hk) (fun i l k _ _ hin => Or.inl hin) (by rw [hhe]; simp)
        | some k =>
          simp only
          refine SInv_step_sameSid h ik (fun l => { l with found := some (d.sess.contains k) }) (fun _ => rfl) (fun _ => rfl)
            (fun _ _ => by simp) (d.sess.filter (· != k)) (fun _ hk => (List.mem_filter.1 hk).1) ?_ (by rw [hhe]; simp)
          intro i l k' hl hk' hin
          by_cases hkk : k' = k
          · subst hkk
            right
            -- the popped id belongs to this confirmation's target, which is thread `i`
            unfold wanted at hw
            cases hlu : d.locals[ik.1]? with
            | none => rw [hlu] at hw; cases hw
            | some lu =>
              rw [hlu] at hw
              simp only at hw
              cases htg : lu.target with
              | none => rw [htg] at hw; cases hw
              | some c =>
                rw [htg] at hw
                simp only at hw
                cases hlc : d.locals[c]? with
                | none => rw [hlc] at hw; cases hw
                | some lc =>
                  rw [hlc] at hw
                  simp only at hw
                  have : c = i := h.inj c i lc l k' hlc hl hw hk'
                  subst this
                  exact ⟨lu, rfl, htg, by simp⟩
          · left
            exact List.mem_filter.2 ⟨hin, by simpa using hkk⟩
      · have hgoal : SInv conv { d with st := step d.st ik } := by
          have := SInv_step_sameSid h ik id (fun _ => rfl) (fun _ => rfl) (fun _ hf => hf) d.sess (fun _ hk => hk)
            (fun i l k _ _ hin => Or.inl hin) (by rw [hhe]; intro h'; cases h'; exact hadd rfl)
          simpa [List.modify_id] using this
        cases e with
        | act a => cases a <;> first | exact absurd rfl hadd | exact absurd rfl hpop | exact hgoal
        | acq l => exact hgoal
        | rel l => exact hgoal
        | recv c => exact hgoal
        | send c => exact hgoal
        | respond => exact hgoal

theorem SInv_drun {conv : Nat → Prop} (sched : List (Nat × Nat)) :
    ∀ {d : DSt}, SInv conv d → SInv conv (drun d sched) := by
  induction sched with
  | nil => intro d h; exact h
  | cons a t ih => intro d h; exact ih (SInv_dstep h a)

/-- **A confirmation that pops after the answer finds the session.**  In a state that satisfies the invariant, let
`u` be a confirmation about to execute `pop_session`, aimed at the conversion thread `c`; if `c` has sent its answer
and no confirmation aimed at `c` has popped before, the pop finds the session (and removes it). -/
theorem pop_finds {conv : Nat → Prop} {d : DSt} (h : SInv conv d) (c u k : Nat) (lu : Local)
    (hc : conv c) (hans : answered d.st c = true)
    (hu : d.locals[u]? = some lu) (htu : lu.target = some c)
    (hhead : headEv d.st u = some (.act .popSession))
    (hfirst : ∀ (u' : Nat) (lu' : Local), d.locals[u']? = some lu' → lu'.target = some c → lu'.found = none) :
    ∃ lu' sid, (dstep d (u, k)).locals[u]? = some lu' ∧ lu'.found = some true ∧
      d.locals[c]?.bind (·.sid) = some sid ∧ sid ∈ d.sess ∧ sid ∉ (dstep d (u, k)).sess := by
  unfold answered at hans
  cases htc : d.st.threads[c]? with
  | none => rw [htc] at hans; cases hans
  | some tc =>
    rw [htc] at hans
    have hltc : c < d.locals.length := by rw [h.len]; exact (List.getElem?_eq_some_iff.1 htc).1
    obtain ⟨lc, hlc⟩ : ∃ lc, d.locals[c]? = some lc := ⟨d.locals[c], by simp [hltc]⟩
    obtain ⟨_, hah⟩ := h.ahead c tc lc hc htc hlc
    cases hs : lc.sid with
    | none =>
      have := (hah hs).2
      simp only [Bool.not_eq_true', List.contains_eq_mem, decide_eq_false_iff_not] at hans
      exact absurd this hans
    | some sid =>
      have hw : wanted d u = some sid := by simp [wanted, hu, htu, hlc, hs]
      have hin : sid ∈ d.sess := by
        rcases h.kept c lc sid hlc hs with hin | ⟨u', lu', hu', htu', hfu'⟩
        · exact hin
        · exact absurd (hfirst u' lu' hu' htu') hfu'
      refine ⟨{ lu with found := some (d.sess.contains sid) }, sid, ?_, ?_, by simp [hlc, hs], hin, ?_⟩
      · unfold dstep
        simp only [hhead, hw]
        exact modify_get_self _ _ _ _ hu
      · simp [hin]
      · unfold dstep
        simp only [hhead, hw]
        simp [List.mem_filter]

end Chokan.Conc

namespace Chokan.Conc
open Chokan.Gen.Server

/-- the threads that run a path of a converting handler -/
def IsConv (paths : List (List Ev)) (reqs : List (List Ev × Option Nat)) (i : Nat) : Prop :=
  ∃ r, reqs[i]? = some r ∧ r.1 ∈ paths

theorem SInv_dinit (unb : Chan → Bool) (capOf : Chan → Nat) (reqs : List (List Ev × Option Nat))
    (tasks : List (List (List Ev))) (paths : List (List Ev))
    (hpaths : ∀ p ∈ paths, occursBefore (.act .addSession) .respond p = true ∧ .respond ∈ p) :
    SInv (IsConv paths reqs) (dinit unb capOf reqs tasks) := by
  have hsid : ∀ (i : Nat) (l : Local), (dinit unb capOf reqs tasks).locals[i]? = some l → l.sid = none := by
    intro i l hl
    have := List.mem_of_getElem? hl
    simp only [dinit, List.mem_append, List.mem_map] at this
    rcases this with ⟨_, _, rfl⟩ | ⟨_, _, rfl⟩ <;> rfl
  refine ⟨?_, ?_, ?_, ?_, ?_, ?_⟩
  · simp [dinit, initSt]
  · intro i l k hl hk; rw [hsid i l hl] at hk; cases hk
  · intro k hk; simp [dinit] at hk
  · intro i j li lj k hi _ hki _; rw [hsid i li hi] at hki; cases hki
  · intro i l k hl hk; rw [hsid i l hl] at hk; cases hk
  · intro i t l ⟨r, hr, hrp⟩ ht _
    have hlt : i < reqs.length := (List.getElem?_eq_some_iff.1 hr).1
    have : t = ⟨r.1, [], none⟩ := by
      simp only [dinit, initSt] at ht
      rw [List.getElem?_append_left (by simpa using hlt)] at ht
      simp only [List.map_map, List.getElem?_map, hr, Option.map_some] at ht
      simpa using ht.symm
    subst this
    exact ⟨rfl, fun _ => hpaths r.1 hrp⟩

end Chokan.Conc
