/-
The learned-count table as a key → count map (C06): `countOf` reads the count filed under (context, written form);
`update_word` and `expire_frequencies` of Chokan.Model.Server described entry by entry.
-/
import Chokan.Model.Server
import Chokan.Lemmas.Kkc

namespace Chokan.Server
open Chokan.Kkc Chokan.Dic

/-- the count the search engine reads for (context, written form): `ConversionFrequency::get_frequency_of_word` -/
def countOf (f : List FreqEntry) (ctx : Ctx) (w : Str) : Nat := freqOf (toKkcFreq f) ctx w

/-- "entry `e` is filed under the key (ctx, w)" -/
def isKey (ctx : Ctx) (w : Str) (e : FreqEntry) : Bool := decide (e.ctx = ctx) && Kkc.beqStr e.word w

theorem isKey_iff (ctx : Ctx) (w : Str) (e : FreqEntry) : isKey ctx w e = true ↔ e.ctx = ctx ∧ e.word = w := by
  simp [isKey, Chokan.Kkc.beqStr_iff]

theorem countOf_nil (ctx : Ctx) (w : Str) : countOf [] ctx w = 0 := by simp [countOf, toKkcFreq, freqOf]

theorem countOf_cons (e : FreqEntry) (t : List FreqEntry) (ctx : Ctx) (w : Str) :
    countOf (e :: t) ctx w = if isKey ctx w e then e.count else countOf t ctx w := by
  simp [countOf, toKkcFreq, freqOf, isKey]

/-- the step `update_word` applies to an entry -/
def bump (ctx : Ctx) (w : Str) (now : Int) (e : FreqEntry) : FreqEntry :=
  if e.ctx = ctx ∧ Kkc.beqStr e.word w then { e with count := e.count + 1, last := now } else e

theorem updateWord_eq (f : List FreqEntry) (ctx : Ctx) (w : Str) (now : Int) :
    updateWord f ctx w now = if f.any (isKey ctx w) then f.map (bump ctx w now) else f ++ [⟨ctx, w, 1, now⟩] := by
  unfold updateWord bump isKey
  simp

theorem bump_key (ctx : Ctx) (w : Str) (now : Int) (e : FreqEntry) (c' : Ctx) (w' : Str) :
    isKey c' w' (bump ctx w now e) = isKey c' w' e := by
  unfold bump; split <;> simp [isKey]

theorem bump_hit (ctx : Ctx) (w : Str) (now : Int) (e : FreqEntry) (h : isKey ctx w e = true) :
    (bump ctx w now e).count = e.count + 1 ∧ (bump ctx w now e).last = now := by
  have := (isKey_iff ctx w e).1 h
  simp [bump, this.1, this.2, (Chokan.Kkc.beqStr_iff w w).2 rfl]

theorem bump_miss (ctx : Ctx) (w : Str) (now : Int) (e : FreqEntry) (h : isKey ctx w e = false) :
    bump ctx w now e = e := by
  unfold bump
  split
  · rename_i hh
    have : isKey ctx w e = true := by simp [isKey, hh.1, hh.2]
    simp [this] at h
  · rfl

theorem countOf_map_hit (ctx : Ctx) (w : Str) (now : Int) : ∀ (f : List FreqEntry), f.any (isKey ctx w) = true →
    countOf (f.map (bump ctx w now)) ctx w = countOf f ctx w + 1
  | [], h => by simp at h
  | e :: t, h => by
    rw [List.map_cons, countOf_cons, countOf_cons, bump_key]
    cases hk : isKey ctx w e with
    | true => simp [(bump_hit ctx w now e hk).1]
    | false =>
      simp only [Bool.false_eq_true, if_false]
      apply countOf_map_hit ctx w now t
      simpa [hk] using h

theorem countOf_map_other (ctx : Ctx) (w : Str) (now : Int) (c' : Ctx) (w' : Str) (hne : ¬ (c' = ctx ∧ w' = w)) :
    ∀ (f : List FreqEntry), countOf (f.map (bump ctx w now)) c' w' = countOf f c' w'
  | [] => rfl
  | e :: t => by
    rw [List.map_cons, countOf_cons, countOf_cons, bump_key, countOf_map_other ctx w now c' w' hne t]
    cases hk : isKey c' w' e with
    | false => rfl
    | true =>
      have h1 := (isKey_iff c' w' e).1 hk
      have : isKey ctx w e = false := by
        cases h2 : isKey ctx w e with
        | false => rfl
        | true =>
          have h3 := (isKey_iff ctx w e).1 h2
          exact absurd ⟨h1.1.symm.trans h3.1, h1.2.symm.trans h3.2⟩ hne
      simp [bump_miss ctx w now e this]

theorem countOf_append (x : FreqEntry) (ctx : Ctx) (w : Str) : ∀ (f : List FreqEntry),
    countOf (f ++ [x]) ctx w = if f.any (isKey ctx w) then countOf f ctx w else if isKey ctx w x then x.count else 0
  | [] => by simp [countOf_cons, countOf_nil]
  | e :: t => by
    rw [List.cons_append, countOf_cons, countOf_cons, countOf_append x ctx w t]
    cases hk : isKey ctx w e <;> simp [hk]

theorem countOf_miss (ctx : Ctx) (w : Str) : ∀ (f : List FreqEntry), f.any (isKey ctx w) = false → countOf f ctx w = 0
  | [], _ => countOf_nil ctx w
  | e :: t, h => by
    have h' : isKey ctx w e = false ∧ t.any (isKey ctx w) = false := by simpa using h
    rw [countOf_cons, h'.1]
    simpa using countOf_miss ctx w t h'.2


/-- not due for expiry at `now` (frequency.rs drops entries with `now - last > expiration`) -/
def fresh (now : Int) (ex : Nat) (e : FreqEntry) : Bool := !decide (now - e.last > (ex : Int))

theorem expire_eq (f : List FreqEntry) (now : Int) (ex : Nat) : expire f now ex = f.filter (fresh now ex) := rfl

theorem countOf_expire_fresh (now : Int) (ex : Nat) (ctx : Ctx) (w : Str) : ∀ (f : List FreqEntry),
    (∀ e ∈ f, isKey ctx w e = true → fresh now ex e = true) → countOf (expire f now ex) ctx w = countOf f ctx w
  | [], _ => rfl
  | e :: t, h => by
    have ih := countOf_expire_fresh now ex ctx w t (fun x hx => h x (List.mem_cons_of_mem _ hx))
    rw [expire_eq] at ih ⊢
    rw [countOf_cons]
    cases hk : isKey ctx w e with
    | true =>
      have := h e (List.mem_cons_self ..) hk
      simp [this, countOf_cons, hk]
    | false =>
      cases hf : fresh now ex e with
      | true => simp [hf, countOf_cons, hk, ih]
      | false => simp [hf, ih]

theorem countOf_expire_stale (now : Int) (ex : Nat) (ctx : Ctx) (w : Str) : ∀ (f : List FreqEntry),
    (∀ e ∈ f, isKey ctx w e = true → fresh now ex e = false) → countOf (expire f now ex) ctx w = 0
  | [], _ => countOf_nil ctx w
  | e :: t, h => by
    have ih := countOf_expire_stale now ex ctx w t (fun x hx => h x (List.mem_cons_of_mem _ hx))
    rw [expire_eq] at ih ⊢
    cases hf : fresh now ex e with
    | false => simp [hf, ih]
    | true =>
      have hk : isKey ctx w e = false := by
        cases hk : isKey ctx w e with
        | false => rfl
        | true => have := h e (List.mem_cons_self ..) hk; simp [hf] at this
      simp [hf, countOf_cons, hk, ih]

theorem mem_updateWord (f : List FreqEntry) (ctx : Ctx) (w : Str) (now : Int) (e : FreqEntry)
    (h : e ∈ updateWord f ctx w now) :
    (isKey ctx w e = true → e.last = now) ∧ (isKey ctx w e = false → e ∈ f) := by
  rw [updateWord_eq] at h
  by_cases hn : f.any (isKey ctx w) = true
  · rw [if_pos hn] at h
    obtain ⟨x, hx, rfl⟩ := List.mem_map.1 h
    constructor
    · intro hk
      rw [bump_key] at hk
      exact (bump_hit ctx w now x hk).2
    · intro hk
      rw [bump_key] at hk
      rw [bump_miss ctx w now x hk]; exact hx
  · rw [if_neg hn] at h
    rcases List.mem_append.1 h with h | h
    · exact ⟨fun hk => by
        have : f.any (isKey ctx w) = true := List.any_eq_true.2 ⟨e, h, hk⟩
        exact absurd this hn, fun _ => h⟩
    · have : e = ⟨ctx, w, 1, now⟩ := by simpa using h
      subst this
      exact ⟨fun _ => rfl, fun hk => by
        have : isKey ctx w (⟨ctx, w, 1, now⟩ : FreqEntry) = true := (isKey_iff _ _ _).2 ⟨rfl, rfl⟩
        simp [this] at hk⟩

end Chokan.Server
