/-
Helper lemmas and specification data for C12 (conjugation) — gojūon rows, grades, core forms.
-/
import Chokan.Model.Dic
import Chokan.Gen.Dic

namespace Chokan.Dic

/-! ### specification data (authored here; read as part of property C12) -/

/-- Gojūon rows keyed by the katakana row letter: the five grades a/i/u/e/o, each with its
accepted spellings (historical and modern for the ヤ and ワ rows). -/
def gradeTable : List (Nat × List (List Nat)) := [
  (0x30A2, [[0x3042], [0x3044], [0x3046], [0x3048], [0x304A]]),               -- ア: あいうえお
  (0x30AB, [[0x304B], [0x304D], [0x304F], [0x3051], [0x3053]]),               -- カ
  (0x30AC, [[0x304C], [0x304E], [0x3050], [0x3052], [0x3054]]),               -- ガ
  (0x30B5, [[0x3055], [0x3057], [0x3059], [0x305B], [0x305D]]),               -- サ
  (0x30B6, [[0x3056], [0x3058], [0x305A], [0x305C], [0x305E]]),               -- ザ
  (0x30BF, [[0x305F], [0x3061], [0x3064], [0x3066], [0x3068]]),               -- タ
  (0x30C0, [[0x3060], [0x3062], [0x3065], [0x3067], [0x3069]]),               -- ダ
  (0x30CA, [[0x306A], [0x306B], [0x306C], [0x306D], [0x306E]]),               -- ナ
  (0x30CF, [[0x306F], [0x3072], [0x3075], [0x3078], [0x307B]]),               -- ハ
  (0x30D0, [[0x3070], [0x3073], [0x3076], [0x3079], [0x307C]]),               -- バ
  (0x30DE, [[0x307E], [0x307F], [0x3080], [0x3081], [0x3082]]),               -- マ
  (0x30E4, [[0x3084], [0x3044], [0x3086], [0x3048], [0x3088]]),               -- ヤ: や い ゆ え よ
  (0x30E9, [[0x3089], [0x308A], [0x308B], [0x308C], [0x308D]]),               -- ラ
  (0x30EF, [[0x308F], [0x3044, 0x3090], [0x3046], [0x3048, 0x3091], [0x304A, 0x3092]])  -- ワ: わ い/ゐ う え/ゑ お/を
]

/-- Euphonic (音便) okurigana heads: っ ん い. -/
def euphonic : List Nat := [0x3063, 0x3093, 0x3044]

def memNat (c : Nat) : List Nat → Bool
  | [] => false
  | x :: t => Nat.beq c x || memNat c t

def grades (row : Str) : Option (List (List Nat)) :=
  match row with
  | [r] => (gradeTable.find? fun p => Nat.beq p.1 r).map (·.2)
  | _ => none

/-- All kana of a row. -/
def rowKana (row : Str) : List Nat := ((grades row).getD []).flatten

/-- Every branch of an arm (the okurigana lists it can select). -/
def Arm.branches : Arm → List (List Str)
  | .fixed o => [o]
  | .byteLen1 a b => [a, b]
  | .lastCharIs _ a b => [a, b]
  | .kahen o => [o]
  | .unknown => []

def hasOkuri (o : List Str) (s : Str) : Bool := o.any (beqStr s)

/-- `o` contains a one-kana okurigana of grade `g` (0=a … 4=o) of the row. -/
def hasGrade (row : Str) (o : List Str) (g : Nat) : Bool :=
  match grades row with
  | some gs => (gs.getD g []).any fun k => hasOkuri o [k]
  | none => false

/-- Core forms per conjugation class (C12): what one okurigana list must contain. -/
def coreOk (cls : VerbClass) (row : Str) (o : List Str) : Bool :=
  match cls with
  | .godan => [0, 1, 2, 3, 4].all (hasGrade row o)
  | .yodan => [0, 1, 2, 3].all (hasGrade row o)
  | .kamiIchidan => hasGrade row o 1 || hasOkuri o []   -- one-kana stems carry the grade kana in the stem
  | .simoIchidan => hasGrade row o 3 || hasOkuri o []
  | .kamiNidan => hasGrade row o 1 && hasGrade row o 2
  | .simoNidan => hasGrade row o 3 && hasGrade row o 2
  | .hen =>
    match row with
    | [0x30AB] => [[0x3053], [0x304D], [0x304F, 0x308B], [0x304F, 0x308C], [0x3053, 0x3044]].all (hasOkuri o) -- こ き くる くれ こい
    | _ => [0, 1, 2, 3].all (hasGrade row o)

def headInRow (row : Str) (ok : Str) : Bool :=
  match ok with
  | [] => true
  | c :: _ => memNat c (rowKana row) || memNat c euphonic

def rowCheck (t : ConjTable) : Bool :=
  t.all fun ((_, row), arm) => arm.branches.all fun o => o.all (headInRow row)

/-- The euphonic (音便) heads a verb of this class and row has: イ音便 for カ/ガ行五段, 促音便 for タ/ラ/ワ行五段, 撥音便 for
ナ/バ/マ行五段; no other class or row has any. -/
def euphonicOf (cls : VerbClass) (row : Str) : List Nat :=
  match cls, row with
  | .godan, [0x30AB] => [0x3044]           -- カ: い
  | .godan, [0x30AC] => [0x3044]           -- ガ: い
  | .godan, [0x30BF] => [0x3063]           -- タ: っ
  | .godan, [0x30E9] => [0x3063]           -- ラ: っ
  | .godan, [0x30EF] => [0x3063]           -- ワ: っ
  | .godan, [0x30CA] => [0x3093]           -- ナ: ん
  | .godan, [0x30D0] => [0x3093]           -- バ: ん
  | .godan, [0x30DE] => [0x3093]           -- マ: ん
  | _, _ => []

def headIn (row : Str) (extra : List Nat) (ok : Str) : Bool :=
  match ok with
  | [] => true
  | c :: _ => memNat c (rowKana row) || memNat c extra

/-- every okurigana head is in the verb's own row or is one of **its own** euphonic variants; the only arm that looks at
the stem is カ行五段, which after a stem reading in い takes っ instead of い (行く) -/
def rowCheckStrict (t : ConjTable) : Bool :=
  t.all fun ((cls, row), arm) =>
    match arm with
    | .lastCharIs c a b =>
      cls == .godan && row == [0x30AB] && c == 0x3044 &&
      a.all (headIn row [0x3063]) && b.all (headIn row (euphonicOf cls row))
    | arm => arm.branches.all fun o => o.all (headIn row (euphonicOf cls row))

def coreCheck (t : ConjTable) : Bool :=
  t.all fun ((cls, row), arm) => !arm.branches.isEmpty && arm.branches.all (coreOk cls row)

/-- An arm whose evaluation cannot panic for any stem / reading. -/
def Arm.total : Arm → Bool
  | .fixed _ => true
  | .byteLen1 _ _ => true
  | .lastCharIs _ _ _ => true
  | _ => false

/-- The branches an arm can select for a reading that is not exactly one byte long (every kana
reading: kana are 3 bytes in UTF-8). -/
def Arm.multiByteBranches : Arm → List (List Str)
  | .byteLen1 _ b => [b]
  | a => a.branches

def guessCheck (ct : ConjTable) (gt : GuessTable) : Bool :=
  gt.all fun (ch, cls, row) =>
    match lookupArm cls row ct with
    | some arm => arm.total && arm.multiByteBranches.all fun o => hasOkuri o [ch]
    | none => false

/-! ### lemmas -/

theorem beqStr_iff : ∀ (a b : Str), beqStr a b = true ↔ a = b
  | [], [] => by simp [beqStr]
  | [], _ :: _ => by simp [beqStr]
  | _ :: _, [] => by simp [beqStr]
  | x :: xs, y :: ys => by simp [beqStr, beqStr_iff xs ys]

theorem lookupArm_mem : ∀ (ct : ConjTable) cls row arm, lookupArm cls row ct = some arm →
    ((cls, row), arm) ∈ ct
  | [], _, _, _, h => by simp [lookupArm] at h
  | ((c, r), a) :: t, cls, row, arm, h => by
    unfold lookupArm at h
    split at h
    · next hc =>
      obtain ⟨h1, h2⟩ := hc
      simp only [Option.some.injEq] at h
      subst h h1
      rw [(beqStr_iff _ _).1 h2]
      exact List.mem_cons_self
    · exact List.mem_cons_of_mem _ (lookupArm_mem t cls row arm h)

theorem utf8Len_pos (c : Nat) : 0 < utf8Len c := by
  unfold utf8Len; split <;> (try split) <;> (try split) <;> omega

theorem utf8LenStr_append : ∀ a b : Str, utf8LenStr (a ++ b) = utf8LenStr a + utf8LenStr b
  | [], b => by simp [utf8LenStr]
  | c :: a, b => by simp [utf8LenStr, utf8LenStr_append a b]; omega

theorem utf8LenStr_pos : ∀ a : Str, a ≠ [] → 0 < utf8LenStr a
  | [], h => absurd rfl h
  | c :: t, _ => by have := utf8Len_pos c; simp [utf8LenStr]; omega

/-- Slicing a string at the byte length of one of its prefixes returns that prefix. -/
theorem sliceBytes_prefix : ∀ a b : Str, sliceBytes (a ++ b) (utf8LenStr a) = some a
  | [], b => by cases b <;> simp [utf8LenStr, sliceBytes]
  | c :: a, b => by
    have hp := utf8Len_pos c
    have h : utf8LenStr (c :: a) = (utf8Len c + utf8LenStr a - 1) + 1 := by simp [utf8LenStr]; omega
    rw [h, List.cons_append, sliceBytes]
    have h2 : utf8Len c ≤ utf8Len c + utf8LenStr a - 1 + 1 := by omega
    have h3 : utf8Len c + utf8LenStr a - 1 + 1 - utf8Len c = utf8LenStr a := by omega
    simp [h2, h3, sliceBytes_prefix a b]

/-- `guess` always returns a prefix of the word, cutting 0, 1 or 3 characters. -/
theorem guess_stem (gt : GuessTable) (w : Str) :
    ∃ k, k ≤ w.length ∧ (guess gt w).2 = w.take (w.length - k) := by
  unfold guess
  simp only
  split
  · next r hr =>
    split at hr
    · next hc =>
      split at hr
      · next ch hch =>
        cases hg : guessForm ch gt with
        | none => simp [hg] at hr
        | some p =>
          simp [hg] at hr
          refine ⟨3, ?_, ?_⟩
          · simp at hc; omega
          · rw [← hr]
      · cases hr
    · cases hr
  · split
    · exact ⟨1, by
        next h => simp [endsWith] at h; omega, rfl⟩
    · split
      · exact ⟨1, by
          next h => simp [endsWith] at h; omega, rfl⟩
      · exact ⟨0, Nat.zero_le _, by simp⟩

end Chokan.Dic
