/-
Lemmas for C10: a three-valued ("symbolic") run of the PEG on a known prefix of the input —
`some (some r)`: matches whatever follows; `some none`: fails whatever follows; `none`: depends
on what follows — with soundness lemmas that lift a kernel-evaluated check on the 116 printed
speech names to all continuations of the input.
-/
import Chokan.Model.DicText
import Chokan.Lemmas.Dic

namespace Chokan.DicText
open Chokan.Dic Chokan.Gen.DicGrammar

/-! ### literals -/

def stripPrefixSym : Str → Str → Option (Option Nat)
  | [], _ => some (some 0)
  | _ :: _, [] => none
  | a :: as, b :: bs => if Nat.beq a b then (stripPrefixSym as bs).map (·.map (· + 1)) else some none

theorem stripPrefixSym_some : ∀ (lit t : Str) (n : Nat), stripPrefixSym lit t = some (some n) →
    ∀ rest, stripPrefix lit (t ++ rest) = some ((t ++ rest).drop n) ∧ n ≤ t.length
  | [], t, n, h, rest => by
    simp [stripPrefixSym] at h; subst h; simp [stripPrefix]
  | _ :: _, [], _, h, _ => by simp [stripPrefixSym] at h
  | a :: as, b :: bs, n, h, rest => by
    unfold stripPrefixSym at h
    split at h
    · next hab =>
      cases hr : stripPrefixSym as bs with
      | none => simp [hr] at h
      | some r =>
        cases r with
        | none => simp [hr] at h
        | some m =>
          simp [hr] at h; subst h
          have := stripPrefixSym_some as bs m hr rest
          simp [stripPrefix, hab, this.1]; exact this.2
    · cases h

theorem stripPrefixSym_none : ∀ (lit t : Str), stripPrefixSym lit t = some none →
    ∀ rest, stripPrefix lit (t ++ rest) = none
  | [], _, h, _ => by simp [stripPrefixSym] at h
  | _ :: _, [], h, _ => by simp [stripPrefixSym] at h
  | a :: as, b :: bs, h, rest => by
    unfold stripPrefixSym at h
    split at h
    · next hab =>
      cases hr : stripPrefixSym as bs with
      | none => simp [hr] at h
      | some r =>
        cases r with
        | none =>
          simp [stripPrefix, hab, stripPrefixSym_none as bs hr rest]
        | some m => simp [hr] at h
    · next hab => simp [stripPrefix, hab]

/-! ### ordered choice of literals -/

def parseLitsSym {α : Type} : List (Str × α) → Str → Option (Option (α × Nat))
  | [], _ => some none
  | (lit, v) :: t, s =>
    match stripPrefixSym lit s with
    | some (some n) => some (some (v, n))
    | some none => parseLitsSym t s
    | none => none

theorem parseLitsSym_some {α : Type} : ∀ (l : List (Str × α)) (t : Str) (v : α) (n : Nat),
    parseLitsSym l t = some (some (v, n)) →
    ∀ rest, parseLits l (t ++ rest) = some (v, (t ++ rest).drop n) ∧ n ≤ t.length
  | [], _, _, _, h, _ => by simp [parseLitsSym] at h
  | (lit, v') :: tl, t, v, n, h, rest => by
    unfold parseLitsSym at h
    split at h
    · next m hm =>
      simp at h; obtain ⟨rfl, rfl⟩ := h
      have := stripPrefixSym_some lit t m hm rest
      simp [parseLits, this.1]; exact this.2
    · next hm =>
      simp [parseLits, stripPrefixSym_none lit t hm rest]
      exact parseLitsSym_some tl t v n h rest
    · cases h

theorem parseLitsSym_none {α : Type} : ∀ (l : List (Str × α)) (t : Str),
    parseLitsSym l t = some none → ∀ rest, parseLits l (t ++ rest) = none
  | [], _, _, _ => by simp [parseLits]
  | (lit, v') :: tl, t, h, rest => by
    unfold parseLitsSym at h
    split at h
    · cases h
    · next hm =>
      simp [parseLits, stripPrefixSym_none lit t hm rest]
      exact parseLitsSym_none tl t h rest
    · cases h

/-! ### alternatives -/

def parseAltSym (kata : List Nat) : Alt → Str → Option (Option (Speech × Nat))
  | .lits l, s => parseLitsSym l s
  | .verb sufs, s =>
    match s with
    | k :: rest =>
      if memNat k kata then
        (parseLitsSym sufs rest).map (·.map fun (cls, n) => (Speech.verb cls [k], n + 1))
      else some none
    | [] => none

theorem parseAltSym_some (kata : List Nat) (a : Alt) (t : Str) (sp : Speech) (n : Nat)
    (h : parseAltSym kata a t = some (some (sp, n))) :
    ∀ rest, parseAlt kata a (t ++ rest) = some (sp, (t ++ rest).drop n) ∧ n ≤ t.length := by
  intro rest
  cases a with
  | lits l => exact parseLitsSym_some l t sp n h rest
  | verb sufs =>
    cases t with
    | nil => simp [parseAltSym] at h
    | cons k r =>
      simp only [parseAltSym] at h
      split at h
      · next hk =>
        cases hr : parseLitsSym sufs r with
        | none => simp [hr] at h
        | some o =>
          cases o with
          | none => simp [hr] at h
          | some p =>
            obtain ⟨cls, m⟩ := p
            simp [hr] at h; obtain ⟨rfl, rfl⟩ := h
            have := parseLitsSym_some sufs r cls m hr rest
            simp [parseAlt, hk, this.1]; exact this.2
      · cases h

theorem parseAltSym_none (kata : List Nat) (a : Alt) (t : Str)
    (h : parseAltSym kata a t = some none) : ∀ rest, parseAlt kata a (t ++ rest) = none := by
  intro rest
  cases a with
  | lits l => exact parseLitsSym_none l t h rest
  | verb sufs =>
    cases t with
    | nil => simp [parseAltSym] at h
    | cons k r =>
      simp only [parseAltSym] at h
      split at h
      · next hk =>
        cases hr : parseLitsSym sufs r with
        | none => simp [hr] at h
        | some o =>
          cases o with
          | none => simp [parseAlt, hk, parseLitsSym_none sufs r hr rest]
          | some p => simp [hr] at h
      · next hk => simp [parseAlt, hk]

def parseAltsSym (kata : List Nat) : List Alt → Str → Option (Option (Speech × Nat))
  | [], _ => some none
  | a :: t, s =>
    match parseAltSym kata a s with
    | some (some r) => some (some r)
    | some none => parseAltsSym kata t s
    | none => none

theorem parseAltsSym_some (kata : List Nat) : ∀ (alts : List Alt) (t : Str) (sp : Speech) (n : Nat),
    parseAltsSym kata alts t = some (some (sp, n)) →
    ∀ rest, parseAlts kata alts (t ++ rest) = some (sp, (t ++ rest).drop n) ∧ n ≤ t.length
  | [], _, _, _, h, _ => by simp [parseAltsSym] at h
  | a :: tl, t, sp, n, h, rest => by
    unfold parseAltsSym at h
    split at h
    · next r hr =>
      simp at h; subst h
      have := parseAltSym_some kata a t sp n hr rest
      simp [parseAlts, this.1]; exact this.2
    · next hr =>
      simp [parseAlts, parseAltSym_none kata a t hr rest]
      exact parseAltsSym_some kata tl t sp n h rest
    · cases h

/-- The check evaluated by the kernel for each printable speech: `"/" ++ name ++ "/"` is read, whatever
follows, as exactly that speech, stopping before the closing "/". -/
def speechCheck (alts : List Alt) (kata : List Nat) (name : Str) (sp : Speech) : Bool :=
  match parseAltsSym kata alts (name ++ [47]) with
  | some (some (sp', n)) => decide (sp' = sp) && Nat.beq n name.length
  | _ => false

theorem speechCheck_sound (alts : List Alt) (kata : List Nat) (name : Str) (sp : Speech)
    (h : speechCheck alts kata name sp = true) (rest : Str) :
    parseSpeech alts kata (47 :: (name ++ 47 :: rest)) = some (sp, 47 :: rest) := by
  unfold speechCheck at h
  split at h
  · next sp' n hs =>
    simp only [Bool.and_eq_true, decide_eq_true_eq] at h
    obtain ⟨rfl, hn⟩ := h
    have hn := Nat.eq_of_beq_eq_true hn
    subst hn
    have := (parseAltsSym_some kata alts (name ++ [47]) sp' name.length hs rest).1
    simp only [List.append_assoc, List.singleton_append] at this
    simp only [parseSpeech, this]
    simp
  · cases h

/-! ### character classes -/

theorem spanClass_append (p : Nat → Bool) : ∀ (xs : Str) (c : Nat) (rest : Str),
    (∀ x ∈ xs, p x = true) → p c = false → spanClass p (xs ++ c :: rest) = (xs, c :: rest)
  | [], c, rest, _, hc => by simp [spanClass, hc]
  | x :: xs, c, rest, hx, hc => by
    have := spanClass_append p xs c rest (fun y hy => hx y (List.mem_cons_of_mem _ hy)) hc
    simp [spanClass, hx x List.mem_cons_self, this]

/-! ### speech lists -/

/-- "/n₁/n₂…/nₖ" (without the closing slash). -/
def printSpeechs (names : List (Speech × Str)) (vsuf : VerbClass → Str) : List Speech → Str
  | [] => []
  | sp :: t => 47 :: (printSpeech names vsuf sp ++ printSpeechs names vsuf t)

theorem parseSpeechStar_print (alts : List Alt) (kata : List Nat) (names : List (Speech × Str))
    (vsuf : VerbClass → Str) (hend : parseAlts kata alts [] = none) :
    ∀ (sps : List Speech) (fuel : Nat),
      (∀ sp ∈ sps, speechCheck alts kata (printSpeech names vsuf sp) sp = true) →
      sps.length < fuel →
      parseSpeechStar alts kata fuel (printSpeechs names vsuf sps ++ [47]) = (sps, [47])
  | [], fuel, _, hf => by
    cases fuel with
    | zero => simp at hf
    | succ f => simp [printSpeechs, parseSpeechStar, parseSpeech, hend]
  | sp :: t, fuel, hc, hf => by
    cases fuel with
    | zero => simp at hf
    | succ f =>
      have ih := parseSpeechStar_print alts kata names vsuf hend t f
        (fun s hs => hc s (List.mem_cons_of_mem _ hs)) (by simp at hf; omega)
      have h1 := hc sp List.mem_cons_self
      -- the text after this speech starts with "/" (either the next speech or the closing slash)
      have hnext : ∃ rest, printSpeechs names vsuf t ++ [47] = 47 :: rest := by
        cases t with
        | nil => exact ⟨[], rfl⟩
        | cons s2 t2 => exact ⟨_, rfl⟩
      obtain ⟨rest, hrest⟩ := hnext
      have h2 := speechCheck_sound alts kata _ sp h1 rest
      simp only [printSpeechs, List.cons_append, List.append_assoc]
      rw [hrest] at ih ⊢
      rw [parseSpeechStar, h2]
      simp only [ih]

end Chokan.DicText
