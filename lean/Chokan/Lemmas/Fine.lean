/-
Lemmas about the fine-grained model with data (Model/Fine): a handler / loop iteration that runs with nothing in
between does exactly what the atomic step of Model/Server does.
-/
import Chokan.Model.Fine
import Chokan.Lemmas.Conc

namespace Chokan.Fine
open Chokan.Conc Chokan.Gen.Server Chokan.Server Chokan.Kkc Chokan.Dic

/-- the events of a list that can touch data (everything but lock acquisitions and releases) -/
def dataEvents (p : List Ev) : List Ev :=
  p.filter fun e => match e with
    | .acq _ => false
    | .rel _ => false
    | _ => true

theorem effect_acq (c : Cfg) (k : Lock) (l : Local) (s : State) : effect c (.acq k) l s = (l, s) := by
  unfold effect; cases l.req <;> rfl

theorem effect_rel (c : Cfg) (k : Lock) (l : Local) (s : State) : effect c (.rel k) l s = (l, s) := by
  unfold effect; cases l.req <;> rfl

theorem runAlone_data (c : Cfg) : ∀ (p : List Ev) (l : Local) (s : State),
    runAlone c p l s = runAlone c (dataEvents p) l s
  | [], _, _ => rfl
  | e :: r, l, s => by
    cases e with
    | acq k =>
      have : dataEvents (.acq k :: r) = dataEvents r := by simp [dataEvents]
      rw [this]
      show runAlone c r (effect c (.acq k) l s).1 (effect c (.acq k) l s).2 = _
      rw [effect_acq]
      exact runAlone_data c r l s
    | rel k =>
      have : dataEvents (.rel k :: r) = dataEvents r := by simp [dataEvents]
      rw [this]
      show runAlone c r (effect c (.rel k) l s).1 (effect c (.rel k) l s).2 = _
      rw [effect_rel]
      exact runAlone_data c r l s
    | recv ch =>
      have : dataEvents (.recv ch :: r) = .recv ch :: dataEvents r := by simp [dataEvents]
      rw [this]
      show runAlone c r _ _ = runAlone c (dataEvents r) _ _
      exact runAlone_data c r _ _
    | send ch =>
      have : dataEvents (.send ch :: r) = .send ch :: dataEvents r := by simp [dataEvents]
      rw [this]
      show runAlone c r _ _ = runAlone c (dataEvents r) _ _
      exact runAlone_data c r _ _
    | act a =>
      have : dataEvents (.act a :: r) = .act a :: dataEvents r := by simp [dataEvents]
      rw [this]
      show runAlone c r _ _ = runAlone c (dataEvents r) _ _
      exact runAlone_data c r _ _
    | respond =>
      have : dataEvents (.respond :: r) = .respond :: dataEvents r := by simp [dataEvents]
      rw [this]
      show runAlone c r _ _ = runAlone c (dataEvents r) _ _
      exact runAlone_data c r _ _

/-- **A conversion handler alone = the atomic `convert`.** -/
theorem alone_convert (c : Cfg) (p : List Ev) (hp : dataEvents p = [.act .compute, .act .addSession, .respond])
    (s s' : State) (ctx : Ctx) (input : Str) (sid : Nat) (cs : List Cand)
    (h : convert c s ctx input = some (s', sid, cs)) :
    (runAlone c p { req := .conv ctx input } s).2 = s' ∧
    (runAlone c p { req := .conv ctx input } s).1.cands = cs ∧
    (runAlone c p { req := .conv ctx input } s).1.stored = some ⟨sid, ctx, cs⟩ ∧
    (runAlone c p { req := .conv ctx input } s).1.answered = true := by
  rw [runAlone_data, hp]
  unfold convert at h
  cases hg : getCandidates c.tables input s.dict ctx (toKkcFreq s.freq) c.nCandidates c.fuel with
  | none => rw [hg] at h; cases h
  | some cs' =>
    rw [hg] at h
    simp only [Option.map_some, Option.some.injEq, Prod.mk.injEq] at h
    obtain ⟨rfl, rfl, rfl⟩ := h
    simp [runAlone, effect, hg]

theorem confirmId_none (c : Cfg) (s : State) (sid : Nat) (id : String) (now : Int)
    (hs : s.sessions.find? (·.sid == sid) = none) :
    confirmId c s sid id now = { s with sessions := s.sessions.filter (·.sid != sid) } := by
  simp [confirmId, confirm, popSession, hs]

theorem confirmId_some (c : Cfg) (s : State) (sid : Nat) (id : String) (now : Int) (sess : Session)
    (hs : s.sessions.find? (·.sid == sid) = some sess) :
    confirmId c s sid id now =
      match foundCand sess id with
      | none => { s with sessions := s.sessions.filter (·.sid != sid) }
      | some cand =>
        let s1 : State := { s with sessions := s.sessions.filter (·.sid != sid) }
        let s2 : State := match independentWord cand.chain with
          | some w => { s1 with freq := expire (updateWord s1.freq sess.ctx w now) now c.expiryMs }
          | none => s1
        match withAffix cand.chain with
        | some (word, reading) => { s2 with pending := s2.pending ++ [⟨word, reading, .noun .common⟩] }
        | none => s2 := by
  unfold confirmId confirm popSession foundCand
  simp only [hs, Option.bind_some]
  cases (candIndex sess.cands.length id).bind fun i => sess.cands[i]? <;> rfl

/-- **A confirmation handler alone (every conditional block entered) = the atomic `confirmId`.** -/
theorem alone_confirm (c : Cfg) (p : List Ev)
    (hp : dataEvents p = [.act .popSession, .act .updFreq, .act .updCompound, .send .entry, .respond])
    (s : State) (sid : Nat) (id : String) (now : Int) :
    (runAlone c p { req := .confirm sid id now } s).2 = confirmId c s sid id now := by
  rw [runAlone_data, hp]
  cases hs : s.sessions.find? (·.sid == sid) with
  | none => rw [confirmId_none c s sid id now hs]; simp [runAlone, effect, popSession, hs]
  | some sess =>
    rw [confirmId_some c s sid id now sess hs]
    cases hc : foundCand sess id with
    | none => simp [runAlone, effect, popSession, hs, hc]
    | some cand =>
      cases hi : independentWord cand.chain with
      | none =>
        cases ha : withAffix cand.chain with
        | none => simp [runAlone, effect, popSession, hs, hc, hi, ha]
        | some wr => simp [runAlone, effect, popSession, hs, hc, hi, ha]
      | some w =>
        cases ha : withAffix cand.chain with
        | none => simp [runAlone, effect, popSession, hs, hc, hi, ha]
        | some wr => simp [runAlone, effect, popSession, hs, hc, hi, ha]

/-- **A registration handler alone = the atomic `register`** (a refused or panicking registration changes nothing). -/
theorem register_eq (c : Cfg) (s : State) (kind : RegKind) (reading word : Str) :
    register c s kind reading word = (regEntry c kind reading word).map fun e => { s with pending := s.pending ++ [e] } := by
  unfold register regEntry
  cases kind <;> rfl

theorem alone_register (c : Cfg) (p : List Ev) (hp : dataEvents p = [.send .entry, .respond])
    (s : State) (kind : RegKind) (reading word : Str) :
    (runAlone c p { req := .register kind reading word } s).2 = (register c s kind reading word).getD s := by
  rw [runAlone_data, hp, register_eq]
  simp only [runAlone, List.foldl_cons, List.foldl_nil, effect]
  cases regEntry c kind reading word <;> rfl

/-- **One iteration of the updater alone = the atomic `applyEntry`** (when the entry conjugates: C12). -/
theorem alone_apply (c : Cfg) (p : List Ev)
    (hp : dataEvents p = [.recv .entry, .act .addEntry, .act .loopStart, .act .trieInsert, .act .mapInsert, .act .loopEnd])
    (s : State) (hok : ∀ e, s.pending.head? = some e → (mergeEntry c s.dict e).isSome = true) :
    some (runAlone c p { req := .other } s).2 = applyEntry c s := by
  rw [runAlone_data, hp]
  unfold applyEntry
  simp only [runAlone, List.foldl_cons, List.foldl_nil, effect]
  cases hpd : s.pending with
  | nil => cases s; simp_all
  | cons e rest =>
    have := hok e (by simp [hpd])
    cases hm : mergeEntry c s.dict e with
    | none => rw [hm] at this; cases this
    | some d => simp [hm]

/-- **One iteration of the saver alone = the atomic `save`.** -/
theorem alone_save (c : Cfg) (p : List Ev) (hp : dataEvents p = [.recv .tick, .act .saveFiles]) (s : State) :
    (runAlone c p { req := .other } s).2 = save c s := by
  rw [runAlone_data, hp]
  simp [runAlone, effect]

end Chokan.Fine

/-! ### every action runs under the locks that protect its data, in every schedule -/

namespace Chokan.Fine
open Chokan.Conc Chokan.Gen.Server

structure GInv (s : St) : Prop where
  guarded : ∀ t ∈ s.threads, guarded t.held t.rest = true
  body : ∀ t ∈ s.threads, ∀ ps, t.body = some ps → ∀ p ∈ ps, Fine.guarded [] p = true

theorem guarded_step (q : Chan → Nat) (t : Thread) (k : Nat)
    (hg : guarded t.held t.rest = true) (hempty : t.rest = [] → t.held = [])
    (hb : ∀ ps, t.body = some ps → ∀ p ∈ ps, guarded [] p = true) :
    guarded (stepThread q t k).1.held (stepThread q t k).1.rest = true := by
  unfold stepThread
  cases hr : t.rest with
  | nil =>
    cases hbody : t.body with
    | none => simp [hr, guarded]
    | some ps =>
      simp only
      rw [hempty hr]
      cases hk : ps[k]? with
      | none => simp [guarded]
      | some p => simpa using hb ps hbody p (List.mem_of_getElem? hk)
  | cons e r =>
    rw [hr] at hg
    cases e with
    | acq l => simpa [guarded] using hg
    | rel l => simpa [guarded] using hg
    | recv c => simpa [guarded] using hg
    | send c => simpa [guarded] using hg
    | act a => simp only [guarded, Bool.and_eq_true] at hg; exact hg.2
    | respond => simpa [guarded] using hg

theorem GInv_step {rank : Lock → Nat} {unb : Chan → Bool} {s : St} (hinv : Inv rank unb s) (hg : GInv s) (ik : Nat × Nat) :
    GInv (step s ik) := by
  unfold step
  cases hi : s.threads[ik.1]? with
  | none => exact hg
  | some t =>
    simp only
    cases he : enabled s t with
    | false => simpa using hg
    | true =>
      simp only [if_true]
      have hit : ik.1 < s.threads.length := (List.getElem?_eq_some_iff.1 hi).1
      have htm := List.mem_of_getElem? hi
      have hempty : t.rest = [] → t.held = [] := by
        intro hr
        have := hinv.disc t htm
        rw [hr] at this
        simpa [disc] using this
      have hstep := guarded_step s.queued t ik.2 (hg.guarded t htm) hempty (hg.body t htm)
      have hbody := (disc_step (rank := rank) (unb := unb) s.queued t ik.2 (hinv.disc t htm) (hinv.body t htm)).2
      have hget : ∀ (j : Nat) (tj : Thread), (s.threads.set ik.1 (stepThread s.queued t ik.2).1)[j]? = some tj →
          tj = (stepThread s.queued t ik.2).1 ∨ tj ∈ s.threads := by
        intro j tj h
        rw [List.getElem?_set] at h
        by_cases hj : ik.1 = j
        · subst hj
          simp only [if_true, hit] at h
          exact Or.inl (by simpa using h.symm)
        · simp only [hj, if_false] at h
          exact Or.inr (List.mem_of_getElem? h)
      refine ⟨?_, ?_⟩
      · intro t' ht'
        obtain ⟨j, hj⟩ := List.mem_iff_getElem?.1 ht'
        rcases hget j t' hj with rfl | h
        · exact hstep
        · exact hg.guarded t' h
      · intro t' ht' ps hps
        obtain ⟨j, hj⟩ := List.mem_iff_getElem?.1 ht'
        rcases hget j t' hj with rfl | h
        · rw [hbody] at hps; exact hg.body t htm ps hps
        · exact hg.body t' h ps hps

theorem GInv_run {rank : Lock → Nat} {unb : Chan → Bool} (sched : List (Nat × Nat)) :
    ∀ {s : St}, Inv rank unb s → GInv s → GInv (run s sched) := by
  induction sched with
  | nil => intro s _ h; exact h
  | cons a t ih => intro s hi hg; exact ih (Inv_step hi a) (GInv_step hi hg a)

theorem GInv_init (unb : Chan → Bool) (capOf : Chan → Nat) (reqs : List (List Ev)) (tasks : List (List (List Ev)))
    (hreq : ∀ p ∈ reqs, guarded [] p = true) (htask : ∀ ps ∈ tasks, ∀ p ∈ ps, guarded [] p = true) :
    GInv (initSt unb capOf reqs tasks) := by
  refine ⟨?_, ?_⟩
  · intro t ht
    simp only [initSt, List.mem_append, List.mem_map] at ht
    rcases ht with ⟨p, hp, rfl⟩ | ⟨ps, _, rfl⟩
    · exact hreq p hp
    · rfl
  · intro t ht ps hps p hp
    simp only [initSt, List.mem_append, List.mem_map] at ht
    rcases ht with ⟨p', _, rfl⟩ | ⟨ps', hps', rfl⟩
    · cases hps
    · simp only [Option.some.injEq] at hps
      subst hps
      exact htask ps' hps' p hp

/-- a thread about to execute an action holds every lock that protects the action's data -/
theorem act_holds_locks {s : St} (hg : GInv s) (t : Thread) (ht : t ∈ s.threads) (a : Act) (r : List Ev)
    (hr : t.rest = .act a :: r) : ∀ l ∈ protects a, l ∈ t.held := by
  have := hg.guarded t ht
  rw [hr] at this
  simp only [guarded, Bool.and_eq_true, List.all_eq_true] at this
  intro l hl
  simpa using this.1 l hl

/-- **Isolation.** While a thread holds a lock, no other thread executes an action on the data that lock protects. -/
theorem isolated {rank : Lock → Nat} {unb : Chan → Bool} {s : St} (hinv : Inv rank unb s) (hg : GInv s)
    (i j : Nat) (ti tj : Thread) (hi : s.threads[i]? = some ti) (hj : s.threads[j]? = some tj) (hij : i ≠ j)
    (l : Lock) (hl : l ∈ ti.held) (b : Act) (r : List Ev) (hr : tj.rest = .act b :: r) : l ∉ protects b := by
  intro hb
  have := act_holds_locks hg tj (List.mem_of_getElem? hj) b r hr l hb
  exact hij (hinv.excl i j ti tj l hi hj hl this)

end Chokan.Fine
