/-
The session store of the interleaving model with data (Model/Fine): invariants of every schedule and the data-level
form of C15 — a confirmation that pops after the conversion has answered gets exactly the answered candidates.
-/
import Chokan.Lemmas.Fine
import Chokan.Lemmas.ConcSess

namespace Chokan.Fine
open Chokan.Conc Chokan.Gen.Server Chokan.Server Chokan.Kkc Chokan.Dic

def isConfirmOf (l : Local) (k : Nat) : Prop := ∃ id now, l.req = .confirm k id now

theorem save_keeps (c : Cfg) (s : State) : (save c s).sessions = s.sessions ∧ (save c s).nextSid = s.nextSid := by
  unfold save; split <;> exact ⟨rfl, rfl⟩

/-- what `effect` leaves alone for every event other than `add_session` / `pop_session` -/
theorem effect_other (c : Cfg) (e : Ev) (l : Local) (s : State) (h1 : e ≠ .act .addSession) (h2 : e ≠ .act .popSession) :
    (effect c e l s).2.sessions = s.sessions ∧ (effect c e l s).2.nextSid = s.nextSid ∧
    (effect c e l s).1.stored = l.stored ∧ (effect c e l s).1.popped = l.popped ∧ (effect c e l s).1.req = l.req := by
  unfold effect
  split
  all_goals first
    | exact absurd rfl h1
    | exact absurd rfl h2
    | exact ⟨rfl, rfl, rfl, rfl, rfl⟩
    | exact ⟨(save_keeps c s).1, (save_keeps c s).2, rfl, rfl, rfl⟩
    | (split <;> first
        | exact ⟨rfl, rfl, rfl, rfl, rfl⟩
        | (split <;> exact ⟨rfl, rfl, rfl, rfl, rfl⟩))

theorem effect_req (c : Cfg) (e : Ev) (l : Local) (s : State) : (effect c e l s).1.req = l.req := by
  by_cases h1 : e = .act .addSession
  · subst h1; unfold effect; split <;> first | rfl | (split <;> first | rfl | (split <;> rfl))
  · by_cases h2 : e = .act .popSession
    · subst h2; unfold effect; split <;> first | rfl | (split <;> first | rfl | (split <;> rfl))
    · exact (effect_other c e l s h1 h2).2.2.2.2

theorem find_filter' : ∀ (l : List Session) (sid sid' : Nat), sid' ≠ sid → ∀ sess,
    l.find? (·.sid == sid) = some sess → (l.filter (·.sid != sid')).find? (·.sid == sid) = some sess
  | [], _, _, _, _, h => by simp at h
  | x :: xs, sid, sid', hne, sess, h => by
    simp only [List.find?_cons] at h
    by_cases hx : (x.sid == sid) = true
    · simp only [hx] at h
      have hxs : x.sid = sid := by simpa using hx
      have : (x.sid != sid') = true := by simp [hxs, Ne.symm hne]
      simp [List.filter_cons, this, hx, h]
    · have hx' : (x.sid == sid) = false := by simpa using hx
      simp only [hx'] at h
      have ih := find_filter' xs sid sid' hne sess h
      by_cases hy : (x.sid != sid') = true
      · simp [List.filter_cons, hy, hx', ih]
      · simp [List.filter_cons, hy, ih]

structure FInv (conv : Nat → Prop) (d : FSt) : Prop where
  len : d.locals.length = d.st.threads.length
  below : ∀ (i : Nat) (l : Local) (sess : Session), d.locals[i]? = some l → l.stored = some sess → sess.sid < d.data.nextSid
  sessBelow : ∀ x ∈ d.data.sessions, x.sid < d.data.nextSid
  inj : ∀ (i j : Nat) (li lj : Local) (a b : Session), d.locals[i]? = some li → d.locals[j]? = some lj →
    li.stored = some a → lj.stored = some b → a.sid = b.sid → i = j
  /-- the session a conversion stored is in the store, unchanged, until a confirmation naming its id has popped -/
  kept : ∀ (i : Nat) (l : Local) (sess : Session), d.locals[i]? = some l → l.stored = some sess →
    d.data.sessions.find? (·.sid == sess.sid) = some sess ∨
    ∃ (u : Nat) (lu : Local), d.locals[u]? = some lu ∧ isConfirmOf lu sess.sid ∧ lu.popped = true
  ahead : ∀ (i : Nat) (t : Thread) (l : Local), conv i → d.st.threads[i]? = some t → d.locals[i]? = some l →
    t.body = none ∧ (∃ ctx input, l.req = .conv ctx input) ∧
    (l.stored = none → occursBefore (.act .addSession) .respond t.rest = true ∧ .respond ∈ t.rest)

theorem set_cases {α} (l : List α) (i j : Nat) (x y : α) (h : (l.set i x)[j]? = some y) :
    (j ≠ i ∧ l[j]? = some y) ∨ (j = i ∧ y = x ∧ i < l.length) := by
  rw [List.getElem?_set] at h
  by_cases hji : i = j
  · subst hji
    right
    by_cases hlt : i < l.length
    · simp only [if_true, hlt] at h
      exact ⟨rfl, by simpa using h.symm, hlt⟩
    · simp [hlt] at h
  · left
    simp only [hji, if_false] at h
    exact ⟨fun h' => hji h'.symm, h⟩

theorem headEv_thread {s : St} {i : Nat} {e : Ev} (h : headEv s i = some e) : ∃ t, s.threads[i]? = some t := by
  unfold headEv at h
  cases ht : s.threads[i]? with
  | none => rw [ht] at h; cases h
  | some t => exact ⟨t, rfl⟩

/-- the `ahead` clause across one step -/
theorem fahead_step {conv : Nat → Prop} {d : FSt} (h : FInv conv d) (ik : Nat × Nat) (locals' : List Local)
    (hloc : ∀ (j : Nat) (l' : Local), locals'[j]? = some l' → ∃ l, d.locals[j]? = some l ∧ l'.req = l.req ∧ (l'.stored = none → l.stored = none))
    (hadd : headEv d.st ik.1 = some (.act .addSession) → ∀ l', locals'[ik.1]? = some l' →
      (∃ ctx input, l'.req = .conv ctx input) → l'.stored ≠ none) :
    ∀ (i : Nat) (t : Thread) (l : Local), conv i → (step d.st ik).threads[i]? = some t → locals'[i]? = some l →
      t.body = none ∧ (∃ ctx input, l.req = .conv ctx input) ∧
      (l.stored = none → occursBefore (.act .addSession) .respond t.rest = true ∧ .respond ∈ t.rest) := by
  intro i t' l' hc ht' hl'
  obtain ⟨l, hl, hreq, hsid⟩ := hloc i l' hl'
  by_cases hi : i = ik.1
  · subst hi
    cases hold : d.st.threads[ik.1]? with
    | none => rw [step_none _ _ hold, hold] at ht'; cases ht'
    | some t =>
      obtain ⟨hb, hcv, hah⟩ := h.ahead ik.1 t l hc hold hl
      obtain ⟨t'', ht'', hbody, hcase⟩ := step_self d.st ik t hold
      rw [ht''] at ht'
      cases ht'
      refine ⟨by rw [hbody]; exact hb, by rw [hreq]; exact hcv, ?_⟩
      intro hnone
      obtain ⟨hob, hmem⟩ := hah (hsid hnone)
      rcases hcase with ⟨e, r, hhe, hr, hr'⟩ | ⟨_, hsame | ⟨_, hbs⟩⟩
      · rw [hr']
        rw [hr] at hob hmem
        have hne_a : e ≠ .act .addSession := by
          intro he
          subst he
          exact hadd hhe l' hl' (by rw [hreq]; exact hcv) hnone
        have hne_b : e ≠ .respond := by
          intro he
          subst he
          rw [occursBefore_head_b (by simp)] at hob
          cases hob
        refine ⟨occursBefore_tail hne_a hne_b hob, ?_⟩
        simp only [List.mem_cons] at hmem
        rcases hmem with h' | h'
        · exact absurd h'.symm hne_b
        · exact h'
      · rw [hsame]; exact ⟨hob, hmem⟩
      · rw [hb] at hbs; cases hbs
  · rw [step_other _ _ _ hi] at ht'
    obtain ⟨hb, hcv, hah⟩ := h.ahead i t' l hc ht' hl
    exact ⟨hb, by rw [hreq]; exact hcv, fun hnone => hah (hsid hnone)⟩

end Chokan.Fine

namespace Chokan.Fine
open Chokan.Conc Chokan.Gen.Server Chokan.Server Chokan.Kkc Chokan.Dic

/-- same fields that the invariant looks at -/
def SameKey (a b : Local) : Prop := a.stored = b.stored ∧ a.popped = b.popped ∧ a.req = b.req

/-- a step that changes neither the store nor anybody's `stored` / `popped` / `req` -/
theorem FInv_same {conv : Nat → Prop} {d : FSt} (h : FInv conv d) (ik : Nat × Nat) (locals' : List Local) (data' : State)
    (hlen : locals'.length = d.locals.length)
    (hback : ∀ (j : Nat) (l' : Local), locals'[j]? = some l' → ∃ l, d.locals[j]? = some l ∧ SameKey l' l)
    (hfwd : ∀ (j : Nat) (l : Local), d.locals[j]? = some l → ∃ l', locals'[j]? = some l' ∧ SameKey l' l)
    (hs : data'.sessions = d.data.sessions) (hn : data'.nextSid = d.data.nextSid)
    (hadd : headEv d.st ik.1 = some (.act .addSession) → ∀ l, d.locals[ik.1]? = some l → ¬ ∃ ctx input, l.req = .conv ctx input) :
    FInv conv { st := step d.st ik, locals := locals', data := data' } := by
  refine ⟨?_, ?_, ?_, ?_, ?_, ?_⟩
  · simp [hlen, step_length, h.len]
  · intro i l' sess hl' hst
    obtain ⟨l, hl, hk⟩ := hback i l' hl'
    show sess.sid < data'.nextSid
    rw [hn]
    exact h.below i l sess hl (by rw [← hk.1]; exact hst)
  · intro x hx
    show x.sid < data'.nextSid
    rw [hn]
    exact h.sessBelow x (by rw [← hs]; exact hx)
  · intro i j li lj a b hi hj ha hb hab
    obtain ⟨li0, hli0, hki⟩ := hback i li hi
    obtain ⟨lj0, hlj0, hkj⟩ := hback j lj hj
    exact h.inj i j li0 lj0 a b hli0 hlj0 (by rw [← hki.1]; exact ha) (by rw [← hkj.1]; exact hb) hab
  · intro i l' sess hl' hst
    obtain ⟨l, hl, hk⟩ := hback i l' hl'
    show data'.sessions.find? _ = _ ∨ _
    rw [hs]
    rcases h.kept i l sess hl (by rw [← hk.1]; exact hst) with hin | ⟨u, lu, hu, hcu, hpu⟩
    · exact Or.inl hin
    · obtain ⟨lu', hlu', hku⟩ := hfwd u lu hu
      refine Or.inr ⟨u, lu', hlu', ?_, by rw [hku.2.1]; exact hpu⟩
      obtain ⟨id, now, hr⟩ := hcu
      exact ⟨id, now, by rw [hku.2.2]; exact hr⟩
  · exact fahead_step h ik locals' (fun j l' hl' => by
      obtain ⟨l, hl, hk⟩ := hback j l' hl'
      exact ⟨l, hl, hk.2.2, fun hn' => by rw [← hk.1]; exact hn'⟩)
      (fun he l' hl' hcv hnone => by
        obtain ⟨l, hl, hk⟩ := hback ik.1 l' hl'
        exact hadd he l hl (by rw [← hk.2.2]; exact hcv))

theorem set_back (ls : List Local) (i : Nat) (l l' : Local) (hl : ls[i]? = some l) (hk : SameKey l' l) :
    (∀ (j : Nat) (x' : Local), (ls.set i l')[j]? = some x' → ∃ x, ls[j]? = some x ∧ SameKey x' x) ∧
    (∀ (j : Nat) (x : Local), ls[j]? = some x → ∃ x', (ls.set i l')[j]? = some x' ∧ SameKey x' x) := by
  have hlt : i < ls.length := (List.getElem?_eq_some_iff.1 hl).1
  constructor
  · intro j x' hx'
    rcases set_cases ls i j l' x' hx' with ⟨_, h⟩ | ⟨rfl, rfl, _⟩
    · exact ⟨x', h, rfl, rfl, rfl⟩
    · exact ⟨l, hl, hk⟩
  · intro j x hx
    by_cases hji : j = i
    · subst hji
      rw [hl] at hx
      cases hx
      exact ⟨l', by rw [List.getElem?_set]; simp [hlt], hk⟩
    · exact ⟨x, by rw [List.getElem?_set, if_neg (fun h' => hji (Eq.symm h'))]; exact hx, rfl, rfl, rfl⟩

theorem effect_addSession (c : Cfg) (l : Local) (s : State) (ctx : Ctx) (input : Str) (hreq : l.req = .conv ctx input) :
    effect c (.act .addSession) l s =
      ({ l with stored := some ⟨s.nextSid, ctx, l.cands⟩ },
       { s with sessions := s.sessions ++ [⟨s.nextSid, ctx, l.cands⟩], nextSid := s.nextSid + 1 }) := by
  unfold effect; rw [hreq]

theorem effect_popSession (c : Cfg) (l : Local) (s : State) (sid : Nat) (id : String) (now : Int)
    (hreq : l.req = .confirm sid id now) :
    effect c (.act .popSession) l s =
      ({ l with popped := true,
                cand := (popSession s.sessions sid).1.bind fun sess => (foundCand sess id).map fun cd => (sess.ctx, cd) },
       { s with sessions := (popSession s.sessions sid).2 }) := by
  unfold effect; rw [hreq]

theorem effect_addSession_noop (c : Cfg) (l : Local) (s : State) (hno : ¬ ∃ ctx input, l.req = .conv ctx input) :
    effect c (.act .addSession) l s = (l, s) := by
  unfold effect
  cases hr : l.req with
  | conv ctx input => exact absurd ⟨ctx, input, hr⟩ hno
  | confirm a b d => rfl
  | register a b d => rfl
  | other => rfl

theorem effect_popSession_noop (c : Cfg) (l : Local) (s : State) (hno : ¬ ∃ sid id now, l.req = .confirm sid id now) :
    effect c (.act .popSession) l s = (l, s) := by
  unfold effect
  cases hr : l.req with
  | conv ctx input => rfl
  | confirm a b d => exact absurd ⟨a, b, d, hr⟩ hno
  | register a b d => rfl
  | other => rfl

theorem FInv_fstep {conv : Nat → Prop} (c : Cfg) {d : FSt} (h : FInv conv d) (ik : Nat × Nat) : FInv conv (fstep c d ik) := by
  unfold fstep
  cases hhe : headEv d.st ik.1 with
  | none =>
    simp only
    exact FInv_same h ik d.locals d.data rfl (fun j l' hl' => ⟨l', hl', rfl, rfl, rfl⟩) (fun j l hl => ⟨l, hl, rfl, rfl, rfl⟩) rfl rfl
      (by rw [hhe]; intro h'; cases h')
  | some e =>
    cases hl : d.locals[ik.1]? with
    | none =>
      simp only
      exact FInv_same h ik d.locals d.data rfl (fun j l' hl' => ⟨l', hl', rfl, rfl, rfl⟩) (fun j l hl => ⟨l, hl, rfl, rfl, rfl⟩) rfl rfl
        (by intro _ l hl'; rw [hl] at hl'; cases hl')
    | some l =>
      simp only
      have hlt : ik.1 < d.locals.length := (List.getElem?_eq_some_iff.1 hl).1
      by_cases hadd : e = .act .addSession ∧ ∃ ctx input, l.req = .conv ctx input
      · -- the conversion stores its session under the next id
        obtain ⟨rfl, ctx, input, hreq⟩ := hadd
        obtain ⟨l2, s2, heff, hst2, hrq2, hpp2, hss2, hnx2⟩ : ∃ l2 s2, effect c (.act .addSession) l d.data = (l2, s2) ∧
            l2.stored = some ⟨d.data.nextSid, ctx, l.cands⟩ ∧ l2.req = l.req ∧ l2.popped = l.popped ∧
            s2.sessions = d.data.sessions ++ [⟨d.data.nextSid, ctx, l.cands⟩] ∧ s2.nextSid = d.data.nextSid + 1 := by
          exact ⟨_, _, effect_addSession c l d.data ctx input hreq, rfl, rfl, rfl, rfl, rfl⟩
        rw [heff]
        simp only
        have back : ∀ (j : Nat) (x' : Local), (d.locals.set ik.1 l2)[j]? = some x' →
            (j ≠ ik.1 ∧ d.locals[j]? = some x') ∨ (j = ik.1 ∧ x' = l2) := by
          intro j x' hx'
          rcases set_cases _ _ _ _ _ hx' with h1 | ⟨h1, h2, _⟩
          · exact Or.inl h1
          · exact Or.inr ⟨h1, h2⟩
        have fwd : ∀ (u : Nat) (lu : Local), d.locals[u]? = some lu →
            ∃ lu', (d.locals.set ik.1 l2)[u]? = some lu' ∧ lu'.req = lu.req ∧ lu'.popped = lu.popped := by
          intro u lu hu
          by_cases hui : u = ik.1
          · subst hui
            rw [hl] at hu; cases hu
            exact ⟨l2, by rw [List.getElem?_set]; simp [hlt], hrq2, hpp2⟩
          · exact ⟨lu, by rw [List.getElem?_set, if_neg (fun h' => hui (Eq.symm h'))]; exact hu, rfl, rfl⟩
        have hfresh : d.data.sessions.find? (·.sid == d.data.nextSid) = none := by
          rw [List.find?_eq_none]
          intro x hx
          have := h.sessBelow x hx
          simp; omega
        refine ⟨?_, ?_, ?_, ?_, ?_, ?_⟩
        · simp [step_length, h.len]
        · intro i x' sess hx' hst
          show sess.sid < s2.nextSid
          rw [hnx2]
          rcases back i x' hx' with ⟨_, hx⟩ | ⟨_, rfl⟩
          · have := h.below i x' sess hx hst; omega
          · rw [hst2] at hst; simp only [Option.some.injEq] at hst; subst hst; simp
        · intro x hx
          show x.sid < s2.nextSid
          rw [hnx2]
          have hx' : x ∈ s2.sessions := hx
          rw [hss2] at hx'
          simp only [List.mem_append, List.mem_singleton] at hx'
          rcases hx' with hx' | rfl
          · have := h.sessBelow x hx'; omega
          · simp
        · intro i j li lj a b hi hj ha hb hab
          rcases back i li hi with ⟨_, hli⟩ | ⟨rfl, rfl⟩ <;> rcases back j lj hj with ⟨_, hlj⟩ | ⟨rfl, rfl⟩
          · exact h.inj i j li lj a b hli hlj ha hb hab
          · rw [hst2] at hb; simp only [Option.some.injEq] at hb; subst hb
            have := h.below i li a hli ha
            simp at hab; omega
          · rw [hst2] at ha; simp only [Option.some.injEq] at ha; subst ha
            have := h.below j lj b hlj hb
            simp at hab; omega
          · rfl
        · intro i x' sess hx' hst
          show s2.sessions.find? _ = _ ∨ _
          rw [hss2]
          rcases back i x' hx' with ⟨_, hx⟩ | ⟨_, rfl⟩
          · rcases h.kept i x' sess hx hst with hin | ⟨u, lu, hu, hcu, hpu⟩
            · left; rw [List.find?_append, hin]; rfl
            · obtain ⟨lu', hlu', hr', hp'⟩ := fwd u lu hu
              refine Or.inr ⟨u, lu', hlu', ?_, by rw [hp']; exact hpu⟩
              obtain ⟨id, now, hr⟩ := hcu
              exact ⟨id, now, by rw [hr']; exact hr⟩
          · rw [hst2] at hst; simp only [Option.some.injEq] at hst; subst hst
            left
            rw [List.find?_append, hfresh]
            simp
        · exact fahead_step h ik _ (fun j x' hx' => by
            rcases back j x' hx' with ⟨_, hx⟩ | ⟨rfl, rfl⟩
            · exact ⟨x', hx, rfl, id⟩
            · exact ⟨l, hl, hrq2, fun hn => by rw [hst2] at hn; cases hn⟩)
            (fun _ x' hx' _ => by
              rcases back ik.1 x' hx' with ⟨hne, _⟩ | ⟨_, rfl⟩
              · exact absurd rfl hne
              · rw [hst2]; simp)
      · by_cases hpop : e = .act .popSession ∧ ∃ sid id now, l.req = .confirm sid id now
        · -- the confirmation takes the session with its id out of the store
          obtain ⟨rfl, sid, id, now, hreq⟩ := hpop
          obtain ⟨l2, s2, heff, hst2, hrq2, hpp2, hss2, hnx2⟩ : ∃ l2 s2, effect c (.act .popSession) l d.data = (l2, s2) ∧
              l2.stored = l.stored ∧ l2.req = l.req ∧ l2.popped = true ∧
              s2.sessions = d.data.sessions.filter (·.sid != sid) ∧ s2.nextSid = d.data.nextSid := by
            exact ⟨_, _, effect_popSession c l d.data sid id now hreq, rfl, rfl, rfl, rfl, rfl⟩
          rw [heff]
          simp only
          have back : ∀ (j : Nat) (x' : Local), (d.locals.set ik.1 l2)[j]? = some x' →
              ∃ x, d.locals[j]? = some x ∧ x'.stored = x.stored ∧ x'.req = x.req ∧ (x.popped = true → x'.popped = true) := by
            intro j x' hx'
            rcases set_cases _ _ _ _ _ hx' with ⟨_, h1⟩ | ⟨rfl, rfl, _⟩
            · exact ⟨x', h1, rfl, rfl, fun hp => hp⟩
            · exact ⟨l, hl, hst2, hrq2, fun _ => hpp2⟩
          have fwd : ∀ (u : Nat) (lu : Local), d.locals[u]? = some lu →
              ∃ lu', (d.locals.set ik.1 l2)[u]? = some lu' ∧ lu'.req = lu.req ∧ (lu.popped = true → lu'.popped = true) ∧
                (u = ik.1 → lu'.popped = true) := by
            intro u lu hu
            by_cases hui : u = ik.1
            · subst hui
              rw [hl] at hu; cases hu
              exact ⟨l2, by rw [List.getElem?_set]; simp [hlt], hrq2, fun _ => hpp2, fun _ => hpp2⟩
            · exact ⟨lu, by rw [List.getElem?_set, if_neg (fun h' => hui (Eq.symm h'))]; exact hu, rfl, (fun hp => hp), fun h' => absurd h' hui⟩
          refine ⟨?_, ?_, ?_, ?_, ?_, ?_⟩
          · simp [step_length, h.len]
          · intro i x' sess hx' hst
            obtain ⟨x, hx, hs', _⟩ := back i x' hx'
            show sess.sid < s2.nextSid
            rw [hnx2]
            exact h.below i x sess hx (by rw [← hs']; exact hst)
          · intro x hx
            show x.sid < s2.nextSid
            rw [hnx2]
            have hx' : x ∈ s2.sessions := hx
            rw [hss2] at hx'
            exact h.sessBelow x (List.mem_filter.1 hx').1
          · intro i j li lj a b hi hj ha hb hab
            obtain ⟨li0, hli0, hsi, _⟩ := back i li hi
            obtain ⟨lj0, hlj0, hsj, _⟩ := back j lj hj
            exact h.inj i j li0 lj0 a b hli0 hlj0 (by rw [← hsi]; exact ha) (by rw [← hsj]; exact hb) hab
          · intro i x' sess hx' hst
            obtain ⟨x, hx, hs', _⟩ := back i x' hx'
            have hst0 : x.stored = some sess := by rw [← hs']; exact hst
            show s2.sessions.find? _ = _ ∨ _
            rw [hss2]
            rcases h.kept i x sess hx hst0 with hin | ⟨u, lu, hu, hcu, hpu⟩
            · by_cases hk : sid = sess.sid
              · right
                obtain ⟨lu', hlu', hr', _, hp'⟩ := fwd ik.1 l hl
                exact ⟨ik.1, lu', hlu', ⟨id, now, by rw [hr', hreq, hk]⟩, hp' rfl⟩
              · left
                exact find_filter' d.data.sessions sess.sid sid hk sess hin
            · obtain ⟨lu', hlu', hr', hp', _⟩ := fwd u lu hu
              refine Or.inr ⟨u, lu', hlu', ?_, hp' hpu⟩
              obtain ⟨id', now', hr⟩ := hcu
              exact ⟨id', now', by rw [hr']; exact hr⟩
          · exact fahead_step h ik _ (fun j x' hx' => by
              obtain ⟨x, hx, hs', hr', _⟩ := back j x' hx'
              exact ⟨x, hx, hr', fun hn => by rw [← hs']; exact hn⟩)
              (by rw [hhe]; intro h'; cases h')
        · -- every other event
          have hkey : SameKey (effect c e l d.data).1 l ∧ (effect c e l d.data).2.sessions = d.data.sessions ∧
              (effect c e l d.data).2.nextSid = d.data.nextSid := by
            by_cases h1 : e = .act .addSession
            · subst h1
              have : ¬ ∃ ctx input, l.req = .conv ctx input := fun hx => hadd ⟨rfl, hx⟩
              rw [effect_addSession_noop c l d.data this]; exact ⟨⟨rfl, rfl, rfl⟩, rfl, rfl⟩
            · by_cases h2 : e = .act .popSession
              · subst h2
                have : ¬ ∃ sid id now, l.req = .confirm sid id now := fun hx => hpop ⟨rfl, hx⟩
                rw [effect_popSession_noop c l d.data this]; exact ⟨⟨rfl, rfl, rfl⟩, rfl, rfl⟩
              · obtain ⟨a1, a2, a3, a4, a5⟩ := effect_other c e l d.data h1 h2
                exact ⟨⟨a3, a4, a5⟩, a1, a2⟩
          obtain ⟨hb1, hb2⟩ := set_back d.locals ik.1 l (effect c e l d.data).1 hl hkey.1
          exact FInv_same h ik _ _ (by simp) hb1 hb2 hkey.2.1 hkey.2.2
            (by
              intro he l0 hl0 hcv
              rw [hhe] at he
              simp only [Option.some.injEq] at he
              rw [hl] at hl0; cases hl0
              exact hadd ⟨he, hcv⟩)

theorem FInv_frun {conv : Nat → Prop} (c : Cfg) (sched : List (Nat × Nat)) :
    ∀ {d : FSt}, FInv conv d → FInv conv (frun c d sched) := by
  induction sched with
  | nil => intro d h; exact h
  | cons a t ih => intro d h; exact ih (FInv_fstep c h a)

end Chokan.Fine

namespace Chokan.Fine
open Chokan.Conc Chokan.Gen.Server Chokan.Server Chokan.Kkc Chokan.Dic

/-- the threads that run a path of a converting handler with a conversion request -/
def IsConvReq (paths : List (List Ev)) (reqs : List (List Ev × Req)) (i : Nat) : Prop :=
  ∃ r, reqs[i]? = some r ∧ r.1 ∈ paths ∧ ∃ ctx input, r.2 = .conv ctx input

theorem FInv_finit (unb : Chan → Bool) (capOf : Chan → Nat) (reqs : List (List Ev × Req)) (tasks : List (List (List Ev)))
    (s : State) (paths : List (List Ev))
    (hpaths : ∀ p ∈ paths, occursBefore (.act .addSession) .respond p = true ∧ .respond ∈ p)
    (hs : ∀ x ∈ s.sessions, x.sid < s.nextSid) :
    FInv (IsConvReq paths reqs) (finit unb capOf reqs tasks s) := by
  have hst : ∀ (i : Nat) (l : Local), (finit unb capOf reqs tasks s).locals[i]? = some l → l.stored = none := by
    intro i l hl
    have := List.mem_of_getElem? hl
    simp only [finit, List.mem_append, List.mem_map] at this
    rcases this with ⟨_, _, rfl⟩ | ⟨_, _, rfl⟩ <;> rfl
  refine ⟨?_, ?_, hs, ?_, ?_, ?_⟩
  · simp [finit, initSt]
  · intro i l sess hl hk; rw [hst i l hl] at hk; cases hk
  · intro i j li lj a b hi _ ha _ _; rw [hst i li hi] at ha; cases ha
  · intro i l sess hl hk; rw [hst i l hl] at hk; cases hk
  · intro i t l ⟨r, hr, hrp, ctx, input, hrq⟩ ht hl
    have hlt : i < reqs.length := (List.getElem?_eq_some_iff.1 hr).1
    have ht' : t = ⟨r.1, [], none⟩ := by
      simp only [finit, initSt] at ht
      rw [List.getElem?_append_left (by simpa using hlt)] at ht
      simp only [List.map_map, List.getElem?_map, hr, Option.map_some] at ht
      simpa using ht.symm
    have hl' : l = { req := r.2 } := by
      simp only [finit] at hl
      rw [List.getElem?_append_left (by simpa using hlt)] at hl
      simp only [List.getElem?_map, hr, Option.map_some] at hl
      simpa using hl.symm
    subst ht' hl'
    exact ⟨rfl, ⟨ctx, input, hrq⟩, fun _ => hpaths r.1 hrp⟩

/-- **A confirmation that pops after the answer gets the answered candidate.**  In a state that satisfies the invariant:
the conversion thread `c` has answered; then it has stored a session `sess` (its id, its context, the candidates it
computed), and for a confirmation thread `u` that names this id and is about to execute `pop_session` — no confirmation
naming the id having popped before — the step finds the session: its local `candidate` becomes the one the request's
string names among exactly those candidates, together with the conversion's context, and the session leaves the store. -/
theorem fine_pop_finds {conv : Nat → Prop} (cfg : Cfg) {d : FSt} (h : FInv conv d) (c u k : Nat)
    (hc : conv c) (hans : answered d.st c = true) :
    ∃ (lc : Local) (sess : Session), d.locals[c]? = some lc ∧ lc.stored = some sess ∧
      ∀ (lu : Local) (id : String) (now : Int), d.locals[u]? = some lu → lu.req = .confirm sess.sid id now →
        headEv d.st u = some (.act .popSession) →
        (∀ (u' : Nat) (lu' : Local), d.locals[u']? = some lu' → isConfirmOf lu' sess.sid → lu'.popped = false) →
        ∃ lu', (fstep cfg d (u, k)).locals[u]? = some lu' ∧
          lu'.cand = (foundCand sess id).map (fun cd => (sess.ctx, cd)) ∧ lu'.popped = true ∧
          (fstep cfg d (u, k)).data.sessions.find? (·.sid == sess.sid) = none := by
  unfold answered at hans
  cases htc : d.st.threads[c]? with
  | none => rw [htc] at hans; cases hans
  | some tc =>
    rw [htc] at hans
    have hltc : c < d.locals.length := by rw [h.len]; exact (List.getElem?_eq_some_iff.1 htc).1
    obtain ⟨lc, hlc⟩ : ∃ lc, d.locals[c]? = some lc := ⟨d.locals[c], by simp [hltc]⟩
    obtain ⟨_, _, hah⟩ := h.ahead c tc lc hc htc hlc
    cases hs : lc.stored with
    | none =>
      have := (hah hs).2
      simp only [Bool.not_eq_true', List.contains_eq_mem, decide_eq_false_iff_not] at hans
      exact absurd this hans
    | some sess =>
      refine ⟨lc, sess, hlc, hs, ?_⟩
      intro lu id now hu hreq hhead hfirst
      have hin : d.data.sessions.find? (·.sid == sess.sid) = some sess := by
        rcases h.kept c lc sess hlc hs with hin | ⟨u', lu', hu', hcu', hpu'⟩
        · exact hin
        · rw [hfirst u' lu' hu' hcu'] at hpu'; cases hpu'
      refine ⟨(effect cfg (.act .popSession) lu d.data).1, ?_, ?_, ?_, ?_⟩
      · unfold fstep
        simp only [hhead, hu]
        rw [List.getElem?_set]
        have hlt : u < d.locals.length := (List.getElem?_eq_some_iff.1 hu).1
        simp [hlt]
      · rw [effect_popSession cfg lu d.data sess.sid id now hreq]
        simp [popSession, hin]
      · rw [effect_popSession cfg lu d.data sess.sid id now hreq]
      · unfold fstep
        simp only [hhead, hu]
        rw [effect_popSession cfg lu d.data sess.sid id now hreq]
        simp only [popSession]
        rw [List.find?_eq_none]
        intro x hx
        have := (List.mem_filter.1 hx).2
        simpa using this

/-- … and when that thread later executes `update_frequency`, the learned count of the candidate's independent word in the
conversion's context goes up by exactly one (and stale counts are dropped), whatever ran in between. -/
theorem fine_updFreq (cfg : Cfg) (l : Local) (s : State) (sid : Nat) (id : String) (now : Int) (ctx : Ctx) (cand : Cand) (w : Str)
    (hreq : l.req = .confirm sid id now) (hc : l.cand = some (ctx, cand)) (hw : independentWord cand.chain = some w) :
    (effect cfg (.act .updFreq) l s).2 = { s with freq := expire (updateWord s.freq ctx w now) now cfg.expiryMs } := by
  unfold effect
  rw [hreq]
  simp only [hc, hw]

end Chokan.Fine

/-! ### the entry queue: nothing is lost, nothing is invented, order is kept -/

namespace Chokan.Fine
open Chokan.Conc Chokan.Gen.Server Chokan.Server Chokan.Kkc Chokan.Dic

/-- what one step puts into the entry queue / takes out of it -/
def sentBy (c : Cfg) (d : FSt) (ik : Nat × Nat) : List Entry :=
  match headEv d.st ik.1, d.locals[ik.1]? with
  | some (.send .entry), some l =>
    match l.req with
    | .confirm _ _ _ => l.entry.toList
    | .register kind reading word => (regEntry c kind reading word).toList
    | _ => []
  | _, _ => []

def takenBy (d : FSt) (ik : Nat × Nat) : List Entry :=
  match headEv d.st ik.1, d.locals[ik.1]? with
  | some (.recv .entry), some l =>
    match l.req with
    | .other => d.data.pending.head?.toList
    | _ => []
  | _, _ => []

def sentLog (c : Cfg) : FSt → List (Nat × Nat) → List Entry
  | _, [] => []
  | d, ik :: t => sentBy c d ik ++ sentLog c (fstep c d ik) t

def takenLog (c : Cfg) : FSt → List (Nat × Nat) → List Entry
  | _, [] => []
  | d, ik :: t => takenBy d ik ++ takenLog c (fstep c d ik) t

theorem effect_pending (c : Cfg) (e : Ev) (l : Local) (s : State) :
    (effect c e l s).2.pending =
      match e, l.req with
      | .send .entry, .confirm _ _ _ => s.pending ++ l.entry.toList
      | .send .entry, .register kind reading word => s.pending ++ (regEntry c kind reading word).toList
      | .recv .entry, .other => s.pending.tail
      | _, _ => s.pending := by
  cases e with
  | acq k => cases hr : l.req <;> simp [effect, hr]
  | rel k => cases hr : l.req <;> simp [effect, hr]
  | respond => cases hr : l.req <;> simp [effect, hr]
  | recv ch => cases ch <;> cases hr : l.req <;> simp [effect, hr]
  | send ch =>
    cases ch with
    | tick => cases hr : l.req <;> simp [effect, hr]
    | entry =>
      cases hr : l.req with
      | conv a b => simp [effect, hr]
      | other => simp [effect, hr]
      | confirm a b d => cases he : l.entry <;> simp [effect, hr, he]
      | register a b d => cases he : regEntry c a b d <;> simp [effect, hr, he]
  | act a =>
    cases a <;> cases hr : l.req <;> simp only [effect, hr]
    all_goals first
      | rfl
      | (simp only [save]; split <;> rfl)
      | (split <;> first | rfl | (split <;> rfl))

theorem queue_step (c : Cfg) (d : FSt) (ik : Nat × Nat) :
    d.data.pending ++ sentBy c d ik = takenBy d ik ++ (fstep c d ik).data.pending := by
  unfold sentBy takenBy fstep
  cases hh : headEv d.st ik.1 with
  | none => simp
  | some e =>
    cases hl : d.locals[ik.1]? with
    | none => simp
    | some l =>
      simp only
      rw [effect_pending]
      cases e with
      | send ch =>
        cases ch <;> cases hr : l.req <;> simp [hr]
      | recv ch =>
        cases ch <;> cases hr : l.req <;> simp [hr]
        cases hp : d.data.pending <;> simp
      | acq k => cases l.req <;> simp
      | rel k => cases l.req <;> simp
      | act a => cases a <;> cases l.req <;> simp
      | respond => cases l.req <;> simp

/-- **Queue conservation under every schedule**: what was queued at the start followed by everything sent, in order, is
everything taken, in order, followed by what is still queued. -/
theorem queue_conserved (c : Cfg) : ∀ (sched : List (Nat × Nat)) (d : FSt),
    d.data.pending ++ sentLog c d sched = takenLog c d sched ++ (frun c d sched).data.pending
  | [], d => by simp [sentLog, takenLog, frun]
  | ik :: t, d => by
    have h1 := queue_step c d ik
    have h2 := queue_conserved c t (fstep c d ik)
    show d.data.pending ++ (sentBy c d ik ++ sentLog c (fstep c d ik) t) =
      (takenBy d ik ++ takenLog c (fstep c d ik) t) ++ (frun c (fstep c d ik) t).data.pending
    rw [← List.append_assoc, h1, List.append_assoc, h2, List.append_assoc]

end Chokan.Fine

/-! ### what a step can do to the running dictionary and what a conversion computes -/

namespace Chokan.Fine
open Chokan.Conc Chokan.Gen.Server Chokan.Server Chokan.Kkc Chokan.Dic

theorem effect_dict (c : Cfg) (e : Ev) (l : Local) (s : State) :
    (effect c e l s).2.dict = s.dict ∨ ∃ en, l.entry = some en ∧ e = .act .mapInsert ∧ (effect c e l s).2.dict = (mergeEntry c s.dict en).getD s.dict := by
  cases e with
  | acq k => left; cases hr : l.req <;> simp [effect, hr]
  | rel k => left; cases hr : l.req <;> simp [effect, hr]
  | respond => left; cases hr : l.req <;> simp [effect, hr]
  | recv ch => left; cases ch <;> cases hr : l.req <;> simp [effect, hr]
  | send ch =>
    left
    cases ch with
    | tick => cases hr : l.req <;> simp [effect, hr]
    | entry =>
      cases hr : l.req with
      | conv a b => simp [effect, hr]
      | other => simp [effect, hr]
      | confirm a b d => cases he : l.entry <;> simp [effect, hr, he]
      | register a b d => cases he : regEntry c a b d <;> simp [effect, hr, he]
  | act a =>
    by_cases hm : a = .mapInsert
    · subst hm
      cases hr : l.req with
      | other =>
        cases he : l.entry with
        | none => left; simp [effect, hr, he]
        | some en => right; exact ⟨en, rfl, rfl, by simp [effect, hr, he]⟩
      | conv a b => left; simp [effect, hr]
      | confirm a b d => left; simp [effect, hr]
      | register a b d => left; simp [effect, hr]
    · left
      cases a <;> first | exact absurd rfl hm | skip
      all_goals
        cases hr : l.req <;> simp only [effect, hr]
        all_goals first
          | rfl
          | (simp only [save]; split <;> rfl)
          | (split <;> first | rfl | (split <;> rfl))

/-- **Under every interleaving the running dictionary changes only by whole entries**: one step of any thread leaves it
alone or merges *all* conjugated forms of one entry (the entry the updater took from the queue). -/
theorem fstep_dict (c : Cfg) (d : FSt) (ik : Nat × Nat) :
    (fstep c d ik).data.dict = d.data.dict ∨
    ∃ en, (fstep c d ik).data.dict = (mergeEntry c d.data.dict en).getD d.data.dict := by
  unfold fstep
  cases hh : headEv d.st ik.1 with
  | none => left; rfl
  | some e =>
    cases hl : d.locals[ik.1]? with
    | none => left; rfl
    | some l =>
      simp only
      rcases effect_dict c e l d.data with h | ⟨en, _, _, h⟩
      · exact Or.inl h
      · exact Or.inr ⟨en, h⟩

/-- **A conversion's answer is the sequential answer for the state of its compute event**: what the thread computes is
`getCandidates` on the dictionary and the learned counts as they are at that step — every update made before it, none
made after it. -/
theorem fstep_compute (c : Cfg) (d : FSt) (i k : Nat) (l : Local) (ctx : Ctx) (input : Str)
    (hh : headEv d.st i = some (.act .compute)) (hl : d.locals[i]? = some l) (hr : l.req = .conv ctx input) :
    ∃ l', (fstep c d (i, k)).locals[i]? = some l' ∧
      l'.cands = (getCandidates c.tables input d.data.dict ctx (toKkcFreq d.data.freq) c.nCandidates c.fuel).getD [] ∧
      (fstep c d (i, k)).data = d.data := by
  have hlt : i < d.locals.length := (List.getElem?_eq_some_iff.1 hl).1
  refine ⟨(effect c (.act .compute) l d.data).1, ?_, ?_, ?_⟩
  · unfold fstep
    simp only [hh, hl]
    rw [List.getElem?_set]; simp [hlt]
  · unfold effect; rw [hr]
  · unfold fstep
    simp only [hh, hl]
    unfold effect; rw [hr]

end Chokan.Fine
