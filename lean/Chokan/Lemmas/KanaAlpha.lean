/-
Lemmas for C17 (kana_alpha::convert): progress of each step, totality, provenance of output
characters, identity of the kana-NFC fragment on mark-free strings.
-/
import Chokan.Model.KanaAlpha
import Chokan.Gen.KanaAlpha

namespace Chokan.KanaAlpha

theorem nbeq_false {a b : Nat} : Nat.beq a b = false ↔ a ≠ b := by
  constructor
  · intro h e; subst e; rw [Nat.beq_refl] at h; cases h
  · intro h
    cases hb : Nat.beq a b with
    | false => rfl
    | true => exact absurd (Nat.eq_of_beq_eq_true hb) h

def asciiLower (c : Nat) : Bool := (Nat.ble 97 c && Nat.ble c 122) || (Nat.ble 48 c && Nat.ble c 57)

def hiraNonEmpty (sorted : List Row) : Bool := sorted.all fun r => !r.1.isEmpty
def alphasAscii (sorted : List Row) : Bool := sorted.all fun r => r.2.2.all asciiLower

theorem pickBest_mem : ∀ (cs : List (Str × Nat)) (best r : Option (Str × Nat)),
    pickBest best cs = r → ∀ c, r = some c → (best = some c ∨ c ∈ cs)
  | [], best, r, h, c, hc => by simp [pickBest] at h; subst h; exact Or.inl hc
  | x :: t, none, r, h, c, hc => by
    simp only [pickBest] at h
    rcases pickBest_mem t (some x) r h c hc with h1 | h1
    · simp at h1; subst h1; exact Or.inr List.mem_cons_self
    · exact Or.inr (List.mem_cons_of_mem _ h1)
  | x :: t, some b, r, h, c, hc => by
    simp only [pickBest] at h
    split at h
    · rcases pickBest_mem t (some x) r h c hc with h1 | h1
      · simp at h1; subst h1; exact Or.inr List.mem_cons_self
      · exact Or.inr (List.mem_cons_of_mem _ h1)
    · rcases pickBest_mem t (some b) r h c hc with h1 | h1
      · exact Or.inl h1
      · exact Or.inr (List.mem_cons_of_mem _ h1)

theorem pickBest_none_nil : ∀ (cs : List (Str × Nat)), pickBest none cs = none → cs = []
  | [], _ => rfl
  | x :: t, h => by
    simp only [pickBest] at h
    have : ∀ (cs : List (Str × Nat)) b, pickBest (some b) cs ≠ none := by
      intro cs
      induction cs with
      | nil => intro b; simp [pickBest]
      | cons y u ih => intro b; simp only [pickBest]; split <;> exact ih _
    exact absurd h (this t x)

theorem replicateStr_mem (n : Nat) (s : Str) (c : Nat) (h : c ∈ replicateStr n s) : c ∈ s := by
  induction n with
  | zero => simp [replicateStr] at h
  | succ n ih =>
    simp only [replicateStr, List.mem_append] at h
    rcases h with h | h
    · exact h
    · exact ih h

theorem expandUnit_some (row : Row) (s : Str) (c : Str × Nat) (h : expandUnit row s = some c) :
    (startsWith (stripSokuons s).2 row.1 || startsWith (stripSokuons s).2 row.2.1) = true ∧
    c = (replicateStr (stripSokuons s).1 (row.2.2.take 1) ++ row.2.2, row.1.length + (stripSokuons s).1) := by
  unfold expandUnit at h
  split at h
  · next hc =>
    split at h
    · cases h
    · simp only [Option.some.injEq] at h
      exact ⟨hc, h.symm⟩
  · cases h

/-- A chosen candidate comes from a table row: its letters are the row's letters, and it consumes
one character (the sokuon row) or the row's kana plus the sokuon run. -/
theorem candidate_spec (sorted : List Row) (s : Str) (c : Str × Nat) (h : c ∈ candidates sorted s) :
    ∃ row ∈ sorted, (∀ x ∈ c.1, x ∈ row.2.2) ∧
      (c.2 = 1 ∨ c.2 = row.1.length + (stripSokuons s).1) := by
  unfold candidates at h
  obtain ⟨row, hrow, he⟩ := List.mem_filterMap.1 h
  refine ⟨row, hrow, ?_⟩
  unfold expandRoma at he
  split at he
  · simp only [Option.some.injEq] at he; subst he
    exact ⟨fun x hx => hx, Or.inl rfl⟩
  · obtain ⟨_, he⟩ := expandUnit_some row s c he
    subst he
    refine ⟨fun x hx => ?_, Or.inr rfl⟩
    simp only [List.mem_append] at hx
    rcases hx with hx | hx
    · exact List.mem_of_mem_take (replicateStr_mem _ _ x hx)
    · exact hx

theorem toRomaSequence_progress (sorted : List Row) (hne : hiraNonEmpty sorted = true)
    (s : Str) (hs : s ≠ []) : (toRomaSequence sorted s).2.length < s.length := by
  have hlen : 0 < s.length := List.length_pos_iff.2 hs
  unfold toRomaSequence
  split
  · next v len hp =>
    rcases pickBest_mem _ none _ hp (v, len) rfl with h | h
    · cases h
    · obtain ⟨row, hrow, _, he⟩ := candidate_spec sorted s _ h
      have h1 := List.all_eq_true.1 hne row hrow
      have : 0 < row.1.length := by
        cases hr : row.1 with
        | nil => simp [hr] at h1
        | cons a t => simp
      simp only at he
      simp only [List.length_drop]
      omega
  · simp only [List.length_drop]; omega

theorem convFuel_total (sorted : List Row) (hne : hiraNonEmpty sorted = true) :
    ∀ (fuel : Nat) (s : Str), s.length < fuel → ∃ out, convFuel sorted fuel s = some out
  | _, [], _ => ⟨[], by unfold convFuel; rfl⟩
  | 0, _ :: _, h => by simp at h
  | fuel + 1, a :: t, h => by
    have hp := toRomaSequence_progress sorted hne (a :: t) (by simp)
    obtain ⟨out, ho⟩ := convFuel_total sorted hne fuel (toRomaSequence sorted (a :: t)).2
      (by simp only [List.length_cons] at h hp; omega)
    refine ⟨(toRomaSequence sorted (a :: t)).1 ++ out, ?_⟩
    unfold convFuel
    cases hr : toRomaSequence sorted (a :: t) with
    | mk v rest => simp only [hr] at ho ⊢; simp [ho]

/-- Every emitted character is a table letter (lower-case ASCII) or a lower-cased input character. -/
theorem toRomaSequence_chars (sorted : List Row) (ha : alphasAscii sorted = true) (s : Str) :
    ∀ c ∈ (toRomaSequence sorted s).1, asciiLower c = true ∨ ∃ x ∈ s.take 1, c = lower x := by
  intro c hc
  unfold toRomaSequence at hc
  split at hc
  · next v len hp =>
    rcases pickBest_mem _ none _ hp (v, len) rfl with h | h
    · cases h
    · obtain ⟨row, hrow, he, _⟩ := candidate_spec sorted s _ h
      have h1 := List.all_eq_true.1 ha row hrow
      left
      exact List.all_eq_true.1 h1 c (he c hc)
  · right
    simp only [List.mem_map] at hc
    obtain ⟨x, hx, rfl⟩ := hc
    exact ⟨x, hx, rfl⟩

theorem toRomaSequence_rest_sub (sorted : List Row) (s : Str) :
    ∀ x ∈ (toRomaSequence sorted s).2, x ∈ s := by
  intro x hx
  unfold toRomaSequence at hx
  split at hx <;> exact List.mem_of_mem_drop hx

theorem convFuel_chars (sorted : List Row) (ha : alphasAscii sorted = true) :
    ∀ (fuel : Nat) (s out : Str), convFuel sorted fuel s = some out →
      ∀ c ∈ out, asciiLower c = true ∨ ∃ x ∈ s, c = lower x
  | _, [], out, h, c, hc => by
    unfold convFuel at h; simp at h; subst h; cases hc
  | 0, _ :: _, _, h, _, _ => by simp [convFuel] at h
  | fuel + 1, a :: t, out, h, c, hc => by
    unfold convFuel at h
    cases hr : toRomaSequence sorted (a :: t) with
    | mk v rest =>
      simp only [hr] at h
      cases ho : convFuel sorted fuel rest with
      | none => simp [ho] at h
      | some o =>
        simp [ho] at h; subst h
        simp only [List.mem_append] at hc
        rcases hc with hc | hc
        · have := toRomaSequence_chars sorted ha (a :: t) c (by rw [hr]; exact hc)
          rcases this with h1 | ⟨x, hx, rfl⟩
          · exact Or.inl h1
          · exact Or.inr ⟨x, List.mem_of_mem_take hx, rfl⟩
        · rcases convFuel_chars sorted ha fuel rest o ho c hc with h1 | ⟨x, hx, rfl⟩
          · exact Or.inl h1
          · refine Or.inr ⟨x, ?_, rfl⟩
            have := toRomaSequence_rest_sub sorted (a :: t) x
            rw [hr] at this
            exact this hx

end Chokan.KanaAlpha

namespace Chokan.KanaAlpha

/-! ### strings without sokuon and without combining marks -/

def asciiAlnum (c : Nat) : Bool :=
  (Nat.ble 97 c && Nat.ble c 122) || (Nat.ble 65 c && Nat.ble c 90) || (Nat.ble 48 c && Nat.ble c 57)

/-- hiragana あ…ん -/
def plainHira (c : Nat) : Bool := Nat.ble 0x3042 c && Nat.ble c 0x3093

def okChar (c : Nat) : Bool := asciiAlnum c || plainHira c

/-- Every hiragana あ…ん (っ included) has its own single-character row. -/
def singleKanaCovered (sorted : List Row) : Bool :=
  (List.range 82).all fun i => sorted.any fun r => beqStr r.1 [0x3042 + i]

theorem lower_alnum (c : Nat) (h : asciiAlnum c = true) : asciiLower (lower c) = true := by
  simp only [asciiAlnum, asciiLower, lower, Bool.or_eq_true, Bool.and_eq_true, Nat.ble_eq] at *
  split <;> omega

theorem nfcKana_id : ∀ s : Str, (∀ c ∈ s, c ≠ 0x3099 ∧ c ≠ 0x309A) → nfcKana s = s
  | [], _ => rfl
  | [a], _ => rfl
  | a :: b :: t, h => by
    have hb := h b (by simp)
    have : composeKana a b = none := by simp [composeKana, hb.1, hb.2]
    rw [nfcKana, this]
    simp only
    rw [nfcKana_id (b :: t) (fun c hc => h c (List.mem_cons_of_mem _ hc))]

theorem okChar_not_mark (c : Nat) (h : okChar c = true) : c ≠ 0x3099 ∧ c ≠ 0x309A := by
  simp only [okChar, asciiAlnum, plainHira, Bool.or_eq_true, Bool.and_eq_true, Nat.ble_eq] at h
  omega

theorem beqStr_eq : ∀ (a b : Str), beqStr a b = true → a = b
  | [], [], _ => rfl
  | [], _ :: _, h => by simp [beqStr] at h
  | _ :: _, [], h => by simp [beqStr] at h
  | x :: xs, y :: ys, h => by
    simp only [beqStr, Bool.and_eq_true] at h
    rw [Nat.eq_of_beq_eq_true h.1, beqStr_eq xs ys h.2]

theorem candidates_ne_nil_of_plainHira (sorted : List Row) (hcov : singleKanaCovered sorted = true)
    (c : Nat) (t : Str) (hc : plainHira c = true) : candidates sorted (c :: t) ≠ [] := by
  simp only [plainHira, Bool.and_eq_true, Nat.ble_eq] at hc
  have h1 := List.all_eq_true.1 hcov (c - 0x3042) (List.mem_range.2 (by omega))
  simp only [show 0x3042 + (c - 0x3042) = c by omega] at h1
  obtain ⟨row, hrow, hb⟩ := List.any_eq_true.1 h1
  have hr : row.1 = [c] := beqStr_eq _ _ hb
  have hsw : startsWith (c :: t) row.1 = true := by simp [hr, startsWith, Nat.beq_refl]
  have : ∃ cand, expandRoma row (c :: t) = some cand := by
    unfold expandRoma
    cases hrs : rowIsSokuon row with
    | true => simp [hsw]
    | false =>
      have hns : isSokuon c = false := by simpa [rowIsSokuon, hr] using hrs
      have hstrip : stripSokuons (c :: t) = (0, c :: t) := by simp [stripSokuons, hns]
      unfold expandUnit
      simp [hstrip, hsw]
  obtain ⟨cand, hcand⟩ := this
  intro hnil
  have hm : cand ∈ candidates sorted (c :: t) := List.mem_filterMap.2 ⟨row, hrow, hcand⟩
  rw [hnil] at hm; cases hm

theorem toRomaSequence_ascii (sorted : List Row) (ha : alphasAscii sorted = true)
    (hcov : singleKanaCovered sorted = true) (c : Nat) (t : Str) (hc : okChar c = true) :
    ∀ x ∈ (toRomaSequence sorted (c :: t)).1, asciiLower x = true := by
  intro x hx
  rcases toRomaSequence_chars sorted ha (c :: t) x hx with h | ⟨y, hy, rfl⟩
  · exact h
  · simp at hy; subst hy
    simp only [okChar, Bool.or_eq_true] at hc
    rcases hc with hc | hc
    · exact lower_alnum y hc
    · -- a plain hiragana always matches its own row, so this branch emitted table letters
      exfalso
      have hne := candidates_ne_nil_of_plainHira sorted hcov y t hc
      unfold toRomaSequence at hx
      split at hx
      · next v len hp =>
        -- the emitted text came from a candidate; fine, but then `x` is a table letter — handled above;
        -- here we only need a contradiction in the fall-through branch, so re-derive membership
        rcases pickBest_mem _ none _ hp (v, len) rfl with h | h
        · cases h
        · obtain ⟨row, hrow, he, _⟩ := candidate_spec sorted (y :: t) _ h
          have h1 := List.all_eq_true.1 ha row hrow
          have hxa : asciiLower (lower y) = true := List.all_eq_true.1 h1 _ (he _ hx)
          -- contradiction: lower y = y is a hiragana, not ASCII
          simp only [plainHira, Bool.and_eq_true, Nat.ble_eq] at hc
          simp only [asciiLower, lower, Bool.or_eq_true, Bool.and_eq_true, Nat.ble_eq] at hxa
          split at hxa <;> omega
      · next hp => exact hne (pickBest_none_nil _ hp)

theorem convFuel_ascii (sorted : List Row) (ha : alphasAscii sorted = true)
    (hcov : singleKanaCovered sorted = true) :
    ∀ (fuel : Nat) (s out : Str), (∀ c ∈ s, okChar c = true) → convFuel sorted fuel s = some out →
      ∀ x ∈ out, asciiLower x = true
  | _, [], out, _, h, x, hx => by unfold convFuel at h; simp at h; subst h; cases hx
  | 0, _ :: _, _, _, h, _, _ => by simp [convFuel] at h
  | fuel + 1, a :: t, out, hs, h, x, hx => by
    unfold convFuel at h
    cases hr : toRomaSequence sorted (a :: t) with
    | mk v rest =>
      simp only [hr] at h
      cases ho : convFuel sorted fuel rest with
      | none => simp [ho] at h
      | some o =>
        simp [ho] at h; subst h
        simp only [List.mem_append] at hx
        rcases hx with hx | hx
        · exact toRomaSequence_ascii sorted ha hcov a t (hs a List.mem_cons_self) x (by rw [hr]; exact hx)
        · refine convFuel_ascii sorted ha hcov fuel rest o ?_ ho x hx
          intro c hc
          have := toRomaSequence_rest_sub sorted (a :: t) c
          rw [hr] at this
          exact hs c (this hc)

end Chokan.KanaAlpha
