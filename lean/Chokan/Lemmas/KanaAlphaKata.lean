/-
C17: katakana input behaves as its hiragana (string level), and NFD-decomposed kana as the composed kana.
-/
import Chokan.Lemmas.KanaAlphaOrder

namespace Chokan.KanaAlpha

/-- hiragana → katakana on the client's class (あ…ん); everything else unchanged -/
def toKata (c : Nat) : Nat := if plainHira c then c + 0x60 else c

def hiraRange (c : Nat) : Bool := Nat.ble 0x3041 c && Nat.ble c 0x3096

/-- Table fact: hiragana columns are non-empty hiragana, katakana columns are the same kana + 0x60. -/
def kataTableOk (sorted : List Row) : Bool :=
  sorted.all fun r => !r.1.isEmpty && r.1.all hiraRange && beqStr r.2.1 (r.1.map (· + 0x60))

theorem toKata_cases (c : Nat) (h : okChar c = true) :
    (plainHira c = true ∧ toKata c = c + 0x60) ∨ (asciiAlnum c = true ∧ c < 0x80 ∧ toKata c = c) := by
  unfold toKata
  by_cases hp : plainHira c = true
  · left; exact ⟨hp, by rw [if_pos hp]⟩
  · right
    have ha : asciiAlnum c = true := by
      simp only [okChar, Bool.or_eq_true] at h
      rcases h with h | h
      · exact h
      · exact absurd h hp
    refine ⟨ha, ?_, by rw [if_neg hp]⟩
    simp only [asciiAlnum, Bool.or_eq_true, Bool.and_eq_true, Nat.ble_eq] at ha
    omega

theorem isSokuon_toKata (c : Nat) (h : okChar c = true) : isSokuon (toKata c) = isSokuon c := by
  rcases toKata_cases c h with ⟨hp, hk⟩ | ⟨_, _, hk⟩
  · rw [hk]
    simp only [plainHira, Bool.and_eq_true, Nat.ble_eq] at hp
    by_cases hc : c = 0x3063
    · subst hc; decide
    · have h1 : isSokuon c = false := by
        simp only [isSokuon, Bool.or_eq_false_iff, nbeq_false]; omega
      have h2 : isSokuon (c + 0x60) = false := by
        simp only [isSokuon, Bool.or_eq_false_iff, nbeq_false]; omega
      rw [h1, h2]
  · rw [hk]

theorem stripSokuons_toKata : ∀ (s : Str), (∀ c ∈ s, okChar c = true) →
    stripSokuons (s.map toKata) = ((stripSokuons s).1, (stripSokuons s).2.map toKata)
  | [], _ => by simp [stripSokuons]
  | c :: t, h => by
    have hc := h c (by simp)
    have ih := stripSokuons_toKata t (fun x hx => h x (List.mem_cons_of_mem _ hx))
    simp only [List.map_cons]
    unfold stripSokuons
    rw [isSokuon_toKata c hc]
    by_cases hs : isSokuon c = true
    · simp only [hs, if_true, ih]
    · simp only [hs, Bool.false_eq_true, if_false, List.map_cons]

/-- A string of the client's class never starts with a (non-empty) katakana column … -/
theorem startsWith_kata_false (s : Str) (hs : ∀ c ∈ s, okChar c = true) (r : Str) (hr : r ≠ [])
    (hh : ∀ c ∈ r, hiraRange c = true) : startsWith s (r.map (· + 0x60)) = false := by
  cases r with
  | nil => exact absurd rfl hr
  | cons b bs =>
    cases s with
    | nil => simp [startsWith]
    | cons a as =>
      have ha := hs a (by simp)
      have hb := hh b (by simp)
      simp only [hiraRange, Bool.and_eq_true, Nat.ble_eq] at hb
      simp only [okChar, asciiAlnum, plainHira, Bool.or_eq_true, Bool.and_eq_true, Nat.ble_eq] at ha
      have : Nat.beq a (b + 0x60) = false := by rw [nbeq_false]; omega
      simp [startsWith, this]

/-- … and its katakana image never starts with a hiragana column. -/
theorem startsWith_hira_false (s : Str) (hs : ∀ c ∈ s, okChar c = true) (r : Str) (hr : r ≠ [])
    (hh : ∀ c ∈ r, hiraRange c = true) : startsWith (s.map toKata) r = false := by
  cases r with
  | nil => exact absurd rfl hr
  | cons b bs =>
    cases s with
    | nil => simp [startsWith]
    | cons a as =>
      have ha := hs a (by simp)
      have hb := hh b (by simp)
      simp only [hiraRange, Bool.and_eq_true, Nat.ble_eq] at hb
      have : Nat.beq (toKata a) b = false := by
        rw [nbeq_false]
        rcases toKata_cases a ha with ⟨hp, hk⟩ | ⟨_, hlt, hk⟩
        · simp only [plainHira, Bool.and_eq_true, Nat.ble_eq] at hp; omega
        · omega
      simp [startsWith, this]

theorem startsWith_toKata : ∀ (s r : Str), (∀ c ∈ s, okChar c = true) → (∀ c ∈ r, hiraRange c = true) →
    startsWith (s.map toKata) (r.map (· + 0x60)) = startsWith s r
  | _, [], _, _ => by simp [startsWith]
  | [], _ :: _, _, _ => by simp [startsWith]
  | a :: as, b :: bs, hs, hr => by
    have ha := hs a (by simp)
    have hb := hr b (by simp)
    simp only [hiraRange, Bool.and_eq_true, Nat.ble_eq] at hb
    have ih := startsWith_toKata as bs (fun c hc => hs c (List.mem_cons_of_mem _ hc))
      (fun c hc => hr c (List.mem_cons_of_mem _ hc))
    simp only [List.map_cons, startsWith, ih]
    congr 1
    rcases toKata_cases a ha with ⟨hp, hk⟩ | ⟨_, hlt, hk⟩
    · rw [hk]
      by_cases hab : a = b
      · subst hab; simp [Nat.beq_refl]
      · have h1 : Nat.beq a b = false := nbeq_false.2 hab
        have h2 : Nat.beq (a + 0x60) (b + 0x60) = false := nbeq_false.2 (by omega)
        rw [h1, h2]
    · rw [hk]
      have h1 : Nat.beq a b = false := nbeq_false.2 (by omega)
      have h2 : Nat.beq a (b + 0x60) = false := nbeq_false.2 (by omega)
      rw [h1, h2]

/-- Which column matches: on a string of the client's class only the hiragana column can, on its
katakana image only the katakana column can, and they match at the same places. -/
theorem match_toKata (row : Row) (s : Str) (hs : ∀ c ∈ s, okChar c = true)
    (hne : row.1 ≠ []) (hh : ∀ c ∈ row.1, hiraRange c = true) (hk : row.2.1 = row.1.map (· + 0x60)) :
    (startsWith (s.map toKata) row.1 || startsWith (s.map toKata) row.2.1) =
    (startsWith s row.1 || startsWith s row.2.1) := by
  rw [hk, startsWith_hira_false s hs row.1 hne hh, startsWith_kata_false s hs row.1 hne hh,
    startsWith_toKata s row.1 hs hh]
  simp

theorem stripSokuons_sub (s : Str) : ∀ c ∈ (stripSokuons s).2, c ∈ s := by
  obtain ⟨pre, h1, _, _⟩ := stripSokuons_spec s
  intro c hc
  rw [h1]; exact List.mem_append_right _ hc

theorem expandRoma_toKata (row : Row) (s : Str) (hs : ∀ c ∈ s, okChar c = true)
    (hne : row.1 ≠ []) (hh : ∀ c ∈ row.1, hiraRange c = true) (hk : row.2.1 = row.1.map (· + 0x60)) :
    expandRoma row (s.map toKata) = expandRoma row s := by
  unfold expandRoma expandUnit
  rw [match_toKata row s hs hne hh hk, stripSokuons_toKata s hs]
  simp only
  rw [match_toKata row (stripSokuons s).2 (fun c hc => hs c (stripSokuons_sub s c hc)) hne hh hk]

theorem row_facts (sorted : List Row) (hk : kataTableOk sorted = true) (row : Row) (hrow : row ∈ sorted) :
    row.1 ≠ [] ∧ (∀ c ∈ row.1, hiraRange c = true) ∧ row.2.1 = row.1.map (· + 0x60) := by
  have h := List.all_eq_true.1 hk row hrow
  simp only [Bool.and_eq_true, Bool.not_eq_true', List.isEmpty_eq_false_iff, List.all_eq_true] at h
  exact ⟨h.1.1, h.1.2, beqStr_eq _ _ h.2⟩

theorem candidates_toKata (sorted : List Row) (hk : kataTableOk sorted = true) (s : Str)
    (hs : ∀ c ∈ s, okChar c = true) : candidates sorted (s.map toKata) = candidates sorted s := by
  unfold candidates
  have gen : ∀ (l : List Row), (∀ r ∈ l, r ∈ sorted) →
      l.filterMap (fun row => expandRoma row (s.map toKata)) = l.filterMap (fun row => expandRoma row s) := by
    intro l
    induction l with
    | nil => intro _; rfl
    | cons row t ih =>
      intro hsub
      obtain ⟨a, b, c⟩ := row_facts sorted hk row (hsub row (by simp))
      simp only [List.filterMap_cons, expandRoma_toKata row s hs a b c,
        ih (fun r hr => hsub r (List.mem_cons_of_mem _ hr))]
  exact gen sorted (fun r hr => hr)

theorem lower_toKata (c : Nat) (h : asciiAlnum c = true) : toKata c = c := by
  unfold toKata
  have : plainHira c = false := by
    simp only [asciiAlnum, Bool.or_eq_true, Bool.and_eq_true, Nat.ble_eq] at h
    cases hp : plainHira c with
    | false => rfl
    | true =>
      simp only [plainHira, Bool.and_eq_true, Nat.ble_eq] at hp
      omega
  simp [this]

theorem toRomaSequence_toKata (sorted : List Row) (hk : kataTableOk sorted = true)
    (hcov : singleKanaCovered sorted = true) (s : Str) (hs : ∀ c ∈ s, okChar c = true) :
    toRomaSequence sorted (s.map toKata) =
      ((toRomaSequence sorted s).1, (toRomaSequence sorted s).2.map toKata) := by
  unfold toRomaSequence
  rw [candidates_toKata sorted hk s hs]
  cases hp : pickBest none (candidates sorted s) with
  | some p =>
    obtain ⟨v, len⟩ := p
    simp only [List.map_drop]
  | none =>
    simp only
    have hnil := pickBest_none_nil _ hp
    cases s with
    | nil => simp
    | cons c t =>
      have hc := hs c (by simp)
      have hnp : plainHira c ≠ true := fun hpc => candidates_ne_nil_of_plainHira sorted hcov c t hpc hnil
      have ha : asciiAlnum c = true := by
        simp only [okChar, Bool.or_eq_true] at hc
        rcases hc with hc | hc
        · exact hc
        · exact absurd hc hnp
      simp [lower_toKata c ha]

theorem convFuel_toKata (sorted : List Row) (hk : kataTableOk sorted = true)
    (hcov : singleKanaCovered sorted = true) :
    ∀ (fuel : Nat) (s : Str), (∀ c ∈ s, okChar c = true) →
      convFuel sorted fuel (s.map toKata) = convFuel sorted fuel s
  | _, [], _ => by simp [convFuel]
  | 0, _ :: _, _ => by simp [convFuel]
  | fuel + 1, a :: t, hs => by
    have hseq := toRomaSequence_toKata sorted hk hcov (a :: t) hs
    simp only [List.map_cons] at hseq ⊢
    rw [convFuel, convFuel]
    simp only
    rw [hseq]
    simp only
    rw [convFuel_toKata sorted hk hcov fuel _
      (fun c hc => hs c (toRomaSequence_rest_sub sorted (a :: t) c hc))]

theorem toKata_not_mark (c : Nat) (h : okChar c = true) : toKata c ≠ 0x3099 ∧ toKata c ≠ 0x309A := by
  rcases toKata_cases c h with ⟨hp, hk⟩ | ⟨_, hlt, hk⟩
  · simp only [plainHira, Bool.and_eq_true, Nat.ble_eq] at hp; omega
  · omega

/-- **Katakana input converts exactly like its hiragana** (for every string of the client's class). -/
theorem convert_toKata (table : List Row) (hk : kataTableOk (sortTable table) = true)
    (hcov : singleKanaCovered (sortTable table) = true) (s : Str) (hs : ∀ c ∈ s, okChar c = true) :
    convert table (s.map toKata) = convert table s := by
  unfold convert
  rw [nfcKana_id s (fun c hc => okChar_not_mark c (hs c hc)),
    nfcKana_id (s.map toKata) (by
      intro c hc
      obtain ⟨x, hx, rfl⟩ := List.mem_map.1 hc
      exact toKata_not_mark x (hs x hx))]
  simp only [List.length_map]
  exact convFuel_toKata (sortTable table) hk hcov _ s hs

/-! ### NFD-decomposed input -/

def isMark (c : Nat) : Bool := Nat.beq c 0x3099 || Nat.beq c 0x309A

/-- what `decompKana` does to one character, as a checkable predicate -/
def decompOk (c : Nat) : Bool :=
  match decompKana c with
  | [x] => Nat.beq x c && !isMark c
  | [b, m] => (match composeKana b m with | some r => Nat.beq r c | none => false) && !isMark b
  | _ => false

theorem decompOk_block : (List.range 0xC0).all (fun i => isMark (0x3040 + i) || decompOk (0x3040 + i)) = true := by
  decide +kernel

theorem decompOk_all (c : Nat) (h : isMark c = false) : decompOk c = true := by
  by_cases hr : 0x3040 ≤ c ∧ c < 0x3100
  · have := List.all_eq_true.1 decompOk_block (c - 0x3040) (List.mem_range.2 (by omega))
    rw [show 0x3040 + (c - 0x3040) = c by omega, h] at this
    simpa using this
  · unfold decompOk decompKana
    rw [if_neg hr]
    simp [Nat.beq_refl, h]

theorem composeKana_nonmark (a b : Nat) (h : isMark b = false) : composeKana a b = none := by
  simp only [isMark, Bool.or_eq_false_iff, nbeq_false] at h
  simp [composeKana, h.1, h.2]

theorem nfcKana_cons_nonmark (a : Nat) (rest : Str) (h : ∀ b t, rest = b :: t → isMark b = false) :
    nfcKana (a :: rest) = a :: nfcKana rest := by
  cases rest with
  | nil => simp [nfcKana]
  | cons b t =>
    rw [nfcKana, composeKana_nonmark a b (h b t rfl)]

theorem decomp_head_nonmark (c : Nat) (h : isMark c = false) :
    ∀ b t, decompKana c = b :: t → isMark b = false := by
  have hok := decompOk_all c h
  unfold decompOk at hok
  intro b t hbt
  rw [hbt] at hok
  cases t with
  | nil =>
    simp only [Bool.and_eq_true, Bool.not_eq_true'] at hok
    rw [Nat.eq_of_beq_eq_true hok.1]; exact h
  | cons m t' =>
    cases t' with
    | nil =>
      simp only [Bool.and_eq_true, Bool.not_eq_true'] at hok
      exact hok.2
    | cons _ _ => simp at hok

theorem nfdKana_head_nonmark : ∀ (s : Str), (∀ c ∈ s, isMark c = false) →
    ∀ b t, nfdKana s = b :: t → isMark b = false
  | [], _, b, t, h => by simp [nfdKana] at h
  | c :: s', hs, b, t, h => by
    have hc := hs c (by simp)
    have hok := decompOk_all c hc
    unfold decompOk at hok
    simp only [nfdKana, List.flatMap_cons] at h
    cases hd : decompKana c with
    | nil => rw [hd] at hok; simp at hok
    | cons b' t' =>
      rw [hd] at h
      simp only [List.cons_append, List.cons.injEq] at h
      rw [← h.1]
      exact decomp_head_nonmark c hc b' t' hd

/-- **Composing the decomposition gives the string back** (for strings without free-standing marks). -/
theorem nfc_nfd : ∀ (s : Str), (∀ c ∈ s, isMark c = false) → nfcKana (nfdKana s) = s
  | [], _ => rfl
  | c :: s', hs => by
    have hc := hs c (by simp)
    have hs' : ∀ x ∈ s', isMark x = false := fun x hx => hs x (List.mem_cons_of_mem _ hx)
    have ih := nfc_nfd s' hs'
    have hhead := nfdKana_head_nonmark s' hs'
    have hok := decompOk_all c hc
    unfold decompOk at hok
    show nfcKana (decompKana c ++ nfdKana s') = c :: s'
    cases hd : decompKana c with
    | nil => rw [hd] at hok; simp at hok
    | cons b t =>
      rw [hd] at hok
      cases t with
      | nil =>
        simp only [Bool.and_eq_true] at hok
        rw [Nat.eq_of_beq_eq_true hok.1]
        simp only [List.cons_append, List.nil_append]
        rw [nfcKana_cons_nonmark c _ hhead, ih]
      | cons m t' =>
        cases t' with
        | cons _ _ => simp at hok
        | nil =>
          simp only [List.cons_append, List.nil_append]
          cases hcomp : composeKana b m with
          | none => simp [hcomp] at hok
          | some r =>
            simp only [hcomp, Bool.and_eq_true] at hok
            rw [nfcKana, hcomp]
            simp only
            rw [Nat.eq_of_beq_eq_true hok.1, ih]

theorem okChar_isMark (c : Nat) (h : okChar c = true) : isMark c = false := by
  have := okChar_not_mark c h
  simp only [isMark, Bool.or_eq_false_iff, nbeq_false]; exact this

/-- **NFD-decomposed input converts exactly like the composed input.** -/
theorem convert_nfd (table : List Row) (s : Str) (hs : ∀ c ∈ s, isMark c = false) :
    convert table (nfdKana s) = convert table s := by
  unfold convert
  rw [nfc_nfd s hs]
  have : nfcKana s = s := nfcKana_id s (by
    intro c hc
    have := hs c hc
    simpa [isMark, Bool.or_eq_false_iff, nbeq_false] using this)
  rw [this]

end Chokan.KanaAlpha
