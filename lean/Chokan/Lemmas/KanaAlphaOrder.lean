/-
C17: the conversion keeps ASCII letters and digits in place and order, and unfolds unit by unit.
-/
import Chokan.Lemmas.KanaAlpha

namespace Chokan.KanaAlpha

/-- Table fact: kana columns are non-empty, of equal length, and contain no ASCII letter or digit. -/
def kanaColumnsOk (sorted : List Row) : Bool :=
  sorted.all fun r => !r.1.isEmpty && Nat.beq r.2.1.length r.1.length &&
    r.1.all (fun c => !asciiAlnum c) && r.2.1.all (fun c => !asciiAlnum c)

theorem startsWith_take : ∀ (s p : Str), startsWith s p = true → s.take p.length = p
  | _, [], _ => by simp
  | [], _ :: _, h => by simp [startsWith] at h
  | a :: as, b :: bs, h => by
    simp only [startsWith, Bool.and_eq_true] at h
    simp only [List.length_cons, List.take_succ_cons]
    rw [Nat.eq_of_beq_eq_true h.1, startsWith_take as bs h.2]

theorem stripSokuons_spec : ∀ s : Str, ∃ pre, s = pre ++ (stripSokuons s).2 ∧ pre.length = (stripSokuons s).1 ∧
    ∀ x ∈ pre, isSokuon x = true
  | [] => ⟨[], by simp [stripSokuons]⟩
  | c :: t => by
    unfold stripSokuons
    by_cases hc : isSokuon c = true
    · obtain ⟨pre, h1, h2, h3⟩ := stripSokuons_spec t
      simp only [hc, if_true]
      refine ⟨c :: pre, by rw [List.cons_append, ← h1], by simp [h2], ?_⟩
      intro x hx
      rcases List.mem_cons.1 hx with rfl | hx
      · exact hc
      · exact h3 x hx
    · simp only [hc, Bool.false_eq_true, if_false]
      exact ⟨[], by simp⟩

theorem sokuon_not_alnum (x : Nat) (h : isSokuon x = true) : asciiAlnum x = false := by
  simp only [isSokuon, Bool.or_eq_true] at h
  rcases h with h | h <;> (have := Nat.eq_of_beq_eq_true h; subst this; decide)

/-- What a candidate consumes contains no ASCII letter or digit. -/
theorem candidate_consumes (sorted : List Row) (hk : kanaColumnsOk sorted = true) (s : Str) (c : Str × Nat)
    (h : c ∈ candidates sorted s) : ∀ x ∈ s.take c.2, asciiAlnum x = false := by
  unfold candidates at h
  obtain ⟨row, hrow, he⟩ := List.mem_filterMap.1 h
  have hr := List.all_eq_true.1 hk row hrow
  simp only [Bool.and_eq_true, Bool.not_eq_true', List.all_eq_true] at hr
  obtain ⟨⟨⟨hne, hlen⟩, hh⟩, hkk⟩ := hr
  have hlen' : row.2.1.length = row.1.length := Nat.eq_of_beq_eq_true hlen
  have hne1 : row.1 ≠ [] := by intro hh'; simp [hh'] at hne
  have hne2 : row.2.1 ≠ [] := by
    intro hh'; rw [hh'] at hlen'; simp at hlen'
    exact hne1 (List.eq_nil_of_length_eq_zero hlen'.symm)
  -- whichever column matched, the matched stretch is that column
  have hcol : ∀ (r : Str), (startsWith r row.1 || startsWith r row.2.1) = true →
      ∀ x ∈ r.take row.1.length, asciiAlnum x = false := by
    intro r hsw x hx
    simp only [Bool.or_eq_true] at hsw
    rcases hsw with hsw | hsw
    · rw [startsWith_take r row.1 hsw] at hx
      simpa using hh x hx
    · rw [← hlen', startsWith_take r row.2.1 hsw] at hx
      simpa using hkk x hx
  unfold expandRoma at he
  split at he
  · next hcond =>
    simp only [Option.some.injEq] at he; subst he
    simp only [Bool.and_eq_true] at hcond
    intro x hx
    have h1 : 1 ≤ row.1.length := by
      cases hq : row.1 with
      | nil => exact absurd hq hne1
      | cons a t => simp
    have : x ∈ s.take row.1.length := by
      cases s with
      | nil => simp at hx
      | cons a t =>
        simp only [List.take_succ_cons, List.take_zero, List.mem_singleton] at hx
        subst hx
        obtain ⟨m, hm⟩ : ∃ m, row.1.length = m + 1 := ⟨row.1.length - 1, by omega⟩
        rw [hm, List.take_succ_cons]; simp
    exact hcol s hcond.2 x this
  · obtain ⟨hcond, he⟩ := expandUnit_some row s c he
    subst he
    obtain ⟨pre, h1, h2, h3⟩ := stripSokuons_spec s
    intro x hx
    simp only at hx
    generalize hn : (stripSokuons s).1 = n at hx h2
    generalize hrr : (stripSokuons s).2 = r at h1 hcond
    rw [h1, ← h2, Nat.add_comm, List.take_length_add_append] at hx
    rcases List.mem_append.1 hx with hx | hx
    · exact sokuon_not_alnum x (h3 x hx)
    · exact hcol _ hcond x hx

/-- The ASCII letters and digits of a string, lower-cased, in order. -/
def asciiPart (s : Str) : Str := (s.filter asciiAlnum).map lower

theorem asciiPart_drop (s : Str) (n : Nat) (h : ∀ x ∈ s.take n, asciiAlnum x = false) :
    asciiPart (s.drop n) = asciiPart s := by
  have : s.filter asciiAlnum = (s.drop n).filter asciiAlnum := by
    conv => lhs; rw [← List.take_append_drop n s]
    rw [List.filter_append]
    have : (s.take n).filter asciiAlnum = [] := by
      rw [List.filter_eq_nil_iff]
      intro x hx; simp [h x hx]
    rw [this, List.nil_append]
  simp [asciiPart, this]

/-- **ASCII letters and digits stay in place and order** (as a subsequence of the output). -/
theorem convFuel_keeps_ascii (sorted : List Row) (hk : kanaColumnsOk sorted = true) :
    ∀ (fuel : Nat) (s out : Str), convFuel sorted fuel s = some out → List.Sublist (asciiPart s) out
  | _, [], out, h => by
    unfold convFuel at h; simp at h; subst h; simp [asciiPart]
  | 0, _ :: _, _, h => by simp [convFuel] at h
  | fuel + 1, a :: t, out, h => by
    unfold convFuel at h
    cases hr : toRomaSequence sorted (a :: t) with
    | mk v rest =>
      simp only [hr] at h
      cases ho : convFuel sorted fuel rest with
      | none => simp [ho] at h
      | some o =>
        simp [ho] at h; subst h
        have ih := convFuel_keeps_ascii sorted hk fuel rest o ho
        unfold toRomaSequence at hr
        split at hr
        · next v' len hp =>
          simp only [Prod.mk.injEq] at hr
          obtain ⟨rfl, rfl⟩ := hr
          rcases pickBest_mem _ none _ hp (v', len) rfl with hm | hm
          · cases hm
          · have hcons := candidate_consumes sorted hk (a :: t) (v', len) hm
            rw [asciiPart_drop (a :: t) len hcons] at ih
            exact List.Sublist.trans ih (List.sublist_append_right _ _)
        · simp only [Prod.mk.injEq] at hr
          obtain ⟨rfl, rfl⟩ := hr
          simp only [List.take_succ_cons, List.take_zero, List.map_cons, List.map_nil, List.drop_succ_cons,
            List.drop_zero, List.cons_append, List.nil_append] at ih ⊢
          by_cases ha : asciiAlnum a = true
          · have : asciiPart (a :: t) = lower a :: asciiPart t := by simp [asciiPart, ha]
            rw [this]
            exact List.Sublist.cons_cons _ ih
          · have : asciiPart (a :: t) = asciiPart t := by simp [asciiPart, ha]
            rw [this]
            exact List.Sublist.cons _ ih

/-- Fuel independence. -/
theorem convFuel_fuel (sorted : List Row) (hne : hiraNonEmpty sorted = true) :
    ∀ (f1 f2 : Nat) (s : Str), s.length < f1 → s.length < f2 → convFuel sorted f1 s = convFuel sorted f2 s
  | _, _, [], _, _ => by unfold convFuel; rfl
  | 0, _, _ :: _, h, _ => by simp at h
  | _, 0, _ :: _, _, h => by simp at h
  | f1 + 1, f2 + 1, a :: t, h1, h2 => by
    have hp := toRomaSequence_progress sorted hne (a :: t) (by simp)
    unfold convFuel
    cases hr : toRomaSequence sorted (a :: t) with
    | mk v rest =>
      simp only
      rw [hr] at hp
      rw [convFuel_fuel sorted hne f1 f2 rest (by simp only [List.length_cons] at h1 hp; omega)
        (by simp only [List.length_cons] at h2 hp; omega)]

end Chokan.KanaAlpha
