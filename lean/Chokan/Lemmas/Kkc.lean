/-
Lemmas about the lattice / search model (C01 C02 C03 C06 C16 C20).
-/
import Chokan.Model.Kkc
import Chokan.Gen.Kkc

namespace Chokan.Kkc
open Chokan.Dic

theorem beqStr_iff : ∀ (a b : Str), beqStr a b = true ↔ a = b
  | [], [] => by simp [beqStr]
  | [], _ :: _ => by simp [beqStr]
  | _ :: _, [] => by simp [beqStr]
  | x :: xs, y :: ys => by simp [beqStr, beqStr_iff xs ys]

/-! ### dictionary look-up -/

theorem findMap_sound : ∀ (m : List (Str × List Word)) (key : Str) (ws : List Word),
    findMap key m = some ws → (key, ws) ∈ m
  | [], _, _, h => by simp [findMap] at h
  | (k, v) :: t, key, ws, h => by
    unfold findMap at h
    split at h
    · next hb =>
      simp only [Option.some.injEq] at h; subst h
      rw [(beqStr_iff _ _).1 hb]; exact List.mem_cons_self
    · exact List.mem_cons_of_mem _ (findMap_sound t key ws h)

/-- A word returned for `key` is stored under exactly that key, and the trie reports the key. -/
theorem lookup_sound (trie : List Str) (m : List (Str × List Word)) (key : Str) (w : Word)
    (h : w ∈ lookup trie m key) : key ∈ trie ∧ ∃ ws, (key, ws) ∈ m ∧ w ∈ ws := by
  unfold lookup at h
  split at h
  · next ht =>
    obtain ⟨k, hk, hb⟩ := List.any_eq_true.1 ht
    have : key = k := (beqStr_iff _ _).1 hb
    subst this
    cases hf : findMap key m with
    | none => simp [hf] at h
    | some ws =>
      simp [hf] at h
      exact ⟨hk, ws, findMap_sound m key ws hf, h⟩
  · cases h

/-! ### scores -/

theorem Score.add_none_left (b : Score) : Score.add none b = none := by cases b <;> rfl
theorem Score.add_none_right (a : Score) : Score.add a none = none := by cases a <;> rfl

/-- One Viterbi step: `bestScore` is the maximum of the connectable predecessor scores. -/
def stepScore (t : Tables) (ctx : Ctx) (f : Freq) (cur p : Node) : Score :=
  Score.add (Score.add p.fwd (nodeScore t ctx f cur)) (edgeScore t ctx p cur)

theorem foldl_best_ge (t : Tables) (ctx : Ctx) (f : Freq) (cur : Node) :
    ∀ (prevs : List Node) (init : Score) (x : Nat),
      (init = some x ∨ ∃ p ∈ prevs, stepScore t ctx f cur p = some x) →
      ∃ y, prevs.foldl (fun best p =>
        let sc := stepScore t ctx f cur p
        if Score.gt sc best then sc else best) init = some y ∧ x ≤ y
  | [], init, x, h => by
    rcases h with h | ⟨p, hp, _⟩
    · exact ⟨x, by simpa using h, Nat.le_refl _⟩
    · cases hp
  | q :: qs, init, x, h => by
    simp only [List.foldl_cons]
    rcases h with h | ⟨p, hp, hs⟩
    · subst h
      cases hq : stepScore t ctx f cur q with
      | none =>
        simp only [Score.gt]
        exact foldl_best_ge t ctx f cur qs (some x) x (Or.inl rfl)
      | some v =>
        simp only [Score.gt]
        by_cases hv : x < v
        · simp only [hv, decide_true, if_true]
          obtain ⟨y, hy, hle⟩ := foldl_best_ge t ctx f cur qs (some v) v (Or.inl rfl)
          exact ⟨y, hy, by omega⟩
        · simp only [hv, decide_false]
          exact foldl_best_ge t ctx f cur qs (some x) x (Or.inl rfl)
    · rcases List.mem_cons.1 hp with rfl | hp
      · rw [hs]
        cases init with
        | none =>
          simp only [Score.gt, if_true]
          exact foldl_best_ge t ctx f cur qs (some x) x (Or.inl rfl)
        | some i =>
          simp only [Score.gt]
          by_cases hv : i < x
          · simp only [hv, decide_true, if_true]
            exact foldl_best_ge t ctx f cur qs (some x) x (Or.inl rfl)
          · simp only [hv, decide_false]
            obtain ⟨y, hy, hle⟩ := foldl_best_ge t ctx f cur qs (some i) i (Or.inl rfl)
            exact ⟨y, hy, by omega⟩
      · exact foldl_best_ge t ctx f cur qs _ x (Or.inr ⟨p, hp, hs⟩)

theorem foldl_best_mem (t : Tables) (ctx : Ctx) (f : Freq) (cur : Node) :
    ∀ (prevs : List Node) (init : Score) (y : Nat),
      prevs.foldl (fun best p =>
        let sc := stepScore t ctx f cur p
        if Score.gt sc best then sc else best) init = some y →
      init = some y ∨ ∃ p ∈ prevs, stepScore t ctx f cur p = some y
  | [], init, y, h => Or.inl (by simpa using h)
  | q :: qs, init, y, h => by
    simp only [List.foldl_cons] at h
    rcases foldl_best_mem t ctx f cur qs _ y h with h1 | ⟨p, hp, hs⟩
    · split at h1
      · exact Or.inr ⟨q, List.mem_cons_self, h1⟩
      · exact Or.inl h1
    · exact Or.inr ⟨p, List.mem_cons_of_mem _ hp, hs⟩

end Chokan.Kkc
