/-
The backward A* search is best-first and optimal (C02).

With the forward scores exact Viterbi steps (`FwdOK`), the priority of a partial chain bounds the
score of every complete chain it is a suffix of, and children never have a greater priority than their
parent.  With the heap a max-heap (`KkcHeap`), complete chains therefore leave the heap in
non-increasing order of score, and every complete chain not yet output is still represented in the
heap by one of its suffixes.
-/
import Chokan.Lemmas.KkcHeap
import Chokan.Lemmas.KkcForward

namespace Chokan.Kkc
open Chokan.Dic

/-! ### score arithmetic -/

theorem Score.add_eq_some (x y : Score) (z : Nat) :
    Score.add x y = some z ↔ ∃ a b, x = some a ∧ y = some b ∧ z = a + b := by
  cases x <;> cases y <;> simp [Score.add]
  constructor
  · intro h; exact h.symm
  · intro h; exact h.symm

theorem Score.zero_add (x : Score) : Score.add (some 0) x = x := by
  cases x <;> simp [Score.add]

theorem Score.add_zero (x : Score) : Score.add x (some 0) = x := by
  cases x <;> simp [Score.add]

theorem Score.add_assoc (x y z : Score) : Score.add (Score.add x y) z = Score.add x (Score.add y z) := by
  cases x <;> cases y <;> cases z <;> simp [Score.add, Nat.add_assoc]

/-! ### chains -/

/-- Consecutive nodes are linked by `previous` (no condition on the last node). -/
def Linked (g : Graph) : List Node → Prop
  | [] => True
  | [_] => True
  | a :: b :: rest => a ∈ previous g b ∧ Linked g (b :: rest)

/-- The node is the sentence start or a node of the lattice. -/
def Known (g : Graph) (v : Node) : Prop := v = .bos ∨ ∃ (j : Nat) (l : List Node), g[j]? = some l ∧ v ∈ l

theorem mem_getD_known (g : Graph) (k : Nat) (p : Node) (h : p ∈ g.getD k []) : Known g p := by
  right
  rw [List.getD_eq_getElem?_getD] at h
  cases hk : g[k]? with
  | none => simp [hk] at h
  | some l => simp [hk] at h; exact ⟨k, l, hk, h⟩

theorem mem_previous_known (g : Graph) (b p : Node) (h : p ∈ previous g b) : Known g p := by
  cases b with
  | bos => simp [previous] at h
  | eos =>
    simp only [previous] at h
    split at h
    · simp at h; exact Or.inl h
    · exact mem_getD_known g _ p h
  | word e i w fw =>
    simp only [previous] at h
    split at h
    · simp at h; exact Or.inl h
    · exact mem_getD_known g _ p h
  | virt e i s fw =>
    simp only [previous] at h
    split at h
    · simp at h; exact Or.inl h
    · exact mem_getD_known g _ p h

theorem pathScore_cons2 (t : Tables) (ctx : Ctx) (f : Freq) (a b : Node) (rest : List Node) :
    pathScore t ctx f (a :: b :: rest) =
      Score.add (Score.add (edgeScore t ctx a b) (nodeScore t ctx f b)) (pathScore t ctx f (b :: rest)) := rfl

theorem pathScore_split (t : Tables) (ctx : Ctx) (f : Freq) : ∀ (pre : List Node) (cur : Node) (rest : List Node),
    pathScore t ctx f (pre ++ cur :: rest) =
      Score.add (pathScore t ctx f (pre ++ [cur])) (pathScore t ctx f (cur :: rest))
  | [], cur, rest => by simp [pathScore, Score.zero_add]
  | [a], cur, rest => by
    simp only [List.cons_append, List.nil_append, pathScore_cons2]
    simp [pathScore, Score.add_zero]
  | a :: b :: pre, cur, rest => by
    have ih := pathScore_split t ctx f (b :: pre) cur rest
    simp only [List.cons_append, pathScore_cons2] at ih ⊢
    rw [ih]; exact (Score.add_assoc _ _ _).symm

theorem isChain_split (g : Graph) : ∀ (pre : List Node) (cur : Node) (rest : List Node),
    IsChain g (pre ++ cur :: rest) → IsChain g (cur :: rest) ∧ Linked g (pre ++ [cur])
  | [], cur, rest, h => ⟨h, trivial⟩
  | [a], cur, rest, h => by
    simp only [List.cons_append, List.nil_append, IsChain] at h
    exact ⟨h.2, h.1, trivial⟩
  | a :: b :: pre, cur, rest, h => by
    simp only [List.cons_append, IsChain] at h
    have ih := isChain_split g (b :: pre) cur rest h.2
    exact ⟨ih.1, h.1, ih.2⟩

/-- The stored forward score bounds every connectable path from a node whose score is known. -/
theorem walk_bound (t : Tables) (ctx : Ctx) (f : Freq) (g : Graph) (hF : FwdOK t ctx f g) :
    ∀ (L : List Node) (u : Node) (a0 b0 a : Nat), u.fwd = some b0 → a0 ≤ b0 → Linked g (u :: L) →
      (∀ v ∈ L, Known g v) → pathScore t ctx f (u :: L) = some a →
      ∃ b, ((u :: L).getLast (by simp)).fwd = some b ∧ a0 + a ≤ b
  | [], u, a0, b0, a, hu, hle, _, _, hp => by
    simp only [pathScore, Option.some.injEq] at hp
    subst hp
    exact ⟨b0, by simpa using hu, by omega⟩
  | v :: L, u, a0, b0, a, hu, hle, hl, hk, hp => by
    simp only [Linked] at hl
    rw [pathScore_cons2] at hp
    obtain ⟨w, a', hw, ha', rfl⟩ := (Score.add_eq_some _ _ _).1 hp
    obtain ⟨e, nv, he, hnv, rfl⟩ := (Score.add_eq_some _ _ _).1 hw
    -- the step from `u` is one of the candidates of the Viterbi maximum at `v`
    have hstep : stepScore t ctx f v u = some (b0 + nv + e) := by
      simp [stepScore, hu, hnv, he, Score.add]
    have hvf : ∃ b1, v.fwd = some b1 ∧ b0 + nv + e ≤ b1 := by
      rcases hk v List.mem_cons_self with hb | ⟨j, l, hj, hvl⟩
      · subst hb; simp [previous] at hl
      · rw [hF j l hj v hvl]
        exact foldl_best_ge t ctx f v (previous g v) none _ (Or.inr ⟨u, hl.1, hstep⟩)
    obtain ⟨b1, hb1, hle1⟩ := hvf
    obtain ⟨b, hb, hle2⟩ := walk_bound t ctx f g hF L v (a0 + (e + nv)) b1 a' hb1 (by omega) hl.2
      (fun x hx => hk x (List.mem_cons_of_mem _ hx)) ha'
    refine ⟨b, by simpa using hb, by omega⟩

theorem linked_known (g : Graph) : ∀ (L : List Node) (z : Node), Linked g (L ++ [z]) → ∀ v ∈ L, Known g v
  | [], _, _, v, hv => by cases hv
  | [a], z, h, v, hv => by
    simp only [List.cons_append, List.nil_append, Linked] at h
    simp only [List.mem_singleton] at hv; subst hv
    exact mem_previous_known g z v h.1
  | a :: b :: L, z, h, v, hv => by
    simp only [List.cons_append, Linked] at h
    rcases List.mem_cons.1 hv with rfl | hv
    · exact mem_previous_known g b v h.1
    · exact linked_known g (b :: L) z h.2 v hv

theorem linked_append_left (g : Graph) : ∀ (L1 L2 : List Node), Linked g (L1 ++ L2) → Linked g L1
  | [], _, _ => trivial
  | [a], _, _ => trivial
  | a :: b :: L1, L2, h => by
    simp only [List.cons_append, Linked] at h ⊢
    exact ⟨h.1, linked_append_left g (b :: L1) L2 h.2⟩

/-! ### what `expand` adds -/

/-- The successor of candidate `c` (whose chain starts with `cur`) through the predecessor `p`. -/
def IsChild (t : Tables) (ctx : Ctx) (f : Freq) (c : Cand) (cur p : Node) (x : Cand) : Prop :=
  ∃ next prio, Score.add (Score.add (edgeScore t ctx p cur) (nodeScore t ctx f cur)) (some c.score) = some next ∧
    Score.add (some next) p.fwd = some prio ∧ x = { chain := p :: c.chain, score := next, priority := prio }

def pushChild (t : Tables) (ctx : Ctx) (f : Freq) (c : Cand) (cur : Node) (h : Heap) (p : Node) : Heap :=
  match Score.add (Score.add (edgeScore t ctx p cur) (nodeScore t ctx f cur)) (some c.score) with
  | some next =>
    match Score.add (some next) p.fwd with
    | some prio => heapPush h { chain := p :: c.chain, score := next, priority := prio }
    | none => h
  | none => h

theorem expand_eq (t : Tables) (ctx : Ctx) (f : Freq) (g : Graph) (c : Cand) (h : Heap) (cur : Node)
    (rest : List Node) (hc : c.chain = cur :: rest) :
    expand t ctx f g c h = (previous g cur).foldl (pushChild t ctx f c cur) h := by
  unfold expand
  split
  · next h0 => rw [hc] at h0; cases h0
  · next cur' rest' h0 =>
    rw [hc] at h0
    have : cur = cur' := by injection h0
    subst this
    rfl

theorem pushChild_spec (t : Tables) (ctx : Ctx) (f : Freq) (c : Cand) (cur : Node) (h : Heap) (p : Node) :
    (HeapOK h → HeapOK (pushChild t ctx f c cur h p)) ∧
    ∀ x, x ∈ pushChild t ctx f c cur h p ↔ (x ∈ h ∨ IsChild t ctx f c cur p x) := by
  cases h1 : Score.add (Score.add (edgeScore t ctx p cur) (nodeScore t ctx f cur)) (some c.score) with
  | none =>
    have he : pushChild t ctx f c cur h p = h := by simp only [pushChild, h1]
    rw [he]
    refine ⟨id, fun x => ⟨Or.inl, ?_⟩⟩
    rintro (hx | ⟨n', p', hn, _, _⟩)
    · exact hx
    · rw [h1] at hn; cases hn
  | some next =>
    cases h2 : Score.add (some next) p.fwd with
    | none =>
      have he : pushChild t ctx f c cur h p = h := by simp only [pushChild, h1, h2]
      rw [he]
      refine ⟨id, fun x => ⟨Or.inl, ?_⟩⟩
      rintro (hx | ⟨n', p', hn, hp, _⟩)
      · exact hx
      · rw [h1] at hn
        have : next = n' := Option.some.inj hn
        subst this
        rw [h2] at hp; cases hp
    | some prio =>
      have he : pushChild t ctx f c cur h p =
          heapPush h { chain := p :: c.chain, score := next, priority := prio } := by
        simp only [pushChild, h1, h2]
      rw [he]
      refine ⟨heapPush_ok h _, ?_⟩
      intro x
      rw [heapPush_mem]
      constructor
      · rintro (hx | hx)
        · exact Or.inl hx
        · exact Or.inr ⟨next, prio, h1, h2, hx⟩
      · rintro (hx | ⟨n', p', hn, hp, hx⟩)
        · exact Or.inl hx
        · rw [h1] at hn
          have : next = n' := Option.some.inj hn
          subst this
          rw [h2] at hp
          have : prio = p' := Option.some.inj hp
          subst this
          exact Or.inr hx

theorem foldl_pushChild (t : Tables) (ctx : Ctx) (f : Freq) (c : Cand) (cur : Node) :
    ∀ (ps : List Node) (h : Heap),
      (HeapOK h → HeapOK (ps.foldl (pushChild t ctx f c cur) h)) ∧
      ∀ x, x ∈ ps.foldl (pushChild t ctx f c cur) h ↔ (x ∈ h ∨ ∃ p ∈ ps, IsChild t ctx f c cur p x)
  | [], h => by simp
  | p :: ps, h => by
    obtain ⟨h1, h2⟩ := pushChild_spec t ctx f c cur h p
    obtain ⟨i1, i2⟩ := foldl_pushChild t ctx f c cur ps (pushChild t ctx f c cur h p)
    simp only [List.foldl_cons]
    refine ⟨fun hh => i1 (h1 hh), ?_⟩
    intro x
    rw [i2 x, h2 x]
    constructor
    · rintro ((hx | hx) | ⟨q, hq, hx⟩)
      · exact Or.inl hx
      · exact Or.inr ⟨p, List.mem_cons_self, hx⟩
      · exact Or.inr ⟨q, List.mem_cons_of_mem _ hq, hx⟩
    · rintro (hx | ⟨q, hq, hx⟩)
      · exact Or.inl (Or.inl hx)
      · rcases List.mem_cons.1 hq with rfl | hq
        · exact Or.inl (Or.inr hx)
        · exact Or.inr ⟨q, hq, hx⟩

theorem expand_spec (t : Tables) (ctx : Ctx) (f : Freq) (g : Graph) (c : Cand) (h : Heap) (cur : Node)
    (rest : List Node) (hc : c.chain = cur :: rest) :
    (HeapOK h → HeapOK (expand t ctx f g c h)) ∧
    ∀ x, x ∈ expand t ctx f g c h ↔ (x ∈ h ∨ ∃ p ∈ previous g cur, IsChild t ctx f c cur p x) := by
  rw [expand_eq t ctx f g c h cur rest hc]
  exact foldl_pushChild t ctx f c cur (previous g cur) h

/-! ### candidates in the heap -/

/-- A partial chain beyond the root `[eos]`, with its accumulated score and its priority
(accumulated score plus the forward score of its first node). -/
def CandOK (t : Tables) (ctx : Ctx) (f : Freq) (g : Graph) (x : Cand) : Prop :=
  ∃ cur nxt rest, x.chain = cur :: nxt :: rest ∧ IsChain g x.chain ∧
    pathScore t ctx f x.chain = some x.score ∧ Score.add (some x.score) cur.fwd = some x.priority

/-- A complete connectable path from `bos` to `eos` with score `s`. -/
def Complete (t : Tables) (ctx : Ctx) (f : Freq) (g : Graph) (C : List Node) (s : Nat) : Prop :=
  (∃ p, C = .bos :: p) ∧ IsChain g C ∧ pathScore t ctx f C = some s

def chainText (C : List Node) : Str := (C.map Node.text).flatten

theorem child_ok (t : Tables) (ctx : Ctx) (f : Freq) (g : Graph) (x y : Cand) (cur p : Node) (rest : List Node)
    (hx : CandOK t ctx f g x) (hc : x.chain = cur :: rest) (hp : p ∈ previous g cur)
    (hy : IsChild t ctx f x cur p y) : CandOK t ctx f g y := by
  obtain ⟨next, prio, h1, h2, rfl⟩ := hy
  obtain ⟨cur', nxt, rest', hc', hch, hps, _⟩ := hx
  rw [hc] at hc'
  refine ⟨p, cur, rest, by simp [hc], ?_, ?_, h2⟩
  · simp only [hc, IsChain]; rw [hc] at hch; exact ⟨hp, hch⟩
  · simp only [hc]
    rw [pathScore_cons2]
    rw [hc] at hps
    rw [hps]; exact h1

theorem child_le (t : Tables) (ctx : Ctx) (f : Freq) (g : Graph) (hF : FwdOK t ctx f g)
    (x y : Cand) (cur p : Node) (rest : List Node)
    (hx : CandOK t ctx f g x) (hc : x.chain = cur :: rest) (hp : p ∈ previous g cur)
    (hy : IsChild t ctx f x cur p y) : y.priority ≤ x.priority := by
  obtain ⟨next, prio, h1, h2, rfl⟩ := hy
  obtain ⟨cur', nxt, rest', hc', hch, _, hpr⟩ := hx
  rw [hc] at hc'
  have hcur : cur' = cur := by injection hc' with h _; exact h.symm
  subst hcur
  have hrest : rest = nxt :: rest' := by injection hc'
  -- `cur` is a lattice node (it has a predecessor), so its score is the Viterbi maximum
  have hknown : Known g cur' := by
    rw [hc, hrest] at hch
    simp only [IsChain] at hch
    exact mem_previous_known g nxt cur' hch.1
  obtain ⟨w, sc, hw, hsc, rfl⟩ := (Score.add_eq_some _ _ _).1 h1
  have hsc' : x.score = sc := Option.some.inj hsc
  obtain ⟨e, nv, he, hnv, rfl⟩ := (Score.add_eq_some _ _ _).1 hw
  obtain ⟨a1, pf, ha1, hpf, rfl⟩ := (Score.add_eq_some _ _ _).1 h2
  have ha1' : e + nv + sc = a1 := Option.some.inj ha1
  obtain ⟨a2, cf, ha2, hcf, hprio⟩ := (Score.add_eq_some _ _ _).1 hpr
  have ha2' : x.score = a2 := Option.some.inj ha2
  have hstep : stepScore t ctx f cur' p = some (pf + nv + e) := by
    simp [stepScore, hpf, hnv, he, Score.add]
  rcases hknown with hb | ⟨j, l, hj, hvl⟩
  · subst hb; simp [previous] at hp
  · have := hF j l hj cur' hvl
    rw [hcf] at this
    obtain ⟨y, hy, hle⟩ := foldl_best_ge t ctx f cur' (previous g cur') none _ (Or.inr ⟨p, hp, hstep⟩)
    rw [← bestScore_eq, ← this] at hy
    have : cf = y := Option.some.inj hy
    subst this
    show a1 + pf ≤ x.priority
    omega

theorem isChain_linked (g : Graph) : ∀ (l : List Node), IsChain g l → Linked g l
  | [], _ => trivial
  | [_], _ => trivial
  | a :: b :: l, h => ⟨h.1, isChain_linked g (b :: l) h.2⟩

/-- On a complete path, the forward score of a node with a successor bounds the score of the path
from `bos` up to it. -/
theorem prefix_fwd (t : Tables) (ctx : Ctx) (f : Freq) (g : Graph) (hF : FwdOK t ctx f g)
    (C : List Node) (s : Nat) (hC : Complete t ctx f g C s)
    (pre : List Node) (cur nxt : Node) (rest : List Node) (hsuf : C = pre ++ cur :: nxt :: rest) :
    ∃ a b bb, pathScore t ctx f (pre ++ [cur]) = some a ∧ pathScore t ctx f (cur :: nxt :: rest) = some b ∧
      s = a + b ∧ cur.fwd = some bb ∧ a ≤ bb := by
  obtain ⟨⟨p, hCb⟩, hCch, hCs⟩ := hC
  rw [hsuf, pathScore_split] at hCs
  obtain ⟨a, b, ha, hb, rfl⟩ := (Score.add_eq_some _ _ _).1 hCs
  rw [hsuf] at hCch
  obtain ⟨_, hlink⟩ := isChain_split g pre cur (nxt :: rest) hCch
  have hhead : ∃ L, pre ++ [cur] = .bos :: L := by
    cases pre with
    | nil =>
      simp only [List.nil_append] at hsuf
      rw [hCb] at hsuf
      have : Node.bos = cur := by injection hsuf
      exact ⟨[], by simp [this]⟩
    | cons q pre' =>
      rw [hCb] at hsuf
      simp only [List.cons_append] at hsuf
      have : Node.bos = q := by injection hsuf
      exact ⟨pre' ++ [cur], by simp [this]⟩
  obtain ⟨L, hL⟩ := hhead
  have hknown : ∀ v ∈ L, Known g v := by
    intro v hv
    have hall : Linked g ((pre ++ [cur]) ++ [nxt]) := by
      have := linked_append_left g (pre ++ [cur, nxt]) rest (by
        simpa using isChain_linked g _ hCch)
      simpa using this
    have hmem : v ∈ pre ++ [cur] := by rw [hL]; exact List.mem_cons_of_mem _ hv
    exact linked_known g (pre ++ [cur]) nxt hall v hmem
  have ha' := ha
  rw [hL] at hlink ha'
  obtain ⟨bb, hbb, hle⟩ := walk_bound t ctx f g hF L .bos 0 0 a rfl (Nat.le_refl _) hlink hknown ha'
  have hlast : ((Node.bos :: L).getLast (by simp)) = cur := by
    have : (pre ++ [cur]).getLast (by simp) = cur := by simp
    simp only [hL] at this
    exact this
  rw [hlast] at hbb
  exact ⟨a, b, bb, ha, hb, rfl, hbb, by omega⟩

/-- The priority of a candidate bounds the score of every complete path it is a suffix of. -/
theorem suffix_bound (t : Tables) (ctx : Ctx) (f : Freq) (g : Graph) (hF : FwdOK t ctx f g)
    (x : Cand) (C : List Node) (s : Nat) (hx : CandOK t ctx f g x) (hC : Complete t ctx f g C s)
    (pre : List Node) (hsuf : C = pre ++ x.chain) : s ≤ x.priority := by
  obtain ⟨cur, nxt, rest, hc, _, hps, hpr⟩ := hx
  rw [hc] at hsuf hps
  obtain ⟨a, b, bb, _, hb, rfl, hbb, hle⟩ := prefix_fwd t ctx f g hF C s hC pre cur nxt rest hsuf
  rw [hps] at hb
  have hb' : x.score = b := Option.some.inj hb
  rw [hbb] at hpr
  have : x.priority = x.score + bb := by
    simp only [Score.add, Option.some.injEq] at hpr; exact hpr.symm
  omega

/-- A candidate that is a proper suffix of a complete path has a child that is a longer suffix. -/
theorem suffix_pop (t : Tables) (ctx : Ctx) (f : Freq) (g : Graph) (hF : FwdOK t ctx f g)
    (x : Cand) (C : List Node) (s : Nat) (hps : pathScore t ctx f x.chain = some x.score)
    (hC : Complete t ctx f g C s)
    (pre : List Node) (hsuf : C = pre ++ x.chain) (cur : Node) (rest : List Node) (hc : x.chain = cur :: rest) :
    pre = [] ∨ ∃ pre' p0 y, p0 ∈ previous g cur ∧ IsChild t ctx f x cur p0 y ∧ C = pre' ++ y.chain := by
  rcases List.eq_nil_or_concat pre with h | ⟨pre', p0, h⟩
  · exact Or.inl h
  · right
    rw [List.concat_eq_append] at h
    have hsuf' : C = pre' ++ p0 :: cur :: rest := by rw [hsuf, h, hc]; simp
    obtain ⟨a, b, bb, _, hb, _, hbb, _⟩ := prefix_fwd t ctx f g hF C s hC pre' p0 cur rest hsuf'
    have hCch := hC.2.1
    rw [hsuf'] at hCch
    obtain ⟨hch2, _⟩ := isChain_split g pre' p0 (cur :: rest) hCch
    have hp0 : p0 ∈ previous g cur := by simp only [IsChain] at hch2; exact hch2.1
    rw [pathScore_cons2, ← hc, hps] at hb
    have hprio : Score.add (some b) p0.fwd = some (b + bb) := by simp [hbb, Score.add]
    refine ⟨pre', p0, { chain := p0 :: x.chain, score := b, priority := b + bb }, hp0,
      ⟨b, b + bb, hb, hprio, rfl⟩, ?_⟩
    rw [hsuf, h]; simp

/-- `bos` has no predecessor, so a chain that starts with `bos` is a suffix only of itself. -/
theorem bos_suffix (g : Graph) (pre r : List Node) (C : List Node) (hC : IsChain g C)
    (h : C = pre ++ .bos :: r) : pre = [] := by
  rcases List.eq_nil_or_concat pre with h0 | ⟨pre', p0, h0⟩
  · exact h0
  · rw [List.concat_eq_append] at h0
    rw [h, h0] at hC
    have : IsChain g (pre' ++ p0 :: .bos :: r) := by simpa using hC
    obtain ⟨hch, _⟩ := isChain_split g pre' p0 (.bos :: r) this
    simp [IsChain, previous] at hch

/-! ### the search loop -/

/-- `search` that reports when the fuel ran out before the loop ended by itself. -/
def searchE (t : Tables) (ctx : Ctx) (f : Freq) (g : Graph) (n : Nat) :
    Nat → Heap → List Cand → List Str → Option (List Cand)
  | 0, _, _, _ => none
  | fuel + 1, h, res, seen =>
    match heapPop h with
    | none => some res
    | some (c, h1) =>
      match c.chain with
      | .bos :: _ =>
        if memStr c.text seen then searchE t ctx f g n fuel h1 res seen
        else
          let res' := res ++ [c]
          if res'.length ≥ n then some res'
          else searchE t ctx f g n fuel (expand t ctx f g c h1) res' (c.text :: seen)
      | _ => searchE t ctx f g n fuel (expand t ctx f g c h1) res seen

theorem searchE_some (t : Tables) (ctx : Ctx) (f : Freq) (g : Graph) (n : Nat) :
    ∀ (fuel : Nat) (h : Heap) (res : List Cand) (seen : List Str) (R : List Cand),
      searchE t ctx f g n fuel h res seen = some R → search t ctx f g n fuel h res seen = R
  | 0, _, _, _, _, h => by simp [searchE] at h
  | fuel + 1, h, res, seen, R, hs => by
    unfold searchE at hs
    unfold search
    cases hp : heapPop h with
    | none => simp only [hp, Option.some.injEq] at hs ⊢; exact hs
    | some p =>
      obtain ⟨c, h1⟩ := p
      simp only [hp] at hs ⊢
      split
      · next r hchain =>
        simp only [hchain] at hs
        split
        · next hm => simp only [hm, if_true] at hs; exact searchE_some t ctx f g n fuel _ _ _ R hs
        · next hm =>
          simp only [hm, Bool.false_eq_true, if_false] at hs
          split
          · next hge => simp only [hge, if_true, Option.some.injEq] at hs; exact hs
          · next hge => simp only [hge, if_false] at hs; exact searchE_some t ctx f g n fuel _ _ _ R hs
      · next hnb =>
        split at hs
        · next r hchain => exact absurd hchain (hnb r)
        · exact searchE_some t ctx f g n fuel _ _ _ R hs

theorem heapPop_none (h : Heap) (hp : heapPop h = none) : ∀ x, x ∉ h := by
  unfold heapPop at hp
  cases hb : h.back? with
  | none =>
    have : h = #[] := Array.back?_eq_none_iff.1 hb
    subst this; intro x hx; simp at hx
  | some last =>
    simp only [hb] at hp
    split at hp
    · cases hp
    · split at hp <;> cases hp

structure SInv (t : Tables) (ctx : Ctx) (f : Freq) (g : Graph) (n : Nat)
    (h : Heap) (res : List Cand) (seen : List Str) : Prop where
  heap : HeapOK h
  cands : ∀ x ∈ h, CandOK t ctx f g x
  seenEq : ∀ x, x ∈ seen ↔ x ∈ res.map Cand.text
  len : res.length < n
  sorted : (res.map Cand.score).Pairwise (· ≥ ·)
  bound : ∀ r ∈ res, ∀ x ∈ h, x.priority ≤ r.score
  cover : ∀ C s, Complete t ctx f g C s → chainText C ∈ seen ∨ ∃ x ∈ h, ∃ pre, C = pre ++ x.chain
  best : ∀ r ∈ res, ∀ C s, Complete t ctx f g C s → chainText C ∈ res.map Cand.text ∨ s ≤ r.score

def SPost (t : Tables) (ctx : Ctx) (f : Freq) (g : Graph) (n : Nat) (R : List Cand) : Prop :=
  (R.map Cand.score).Pairwise (· ≥ ·) ∧
  ∀ C s, Complete t ctx f g C s → chainText C ∈ R.map Cand.text ∨ (n ≤ R.length ∧ ∀ r ∈ R, s ≤ r.score)

theorem complete_prio (t : Tables) (ctx : Ctx) (f : Freq) (g : Graph) (c : Cand) (r : List Node)
    (hc : CandOK t ctx f g c) (hchain : c.chain = .bos :: r) : c.priority = c.score := by
  obtain ⟨cur, nxt, rest, hc', _, _, hpr⟩ := hc
  rw [hchain] at hc'
  have : Node.bos = cur := by injection hc'
  subst this
  simp only [Node.fwd, Score.add, Option.some.injEq] at hpr
  omega

theorem astar (t : Tables) (ctx : Ctx) (f : Freq) (g : Graph) (n : Nat) (hF : FwdOK t ctx f g) :
    ∀ (fuel : Nat) (h : Heap) (res : List Cand) (seen : List Str) (R : List Cand),
      SInv t ctx f g n h res seen → searchE t ctx f g n fuel h res seen = some R → SPost t ctx f g n R
  | 0, _, _, _, _, _, hs => by simp [searchE] at hs
  | fuel + 1, h, res, seen, R, hI, hs => by
    unfold searchE at hs
    cases hp : heapPop h with
    | none =>
      simp only [hp, Option.some.injEq] at hs
      subst hs
      refine ⟨hI.sorted, ?_⟩
      intro C s hC
      rcases hI.cover C s hC with hseen | ⟨x, hx, _⟩
      · exact Or.inl ((hI.seenEq _).1 hseen)
      · exact absurd hx (heapPop_none h hp x)
    | some pr =>
      obtain ⟨c, h1⟩ := pr
      simp only [hp] at hs
      obtain ⟨hok1, hmax, hsup⟩ := heapPop_spec h c h1 hI.heap hp
      obtain ⟨hcin, hsub⟩ := heapPop_sub h c h1 hp
      have hcok := hI.cands c hcin
      obtain ⟨cur, nxt, rest, hcc, _, hpsc, _⟩ := id hcok
      obtain ⟨hexpok, hexpmem⟩ := expand_spec t ctx f g c h1 cur (nxt :: rest) hcc
      -- facts about the expanded heap shared by the branches
      have hcands2 : ∀ x ∈ expand t ctx f g c h1, CandOK t ctx f g x := by
        intro x hx
        rcases (hexpmem x).1 hx with hx | ⟨p, hp', hch⟩
        · exact hI.cands x (hsub x hx)
        · exact child_ok t ctx f g c x cur p (nxt :: rest) hcok hcc hp' hch
      have hbound2 : ∀ r ∈ res, ∀ x ∈ expand t ctx f g c h1, x.priority ≤ r.score := by
        intro r hr x hx
        rcases (hexpmem x).1 hx with hx | ⟨p, hp', hch⟩
        · exact hI.bound r hr x (hsub x hx)
        · have h1' := child_le t ctx f g hF c x cur p (nxt :: rest) hcok hcc hp' hch
          have h2' := hI.bound r hr c hcin
          omega
      split at hs
      · next r hchain =>
        -- a complete candidate
        have hprio : c.priority = c.score := complete_prio t ctx f g c r hcok hchain
        have hcover_c : ∀ C s, Complete t ctx f g C s → chainText C ∈ seen ∨ chainText C = c.text ∨
            ∃ x ∈ h1, ∃ pre, C = pre ++ x.chain := by
          intro C s hC
          rcases hI.cover C s hC with hseen | ⟨x, hx, pre, hpre⟩
          · exact Or.inl hseen
          · rcases hsup x hx with hxc | hx1
            · subst hxc
              rw [hchain] at hpre
              have := bos_suffix g pre r C hC.2.1 hpre
              subst this
              right; left
              simp only [List.nil_append] at hpre
              simp [chainText, Cand.text, hpre, hchain]
            · exact Or.inr (Or.inr ⟨x, hx1, pre, hpre⟩)
        by_cases hm : memStr c.text seen = true
        · simp only [hm, if_true] at hs
          apply astar t ctx f g n hF fuel h1 res seen R _ hs
          refine ⟨hok1, fun x hx => hI.cands x (hsub x hx), hI.seenEq, hI.len, hI.sorted,
            fun r hr x hx => hI.bound r hr x (hsub x hx), ?_, hI.best⟩
          intro C s hC
          rcases hcover_c C s hC with h1' | h2' | h3'
          · exact Or.inl h1'
          · exact Or.inl (by rw [h2']; exact (memStr_iff _ _).1 hm)
          · exact Or.inr h3'
        · simp only [hm, Bool.false_eq_true, if_false] at hs
          have hnotseen : c.text ∉ seen := fun hh => hm ((memStr_iff _ _).2 hh)
          have hsorted' : ((res ++ [c]).map Cand.score).Pairwise (· ≥ ·) := by
            rw [List.map_append, List.pairwise_append]
            refine ⟨hI.sorted, by simp, ?_⟩
            intro a ha b hb
            simp only [List.map_cons, List.map_nil, List.mem_singleton] at hb
            subst hb
            obtain ⟨r0, hr0, rfl⟩ := List.mem_map.1 ha
            have := hI.bound r0 hr0 c hcin
            show r0.score ≥ c.score
            omega
          have hbest_c : ∀ C s, Complete t ctx f g C s →
              chainText C ∈ (res ++ [c]).map Cand.text ∨ s ≤ c.score := by
            intro C s hC
            rcases hI.cover C s hC with hseen | ⟨x, hx, pre, hpre⟩
            · left
              rw [List.map_append, List.mem_append]
              exact Or.inl ((hI.seenEq _).1 hseen)
            · right
              have h1' := suffix_bound t ctx f g hF x C s (hI.cands x hx) hC pre hpre
              have h2' := hmax x hx
              omega
          have hbest' : ∀ r0 ∈ res ++ [c], ∀ C s, Complete t ctx f g C s →
              chainText C ∈ (res ++ [c]).map Cand.text ∨ s ≤ r0.score := by
            intro r0 hr0 C s hC
            rcases List.mem_append.1 hr0 with hr0 | hr0
            · rcases hI.best r0 hr0 C s hC with h1' | h2'
              · left; rw [List.map_append, List.mem_append]; exact Or.inl h1'
              · exact Or.inr h2'
            · simp only [List.mem_singleton] at hr0; subst hr0; exact hbest_c C s hC
          by_cases hge : (res ++ [c]).length ≥ n
          · simp only [hge, if_true, Option.some.injEq] at hs
            subst hs
            refine ⟨hsorted', ?_⟩
            intro C s hC
            by_cases hin : chainText C ∈ (res ++ [c]).map Cand.text
            · exact Or.inl hin
            · right
              refine ⟨hge, ?_⟩
              intro r0 hr0
              rcases hbest' r0 hr0 C s hC with h1' | h2'
              · exact absurd h1' hin
              · exact h2'
          · simp only [hge, if_false] at hs
            apply astar t ctx f g n hF fuel _ _ _ R _ hs
            refine ⟨hexpok hok1, hcands2, ?_, by simp at hge ⊢; omega, hsorted', ?_, ?_, hbest'⟩
            · intro x
              simp only [List.mem_cons, List.map_append, List.mem_append, List.map_cons, List.map_nil,
                List.not_mem_nil, or_false]
              rw [hI.seenEq x]
              constructor
              · rintro (h1' | h1')
                · exact Or.inr h1'
                · exact Or.inl h1'
              · rintro (h1' | h1')
                · exact Or.inr h1'
                · exact Or.inl h1'
            · intro r0 hr0 x hx
              rcases List.mem_append.1 hr0 with hr0 | hr0
              · exact hbound2 r0 hr0 x hx
              · simp only [List.mem_singleton] at hr0; subst hr0
                rcases (hexpmem x).1 hx with hx | ⟨p, hp', hch⟩
                · have := hmax x (hsub x hx); omega
                · have h1' := child_le t ctx f g hF r0 x cur p (nxt :: rest) hcok hcc hp' hch
                  omega
            · intro C s hC
              rcases hcover_c C s hC with h1' | h2' | ⟨x, hx, pre, hpre⟩
              · exact Or.inl (List.mem_cons_of_mem _ h1')
              · exact Or.inl (by rw [h2']; exact List.mem_cons_self)
              · exact Or.inr ⟨x, (hexpmem x).2 (Or.inl hx), pre, hpre⟩
      · next hnb =>
        -- a partial candidate: replace it by its children
        apply astar t ctx f g n hF fuel _ _ _ R _ hs
        refine ⟨hexpok hok1, hcands2, hI.seenEq, hI.len, hI.sorted, hbound2, ?_, hI.best⟩
        intro C s hC
        rcases hI.cover C s hC with hseen | ⟨x, hx, pre, hpre⟩
        · exact Or.inl hseen
        · right
          rcases hsup x hx with hxc | hx1
          · subst hxc
            rcases suffix_pop t ctx f g hF x C s hpsc hC pre hpre cur (nxt :: rest) hcc with h0 | ⟨pre', p0, y, hp0, hy, hCy⟩
            · -- then the candidate is the complete path itself, which starts with `bos`
              subst h0
              simp only [List.nil_append] at hpre
              obtain ⟨p, hCb⟩ := hC.1
              rw [hpre] at hCb
              exact absurd hCb (hnb p)
            · exact ⟨y, (hexpmem y).2 (Or.inr ⟨p0, hp0, hy⟩), pre', hCy⟩
          · exact ⟨x, (hexpmem x).2 (Or.inl hx1), pre, hpre⟩

/-! ### the whole search -/

def rootCand : Cand := { chain := [.eos], score := 0, priority := 0 }

def nBestE (t : Tables) (ctx : Ctx) (f : Freq) (g : Graph) (n fuel : Nat) : Option (List Cand) :=
  searchE t ctx f g n fuel (heapPush #[] rootCand) [] []

theorem nBestE_some (t : Tables) (ctx : Ctx) (f : Freq) (g : Graph) (n fuel : Nat) (R : List Cand)
    (h : nBestE t ctx f g n fuel = some R) : nBest t ctx f g n fuel = R :=
  searchE_some t ctx f g n fuel _ [] [] R h

theorem heapPush_empty (c : Cand) : heapPush #[] c = #[c] := by
  simp [heapPush, siftUp]

theorem heapPop_single (c : Cand) : heapPop #[c] = some (c, #[]) := by
  simp [heapPop]

theorem isChain_last (g : Graph) : ∀ (C : List Node), IsChain g C → ∃ pre, C = pre ++ [.eos]
  | [], h => by cases h
  | [a], h => by simp only [IsChain] at h; subst h; exact ⟨[], rfl⟩
  | a :: b :: l, h => by
    obtain ⟨pre, hpre⟩ := isChain_last g (b :: l) h.2
    exact ⟨a :: pre, by rw [hpre]; rfl⟩

/-- **Best-first and optimal.**  When the search ends by itself (heap exhausted or `n` results), the
results are in non-increasing order of score, and every complete connectable path either has its
text among the results, or `n` results were found and none of them scores less than that path. -/
theorem nBestE_spec (t : Tables) (ctx : Ctx) (f : Freq) (g : Graph) (n fuel : Nat) (hn : 1 ≤ n)
    (hF : FwdOK t ctx f g) (R : List Cand) (h : nBestE t ctx f g n fuel = some R) :
    SPost t ctx f g n R := by
  unfold nBestE at h
  rw [heapPush_empty] at h
  cases fuel with
  | zero => simp [searchE] at h
  | succ fuel =>
    unfold searchE at h
    rw [heapPop_single] at h
    simp only [rootCand] at h
    obtain ⟨hexpok, hexpmem⟩ := expand_spec t ctx f g rootCand #[] .eos [] rfl
    apply astar t ctx f g n hF fuel _ [] [] R _ h
    have hchild : ∀ x ∈ expand t ctx f g rootCand #[], ∃ p ∈ previous g .eos, IsChild t ctx f rootCand .eos p x := by
      intro x hx
      rcases (hexpmem x).1 hx with hx | hx
      · simp at hx
      · exact hx
    refine ⟨hexpok (fun i _ x p hx => by simp at hx), ?_, by simp, by simp; omega, by simp, by simp, ?_, by simp⟩
    · intro x hx
      obtain ⟨p, hp, next, prio, h1, h2, rfl⟩ := hchild x hx
      refine ⟨p, .eos, [], rfl, ⟨hp, rfl⟩, ?_, h2⟩
      simp only [rootCand]
      rw [pathScore_cons2]
      simpa [pathScore, rootCand] using h1
    · intro C s hC
      right
      obtain ⟨pre, hpre⟩ := isChain_last g C hC.2.1
      rcases suffix_pop t ctx f g hF rootCand C s rfl hC pre hpre .eos [] rfl with h0 | ⟨pre', p0, y, hp0, hy, hCy⟩
      · subst h0
        obtain ⟨p, hCb⟩ := hC.1
        rw [hCb] at hpre
        simp [rootCand] at hpre
      · exact ⟨y, (hexpmem y).2 (Or.inr ⟨p0, hp0, hy⟩), pre', hCy⟩

end Chokan.Kkc
