/-
Candidate-level completeness at the head (C03): with the regenerated score tables, every
independent word of the standard dictionary whose reading is a prefix of the input gives a connectable
`bos → word → (rest of the input) → eos` path of the lattice, which the optimal search (C02) must return
unless the list is cut at `n`.
-/
import Chokan.Lemmas.KkcTermination
import Chokan.Lemmas.KkcSource

namespace Chokan.Kkc
open Chokan.Dic

/-- The score tables regenerated from score.rs / graph.rs. -/
def genTables : Tables :=
  { wordEdges := Chokan.Gen.Kkc.wordEdges, virtEdges := Chokan.Gen.Kkc.virtEdges, headEdges := Chokan.Gen.Kkc.headEdges,
    mergeHead := Chokan.Gen.Kkc.mergeHead, properBonus := Chokan.Gen.Kkc.properBonus }

/-! ### table facts -/

/-- Every part of speech may stand at the head of a sentence as far as the head edge is concerned. -/
theorem headEdge_some (ctx : Ctx) (sp : Speech) : ∃ x, headEdge ctx sp genTables.headEdges = some x := by
  have hall : Chokan.Gen.Kkc.headEdges.all (fun p => p.2.2.isSome) = true := by decide
  show ∃ x, headEdge ctx sp Chokan.Gen.Kkc.headEdges = some x
  generalize Chokan.Gen.Kkc.headEdges = l at hall
  induction l with
  | nil => exact ⟨0, rfl⟩
  | cons a l ih =>
    obtain ⟨p, c, s⟩ := a
    simp only [List.all_cons, Bool.and_eq_true] at hall
    unfold headEdge
    split
    · cases s with
      | none => simp at hall
      | some x => exact ⟨x, rfl⟩
    · exact ih hall.2

/-- An independent word may be followed by the unconverted rest of the input. -/
theorem virtEdge_some (sp : Speech) (h : sp.isAncillary = false) :
    ∃ x, firstMatch1 sp genTables.virtEdges = some x := by
  show ∃ x, firstMatch1 sp Chokan.Gen.Kkc.virtEdges = some x
  cases sp <;> simp_all [firstMatch1, Chokan.Gen.Kkc.virtEdges, SPat.matches, Speech.isAncillary]

theorem nodeScore_some (t : Tables) (ctx : Ctx) (f : Freq) (v : Node) : ∃ x, nodeScore t ctx f v = some x := by
  cases v <;> simp [nodeScore]

/-! ### the virtual tail exists -/

theorem pushAt_length (g : Graph) (j : Nat) (mk : Nat → Node) : (pushAt g j mk).length = g.length := by
  unfold pushAt; split <;> simp

theorem pushAt_get_ne (g : Graph) (j k : Nat) (mk : Nat → Node) (h : k ≠ j) : (pushAt g j mk)[k]? = g[k]? := by
  unfold pushAt
  split
  · rw [List.getElem?_set]; simp [Ne.symm h]
  · rfl

def cvStep (input : Str) (g : Graph) (i : Nat) : Graph :=
  match g[i]? with
  | some (_ :: _) => pushAt g (input.length - 1) fun idx => .virt (input.length - 1) idx (input.drop (i + 1)) (some 0)
  | _ => g

theorem completeVirtual_eq (g : Graph) (input : Str) :
    completeVirtual g input = (List.range (input.length - 1)).reverse.foldl (cvStep input) g := rfl

theorem cvStep_ext (input : Str) (g : Graph) (i : Nat) : Ext g (cvStep input g i) := by
  unfold cvStep
  split
  · exact pushAt_ext g _ _
  · exact ext_refl g

theorem cvStep_get_ne (input : Str) (g : Graph) (i k : Nat) (h : k ≠ input.length - 1) :
    (cvStep input g i)[k]? = g[k]? := by
  unfold cvStep
  split
  · exact pushAt_get_ne g _ k _ h
  · rfl

theorem cv_foldl_has (input : Str) (i : Nat) (hi : i + 1 < input.length) :
    ∀ (is : List Nat) (g : Graph), g.length = input.length → i ∈ is →
      (∃ a l, g[i]? = some (a :: l)) →
      ∃ l' idx, (is.foldl (cvStep input) g)[input.length - 1]? = some l' ∧
        Node.virt (input.length - 1) idx (input.drop (i + 1)) (some 0) ∈ l'
  | [], _, _, h, _ => by cases h
  | k :: is, g, hlen, hmem, hocc => by
    simp only [List.foldl_cons]
    by_cases hk : k = i
    · subst hk
      obtain ⟨a, l, hal⟩ := hocc
      have hlast : input.length - 1 < g.length := by omega
      obtain ⟨l0, hl0⟩ : ∃ l0, g[input.length - 1]? = some l0 := ⟨g[input.length - 1], by simp [hlast]⟩
      have hstep : (cvStep input g k)[input.length - 1]? =
          some (l0 ++ [Node.virt (input.length - 1) l0.length (input.drop (k + 1)) (some 0)]) := by
        unfold cvStep
        rw [hal]
        simp only [pushAt, hl0]
        rw [List.getElem?_set]; simp [hlast]
      have hext := foldl_ext (cvStep input) (cvStep_ext input) is (cvStep input g k)
      obtain ⟨l', hl', hin'⟩ := ext_mem hext (input.length - 1) _ _ hstep (List.mem_append_right _ (List.mem_singleton.2 rfl))
      exact ⟨l', l0.length, hl', hin'⟩
    · have hmem' : i ∈ is := by
        rcases List.mem_cons.1 hmem with h | h
        · exact absurd h.symm hk
        · exact h
      have hlen' : (cvStep input g k).length = input.length := by rw [← (cvStep_ext input g k).1]; exact hlen
      have hocc' : ∃ a l, (cvStep input g k)[i]? = some (a :: l) := by
        rw [cvStep_get_ne input g k i (by omega)]; exact hocc
      exact cv_foldl_has input i hi is _ hlen' hmem' hocc'

theorem completeVirtual_has (g : Graph) (input : Str) (hlen : g.length = input.length) (i : Nat)
    (hi : i + 1 < input.length) (hocc : ∃ a l, g[i]? = some (a :: l)) :
    ∃ l' idx, (completeVirtual g input)[input.length - 1]? = some l' ∧
      Node.virt (input.length - 1) idx (input.drop (i + 1)) (some 0) ∈ l' := by
  rw [completeVirtual_eq]
  apply cv_foldl_has input i hi _ g hlen _ hocc
  simp only [List.mem_reverse, List.mem_range]; omega

/-! ### the forward pass keeps every node, up to its score -/

theorem setFwd_setFwd (a : Node) (s1 s2 : Score) : (a.setFwd s1).setFwd s2 = a.setFwd s2 := by
  cases a <;> rfl

theorem fwdStep_mem (t : Tables) (ctx : Ctx) (f : Freq) (g : Graph) (i j : Nat) (a : Node) (l : List Node)
    (hl : g[j]? = some l) (sc : Score) (ha : a.setFwd sc ∈ l) :
    ∃ l' sc', (fwdStep t ctx f g i)[j]? = some l' ∧ a.setFwd sc' ∈ l' := by
  unfold fwdStep
  rw [List.getElem?_set]
  by_cases hij : i = j
  · subst hij
    have hlt : i < g.length := by
      rcases Nat.lt_or_ge i g.length with h | h
      · exact h
      · rw [List.getElem?_eq_none h] at hl; cases hl
    simp only [if_true, hlt]
    have hgd : g.getD i [] = l := by simp [List.getD_eq_getElem?_getD, hl]
    rw [hgd]
    refine ⟨_, bestScore t ctx f (a.setFwd sc) (previous g (a.setFwd sc)), rfl, ?_⟩
    exact List.mem_map.2 ⟨a.setFwd sc, ha, setFwd_setFwd a sc _⟩
  · simp only [hij, if_false]
    exact ⟨l, sc, hl, ha⟩

theorem forwardDp_mem (t : Tables) (ctx : Ctx) (f : Freq) (g : Graph) (j : Nat) (a : Node) (l : List Node)
    (hl : g[j]? = some l) (sc : Score) (ha : a.setFwd sc ∈ l) :
    ∃ l' sc', (forwardDp t ctx f g)[j]? = some l' ∧ a.setFwd sc' ∈ l' := by
  rw [forwardDp_eq]
  have : ∀ (is : List Nat) (b : Graph) (l : List Node) (sc : Score), b[j]? = some l → a.setFwd sc ∈ l →
      ∃ l' sc', (is.foldl (fwdStep t ctx f) b)[j]? = some l' ∧ a.setFwd sc' ∈ l' := by
    intro is
    induction is with
    | nil => intro b l sc h1 h2; exact ⟨l, sc, h1, h2⟩
    | cons i is ih =>
      intro b l sc h1 h2
      simp only [List.foldl_cons]
      obtain ⟨l', sc', h1', h2'⟩ := fwdStep_mem t ctx f b i j a l h1 sc h2
      exact ih _ l' sc' h1' h2'
  exact this _ g l sc hl ha

/-! ### the path through a head word -/

/-- The head word is in the lattice already before the virtual tails are added. -/
theorem head_word_before_virtual (t : Tables) (input : Str) (d : Dict) (ctx : Ctx)
    (i : Nat) (hi : i < input.length) (w : Word) (hw : w ∈ lookup d.stdTrie d.std (slice input 0 i)) :
    let gm := mergeAncillaries t (findWordAfterPrefix (findWordOnlyFirst (List.replicate input.length []) input d)
      input d (findAncillary input d)) (findAncillary input d) ctx
    gm.length = input.length ∧ ∃ l idx, gm[i]? = some l ∧ Node.word i idx w (some 0) ∈ l := by
  intro gm
  have h1 : ∃ l idx, (findWordOnlyFirst (List.replicate input.length []) input d)[i]? = some l ∧
      Node.word i idx w (some 0) ∈ l := by
    unfold findWordOnlyFirst
    exact foldl_push_mem (fun i => lookup d.stdTrie d.std (slice input 0 i)) (List.range input.length) _
      (by intro k hk; simpa using List.mem_range.1 hk) i (List.mem_range.2 hi) w hw
  obtain ⟨l, idx, hl, hin⟩ := h1
  have e1 : Ext (List.replicate input.length []) (findWordOnlyFirst (List.replicate input.length []) input d) := by
    unfold findWordOnlyFirst
    exact foldl_ext _ (fun g i => pushWords_ext g i _) _ _
  have e2 := findWordAfterPrefix_ext (findWordOnlyFirst (List.replicate input.length []) input d) input d (findAncillary input d)
  have e3 := mergeAncillaries_ext t (findWordAfterPrefix (findWordOnlyFirst (List.replicate input.length []) input d)
      input d (findAncillary input d)) (findAncillary input d) ctx
  obtain ⟨l2, hl2, hin2⟩ := ext_mem e2 i l _ hl hin
  obtain ⟨l3, hl3, hin3⟩ := ext_mem e3 i l2 _ hl2 hin2
  refine ⟨?_, l3, idx, hl3, hin3⟩
  have := (ext_trans (ext_trans e1 e2) e3).1
  simp at this
  exact this.symm

/-- **A connectable path through every independent head word.**  With the regenerated tables, for a
well-formed dictionary, a standard word whose reading is the prefix `input[0..=i]` and whose part of
speech is not ancillary gives a `bos → word → rest → eos` path of the final lattice with a valid score
and the text "written form followed by the rest of the input". -/
theorem head_path (input : Str) (d : Dict) (ctx : Ctx) (f : Freq) (hd : Dict.WF d) (g0 : Graph)
    (hg0 : fromInput genTables input d ctx = some g0)
    (i : Nat) (hi : i < input.length) (w : Word) (hw : w ∈ lookup d.stdTrie d.std (slice input 0 i))
    (hind : w.speech.isAncillary = false) :
    ∃ p s, IsChain (forwardDp genTables ctx f g0) (.bos :: p) ∧
      pathScore genTables ctx f (.bos :: p) = some s ∧
      (p.map Node.text).flatten = w.word ++ input.drop (i + 1) := by
  obtain ⟨hgmlen, lm, idx, hlm, hinm⟩ := head_word_before_virtual genTables input d ctx i hi w hw
  have hg0' : g0 = completeVirtual (mergeAncillaries genTables (findWordAfterPrefix
      (findWordOnlyFirst (List.replicate input.length []) input d) input d (findAncillary input d))
      (findAncillary input d) ctx) input := by
    unfold fromInput at hg0
    simp only [Option.some.injEq] at hg0
    exact hg0.symm
  have hok0 := fromInput_ok genTables input d ctx hd g0 hg0
  have hok := forwardDp_ok genTables ctx f input g0 hok0
  have hlenG : (forwardDp genTables ctx f g0).length = input.length := hok.1
  have hrd : w.reading = slice input 0 i := lookup_std_reading d hd _ w hw
  have hrlen : w.reading.length = i + 1 := by rw [hrd]; simp [slice]; omega
  -- the word node in the final lattice
  obtain ⟨l0, hl0, hin0⟩ := ext_mem (completeVirtual_ext _ input) i lm _ hlm hinm
  rw [← hg0'] at hl0
  obtain ⟨lW, scW, hlW, hinW⟩ := forwardDp_mem genTables ctx f g0 i (.word i idx w (some 0)) l0 hl0 (some 0) hin0
  have hW : Node.setFwd scW (.word i idx w (some 0)) = .word i idx w scW := rfl
  rw [hW] at hinW
  have hprevW : previous (forwardDp genTables ctx f g0) (.word i idx w scW) = [.bos] := by
    simp [previous, Node.endAt, Node.len, hrlen]
  obtain ⟨eh, heh⟩ := headEdge_some ctx w.speech
  obtain ⟨nW, hnW⟩ := nodeScore_some genTables ctx f (.word i idx w scW)
  have hedgeW : edgeScore genTables ctx .bos (.word i idx w scW) = some eh := heh
  have hGd : ∀ k l, (forwardDp genTables ctx f g0)[k]? = some l → (forwardDp genTables ctx f g0).getD k [] = l := by
    intro k l h; simp [List.getD_eq_getElem?_getD, h]
  have hprevEos : previous (forwardDp genTables ctx f g0) .eos =
      (forwardDp genTables ctx f g0).getD (input.length - 1) [] := by
    simp only [previous, hlenG]
    rw [if_neg (by omega)]
  by_cases hfull : i + 1 = input.length
  · -- the word covers the whole input
    refine ⟨[.word i idx w scW, .eos], eh + nW + 0, ?_, ?_, ?_⟩
    · refine ⟨by rw [hprevW]; exact List.mem_singleton.2 rfl, ?_, rfl⟩
      rw [hprevEos, show input.length - 1 = i by omega, hGd i lW hlW]
      exact hinW
    · rw [pathScore_cons2, pathScore_cons2, hedgeW, hnW]
      simp [pathScore, edgeScore, nodeScore, Score.add]
    · have : input.drop (i + 1) = [] := by rw [hfull]; simp
      simp [Node.text, this]
  · -- the rest of the input follows as a virtual node
    have hi1 : i + 1 < input.length := by omega
    obtain ⟨lv, vidx, hlv, hinv⟩ := completeVirtual_has _ input hgmlen i hi1
      (by
        cases lm with
        | nil => cases hinm
        | cons a l => exact ⟨a, l, hlm⟩)
    rw [← hg0'] at hlv
    obtain ⟨lV, scV, hlV, hinV⟩ := forwardDp_mem genTables ctx f g0 (input.length - 1)
      (.virt (input.length - 1) vidx (input.drop (i + 1)) (some 0)) lv hlv (some 0) hinv
    have hV : Node.setFwd scV (.virt (input.length - 1) vidx (input.drop (i + 1)) (some 0)) =
        .virt (input.length - 1) vidx (input.drop (i + 1)) scV := rfl
    rw [hV] at hinV
    have hprevV : previous (forwardDp genTables ctx f g0) (.virt (input.length - 1) vidx (input.drop (i + 1)) scV) =
        (forwardDp genTables ctx f g0).getD i [] := by
      simp only [previous, Node.endAt, Node.len, List.length_drop]
      rw [if_neg (by omega), show input.length - 1 - (input.length - (i + 1)) = i by omega]
    obtain ⟨ev, hev⟩ := virtEdge_some w.speech hind
    have hedgeV : edgeScore genTables ctx (.word i idx w scW) (.virt (input.length - 1) vidx (input.drop (i + 1)) scV) = some ev := hev
    refine ⟨[.word i idx w scW, .virt (input.length - 1) vidx (input.drop (i + 1)) scV, .eos], eh + nW + (ev + 0 + 0), ?_, ?_, ?_⟩
    · refine ⟨by rw [hprevW]; exact List.mem_singleton.2 rfl, ?_, ?_, rfl⟩
      · rw [hprevV, hGd i lW hlW]; exact hinW
      · rw [hprevEos, hGd _ lV hlV]; exact hinV
    · rw [pathScore_cons2, pathScore_cons2, pathScore_cons2, hedgeW, hnW, hedgeV]
      simp [pathScore, edgeScore, nodeScore, Score.add]
    · simp [Node.text]

end Chokan.Kkc
