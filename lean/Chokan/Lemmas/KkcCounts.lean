/-
Learned counts only re-rank (C06): the lattice, the `previous` relation and the connectability of a
path do not depend on the learned counts — only node scores do, and a node score is always valid.
Hence the set of connectable paths, and with C02 the untruncated set of candidate texts, is the same
with and without learned data.
-/
import Chokan.Lemmas.KkcTermination

namespace Chokan.Kkc
open Chokan.Dic

/-- A node with its forward score erased. -/
def strip (v : Node) : Node := v.setFwd none

theorem strip_setFwd (v : Node) (sc : Score) : strip (v.setFwd sc) = strip v := by
  cases v <;> rfl

theorem strip_text (a b : Node) (h : strip a = strip b) : a.text = b.text := by
  cases a <;> cases b <;> simp_all [strip, Node.setFwd, Node.text]

theorem strip_endlen (a b : Node) (h : strip a = strip b) : a.endAt = b.endAt ∧ a.len = b.len := by
  cases a <;> cases b <;> simp_all [strip, Node.setFwd, Node.endAt, Node.len]

theorem strip_bos (a : Node) (h : strip a = strip .bos) : a = .bos := by
  cases a <;> simp_all [strip, Node.setFwd]

theorem strip_eos (a : Node) (h : strip a = strip .eos) : a = .eos := by
  cases a <;> simp_all [strip, Node.setFwd]

theorem edgeScore_strip (t : Tables) (ctx : Ctx) (a b a' b' : Node) (ha : strip a = strip a') (hb : strip b = strip b') :
    edgeScore t ctx a b = edgeScore t ctx a' b' := by
  cases a <;> cases a' <;> cases b <;> cases b' <;> simp_all [strip, Node.setFwd, edgeScore]

theorem nodeScore_isSome (t : Tables) (ctx : Ctx) (f : Freq) (v : Node) : ∃ x, nodeScore t ctx f v = some x := by
  cases v <;> simp [nodeScore]

/-- Two lattices that differ only in the stored forward scores. -/
def SameUpToFwd (g g' : Graph) : Prop :=
  g.length = g'.length ∧ ∀ j, (g.getD j []).map strip = (g'.getD j []).map strip

theorem sameUpToFwd_refl (g : Graph) : SameUpToFwd g g := ⟨rfl, fun _ => rfl⟩

theorem sameUpToFwd_symm {g g' : Graph} (h : SameUpToFwd g g') : SameUpToFwd g' g := ⟨h.1.symm, fun j => (h.2 j).symm⟩

theorem sameUpToFwd_trans {a b c : Graph} (h1 : SameUpToFwd a b) (h2 : SameUpToFwd b c) : SameUpToFwd a c :=
  ⟨h1.1.trans h2.1, fun j => (h1.2 j).trans (h2.2 j)⟩

theorem fwdStep_same (t : Tables) (ctx : Ctx) (f : Freq) (g : Graph) (i : Nat) : SameUpToFwd g (fwdStep t ctx f g i) := by
  refine ⟨(length_fwdStep t ctx f g i).symm, ?_⟩
  intro j
  by_cases hj : j = i
  · subst hj
    simp only [fwdStep, List.getD_eq_getElem?_getD, List.getElem?_set]
    by_cases hlt : j < g.length
    · simp only [if_true, hlt, Option.getD_some, List.map_map]
      apply List.map_congr_left
      intro a _
      simp [Function.comp, strip_setFwd]
    · simp [hlt]
  · rw [getD_fwdStep_ne t ctx f g i j hj]

theorem forwardDp_same (t : Tables) (ctx : Ctx) (f : Freq) (g : Graph) : SameUpToFwd g (forwardDp t ctx f g) := by
  rw [forwardDp_eq]
  have : ∀ (is : List Nat) (b : Graph), SameUpToFwd b (is.foldl (fwdStep t ctx f) b) := by
    intro is
    induction is with
    | nil => intro b; exact sameUpToFwd_refl b
    | cons i is ih =>
      intro b
      simp only [List.foldl_cons]
      exact sameUpToFwd_trans (fwdStep_same t ctx f b i) (ih _)
  exact this _ g

/-- Predecessors correspond across lattices equal up to forward scores. -/
theorem previous_same {g g' : Graph} (h : SameUpToFwd g g') (b b' : Node) (hb : strip b = strip b')
    (a : Node) (ha : a ∈ previous g b) : ∃ a', a' ∈ previous g' b' ∧ strip a' = strip a := by
  have hp : ∀ (gg : Graph) (n : Node), n ≠ .bos → n ≠ .eos →
      previous gg n = if n.endAt < n.len then [.bos] else gg.getD (n.endAt - n.len) [] := by
    intro gg n h1 h2; cases n <;> simp_all [previous]
  have hmap : (previous g b).map strip = (previous g' b').map strip := by
    obtain ⟨he, hl⟩ := strip_endlen b b' hb
    by_cases hbos : b = .bos
    · subst hbos; simp [previous] at ha
    · by_cases heos : b = .eos
      · subst heos
        have := strip_eos b' hb.symm
        subst this
        simp only [previous, h.1]
        split
        · rfl
        · exact h.2 _
      · have hbos' : b' ≠ .bos := fun hh => hbos (strip_bos b (by rw [hb, hh]))
        have heos' : b' ≠ .eos := fun hh => heos (strip_eos b (by rw [hb, hh]))
        rw [hp g b hbos heos, hp g' b' hbos' heos', he, hl]
        by_cases hq : b'.endAt < b'.len
        · rw [if_pos hq, if_pos hq]
        · rw [if_neg hq, if_neg hq]; exact h.2 _
  have : strip a ∈ (previous g' b').map strip := by rw [← hmap]; exact List.mem_map.2 ⟨a, ha, rfl⟩
  obtain ⟨a', ha', hs⟩ := List.mem_map.1 this
  exact ⟨a', ha', hs⟩

/-- A chain of one lattice has a counterpart, node by node equal up to forward scores, in the other. -/
theorem chain_same {g g' : Graph} (h : SameUpToFwd g g') : ∀ (C : List Node), IsChain g C →
    ∃ C', IsChain g' C' ∧ C'.map strip = C.map strip
  | [], hC => by cases hC
  | [a], hC => by
    simp only [IsChain] at hC; subst hC
    exact ⟨[.eos], rfl, rfl⟩
  | a :: b :: rest, hC => by
    obtain ⟨C', hC', hs⟩ := chain_same h (b :: rest) hC.2
    cases C' with
    | nil => simp at hs
    | cons b' rest' =>
      simp only [List.map_cons, List.cons.injEq] at hs
      obtain ⟨a', ha', hsa⟩ := previous_same h b b' hs.1.symm a hC.1
      refine ⟨a' :: b' :: rest', ⟨ha', hC'⟩, ?_⟩
      simp [hsa, hs.1, hs.2]

/-- Connectability of a path does not depend on the learned counts. -/
theorem pathScore_same (t : Tables) (ctx : Ctx) (f f' : Freq) : ∀ (C C' : List Node), C'.map strip = C.map strip →
    ∀ s, pathScore t ctx f C = some s → ∃ s', pathScore t ctx f' C' = some s'
  | [], [], _, s, _ => ⟨0, rfl⟩
  | [], _ :: _, h, _, _ => by simp at h
  | [_], [], h, _, _ => by simp at h
  | [_], [_], _, _, _ => ⟨0, rfl⟩
  | [_], _ :: _ :: _, h, _, _ => by simp at h
  | _ :: _ :: _, [], h, _, _ => by simp at h
  | _ :: _ :: _, [_], h, _, _ => by simp at h
  | a :: b :: rest, a' :: b' :: rest', h, s, hs => by
    simp only [List.map_cons, List.cons.injEq] at h
    rw [pathScore_cons2] at hs ⊢
    obtain ⟨w, r, hw, hr, _⟩ := (Score.add_eq_some _ _ _).1 hs
    obtain ⟨e, nv, he, _, _⟩ := (Score.add_eq_some _ _ _).1 hw
    obtain ⟨r', hr'⟩ := pathScore_same t ctx f f' (b :: rest) (b' :: rest') (by simp [h.2.1, h.2.2]) r hr
    obtain ⟨nv', hnv'⟩ := nodeScore_isSome t ctx f' b'
    have he' : edgeScore t ctx a' b' = some e := by
      rw [← he]; exact (edgeScore_strip t ctx a b a' b' h.1.symm h.2.1.symm).symm
    exact ⟨e + nv' + r', by simp [he', hnv', hr', Score.add]⟩

theorem map_text_strip : ∀ (C C' : List Node), C'.map strip = C.map strip →
    (C'.map Node.text).flatten = (C.map Node.text).flatten
  | [], [], _ => rfl
  | [], _ :: _, h => by simp at h
  | _ :: _, [], h => by simp at h
  | a :: C, a' :: C', h => by
    simp only [List.map_cons, List.cons.injEq] at h
    simp only [List.map_cons, List.flatten_cons]
    rw [strip_text a' a h.1, map_text_strip C C' h.2]

end Chokan.Kkc
