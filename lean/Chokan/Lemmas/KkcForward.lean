/-
The forward pass (C02): after `forwardDp` every node of the lattice stores exactly the Viterbi step
over its predecessors' final scores (`FwdOK`), hence its score bounds the score of every connectable
path from the start of the sentence to it.
-/
import Chokan.Lemmas.KkcScore

namespace Chokan.Kkc
open Chokan.Dic

/-- Every node stores the best step over its predecessors. -/
def FwdOK (t : Tables) (ctx : Ctx) (f : Freq) (g : Graph) : Prop :=
  ∀ (j : Nat) (l : List Node), g[j]? = some l → ∀ v ∈ l, v.fwd = bestScore t ctx f v (previous g v)

theorem bestScore_eq (t : Tables) (ctx : Ctx) (f : Freq) (cur : Node) (prevs : List Node) :
    bestScore t ctx f cur prevs = prevs.foldl (fun best p =>
      let sc := stepScore t ctx f cur p
      if Score.gt sc best then sc else best) none := rfl

theorem setFwd_fwd (input : Str) (n : Node) (sc : Score) (h : NodeOK input n) : (n.setFwd sc).fwd = sc := by
  cases n <;> simp_all [Node.setFwd, NodeOK, Node.fwd]

theorem setFwd_len (n : Node) (sc : Score) : (n.setFwd sc).len = n.len ∧ (n.setFwd sc).endAt = n.endAt := by
  cases n <;> simp [Node.setFwd, Node.len, Node.endAt]

theorem nodeScore_setFwd (t : Tables) (ctx : Ctx) (f : Freq) (n : Node) (sc : Score) :
    nodeScore t ctx f (n.setFwd sc) = nodeScore t ctx f n := by
  cases n <;> simp [Node.setFwd, nodeScore]

theorem edgeScore_setFwd (t : Tables) (ctx : Ctx) (p n : Node) (sc : Score) :
    edgeScore t ctx p (n.setFwd sc) = edgeScore t ctx p n := by
  cases n <;> cases p <;> simp [Node.setFwd, edgeScore]

theorem bestScore_setFwd (t : Tables) (ctx : Ctx) (f : Freq) (n : Node) (sc : Score) (prevs : List Node) :
    bestScore t ctx f (n.setFwd sc) prevs = bestScore t ctx f n prevs := by
  unfold bestScore
  simp only [nodeScore_setFwd, edgeScore_setFwd]

theorem len_pos_of_ok (input : Str) (n : Node) (h : NodeOK input n) : 1 ≤ n.len ∧ n.len ≤ n.endAt + 1 := by
  cases n with
  | word e i w fw =>
    simp only [NodeOK] at h
    simp only [Node.len, Node.endAt]
    have : w.reading.length ≠ 0 := fun hh => h.2.1 (List.eq_nil_of_length_eq_zero hh)
    omega
  | virt e i s fw =>
    simp only [NodeOK] at h
    simp only [Node.len, Node.endAt]
    have : s.length ≠ 0 := fun hh => h.1 (List.eq_nil_of_length_eq_zero hh)
    omega
  | bos => cases h
  | eos => cases h

/-- `previous` of a lattice node only reads positions before the node's own. -/
theorem previous_congr (input : Str) (g g' : Graph) (n : Node) (h : NodeOK input n)
    (hlen : g'.length = g.length) (hsame : ∀ k, k < n.endAt → g'.getD k [] = g.getD k []) :
    previous g' n = previous g n := by
  have hl := len_pos_of_ok input n h
  have key : ∀ n : Node, n ≠ .bos → n ≠ .eos → 1 ≤ n.len → n.len ≤ n.endAt + 1 →
      (∀ k, k < n.endAt → g'.getD k [] = g.getD k []) → previous g' n = previous g n := by
    intro n h1 h2 h3 h4 h5
    have hp : ∀ gg : Graph, previous gg n = if n.endAt < n.len then [.bos] else gg.getD (n.endAt - n.len) [] := by
      intro gg; cases n <;> simp_all [previous]
    rw [hp g', hp g]
    by_cases hq : n.endAt < n.len
    · rw [if_pos hq, if_pos hq]
    · rw [if_neg hq, if_neg hq]
      exact h5 _ (by omega)
  apply key n _ _ hl.1 hl.2 hsame
  · intro hh; subst hh; cases h
  · intro hh; subst hh; cases h

/-- One position of the forward pass. -/
def fwdStep (t : Tables) (ctx : Ctx) (f : Freq) (g : Graph) (i : Nat) : Graph :=
  g.set i ((g.getD i []).map fun node => node.setFwd (bestScore t ctx f node (previous g node)))

theorem forwardDp_eq (t : Tables) (ctx : Ctx) (f : Freq) (g : Graph) :
    forwardDp t ctx f g = (List.range g.length).foldl (fwdStep t ctx f) g := rfl

theorem getD_fwdStep_ne (t : Tables) (ctx : Ctx) (f : Freq) (g : Graph) (i k : Nat) (hk : k ≠ i) :
    (fwdStep t ctx f g i).getD k [] = g.getD k [] := by
  simp only [fwdStep, List.getD_eq_getElem?_getD, List.getElem?_set]
  have : ¬ i = k := fun h => hk h.symm
  simp [this]

theorem length_fwdStep (t : Tables) (ctx : Ctx) (f : Freq) (g : Graph) (i : Nat) :
    (fwdStep t ctx f g i).length = g.length := by simp [fwdStep]

theorem fwdStep_ok (t : Tables) (ctx : Ctx) (f : Freq) (input : Str) (g : Graph) (i : Nat) (hg : GraphOK input g) :
    GraphOK input (fwdStep t ctx f g i) := by
  refine ⟨by rw [length_fwdStep]; exact hg.1, ?_⟩
  intro k l hl n hn
  unfold fwdStep at hl
  rw [List.getElem?_set] at hl
  split at hl
  · next hik =>
    subst hik
    split at hl
    · next hlt =>
      simp only [Option.some.injEq] at hl; subst hl
      obtain ⟨m, hm, rfl⟩ := List.mem_map.1 hn
      have hbi : g[i]? = some (g.getD i []) := by
        simp [List.getD, List.getElem?_eq_getElem hlt]
      have := hg.2 i _ hbi m hm
      have h2 := setFwd_ok input m (bestScore t ctx f m (previous g m)) this.1
      exact ⟨h2.1, by rw [h2.2]; exact this.2⟩
    · cases hl
  · exact hg.2 k l hl n hn

/-- Positions below `m` are final after `m` steps. -/
def FwdUpTo (t : Tables) (ctx : Ctx) (f : Freq) (g : Graph) (m : Nat) : Prop :=
  ∀ (j : Nat) (l : List Node), j < m → g[j]? = some l → ∀ v ∈ l, v.fwd = bestScore t ctx f v (previous g v)

theorem fwd_prefix (t : Tables) (ctx : Ctx) (f : Freq) (input : Str) (g : Graph) (hg : GraphOK input g) :
    ∀ m, m ≤ g.length →
      GraphOK input ((List.range m).foldl (fwdStep t ctx f) g) ∧
      FwdUpTo t ctx f ((List.range m).foldl (fwdStep t ctx f) g) m
  | 0, _ => ⟨by simpa using hg, fun j l hj => by omega⟩
  | m + 1, hm => by
    obtain ⟨hok, hup⟩ := fwd_prefix t ctx f input g hg m (by omega)
    rw [List.range_succ, List.foldl_append]
    simp only [List.foldl_cons, List.foldl_nil]
    generalize hb : (List.range m).foldl (fwdStep t ctx f) g = b at hok hup
    have hok' := fwdStep_ok t ctx f input b m hok
    refine ⟨hok', ?_⟩
    intro j l hj hl v hv
    have hvok := hok'.2 j l hl v hv
    have hprev : previous (fwdStep t ctx f b m) v = previous b v := by
      apply previous_congr input b _ v hvok.1 (length_fwdStep t ctx f b m)
      intro k hk
      apply getD_fwdStep_ne
      rw [hvok.2] at hk; omega
    rw [hprev]
    by_cases hjm : j = m
    · -- the position just processed
      subst hjm
      unfold fwdStep at hl
      rw [List.getElem?_set] at hl
      simp only [if_true] at hl
      split at hl
      · next hlt =>
        simp only [Option.some.injEq] at hl; subst hl
        obtain ⟨u, hu, rfl⟩ := List.mem_map.1 hv
        have hbi : b[j]? = some (b.getD j []) := by
          simp [List.getD, List.getElem?_eq_getElem hlt]
        have huok := hok.2 j _ hbi u hu
        rw [setFwd_fwd input u _ huok.1, bestScore_setFwd]
        have hpu : ∀ sc, previous b (u.setFwd sc) = previous b u := by
          intro sc
          cases u <;> simp [previous, Node.setFwd, Node.endAt, Node.len]
        rw [hpu]
      · cases hl
    · have hl' : b[j]? = some l := by
        unfold fwdStep at hl
        rw [List.getElem?_set] at hl
        have : ¬ m = j := fun h => hjm h.symm
        simpa [this] using hl
      exact hup j l (by omega) hl' v hv

theorem forwardDp_fwdOK (t : Tables) (ctx : Ctx) (f : Freq) (input : Str) (g : Graph) (hg : GraphOK input g) :
    FwdOK t ctx f (forwardDp t ctx f g) := by
  obtain ⟨_, hup⟩ := fwd_prefix t ctx f input g hg g.length (Nat.le_refl _)
  intro j l hl v hv
  rw [forwardDp_eq] at hl ⊢
  have hj : j < ((List.range g.length).foldl (fwdStep t ctx f) g).length := by
    rcases Nat.lt_or_ge j ((List.range g.length).foldl (fwdStep t ctx f) g).length with h | h
    · exact h
    · rw [List.getElem?_eq_none h] at hl; cases hl
  have hlen : ((List.range g.length).foldl (fwdStep t ctx f) g).length = g.length := by
    have : ∀ (l : List Nat) (b : Graph), (l.foldl (fwdStep t ctx f) b).length = b.length := by
      intro l
      induction l with
      | nil => intro b; rfl
      | cons a l ih => intro b; simp only [List.foldl_cons]; rw [ih, length_fwdStep]
    exact this _ _
  exact hup j l (by omega) hl v hv

end Chokan.Kkc
