/-
The replica of `std::collections::BinaryHeap` is a max-heap (C02): `heapPush` and `heapPop` keep the
heap order, `heapPop` returns an element of greatest priority, and neither loses nor invents elements.

`sift_down_to_bottom` moves the hole to a leaf following the greater child without looking at the
moving element, `sift_up` then restores the order; the invariants below say where the order may be
broken in between.
-/
import Chokan.Lemmas.KkcSearch

namespace Chokan.Kkc

/-- The element at `i` is not greater than the one at its parent. -/
def EdgeOK (h : Heap) (i : Nat) : Prop :=
  ∀ x p, h[i]? = some x → h[(i - 1) / 2]? = some p → x.priority ≤ p.priority

def HeapOK (h : Heap) : Prop := ∀ i, 0 < i → EdgeOK h i

/-- Heap order everywhere except on the edge into `pos`; the children of `pos` are already below the
parent of `pos`. -/
def UpInv (h : Heap) (pos : Nat) : Prop :=
  (∀ i, 0 < i → i ≠ pos → EdgeOK h i) ∧
  (∀ i x g, 0 < i → (i - 1) / 2 = pos → 0 < pos → h[i]? = some x → h[(pos - 1) / 2]? = some g →
    x.priority ≤ g.priority)

/-- Heap order everywhere except on the edges into and out of `pos`. -/
def DownInv (h : Heap) (pos : Nat) : Prop :=
  (∀ i, 0 < i → i ≠ pos → (i - 1) / 2 ≠ pos → EdgeOK h i) ∧
  (∀ i x g, 0 < i → (i - 1) / 2 = pos → 0 < pos → h[i]? = some x → h[(pos - 1) / 2]? = some g →
    x.priority ≤ g.priority)

theorem lt_size_of_get {h : Heap} {i : Nat} {x : Cand} (hx : h[i]? = some x) : i < h.size := by
  rcases Nat.lt_or_ge i h.size with hl | hl
  · exact hl
  · rw [Array.getElem?_eq_none hl] at hx; cases hx

theorem get_swap (h : Heap) (i j : Nat) (a b : Cand) (hi : i < h.size) (hj : j < h.size) (k : Nat) :
    ((h.set! i a).set! j b)[k]? = if k = j then some b else if k = i then some a else h[k]? := by
  simp only [Array.set!_eq_setIfInBounds, Array.getElem?_setIfInBounds, Array.size_setIfInBounds]
  by_cases hkj : k = j
  · subst hkj; simp [hj]
  · have : ¬ j = k := fun hh => hkj hh.symm
    simp only [this, if_false, hkj]
    by_cases hki : k = i
    · subst hki; simp [hi]
    · have : ¬ i = k := fun hh => hki hh.symm
      simp [this, hki]

theorem size_swap (h : Heap) (i j : Nat) (a b : Cand) : ((h.set! i a).set! j b).size = h.size := by
  simp

/-- Swapping two stored elements keeps the set of elements. -/
theorem mem_swap (h : Heap) (i j : Nat) (a b : Cand) (hi : h[i]? = some b) (hj : h[j]? = some a) (x : Cand) :
    x ∈ (h.set! i a).set! j b ↔ x ∈ h := by
  have hil := lt_size_of_get hi
  have hjl := lt_size_of_get hj
  simp only [Array.mem_iff_getElem?, get_swap h i j a b hil hjl]
  constructor
  · rintro ⟨k, hk⟩
    by_cases hkj : k = j
    · simp only [hkj, if_true, Option.some.injEq] at hk; exact ⟨i, by rw [hi, hk]⟩
    · simp only [hkj, if_false] at hk
      by_cases hki : k = i
      · simp only [hki, if_true, Option.some.injEq] at hk; exact ⟨j, by rw [hj, hk]⟩
      · simp only [hki, if_false] at hk; exact ⟨k, hk⟩
  · rintro ⟨k, hk⟩
    by_cases hkj : k = j
    · subst hkj
      rw [hj] at hk
      by_cases hij : i = k
      · subst hij; rw [hi] at hj; exact ⟨i, by simp [← hk, Option.some.inj hj]⟩
      · exact ⟨i, by simp [hij, ← hk]⟩
    · by_cases hki : k = i
      · subst hki
        rw [hi] at hk
        exact ⟨j, by simp [← hk]⟩
      · exact ⟨k, by simp [hkj, hki, hk]⟩

/-! ### sift up -/

theorem heapOK_of_upInv_zero (h : Heap) (hI : UpInv h 0) : HeapOK h :=
  fun i hi => hI.1 i hi (by omega)

theorem siftUp_ok : ∀ (fuel : Nat) (h : Heap) (pos : Nat), pos ≤ fuel → UpInv h pos →
    HeapOK (siftUp h 0 fuel pos)
  | 0, h, pos, hf, hI => by
    have : pos = 0 := by omega
    subst this
    simpa [siftUp] using heapOK_of_upInv_zero h hI
  | fuel + 1, h, pos, hf, hI => by
    unfold siftUp
    by_cases hpos : pos > 0
    · simp only [hpos, if_true]
      cases he : h[pos]? with
      | none =>
        simp only
        intro i hi
        by_cases hip : i = pos
        · subst hip; intro x p hx; rw [he] at hx; cases hx
        · exact hI.1 i hi hip
      | some e =>
        cases hp : h[(pos - 1) / 2]? with
        | none =>
          simp only
          intro i hi
          by_cases hip : i = pos
          · subst hip; intro x p _ hpp; rw [hp] at hpp; cases hpp
          · exact hI.1 i hi hip
        | some p =>
          simp only
          by_cases hle : e.priority ≤ p.priority
          · simp only [hle, if_true]
            intro i hi
            by_cases hip : i = pos
            · subst hip
              intro x q hx hq
              rw [he] at hx; rw [hp] at hq
              rw [← Option.some.inj hx, ← Option.some.inj hq]; exact hle
            · exact hI.1 i hi hip
          · simp only [hle, if_false]
            have hposl := lt_size_of_get he
            have hparl := lt_size_of_get hp
            have hne : (pos - 1) / 2 ≠ pos := by omega
            apply siftUp_ok fuel _ _ (by omega)
            have hget := get_swap h pos ((pos - 1) / 2) p e hposl hparl
            constructor
            · intro i hi hip x q hx hq
              rw [hget] at hx hq
              by_cases hipos : i = pos
              · -- the demoted parent sits below the promoted element
                subst hipos
                simp only [hip, if_false, if_true, Option.some.injEq] at hx
                simp only [if_true, Option.some.injEq] at hq
                subst hx hq; omega
              · simp only [hip, hipos, if_false] at hx
                by_cases hpi : (i - 1) / 2 = (pos - 1) / 2
                · -- a sibling of `pos`
                  simp only [hpi, if_true, Option.some.injEq] at hq
                  subst hq
                  have := hI.1 i hi hipos x p hx (by rw [hpi]; exact hp)
                  omega
                · simp only [hpi, if_false] at hq
                  by_cases hpp : (i - 1) / 2 = pos
                  · simp only [hpp, if_true, Option.some.injEq] at hq
                    rw [← hq]
                    exact hI.2 i x p hi hpp hpos hx hp
                  · simp only [hpp, if_false] at hq
                    exact hI.1 i hi hipos x q hx hq
            · intro i x g hi hpi hpar hx hg
              rw [hget] at hx hg
              have h1 : ((pos - 1) / 2 - 1) / 2 ≠ (pos - 1) / 2 := by omega
              have h2 : ((pos - 1) / 2 - 1) / 2 ≠ pos := by omega
              simp only [h1, h2, if_false] at hg
              have hpg : p.priority ≤ g.priority := hI.1 ((pos - 1) / 2) hpar hne p g hp hg
              have hine : i ≠ (pos - 1) / 2 := by omega
              simp only [hine, if_false] at hx
              by_cases hipos : i = pos
              · simp only [hipos, if_true, Option.some.injEq] at hx
                subst hx; exact hpg
              · simp only [hipos, if_false] at hx
                have := hI.1 i hi hipos x p hx (by rw [hpi]; exact hp)
                omega
    · simp only [hpos, if_false]
      have : pos = 0 := by omega
      subst this
      exact heapOK_of_upInv_zero h hI

theorem siftUp_mem : ∀ (fuel : Nat) (h : Heap) (start pos : Nat) (x : Cand),
    x ∈ siftUp h start fuel pos ↔ x ∈ h
  | 0, h, _, _, x => by simp [siftUp]
  | fuel + 1, h, start, pos, x => by
    unfold siftUp
    split
    · simp only
      split
      · next e p he hp =>
        split
        · exact Iff.rfl
        · rw [siftUp_mem fuel _ start _ x]
          exact mem_swap h pos ((pos - 1) / 2) p e he hp x
      · exact Iff.rfl
    · exact Iff.rfl

theorem siftUp_size : ∀ (fuel : Nat) (h : Heap) (start pos : Nat),
    (siftUp h start fuel pos).size = h.size
  | 0, h, _, _ => by simp [siftUp]
  | fuel + 1, h, start, pos => by
    unfold siftUp
    split
    · simp only
      split
      · split
        · rfl
        · rw [siftUp_size fuel _ start _]; simp
      · rfl
    · rfl

/-! ### push -/

theorem heapPush_ok (h : Heap) (c : Cand) (hh : HeapOK h) : HeapOK (heapPush h c) := by
  unfold heapPush
  apply siftUp_ok
  · simp
  · simp only [Array.size_push, Nat.add_sub_cancel]
    constructor
    · intro i hi hne x p hx hp
      rw [Array.getElem?_push] at hx hp
      have hil : i < (h.push c).size := lt_size_of_get (by rw [Array.getElem?_push]; exact hx)
      simp only [Array.size_push] at hil
      have h1 : i ≠ h.size := hne
      have h2 : (i - 1) / 2 ≠ h.size := by omega
      simp only [h1, h2, if_false] at hx hp
      exact hh i hi x p hx hp
    · intro i x g hi hpi _ hx _
      have hil : i < (h.push c).size := lt_size_of_get hx
      simp only [Array.size_push] at hil
      omega

theorem heapPush_mem (h : Heap) (c x : Cand) : x ∈ heapPush h c ↔ (x ∈ h ∨ x = c) := by
  unfold heapPush
  rw [siftUp_mem]
  exact Array.mem_push

/-! ### sift down to the bottom -/

theorem upInv_of_leaf (h : Heap) (pos : Nat) (hI : DownInv h pos) (hleaf : h.size ≤ 2 * pos + 1) :
    UpInv h pos := by
  constructor
  · intro i hi hip x p hx hp
    by_cases hpi : (i - 1) / 2 = pos
    · have := lt_size_of_get hx; omega
    · exact hI.1 i hi hip hpi x p hx hp
  · intro i x g hi hpi _ hx _
    have := lt_size_of_get hx; omega

theorem siftDown_ok : ∀ (fuel : Nat) (h : Heap) (pos : Nat), h.size - pos ≤ fuel → pos < h.size →
    DownInv h pos →
    UpInv (siftDownToBottom h h.size fuel pos).1 (siftDownToBottom h h.size fuel pos).2 ∧
    (siftDownToBottom h h.size fuel pos).1.size = h.size ∧
    (siftDownToBottom h h.size fuel pos).2 < h.size
  | 0, h, pos, hf, hp, _ => by omega
  | fuel + 1, h, pos, hf, hpl, hI => by
    unfold siftDownToBottom
    simp only
    by_cases h2c : 2 * pos + 1 ≤ h.size - 2 ∧ 2 ≤ h.size
    · rw [if_pos h2c]
      have hcl : 2 * pos + 1 < h.size := by omega
      have hcl2 : 2 * pos + 1 + 1 < h.size := by omega
      obtain ⟨a, ha⟩ : ∃ a, h[2 * pos + 1]? = some a := ⟨h[2 * pos + 1], by simp [hcl]⟩
      obtain ⟨b, hb⟩ : ∃ b, h[2 * pos + 1 + 1]? = some b := ⟨h[2 * pos + 1 + 1], by simp [hcl2]⟩
      obtain ⟨e, he⟩ : ∃ e, h[pos]? = some e := ⟨h[pos], by simp [hpl]⟩
      simp only [ha, hb, he]
      -- the greater child
      generalize hc : (if a.priority ≤ b.priority then 2 * pos + 1 + 1 else 2 * pos + 1) = c
      generalize hx : (if a.priority ≤ b.priority then b else a) = x
      have hcc : (c = 2 * pos + 1 ∨ c = 2 * pos + 1 + 1) := by rw [← hc]; split <;> simp
      have hcl' : c < h.size := by rcases hcc with h | h <;> omega
      have hxc : h[c]? = some x := by
        rw [← hc, ← hx]; split
        · exact hb
        · exact ha
      have hsib : ∀ i y, 0 < i → (i - 1) / 2 = pos → i ≠ c → h[i]? = some y → y.priority ≤ x.priority := by
        intro i y hi hpi hic hy
        have hil := lt_size_of_get hy
        have : i = 2 * pos + 1 ∨ i = 2 * pos + 1 + 1 := by omega
        by_cases hab : a.priority ≤ b.priority
        · simp only [hab, if_true] at hc hx
          subst hc hx
          have : i = 2 * pos + 1 := by omega
          subst this
          rw [ha] at hy; rw [← Option.some.inj hy]; exact hab
        · simp only [hab, if_false] at hc hx
          subst hc hx
          have : i = 2 * pos + 1 + 1 := by omega
          subst this
          rw [hb] at hy; rw [← Option.some.inj hy]; omega
      have hget := get_swap h pos c x e hpl hcl'
      have hsz : ((h.set! pos x).set! c e).size = h.size := size_swap h pos c x e
      have hcpos : c ≠ pos := by omega
      have hpc : (c - 1) / 2 = pos := by omega
      have hI' : DownInv ((h.set! pos x).set! c e) c := by
        constructor
        · intro i hi hic hpic y q hy hq
          rw [hget] at hy hq
          simp only [hic, hpic, if_false] at hy hq
          by_cases hipos : i = pos
          · subst hipos
            simp only [if_true, Option.some.injEq] at hy
            rw [← hy]
            have hne : (i - 1) / 2 ≠ i := by omega
            simp only [hne, if_false] at hq
            exact hI.2 c x q (by omega) hpc hi hxc hq
          · simp only [hipos, if_false] at hy
            by_cases hpi : (i - 1) / 2 = pos
            · simp only [hpi, if_true, Option.some.injEq] at hq
              rw [← hq]
              exact hsib i y hi hpi hic hy
            · simp only [hpi, if_false] at hq
              exact hI.1 i hi hipos hpi y q hy hq
        · intro i y g hi hpi hc0 hy hg
          rw [hget] at hy hg
          have hic : i ≠ c := by omega
          have hipos : i ≠ pos := by omega
          simp only [hic, hipos, if_false] at hy
          rw [hpc] at hg
          have : pos ≠ c := hcpos.symm
          simp only [this, if_false, if_true, Option.some.injEq] at hg
          rw [← hg]
          have hpi' : (i - 1) / 2 ≠ pos := by omega
          exact hI.1 i hi hipos hpi' y x hy (by rw [hpi]; exact hxc)
      have ih := siftDown_ok fuel ((h.set! pos x).set! c e) c (by rw [hsz]; omega) (by rw [hsz]; exact hcl') hI'
      rw [hsz] at ih
      exact ih
    · rw [if_neg h2c]
      by_cases h1c : 2 * pos + 1 = h.size - 1 ∧ 1 ≤ h.size
      · rw [if_pos h1c]
        have hcl : 2 * pos + 1 < h.size := by omega
        obtain ⟨a, ha⟩ : ∃ a, h[2 * pos + 1]? = some a := ⟨h[2 * pos + 1], by simp [hcl]⟩
        obtain ⟨e, he⟩ : ∃ e, h[pos]? = some e := ⟨h[pos], by simp [hpl]⟩
        simp only [ha, he]
        have hget := get_swap h pos (2 * pos + 1) a e hpl hcl
        have hsz : ((h.set! pos a).set! (2 * pos + 1) e).size = h.size := size_swap h pos _ a e
        refine ⟨?_, hsz, hcl⟩
        constructor
        · intro i hi hic y q hy hq
          have hil : i < h.size := by rw [← hsz]; exact lt_size_of_get hy
          rw [hget] at hy hq
          simp only [hic, if_false] at hy
          have hpic : (i - 1) / 2 ≠ 2 * pos + 1 := by omega
          simp only [hpic, if_false] at hq
          by_cases hipos : i = pos
          · subst hipos
            simp only [if_true, Option.some.injEq] at hy
            rw [← hy]
            have hne : (i - 1) / 2 ≠ i := by omega
            simp only [hne, if_false] at hq
            exact hI.2 (2 * i + 1) a q (by omega) (by omega) hi ha hq
          · simp only [hipos, if_false] at hy
            have hpi : (i - 1) / 2 ≠ pos := by omega
            simp only [hpi, if_false] at hq
            exact hI.1 i hi hipos hpi y q hy hq
        · intro i y g hi hpi _ hy _
          have hil : i < h.size := by rw [← hsz]; exact lt_size_of_get hy
          omega
      · rw [if_neg h1c]
        exact ⟨upInv_of_leaf h pos hI (by omega), rfl, hpl⟩

theorem siftDown_mem : ∀ (fuel : Nat) (h : Heap) (end_ pos : Nat) (x : Cand),
    x ∈ (siftDownToBottom h end_ fuel pos).1 ↔ x ∈ h
  | 0, h, _, _, x => by simp [siftDownToBottom]
  | fuel + 1, h, end_, pos, x => by
    unfold siftDownToBottom
    simp only
    split
    · split
      · next a b e ha hb he =>
        rw [siftDown_mem fuel _ end_ _ x]
        by_cases hab : a.priority ≤ b.priority
        · simp only [hab, if_true]
          exact mem_swap h pos _ b e he hb x
        · simp only [hab, if_false]
          exact mem_swap h pos _ a e he ha x
      · exact Iff.rfl
    · split
      · split
        · next a e ha he => exact mem_swap h pos _ a e he ha x
        · exact Iff.rfl
      · exact Iff.rfl

/-! ### the greatest element is at the root -/

theorem root_max (h : Heap) (hh : HeapOK h) : ∀ (n i : Nat) (x t : Cand), i ≤ n →
    h[i]? = some x → h[0]? = some t → x.priority ≤ t.priority
  | 0, i, x, t, hi, hx, ht => by
    have : i = 0 := by omega
    subst this; rw [hx] at ht; rw [Option.some.inj ht]; exact Nat.le_refl _
  | n + 1, i, x, t, hi, hx, ht => by
    by_cases h0 : i = 0
    · subst h0; rw [hx] at ht; rw [Option.some.inj ht]; exact Nat.le_refl _
    · have hil := lt_size_of_get hx
      have hpl : (i - 1) / 2 < h.size := by omega
      obtain ⟨p, hp⟩ : ∃ p, h[(i - 1) / 2]? = some p := ⟨h[(i - 1) / 2], by simp [hpl]⟩
      have h1 := hh i (by omega) x p hx hp
      have h2 := root_max h hh n ((i - 1) / 2) p t (by omega) hp ht
      omega

/-! ### pop -/

theorem heapOK_pop (h : Heap) (hh : HeapOK h) : HeapOK h.pop := by
  intro i hi x p hx hp
  rw [Array.getElem?_pop] at hx hp
  split at hx
  · split at hp
    · exact hh i hi x p hx hp
    · cases hp
  · cases hx

theorem mem_of_mem_pop_or_back (h : Heap) (last x : Cand) (hb : h.back? = some last) (hx : x ∈ h) :
    x ∈ h.pop ∨ x = last := by
  obtain ⟨i, hi⟩ := Array.mem_iff_getElem?.1 hx
  have hil := lt_size_of_get hi
  by_cases hlast : i < h.size - 1
  · exact Or.inl (Array.mem_iff_getElem?.2 ⟨i, by rw [Array.getElem?_pop, if_pos hlast]; exact hi⟩)
  · have : i = h.size - 1 := by omega
    rw [Array.back?_eq_getElem?, ← this, hi] at hb
    exact Or.inr (Option.some.inj hb)

/-- `heapPop` returns an element of greatest priority, keeps the heap order, and the remaining heap
together with the returned element holds exactly the elements of the old heap. -/
theorem heapPop_spec (h : Heap) (c : Cand) (h' : Heap) (hh : HeapOK h) (hp : heapPop h = some (c, h')) :
    HeapOK h' ∧ (∀ x ∈ h, x.priority ≤ c.priority) ∧ (∀ x ∈ h, x = c ∨ x ∈ h') := by
  unfold heapPop at hp
  cases hb : h.back? with
  | none => simp [hb] at hp
  | some last =>
    simp only [hb] at hp
    have hsz : 0 < h.size := by
      rcases Nat.eq_zero_or_pos h.size with h0 | h0
      · rw [Array.back?_eq_getElem?, Array.getElem?_eq_none (by omega)] at hb; cases hb
      · exact h0
    have hlastget : h[h.size - 1]? = some last := by rw [← Array.back?_eq_getElem?]; exact hb
    by_cases hemp : h.pop.isEmpty = true
    · simp only [hemp, if_true, Option.some.injEq, Prod.mk.injEq] at hp
      obtain ⟨rfl, rfl⟩ := hp
      have hs1 : h.size = 1 := by
        have := Array.isEmpty_iff_size_eq_zero.1 hemp
        simp at this; omega
      refine ⟨heapOK_pop h hh, ?_, ?_⟩
      · intro x hx
        rcases mem_of_mem_pop_or_back h _ x hb hx with h1 | h1
        · obtain ⟨i, hi⟩ := Array.mem_iff_getElem?.1 h1
          have := lt_size_of_get hi
          simp at this; omega
        · rw [h1]; exact Nat.le_refl _
      · intro x hx
        rcases mem_of_mem_pop_or_back h _ x hb hx with h1 | h1
        · exact Or.inr h1
        · exact Or.inl h1
    · simp only [hemp, Bool.false_eq_true, if_false] at hp
      have hs2 : 2 ≤ h.size := by
        have : ¬ h.pop.size = 0 := fun hh' => hemp (Array.isEmpty_iff_size_eq_zero.2 hh')
        simp at this; omega
      have hpsz : h.pop.size = h.size - 1 := by simp
      have h0lt : 0 < h.pop.size := by omega
      obtain ⟨top, htop⟩ : ∃ top, h.pop[0]? = some top := ⟨h.pop[0]'h0lt, Array.getElem?_eq_getElem h0lt⟩
      simp only [htop, Option.some.injEq, Prod.mk.injEq] at hp
      obtain ⟨hc, hh'⟩ := hp
      subst hc hh'
      have htop' : h[0]? = some top := by
        rw [Array.getElem?_pop] at htop
        split at htop
        · exact htop
        · cases htop
      -- the state before sifting
      have hI0 : DownInv (h.pop.set! 0 last) 0 := by
        constructor
        · intro i hi _ hpi x p hx hpp
          simp only [Array.set!_eq_setIfInBounds, Array.getElem?_setIfInBounds] at hx hpp
          have h1 : ¬ 0 = i := by omega
          have h2 : ¬ 0 = (i - 1) / 2 := by omega
          simp only [h1, h2, if_false] at hx hpp
          exact heapOK_pop h hh i hi x p hx hpp
        · intro i x g _ _ h0; omega
      have hsz2 : (h.pop.set! 0 last).size = h.size - 1 := by simp
      obtain ⟨hUp, hsz3, hposlt⟩ := siftDown_ok (h.pop.set! 0 last).size (h.pop.set! 0 last) 0
        (by omega) (by rw [hsz2]; omega) hI0
      refine ⟨?_, ?_, ?_⟩
      · apply siftUp_ok _ _ _ _ hUp
        rw [hsz3]; omega
      · intro x hx
        obtain ⟨i, hi⟩ := Array.mem_iff_getElem?.1 hx
        exact root_max h hh i i x top (Nat.le_refl _) hi htop'
      · intro x hx
        rcases mem_of_mem_pop_or_back h _ x hb hx with h1 | h1
        · -- in the popped array: either the root (returned) or still there
          obtain ⟨i, hi⟩ := Array.mem_iff_getElem?.1 h1
          by_cases h0 : i = 0
          · subst h0; rw [htop] at hi; exact Or.inl (Option.some.inj hi).symm
          · right
            rw [siftUp_mem, siftDown_mem]
            refine Array.mem_iff_getElem?.2 ⟨i, ?_⟩
            simp only [Array.set!_eq_setIfInBounds, Array.getElem?_setIfInBounds]
            have : ¬ 0 = i := fun hh' => h0 hh'.symm
            simp only [this, if_false]; exact hi
        · right
          rw [siftUp_mem, siftDown_mem]
          refine Array.mem_iff_getElem?.2 ⟨0, ?_⟩
          simp only [Array.set!_eq_setIfInBounds, Array.getElem?_setIfInBounds]
          simp only [if_true]
          rw [if_pos (by simp; omega), h1]

end Chokan.Kkc
