/-
The lattice invariant (C01, C03): every node of the lattice built by `fromInput` covers exactly the
input characters its position and reading say, through all five construction passes and the
forward pass.
-/
import Chokan.Lemmas.Kkc

namespace Chokan.Kkc
open Chokan.Dic

/-- Dictionary well-formedness: every word is stored under its own non-empty reading. -/
def Dict.WF (d : Dict) : Prop :=
  (∀ p ∈ d.std, p.1 ≠ [] ∧ ∀ w ∈ p.2, w.reading = p.1) ∧ (∀ p ∈ d.anc, p.1 ≠ [] ∧ ∀ w ∈ p.2, w.reading = p.1)

/-- A lattice node covers `input[endAt+1-len ..= endAt]` (a word) or a proper tail of the input (virtual). -/
def NodeOK (input : Str) : Node → Prop
  | .word e _ w _ => e < input.length ∧ w.reading ≠ [] ∧ w.reading.length ≤ e + 1 ∧
      slice input (e + 1 - w.reading.length) e = w.reading
  | .virt e _ s _ => s ≠ [] ∧ e + 1 = input.length ∧ s.length < input.length ∧
      input.drop (input.length - s.length) = s
  | .bos => False
  | .eos => False

def GraphOK (input : Str) (g : Graph) : Prop :=
  g.length = input.length ∧ ∀ (j : Nat) (l : List Node), g[j]? = some l → ∀ n ∈ l, NodeOK input n ∧ n.endAt = j

theorem foldl_inv {α β : Type} (P : β → Prop) (f : β → α → β) :
    ∀ (l : List α) (init : β), P init → (∀ b a, a ∈ l → P b → P (f b a)) → P (l.foldl f init)
  | [], init, h, _ => h
  | a :: t, init, h, hs =>
    foldl_inv P f t (f init a) (hs init a List.mem_cons_self h) (fun b x hx hb => hs b x (List.mem_cons_of_mem _ hx) hb)

theorem graphOK_replicate (input : Str) : GraphOK input (List.replicate input.length []) := by
  refine ⟨by simp, ?_⟩
  intro j l hl n hn
  rw [List.getElem?_replicate] at hl
  split at hl
  · simp only [Option.some.injEq] at hl; subst hl; cases hn
  · cases hl

theorem pushAt_ok (input : Str) (g : Graph) (j : Nat) (mk : Nat → Node) (hg : GraphOK input g)
    (hmk : ∀ idx, NodeOK input (mk idx) ∧ (mk idx).endAt = j) : GraphOK input (pushAt g j mk) := by
  unfold pushAt
  cases hj : g[j]? with
  | none => exact hg
  | some l =>
    simp only
    refine ⟨by simp [hg.1], ?_⟩
    intro k l' hl' n hn
    rw [List.getElem?_set] at hl'
    split at hl'
    · next hjk =>
      subst hjk
      split at hl'
      · simp only [Option.some.injEq] at hl'; subst hl'
        rcases List.mem_append.1 hn with hn | hn
        · exact hg.2 j l hj n hn
        · simp only [List.mem_singleton] at hn; subst hn; exact hmk _
      · cases hl'
    · exact hg.2 k l' hl' n hn

theorem slice_length (input : Str) (i j : Nat) (hij : i ≤ j) (hj : j < input.length) :
    (slice input i j).length = j + 1 - i := by
  simp [slice]; omega

/-- A word whose reading is `input[i..=j]` pushed at `j` is a good node. -/
theorem wordNode_ok (input : Str) (i j idx : Nat) (w : Word) (hij : i ≤ j) (hj : j < input.length)
    (hr : w.reading = slice input i j) : NodeOK input (.word j idx w (some 0)) ∧ (Node.word j idx w (some 0)).endAt = j := by
  have hlen : w.reading.length = j + 1 - i := by rw [hr]; exact slice_length input i j hij hj
  refine ⟨⟨hj, ?_, by omega, ?_⟩, rfl⟩
  · intro h; rw [h] at hlen; simp at hlen; omega
  · rw [hlen, show j + 1 - (j + 1 - i) = i by omega]; exact hr.symm

theorem pushWords_ok (input : Str) (i j : Nat) (hij : i ≤ j) (hj : j < input.length) :
    ∀ (ws : List Word) (g : Graph), GraphOK input g → (∀ w ∈ ws, w.reading = slice input i j) →
      GraphOK input (pushWords g j ws) := by
  intro ws g hg hws
  unfold pushWords
  apply foldl_inv (GraphOK input) _ ws g hg
  intro b w hw hb
  exact pushAt_ok input b j _ hb (fun idx => wordNode_ok input i j idx w hij hj (hws w hw))

theorem lookup_std_reading (d : Dict) (h : Dict.WF d) (key : Str) (w : Word)
    (hw : w ∈ lookup d.stdTrie d.std key) : w.reading = key := by
  obtain ⟨_, ws, hm, hws⟩ := lookup_sound _ _ key w hw
  exact (h.1 _ hm).2 w hws

theorem lookup_anc_reading (d : Dict) (h : Dict.WF d) (key : Str) (w : Word)
    (hw : w ∈ lookup d.ancTrie d.anc key) : w.reading = key := by
  obtain ⟨_, ws, hm, hws⟩ := lookup_sound _ _ key w hw
  exact (h.2 _ hm).2 w hws

theorem findAncillary_ok (input : Str) (d : Dict) (h : Dict.WF d) : GraphOK input (findAncillary input d) := by
  unfold findAncillary
  simp only
  apply foldl_inv (GraphOK input) _ _ _ (graphOK_replicate input)
  intro b i hi hb
  apply foldl_inv (GraphOK input) _ _ _ hb
  intro b' k hk hb'
  have hi' := List.mem_range.1 hi
  have hk' := List.mem_range.1 hk
  exact pushWords_ok input i (i + k) (by omega) (by omega) _ b' hb'
    (fun w hw => lookup_anc_reading d h _ w hw)

theorem findWordOnlyFirst_ok (input : Str) (d : Dict) (h : Dict.WF d) (g : Graph) (hg : GraphOK input g) :
    GraphOK input (findWordOnlyFirst g input d) := by
  unfold findWordOnlyFirst
  apply foldl_inv (GraphOK input) _ _ _ hg
  intro b i hi hb
  have hi' := List.mem_range.1 hi
  exact pushWords_ok input 0 i (by omega) hi' _ b hb (fun w hw => lookup_std_reading d h _ w hw)

theorem findWordAfterPrefix_ok (input : Str) (d : Dict) (h : Dict.WF d) (g anc : Graph) (hg : GraphOK input g) :
    GraphOK input (findWordAfterPrefix g input d anc) := by
  unfold findWordAfterPrefix
  simp only
  apply foldl_inv (GraphOK input) _ _ _ hg
  intro b p _ hb
  apply foldl_inv (GraphOK input) _ _ _ hb
  intro b' k hk hb'
  have hk' := List.mem_range.1 hk
  exact pushWords_ok input (p.endAt + 1) (p.endAt + 1 + k) (by omega) (by omega) _ b' hb'
    (fun w hw => lookup_std_reading d h _ w hw)

theorem mem_flatten_graph (input : Str) (g : Graph) (hg : GraphOK input g) (n : Node) (hn : n ∈ g.flatten) :
    NodeOK input n ∧ n.endAt < input.length := by
  obtain ⟨l, hl, hnl⟩ := List.mem_flatten.1 hn
  obtain ⟨j, hj, hjl⟩ := List.getElem_of_mem hl
  have := hg.2 j l (by rw [List.getElem?_eq_getElem hj, hjl]) n hnl
  exact ⟨this.1, by rw [this.2, ← hg.1]; exact hj⟩

theorem reindex_ok (input : Str) (n : Node) (idx : Nat) (h : NodeOK input n) :
    NodeOK input (reindex n idx) ∧ (reindex n idx).endAt = n.endAt := by
  cases n <;> simp_all [reindex, NodeOK, Node.endAt]

theorem mergeAncillaries_ok (input : Str) (t : Tables) (g anc : Graph) (ctx : Ctx)
    (hg : GraphOK input g) (ha : GraphOK input anc) : GraphOK input (mergeAncillaries t g anc ctx) := by
  unfold mergeAncillaries
  apply foldl_inv (GraphOK input) _ _ _ hg
  intro b node hnode hb
  split
  · have := mem_flatten_graph input anc ha node hnode
    exact pushAt_ok input b node.endAt _ hb (fun idx => reindex_ok input node idx this.1)
  · exact hb

theorem completeVirtual_ok (input : Str) (g : Graph) (hg : GraphOK input g) :
    GraphOK input (completeVirtual g input) := by
  unfold completeVirtual
  simp only
  apply foldl_inv (GraphOK input) _ _ _ hg
  intro b i hi hb
  have hi' : i < input.length - 1 := List.mem_range.1 (List.mem_reverse.1 hi)
  split
  · apply pushAt_ok input b (input.length - 1) _ hb
    intro idx
    refine ⟨⟨?_, by omega, ?_, ?_⟩, rfl⟩
    · intro hnil
      have : (input.drop (i + 1)).length = 0 := by rw [hnil]; rfl
      simp at this; omega
    · simp; omega
    · simp only [List.length_drop]
      rw [show input.length - (input.length - (i + 1)) = i + 1 by omega]
  · exact hb

theorem fromInput_ok (t : Tables) (input : Str) (d : Dict) (ctx : Ctx) (h : Dict.WF d) (g : Graph)
    (hg : fromInput t input d ctx = some g) : GraphOK input g := by
  unfold fromInput at hg
  simp only [Option.some.injEq] at hg
  subst hg
  apply completeVirtual_ok
  apply mergeAncillaries_ok
  · apply findWordAfterPrefix_ok input d h
    exact findWordOnlyFirst_ok input d h _ (graphOK_replicate input)
  · exact findAncillary_ok input d h

theorem setFwd_ok (input : Str) (n : Node) (sc : Score) (h : NodeOK input n) :
    NodeOK input (n.setFwd sc) ∧ (n.setFwd sc).endAt = n.endAt := by
  cases n <;> simp_all [Node.setFwd, NodeOK, Node.endAt]

theorem forwardDp_ok (t : Tables) (ctx : Ctx) (f : Freq) (input : Str) (g : Graph) (hg : GraphOK input g) :
    GraphOK input (forwardDp t ctx f g) := by
  unfold forwardDp
  apply foldl_inv (GraphOK input) _ _ _ hg
  intro b i _ hb
  refine ⟨by simp [hb.1], ?_⟩
  intro k l hl n hn
  rw [List.getElem?_set] at hl
  split at hl
  · next hik =>
    subst hik
    split at hl
    · next hlt =>
      simp only [Option.some.injEq] at hl; subst hl
      obtain ⟨m, hm, rfl⟩ := List.mem_map.1 hn
      have hm' : m ∈ b.getD i [] := hm
      have hbi : b[i]? = some (b.getD i []) := by
        simp [List.getD, List.getElem?_eq_getElem hlt]
      have := hb.2 i _ hbi m hm'
      have h2 := setFwd_ok input m (bestScore t ctx f m (previous b m)) this.1
      exact ⟨h2.1, by rw [h2.2]; exact this.2⟩
    · cases hl
  · exact hb.2 k l hl n hn

end Chokan.Kkc
