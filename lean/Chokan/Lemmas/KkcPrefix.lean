/-
Completeness right after a leading prefix (C03): a prefix found in the ancillary dictionary at the
head of the input is merged into the lattice in every context, the standard words that start right
after it are looked up, and with the regenerated tables `bos → prefix → word → rest → eos` is a
connectable path whenever the engine's own connection rule lets the word follow the prefix.
-/
import Chokan.Lemmas.KkcComplete

namespace Chokan.Kkc
open Chokan.Dic

/-- Some node `.word j _ w (some 0)` is stored at position `j`. -/
def HasWord (j : Nat) (w : Word) (g : Graph) : Prop :=
  ∃ l idx, g[j]? = some l ∧ Node.word j idx w (some 0) ∈ l

theorem hasWord_ext {j : Nat} {w : Word} {g g' : Graph} (h : Ext g g') (hw : HasWord j w g) : HasWord j w g' := by
  obtain ⟨l, idx, hl, hin⟩ := hw
  obtain ⟨l', hl', hin'⟩ := ext_mem h j l _ hl hin
  exact ⟨l', idx, hl', hin'⟩

/-- A fold of extending steps reaches whatever one of its steps establishes. -/
theorem foldl_reaches {α : Type} (f : Graph → α → Graph) (hext : ∀ g a, Ext g (f g a))
    (Q : Graph → Prop) (hQ : ∀ g g', Ext g g' → Q g → Q g') (n : Nat) (a0 : α)
    (hstep : ∀ g, g.length = n → Q (f g a0)) :
    ∀ (as : List α) (g : Graph), g.length = n → a0 ∈ as → Q (as.foldl f g)
  | [], _, _, h => by cases h
  | a :: as, g, hlen, hmem => by
    simp only [List.foldl_cons]
    have hlen' : (f g a).length = n := by rw [← (hext g a).1]; exact hlen
    by_cases hin : a0 ∈ as
    · exact foldl_reaches f hext Q hQ n a0 hstep as (f g a) hlen' hin
    · have : a0 = a := by
        rcases List.mem_cons.1 hmem with h | h
        · exact h
        · exact absurd h hin
      subst this
      exact hQ _ _ (foldl_ext f hext as (f g a0)) (hstep g hlen)

/-- Every ancillary word whose reading is `input[i..=j]` is a node of the ancillary lattice at `j`. -/
theorem findAncillary_mem (input : Str) (d : Dict) (i j : Nat) (hij : i ≤ j) (hj : j < input.length) (w : Word)
    (hw : w ∈ lookup d.ancTrie d.anc (slice input i j)) : HasWord j w (findAncillary input d) := by
  unfold findAncillary
  simp only
  apply foldl_reaches _ _ (HasWord j w) (fun g g' h => hasWord_ext h) input.length i
  · intro g hlen
    apply foldl_reaches _ _ (HasWord j w) (fun g g' h => hasWord_ext h) input.length (j - i)
    · intro g' hlen'
      have : i + (j - i) = j := by omega
      rw [this]
      obtain ⟨l, idx, hl, hin⟩ := pushWords_mem g' j (by omega) _ w hw
      exact ⟨l, idx, hl, hin⟩
    · exact hlen
    · exact List.mem_range.2 (by omega)
    · intro g' k; exact pushWords_ext g' _ _
  · simp
  · exact List.mem_range.2 (by omega)
  · intro g a
    exact foldl_ext _ (fun g k => pushWords_ext g _ _) _ g

/-- Standard words that start right after a prefix found at the head are looked up. -/
theorem findWordAfterPrefix_mem (g : Graph) (input : Str) (d : Dict) (anc : Graph) (hlen : g.length = input.length)
    (p : Node) (hp : p ∈ anc.flatten) (hhead : isHeadPrefix p = true) (i : Nat) (hi : p.endAt + 1 ≤ i)
    (hin : i < input.length) (w : Word) (hw : w ∈ lookup d.stdTrie d.std (slice input (p.endAt + 1) i)) :
    HasWord i w (findWordAfterPrefix g input d anc) := by
  unfold findWordAfterPrefix
  simp only
  apply foldl_reaches _ _ (HasWord i w) (fun g g' h => hasWord_ext h) input.length p
  · intro g' hlen'
    apply foldl_reaches _ _ (HasWord i w) (fun g g' h => hasWord_ext h) input.length (i - (p.endAt + 1))
    · intro g'' hlen''
      have : p.endAt + 1 + (i - (p.endAt + 1)) = i := by omega
      rw [this]
      obtain ⟨l, idx, hl, hin'⟩ := pushWords_mem g'' i (by omega) _ w hw
      exact ⟨l, idx, hl, hin'⟩
    · exact hlen'
    · exact List.mem_range.2 (by omega)
    · intro g'' k; exact pushWords_ext g'' _ _
  · exact hlen
  · exact List.mem_filter.2 ⟨hp, hhead⟩
  · intro g' a
    exact foldl_ext _ (fun g k => pushWords_ext g _ _) _ g'

/-- The head prefix is mergeable in every context (table fact). -/
theorem prefix_headMergeable (ctx : Ctx) : headMergeable genTables ctx (.affix .prefix) = true := by
  cases ctx <;> decide

/-- A prefix of the ancillary lattice that starts at the head is merged into the lattice. -/
theorem mergeAncillaries_prefix (g anc : Graph) (ctx : Ctx) (n : Nat) (hlen : g.length = n)
    (e idx : Nat) (w : Word) (he : e < n) (hstart : (Node.word e idx w (some 0)).startAt = 0)
    (hsp : w.speech = .affix .prefix) (hp : Node.word e idx w (some 0) ∈ anc.flatten) :
    ∃ l idx', (mergeAncillaries genTables g anc ctx)[e]? = some l ∧ Node.word e idx' w (some 0) ∈ l := by
  unfold mergeAncillaries
  apply foldl_reaches _ _ (fun g => ∃ l idx', g[e]? = some l ∧ Node.word e idx' w (some 0) ∈ l)
    (fun g g' h ⟨l, idx', hl, hin⟩ => by
      obtain ⟨l', hl', hin'⟩ := ext_mem h e l _ hl hin
      exact ⟨l', idx', hl', hin'⟩) n (Node.word e idx w (some 0))
  · intro g' hlen'
    have hm : isMergeable genTables g' ctx (Node.word e idx w (some 0)) = true := by
      unfold isMergeable
      simp only [hstart, beq_self_eq_true, if_true, hsp]
      exact prefix_headMergeable ctx
    simp only [hm, if_true]
    have hg : g'[e]? = some g'[e] := List.getElem?_eq_getElem (by omega)
    refine ⟨g'[e] ++ [Node.word e g'[e].length w (some 0)], g'[e].length, ?_, by simp⟩
    simp only [pushAt, Node.endAt, hg, reindex]
    rw [List.getElem?_set]; simp; omega
  · exact hlen
  · exact hp
  · intro g' a
    split
    · exact pushAt_ext g' _ _
    · exact ext_refl g'

theorem slice_len (input : Str) (a b : Nat) (hab : a ≤ b) (hb : b < input.length) : (slice input a b).length = b + 1 - a := by
  simp [slice]; omega

/-- **A connectable path through a head prefix and the word after it.** -/
theorem prefix_path (input : Str) (d : Dict) (ctx : Ctx) (f : Freq) (hd : Dict.WF d) (g0 : Graph)
    (hg0 : fromInput genTables input d ctx = some g0)
    (k : Nat) (P : Word) (hP : P ∈ lookup d.ancTrie d.anc (slice input 0 k)) (hPsp : P.speech = .affix .prefix)
    (i : Nat) (hki : k + 1 ≤ i) (hi : i < input.length) (w : Word)
    (hw : w ∈ lookup d.stdTrie d.std (slice input (k + 1) i)) (hind : w.speech.isAncillary = false)
    (x : Nat) (hconn : firstMatch2 (.affix .prefix) w.speech genTables.wordEdges = some x) :
    ∃ p s, IsChain (forwardDp genTables ctx f g0) (.bos :: p) ∧
      pathScore genTables ctx f (.bos :: p) = some s ∧
      (p.map Node.text).flatten = P.word ++ w.word ++ input.drop (i + 1) := by
  have hk : k < input.length := by omega
  have hPrd : P.reading = slice input 0 k := lookup_anc_reading d hd _ P hP
  have hPlen : P.reading.length = k + 1 := by rw [hPrd, slice_len input 0 k (by omega) hk]; omega
  have hwrd : w.reading = slice input (k + 1) i := lookup_std_reading d hd _ w hw
  have hwlen : w.reading.length = i - k := by rw [hwrd, slice_len input (k + 1) i hki hi]; omega
  -- the prefix in the ancillary lattice
  obtain ⟨lA, idxA, hlA, hinA⟩ := findAncillary_mem input d 0 k (by omega) hk P hP
  have hflat : Node.word k idxA P (some 0) ∈ (findAncillary input d).flatten :=
    List.mem_flatten.2 ⟨lA, List.mem_of_getElem? hlA, hinA⟩
  have hstart : (Node.word k idxA P (some 0)).startAt = 0 := by
    simp [Node.startAt, Node.endAt, Node.len, hPlen]
  have hhead : isHeadPrefix (Node.word k idxA P (some 0)) = true := by
    simp [isHeadPrefix, hPsp, Speech.isPrefix, hstart]
  -- the passes
  have e1 : Ext (List.replicate input.length []) (findWordOnlyFirst (List.replicate input.length []) input d) := by
    unfold findWordOnlyFirst
    exact foldl_ext _ (fun g i => pushWords_ext g i _) _ _
  have hlen1 : (findWordOnlyFirst (List.replicate input.length []) input d).length = input.length := by
    rw [← e1.1]; simp
  have hW2 := findWordAfterPrefix_mem _ input d (findAncillary input d) hlen1 _ hflat hhead i
    (by simp [Node.endAt]; omega) hi w (by simpa [Node.endAt] using hw)
  have e2 := findWordAfterPrefix_ext (findWordOnlyFirst (List.replicate input.length []) input d) input d (findAncillary input d)
  have hlen2 : (findWordAfterPrefix (findWordOnlyFirst (List.replicate input.length []) input d) input d
      (findAncillary input d)).length = input.length := by rw [← e2.1]; exact hlen1
  have e3 := mergeAncillaries_ext genTables (findWordAfterPrefix (findWordOnlyFirst (List.replicate input.length []) input d)
      input d (findAncillary input d)) (findAncillary input d) ctx
  have hW3 := hasWord_ext e3 hW2
  obtain ⟨lP3, idxP, hlP3, hinP3⟩ := mergeAncillaries_prefix _ (findAncillary input d) ctx input.length hlen2
    k idxA P hk hstart hPsp hflat
  have hlen3 : (mergeAncillaries genTables (findWordAfterPrefix (findWordOnlyFirst (List.replicate input.length []) input d)
      input d (findAncillary input d)) (findAncillary input d) ctx).length = input.length := by rw [← e3.1]; exact hlen2
  have hg0' : g0 = completeVirtual (mergeAncillaries genTables (findWordAfterPrefix
      (findWordOnlyFirst (List.replicate input.length []) input d) input d (findAncillary input d))
      (findAncillary input d) ctx) input := by
    unfold fromInput at hg0
    simp only [Option.some.injEq] at hg0
    exact hg0.symm
  have e4 := completeVirtual_ext (mergeAncillaries genTables (findWordAfterPrefix
      (findWordOnlyFirst (List.replicate input.length []) input d) input d (findAncillary input d))
      (findAncillary input d) ctx) input
  obtain ⟨lW3, idxW, hlW3, hinW3⟩ := hW3
  obtain ⟨lW0, hlW0, hinW0⟩ := ext_mem e4 i lW3 _ hlW3 hinW3
  obtain ⟨lP0, hlP0, hinP0⟩ := ext_mem e4 k lP3 _ hlP3 hinP3
  rw [← hg0'] at hlW0 hlP0
  have hok0 := fromInput_ok genTables input d ctx hd g0 hg0
  have hok := forwardDp_ok genTables ctx f input g0 hok0
  have hlenG : (forwardDp genTables ctx f g0).length = input.length := hok.1
  obtain ⟨lW, scW, hlW, hinW⟩ := forwardDp_mem genTables ctx f g0 i (.word i idxW w (some 0)) lW0 hlW0 (some 0) hinW0
  obtain ⟨lP, scP, hlP, hinP⟩ := forwardDp_mem genTables ctx f g0 k (.word k idxP P (some 0)) lP0 hlP0 (some 0) hinP0
  have hWf : Node.setFwd scW (.word i idxW w (some 0)) = .word i idxW w scW := rfl
  have hPf : Node.setFwd scP (.word k idxP P (some 0)) = .word k idxP P scP := rfl
  rw [hWf] at hinW
  rw [hPf] at hinP
  have hGd : ∀ j l, (forwardDp genTables ctx f g0)[j]? = some l → (forwardDp genTables ctx f g0).getD j [] = l := by
    intro j l h; simp [List.getD_eq_getElem?_getD, h]
  have hprevP : previous (forwardDp genTables ctx f g0) (.word k idxP P scP) = [.bos] := by
    simp [previous, Node.endAt, Node.len, hPlen]
  have hprevW : previous (forwardDp genTables ctx f g0) (.word i idxW w scW) =
      (forwardDp genTables ctx f g0).getD k [] := by
    simp only [previous, Node.endAt, Node.len, hwlen]
    rw [if_neg (by omega), show i - (i - k) = k by omega]
  have hprevEos : previous (forwardDp genTables ctx f g0) .eos =
      (forwardDp genTables ctx f g0).getD (input.length - 1) [] := by
    simp only [previous, hlenG]
    rw [if_neg (by omega)]
  obtain ⟨eh, heh⟩ := headEdge_some ctx P.speech
  have hedgeP : edgeScore genTables ctx .bos (.word k idxP P scP) = some eh := heh
  obtain ⟨nP, hnP⟩ := nodeScore_some genTables ctx f (.word k idxP P scP)
  obtain ⟨nW, hnW⟩ := nodeScore_some genTables ctx f (.word i idxW w scW)
  have hedgeW : edgeScore genTables ctx (.word k idxP P scP) (.word i idxW w scW) = some x := by
    simp only [edgeScore, hPsp]; exact hconn
  by_cases hfull : i + 1 = input.length
  · refine ⟨[.word k idxP P scP, .word i idxW w scW, .eos], eh + nP + (x + nW + 0), ?_, ?_, ?_⟩
    · refine ⟨by rw [hprevP]; exact List.mem_singleton.2 rfl, ?_, ?_, rfl⟩
      · rw [hprevW, hGd k lP hlP]; exact hinP
      · rw [hprevEos, show input.length - 1 = i by omega, hGd i lW hlW]; exact hinW
    · rw [pathScore_cons2, pathScore_cons2, pathScore_cons2, hedgeP, hnP, hedgeW, hnW]
      simp [pathScore, edgeScore, nodeScore, Score.add]
    · have : input.drop (i + 1) = [] := by rw [hfull]; simp
      simp [Node.text, this]
  · have hi1 : i + 1 < input.length := by omega
    obtain ⟨lv, vidx, hlv, hinv⟩ := completeVirtual_has _ input hlen3 i hi1
      (by
        cases lW3 with
        | nil => cases hinW3
        | cons a l => exact ⟨a, l, hlW3⟩)
    rw [← hg0'] at hlv
    obtain ⟨lV, scV, hlV, hinV⟩ := forwardDp_mem genTables ctx f g0 (input.length - 1)
      (.virt (input.length - 1) vidx (input.drop (i + 1)) (some 0)) lv hlv (some 0) hinv
    have hV : Node.setFwd scV (.virt (input.length - 1) vidx (input.drop (i + 1)) (some 0)) =
        .virt (input.length - 1) vidx (input.drop (i + 1)) scV := rfl
    rw [hV] at hinV
    have hprevV : previous (forwardDp genTables ctx f g0) (.virt (input.length - 1) vidx (input.drop (i + 1)) scV) =
        (forwardDp genTables ctx f g0).getD i [] := by
      simp only [previous, Node.endAt, Node.len, List.length_drop]
      rw [if_neg (by omega), show input.length - 1 - (input.length - (i + 1)) = i by omega]
    obtain ⟨ev, hev⟩ := virtEdge_some w.speech hind
    have hedgeV : edgeScore genTables ctx (.word i idxW w scW) (.virt (input.length - 1) vidx (input.drop (i + 1)) scV) = some ev := hev
    refine ⟨[.word k idxP P scP, .word i idxW w scW, .virt (input.length - 1) vidx (input.drop (i + 1)) scV, .eos],
      eh + nP + (x + nW + (ev + 0 + 0)), ?_, ?_, ?_⟩
    · refine ⟨by rw [hprevP]; exact List.mem_singleton.2 rfl, ?_, ?_, ?_, rfl⟩
      · rw [hprevW, hGd k lP hlP]; exact hinP
      · rw [hprevV, hGd i lW hlW]; exact hinW
      · rw [hprevEos, hGd _ lV hlV]; exact hinV
    · rw [pathScore_cons2, pathScore_cons2, pathScore_cons2, pathScore_cons2, hedgeP, hnP, hedgeW, hnW, hedgeV]
      simp [pathScore, edgeScore, nodeScore, Score.add]
    · simp [Node.text]

end Chokan.Kkc
