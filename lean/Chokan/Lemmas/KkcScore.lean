/-
Scores and shape of the returned list (C02): the accumulated score of a candidate is the score of its
chain (every edge connectable; each edge plus the score of the node it leads to), the list has at most
`n` entries and no two entries have the same text.
-/
import Chokan.Lemmas.KkcSearch

namespace Chokan.Kkc
open Chokan.Dic

/-- Score of a chain: sum over consecutive nodes `(a, b)` of `edge a b + node b`; `none` if some edge
does not connect. -/
def pathScore (t : Tables) (ctx : Ctx) (f : Freq) : List Node → Score
  | [] => some 0
  | [_] => some 0
  | a :: b :: rest =>
    Score.add (Score.add (edgeScore t ctx a b) (nodeScore t ctx f b)) (pathScore t ctx f (b :: rest))

theorem nBest_scores (t : Tables) (ctx : Ctx) (f : Freq) (g : Graph) (n fuel : Nat) :
    ∀ c ∈ nBest t ctx f g n fuel, pathScore t ctx f c.chain = some c.score := by
  intro c hc
  unfold nBest at hc
  refine (search_inv t ctx f g n (fun c => pathScore t ctx f c.chain = some c.score) ?_ fuel _ [] [] ?_ ?_ c hc).1
  · intro c cur rest p sc pr hP hcc hp hsc
    simp only at hP ⊢
    rw [hcc] at hP ⊢
    simp only [pathScore, hP]
    exact hsc
  · intro x hx
    rcases heapPush_sub _ _ _ hx with h1 | rfl
    · simp at h1
    · simp [pathScore]
  · intro x hx; cases hx

/-! ### at most `n`, pairwise different texts -/

theorem memStr_iff (s : Str) : ∀ l : List Str, memStr s l = true ↔ s ∈ l
  | [] => by simp [memStr]
  | x :: t => by simp [memStr, memStr_iff s t, beqStr_iff]

theorem search_list_inv (t : Tables) (ctx : Ctx) (f : Freq) (g : Graph) (n : Nat) (hn : 1 ≤ n) :
    ∀ (fuel : Nat) (h : Heap) (res : List Cand) (seen : List Str),
      res.length < n → (res.map Cand.text).Nodup → (∀ x, x ∈ seen ↔ x ∈ res.map Cand.text) →
      (search t ctx f g n fuel h res seen).length ≤ n ∧ ((search t ctx f g n fuel h res seen).map Cand.text).Nodup
  | 0, _, res, _, hl, hnd, _ => by simp only [search]; exact ⟨by omega, hnd⟩
  | fuel + 1, h, res, seen, hl, hnd, hseen => by
    unfold search
    cases hp : heapPop h with
    | none => simp only; exact ⟨by omega, hnd⟩
    | some p =>
      obtain ⟨c, h1⟩ := p
      simp only
      split
      · split
        · exact search_list_inv t ctx f g n hn fuel h1 res seen hl hnd hseen
        · next hnot =>
          have hnew : c.text ∉ res.map Cand.text := by
            intro hm
            have := (hseen c.text).2 hm
            exact hnot ((memStr_iff _ _).2 this)
          have hnd' : ((res ++ [c]).map Cand.text).Nodup := by
            rw [List.map_append, List.nodup_append]
            refine ⟨hnd, by simp, ?_⟩
            intro a ha b hb
            simp only [List.map_cons, List.map_nil, List.mem_singleton] at hb
            subst hb
            intro hab; subst hab; exact hnew ha
          split
          · next hge => exact ⟨by simp at hge ⊢; omega, hnd'⟩
          · next hlt =>
            apply search_list_inv t ctx f g n hn fuel _ _ _ (by simp at hlt ⊢; omega) hnd'
            intro x
            simp only [List.mem_cons, List.map_append, List.mem_append, List.map_cons, List.map_nil,
              List.not_mem_nil, or_false]
            rw [hseen x]
            constructor
            · rintro (h | h)
              · exact Or.inr h
              · exact Or.inl h
            · rintro (h | h)
              · exact Or.inr h
              · exact Or.inl h
      · exact search_list_inv t ctx f g n hn fuel _ _ _ hl hnd hseen

theorem nBest_list (t : Tables) (ctx : Ctx) (f : Freq) (g : Graph) (n fuel : Nat) (hn : 1 ≤ n) :
    (nBest t ctx f g n fuel).length ≤ n ∧ ((nBest t ctx f g n fuel).map Cand.text).Nodup := by
  unfold nBest
  exact search_list_inv t ctx f g n hn fuel _ [] [] (by simp; omega) (by simp) (by simp)

end Chokan.Kkc
