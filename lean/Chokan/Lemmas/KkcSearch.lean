/-
The backward search keeps `previous`-linked chains (C01): everything in the heap and in the result
list is a chain ending in `eos` whose consecutive nodes are linked by `previous`.  The heap replica is
used only through "what comes out was put in" (elements of the new heap are elements of the old one
or the pushed one).
-/
import Chokan.Lemmas.KkcLattice

namespace Chokan.Kkc
open Chokan.Dic

/-! ### the heap only permutes -/

theorem mem_set! {α : Type} (h : Array α) (i : Nat) (v x : α) (hx : x ∈ h.set! i v) : x ∈ h ∨ x = v :=
  Array.mem_or_eq_of_mem_setIfInBounds hx

theorem siftUp_sub : ∀ (fuel : Nat) (h : Heap) (start pos : Nat) (x : Cand),
    x ∈ siftUp h start fuel pos → x ∈ h
  | 0, h, _, _, x, hx => by simpa [siftUp] using hx
  | fuel + 1, h, start, pos, x, hx => by
    unfold siftUp at hx
    split at hx
    · simp only at hx
      split at hx
      · next e p he hp =>
        split at hx
        · exact hx
        · have := siftUp_sub fuel _ start _ x hx
          rcases mem_set! _ _ _ _ this with h1 | rfl
          · rcases mem_set! _ _ _ _ h1 with h2 | rfl
            · exact h2
            · exact Array.mem_of_getElem? hp
          · exact Array.mem_of_getElem? he
      · exact hx
    · exact hx

theorem siftDown_sub : ∀ (fuel : Nat) (h : Heap) (end_ pos : Nat) (x : Cand),
    x ∈ (siftDownToBottom h end_ fuel pos).1 → x ∈ h
  | 0, h, _, _, x, hx => by simpa [siftDownToBottom] using hx
  | fuel + 1, h, end_, pos, x, hx => by
    unfold siftDownToBottom at hx
    simp only at hx
    split at hx
    · split at hx
      · next a b e ha hb he =>
        have := siftDown_sub fuel _ end_ _ x hx
        rcases mem_set! _ _ _ _ this with h1 | rfl
        · rcases mem_set! _ _ _ _ h1 with h2 | rfl
          · exact h2
          · split
            · exact Array.mem_of_getElem? hb
            · exact Array.mem_of_getElem? ha
        · exact Array.mem_of_getElem? he
      · exact hx
    · split at hx
      · split at hx
        · next a e ha he =>
          rcases mem_set! _ _ _ _ hx with h1 | rfl
          · rcases mem_set! _ _ _ _ h1 with h2 | rfl
            · exact h2
            · exact Array.mem_of_getElem? ha
          · exact Array.mem_of_getElem? he
        · exact hx
      · exact hx

theorem heapPush_sub (h : Heap) (c x : Cand) (hx : x ∈ heapPush h c) : x ∈ h ∨ x = c := by
  unfold heapPush at hx
  exact Array.mem_push.1 (siftUp_sub _ _ _ _ x hx)

theorem mem_pop {α : Type} (h : Array α) (x : α) (hx : x ∈ h.pop) : x ∈ h := by
  have : x ∈ h.pop.toList := Array.mem_toList_iff.2 hx
  rw [Array.toList_pop] at this
  exact Array.mem_toList_iff.1 ((List.dropLast_sublist _).subset this)

theorem heapPop_sub (h : Heap) (c : Cand) (h' : Heap) (hp : heapPop h = some (c, h')) :
    c ∈ h ∧ ∀ x ∈ h', x ∈ h := by
  unfold heapPop at hp
  cases hb : h.back? with
  | none => simp [hb] at hp
  | some last =>
    have hlast : last ∈ h := Array.mem_of_back? hb
    simp only [hb] at hp
    split at hp
    · simp only [Option.some.injEq, Prod.mk.injEq] at hp
      obtain ⟨rfl, rfl⟩ := hp
      exact ⟨hlast, fun x hx => mem_pop h x hx⟩
    · cases ht : h.pop[0]? with
      | none =>
        simp only [ht, Option.some.injEq, Prod.mk.injEq] at hp
        obtain ⟨rfl, rfl⟩ := hp
        exact ⟨hlast, fun x hx => mem_pop h x hx⟩
      | some top =>
        simp only [ht, Option.some.injEq, Prod.mk.injEq] at hp
        obtain ⟨rfl, rfl⟩ := hp
        have htop : top ∈ h := mem_pop h _ (Array.mem_of_getElem? ht)
        refine ⟨htop, ?_⟩
        intro x hx
        have h1 := siftUp_sub _ _ _ _ x hx
        have h2 := siftDown_sub _ _ _ _ x h1
        rcases mem_set! _ _ _ _ h2 with h3 | rfl
        · exact mem_pop h x h3
        · exact hlast

/-! ### chains -/

/-- `previous`-linked chain ending in `eos`. -/
def IsChain (g : Graph) : List Node → Prop
  | [] => False
  | [n] => n = .eos
  | a :: b :: rest => a ∈ previous g b ∧ IsChain g (b :: rest)

theorem expand_inv (t : Tables) (ctx : Ctx) (f : Freq) (g : Graph) (c : Cand) (h : Heap)
    (P : Cand → Prop) (hP : ∀ x ∈ h, P x)
    (hnew : ∀ cur rest p sc pr, c.chain = cur :: rest → p ∈ previous g cur →
      Score.add (Score.add (edgeScore t ctx p cur) (nodeScore t ctx f cur)) (some c.score) = some sc →
      P ⟨p :: c.chain, sc, pr⟩) :
    ∀ x ∈ expand t ctx f g c h, P x := by
  unfold expand
  cases hc : c.chain with
  | nil => exact hP
  | cons cur rest =>
    simp only
    have key : ∀ (ps : List Node) (h0 : Heap), (∀ p ∈ ps, p ∈ previous g cur) → (∀ x ∈ h0, P x) →
        ∀ x ∈ ps.foldl (fun h p =>
          match Score.add (Score.add (edgeScore t ctx p cur) (nodeScore t ctx f cur)) (some c.score) with
          | some next =>
            match Score.add (some next) p.fwd with
            | some prio => heapPush h { chain := p :: c.chain, score := next, priority := prio }
            | none => h
          | none => h) h0, P x := by
      intro ps
      induction ps with
      | nil => intro h0 _ h0P; exact h0P
      | cons p ps ih =>
        intro h0 hps h0P
        simp only [List.foldl_cons]
        apply ih _ (fun q hq => hps q (List.mem_cons_of_mem _ hq))
        intro x hx
        split at hx
        · next next hnext =>
          split at hx
          · rcases heapPush_sub _ _ _ hx with h1 | rfl
            · exact h0P x h1
            · exact hnew cur rest p _ _ hc (hps p List.mem_cons_self) hnext
          · exact h0P x hx
        · exact h0P x hx
    rw [hc] at key
    exact key _ h (fun p hp => hp) hP

/-- Everything `search` returns satisfies an invariant that holds for the initial heap/results and is
kept by extending a chain with a `previous` node. -/
theorem search_inv (t : Tables) (ctx : Ctx) (f : Freq) (g : Graph) (n : Nat) (P : Cand → Prop)
    (hnew : ∀ (c : Cand) cur rest p sc pr, P c → c.chain = cur :: rest → p ∈ previous g cur →
      Score.add (Score.add (edgeScore t ctx p cur) (nodeScore t ctx f cur)) (some c.score) = some sc →
      P ⟨p :: c.chain, sc, pr⟩) :
    ∀ (fuel : Nat) (h : Heap) (res : List Cand) (seen : List Str),
      (∀ x ∈ h, P x) → (∀ x ∈ res, P x ∧ ∃ r, x.chain = .bos :: r) →
      ∀ x ∈ search t ctx f g n fuel h res seen, P x ∧ ∃ r, x.chain = .bos :: r
  | 0, _, res, _, _, hres => by simpa [search] using hres
  | fuel + 1, h, res, seen, hh, hres => by
    unfold search
    cases hp : heapPop h with
    | none => simpa using hres
    | some p =>
      obtain ⟨c, h1⟩ := p
      obtain ⟨hc, hsub⟩ := heapPop_sub h c h1 hp
      have hPc := hh c hc
      have hh1 : ∀ x ∈ h1, P x := fun x hx => hh x (hsub x hx)
      have hexp : ∀ x ∈ expand t ctx f g c h1, P x :=
        expand_inv t ctx f g c h1 P hh1 (fun cur rest p sc pr hcc hpp hsc => hnew c cur rest p sc pr hPc hcc hpp hsc)
      simp only
      split
      · next r hchain =>
        split
        · exact search_inv t ctx f g n P hnew fuel h1 res seen hh1 hres
        · have hres' : ∀ x ∈ res ++ [c], P x ∧ ∃ r, x.chain = .bos :: r := by
            intro x hx
            rcases List.mem_append.1 hx with hx | hx
            · exact hres x hx
            · simp only [List.mem_singleton] at hx; subst hx; exact ⟨hPc, r, hchain⟩
          split
          · exact hres'
          · exact search_inv t ctx f g n P hnew fuel _ _ _ hexp hres'
      · exact search_inv t ctx f g n P hnew fuel _ _ _ hexp hres

/-- Every candidate returned by `nBest` is a `previous`-linked chain from `bos` to `eos`. -/
theorem nBest_chains (t : Tables) (ctx : Ctx) (f : Freq) (g : Graph) (n fuel : Nat) :
    ∀ c ∈ nBest t ctx f g n fuel, IsChain g c.chain ∧ ∃ r, c.chain = .bos :: r := by
  unfold nBest
  apply search_inv t ctx f g n (fun c => IsChain g c.chain)
  · intro c cur rest p sc pr hc hcc hp _
    simp only
    rw [hcc] at hc ⊢
    exact ⟨hp, hc⟩
  · intro x hx
    rcases heapPush_sub _ _ _ hx with h1 | rfl
    · simp at h1
    · simp [IsChain]
  · intro x hx; cases hx

end Chokan.Kkc
