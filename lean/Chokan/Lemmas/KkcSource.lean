/-
Where lattice nodes come from (C03): every word node of the lattice is a dictionary entry found by
looking its own reading up (soundness), and every standard word whose reading is a prefix of the
input is a node of the lattice (completeness at the head).
-/
import Chokan.Lemmas.KkcTiling

namespace Chokan.Kkc
open Chokan.Dic

/-- The node is a word the dictionary returns for its own reading, or the unconverted tail. -/
def FromDict (d : Dict) : Node → Prop
  | .word _ _ w _ => w ∈ lookup d.stdTrie d.std w.reading ∨ w ∈ lookup d.ancTrie d.anc w.reading
  | .virt _ _ _ _ => True
  | _ => False

def GraphAll (Q : Node → Prop) (g : Graph) : Prop := ∀ (j : Nat) (l : List Node), g[j]? = some l → ∀ n ∈ l, Q n

theorem all_replicate (Q : Node → Prop) (k : Nat) : GraphAll Q (List.replicate k []) := by
  intro j l hl n hn
  rw [List.getElem?_replicate] at hl
  split at hl
  · simp only [Option.some.injEq] at hl; subst hl; cases hn
  · cases hl

theorem pushAt_all (Q : Node → Prop) (g : Graph) (j : Nat) (mk : Nat → Node) (hg : GraphAll Q g)
    (hmk : ∀ idx, Q (mk idx)) : GraphAll Q (pushAt g j mk) := by
  unfold pushAt
  cases hj : g[j]? with
  | none => exact hg
  | some l =>
    intro k l' hl' n hn
    simp only at hl'
    rw [List.getElem?_set] at hl'
    split at hl'
    · next hjk =>
      subst hjk
      split at hl'
      · simp only [Option.some.injEq] at hl'; subst hl'
        rcases List.mem_append.1 hn with hn | hn
        · exact hg j l hj n hn
        · simp only [List.mem_singleton] at hn; subst hn; exact hmk _
      · cases hl'
    · exact hg k l' hl' n hn

theorem pushWords_all (Q : Node → Prop) (j : Nat) (ws : List Word) (g : Graph) (hg : GraphAll Q g)
    (hws : ∀ w ∈ ws, ∀ idx, Q (.word j idx w (some 0))) : GraphAll Q (pushWords g j ws) := by
  unfold pushWords
  apply foldl_inv (GraphAll Q) _ ws g hg
  intro b w hw hb
  exact pushAt_all Q b j _ hb (fun idx => hws w hw idx)

theorem fromDict_std (d : Dict) (h : Dict.WF d) (key : Str) (j : Nat) :
    ∀ w ∈ lookup d.stdTrie d.std key, ∀ idx, FromDict d (.word j idx w (some 0)) := by
  intro w hw idx
  have := lookup_std_reading d h key w hw
  simp only [FromDict]; left; rw [this]; exact hw

theorem fromDict_anc (d : Dict) (h : Dict.WF d) (key : Str) (j : Nat) :
    ∀ w ∈ lookup d.ancTrie d.anc key, ∀ idx, FromDict d (.word j idx w (some 0)) := by
  intro w hw idx
  have := lookup_anc_reading d h key w hw
  simp only [FromDict]; right; rw [this]; exact hw

theorem fromInput_fromDict (t : Tables) (input : Str) (d : Dict) (ctx : Ctx) (h : Dict.WF d) (g : Graph)
    (hg : fromInput t input d ctx = some g) : GraphAll (FromDict d) g := by
  unfold fromInput at hg
  simp only [Option.some.injEq] at hg
  subst hg
  have hanc : GraphAll (FromDict d) (findAncillary input d) := by
    unfold findAncillary
    simp only
    apply foldl_inv (GraphAll (FromDict d)) _ _ _ (all_replicate _ _)
    intro b i _ hb
    apply foldl_inv (GraphAll (FromDict d)) _ _ _ hb
    intro b' k _ hb'
    exact pushWords_all _ _ _ b' hb' (fromDict_anc d h _ _)
  -- completeVirtual
  unfold completeVirtual
  simp only
  apply foldl_inv (GraphAll (FromDict d))
  · -- mergeAncillaries
    unfold mergeAncillaries
    apply foldl_inv (GraphAll (FromDict d))
    · -- findWordAfterPrefix
      unfold findWordAfterPrefix
      simp only
      apply foldl_inv (GraphAll (FromDict d))
      · unfold findWordOnlyFirst
        apply foldl_inv (GraphAll (FromDict d)) _ _ _ (all_replicate _ _)
        intro b i _ hb
        exact pushWords_all _ _ _ b hb (fromDict_std d h _ _)
      · intro b p _ hb
        apply foldl_inv (GraphAll (FromDict d)) _ _ _ hb
        intro b' k _ hb'
        exact pushWords_all _ _ _ b' hb' (fromDict_std d h _ _)
    · intro b node hnode hb
      split
      · apply pushAt_all _ b _ _ hb
        intro idx
        obtain ⟨l, hl, hnl⟩ := List.mem_flatten.1 hnode
        obtain ⟨j, hj, hjl⟩ := List.getElem_of_mem hl
        have := hanc j l (by rw [List.getElem?_eq_getElem hj, hjl]) node hnl
        cases node <;> simp_all [reindex, FromDict]
      · exact hb
  · intro b i _ hb
    split
    · exact pushAt_all _ b _ _ hb (fun idx => trivial)
    · exact hb

theorem forwardDp_fromDict (t : Tables) (ctx : Ctx) (f : Freq) (d : Dict) (g : Graph)
    (hg : GraphAll (FromDict d) g) : GraphAll (FromDict d) (forwardDp t ctx f g) := by
  unfold forwardDp
  apply foldl_inv (GraphAll (FromDict d)) _ _ _ hg
  intro b i _ hb k l hl n hn
  rw [List.getElem?_set] at hl
  split at hl
  · next hik =>
    subst hik
    split at hl
    · next hlt =>
      simp only [Option.some.injEq] at hl; subst hl
      obtain ⟨m, hm, rfl⟩ := List.mem_map.1 hn
      have hbi : b[i]? = some (b.getD i []) := by simp [List.getD, List.getElem?_eq_getElem hlt]
      have := hb i _ hbi m hm
      cases m <;> simp_all [Node.setFwd, FromDict]
    · cases hl
  · exact hb k l hl n hn

/-! ### completeness at the head: appended nodes stay -/

/-- `g'` extends `g`: same positions, every position list of `g` is a prefix of the one of `g'`. -/
def Ext (g g' : Graph) : Prop :=
  g.length = g'.length ∧ ∀ (j : Nat) (l : List Node), g[j]? = some l → ∃ l', g'[j]? = some (l ++ l')

theorem ext_refl (g : Graph) : Ext g g := ⟨rfl, fun j l h => ⟨[], by simpa using h⟩⟩

theorem ext_trans {a b c : Graph} (h1 : Ext a b) (h2 : Ext b c) : Ext a c := by
  refine ⟨h1.1.trans h2.1, ?_⟩
  intro j l hl
  obtain ⟨l1, hl1⟩ := h1.2 j l hl
  obtain ⟨l2, hl2⟩ := h2.2 j _ hl1
  exact ⟨l1 ++ l2, by rw [hl2, List.append_assoc]⟩

theorem pushAt_ext (g : Graph) (j : Nat) (mk : Nat → Node) : Ext g (pushAt g j mk) := by
  unfold pushAt
  cases hj : g[j]? with
  | none => exact ext_refl g
  | some l =>
    refine ⟨by simp, ?_⟩
    intro k l' hl'
    simp only
    rw [List.getElem?_set]
    split
    · next hjk =>
      subst hjk
      rw [hj] at hl'
      simp only [Option.some.injEq] at hl'; subst hl'
      have : j < g.length := (List.getElem?_eq_some_iff.1 hj).1
      simp only [this, if_true]
      exact ⟨[mk l.length], rfl⟩
    · exact ⟨[], by simpa using hl'⟩

theorem foldl_ext {α : Type} (f : Graph → α → Graph) (hf : ∀ g a, Ext g (f g a)) :
    ∀ (l : List α) (g : Graph), Ext g (l.foldl f g)
  | [], g => ext_refl g
  | a :: t, g => ext_trans (hf g a) (foldl_ext f hf t (f g a))

theorem pushWords_ext (g : Graph) (j : Nat) (ws : List Word) : Ext g (pushWords g j ws) := by
  unfold pushWords
  exact foldl_ext _ (fun g w => pushAt_ext g j _) ws g

/-- After `pushWords` at an existing position every pushed word is a node there. -/
theorem pushWords_mem (g : Graph) (j : Nat) (hj : j < g.length) : ∀ (ws : List Word) (w : Word), w ∈ ws →
    ∃ l idx, (pushWords g j ws)[j]? = some l ∧ Node.word j idx w (some 0) ∈ l := by
  intro ws
  induction ws generalizing g with
  | nil => intro w hw; cases hw
  | cons x t ih =>
    intro w hw
    unfold pushWords
    simp only [List.foldl_cons]
    have hlen : j < (pushAt g j fun idx => Node.word j idx x (some 0)).length := by
      rw [← (pushAt_ext g j _).1]; exact hj
    rcases List.mem_cons.1 hw with rfl | hw
    · -- the node pushed now stays through the remaining pushes
      have hpush : ∃ l, (pushAt g j fun idx => Node.word j idx w (some 0))[j]? = some l ∧
          ∃ idx, Node.word j idx w (some 0) ∈ l := by
        unfold pushAt
        have hg : g[j]? = some g[j] := List.getElem?_eq_getElem hj
        simp only [hg]
        refine ⟨g[j] ++ [Node.word j g[j].length w (some 0)], ?_, g[j].length, by simp⟩
        rw [List.getElem?_set]; simp [hj]
      obtain ⟨l, hl, idx, hidx⟩ := hpush
      have hext := pushWords_ext (pushAt g j fun idx => Node.word j idx w (some 0)) j t
      obtain ⟨l', hl'⟩ := hext.2 j l hl
      exact ⟨l ++ l', idx, hl', List.mem_append_left _ hidx⟩
    · exact ih _ hlen w hw

end Chokan.Kkc

namespace Chokan.Kkc
open Chokan.Dic

theorem ext_mem {g g' : Graph} (h : Ext g g') (j : Nat) (l : List Node) (n : Node)
    (hl : g[j]? = some l) (hn : n ∈ l) : ∃ l', g'[j]? = some l' ∧ n ∈ l' := by
  obtain ⟨l2, h2⟩ := h.2 j l hl
  exact ⟨l ++ l2, h2, List.mem_append_left _ hn⟩

theorem foldl_push_mem (lk : Nat → List Word) :
    ∀ (is : List Nat) (g : Graph), (∀ i ∈ is, i < g.length) → ∀ i0 ∈ is, ∀ w ∈ lk i0,
      ∃ l idx, (is.foldl (fun g i => pushWords g i (lk i)) g)[i0]? = some l ∧ Node.word i0 idx w (some 0) ∈ l
  | [], _, _, _, h, _, _ => by cases h
  | a :: t, g, hb, i0, hi0, w, hw => by
    simp only [List.foldl_cons]
    have hlen : ∀ i ∈ t, i < (pushWords g a (lk a)).length := by
      intro i hi; rw [← (pushWords_ext g a _).1]; exact hb i (List.mem_cons_of_mem _ hi)
    by_cases hmem : i0 ∈ t
    · exact foldl_push_mem lk t _ hlen i0 hmem w hw
    · have ha : i0 = a := by
        rcases List.mem_cons.1 hi0 with h | h
        · exact h
        · exact absurd h hmem
      subst ha
      obtain ⟨l, idx, hl, hin⟩ := pushWords_mem g i0 (hb i0 List.mem_cons_self) (lk i0) w hw
      have hext := foldl_ext (fun g i => pushWords g i (lk i)) (fun g i => pushWords_ext g i _) t (pushWords g i0 (lk i0))
      obtain ⟨l', hl', hin'⟩ := ext_mem hext i0 l _ hl hin
      exact ⟨l', idx, hl', hin'⟩

theorem findWordAfterPrefix_ext (g : Graph) (input : Str) (d : Dict) (anc : Graph) :
    Ext g (findWordAfterPrefix g input d anc) := by
  unfold findWordAfterPrefix
  simp only
  apply foldl_ext
  intro g p
  exact foldl_ext _ (fun g k => pushWords_ext g _ _) _ g

theorem mergeAncillaries_ext (t : Tables) (g anc : Graph) (ctx : Ctx) : Ext g (mergeAncillaries t g anc ctx) := by
  unfold mergeAncillaries
  apply foldl_ext
  intro g node
  split
  · exact pushAt_ext g _ _
  · exact ext_refl g

theorem completeVirtual_ext (g : Graph) (input : Str) : Ext g (completeVirtual g input) := by
  unfold completeVirtual
  simp only
  apply foldl_ext
  intro g i
  split
  · exact pushAt_ext g _ _
  · exact ext_refl g

/-- Completeness at the head (lattice level): every standard word the dictionary returns for a
non-empty prefix `input[0..=i]` of the input is a node of the lattice ending at `i`. -/
theorem head_word_in_lattice (t : Tables) (input : Str) (d : Dict) (ctx : Ctx) (g : Graph)
    (hg : fromInput t input d ctx = some g) (i : Nat) (hi : i < input.length) (w : Word)
    (hw : w ∈ lookup d.stdTrie d.std (slice input 0 i)) :
    ∃ l idx, g[i]? = some l ∧ Node.word i idx w (some 0) ∈ l := by
  unfold fromInput at hg
  simp only [Option.some.injEq] at hg
  subst hg
  have h1 : ∃ l idx, (findWordOnlyFirst (List.replicate input.length []) input d)[i]? = some l ∧
      Node.word i idx w (some 0) ∈ l := by
    unfold findWordOnlyFirst
    exact foldl_push_mem (fun i => lookup d.stdTrie d.std (slice input 0 i)) (List.range input.length) _
      (by intro k hk; simpa using List.mem_range.1 hk) i (List.mem_range.2 hi) w hw
  obtain ⟨l, idx, hl, hin⟩ := h1
  obtain ⟨l2, hl2, hin2⟩ := ext_mem (findWordAfterPrefix_ext _ input d (findAncillary input d)) i l _ hl hin
  obtain ⟨l3, hl3, hin3⟩ := ext_mem (mergeAncillaries_ext t _ (findAncillary input d) ctx) i l2 _ hl2 hin2
  obtain ⟨l4, hl4, hin4⟩ := ext_mem (completeVirtual_ext _ input) i l3 _ hl3 hin3
  exact ⟨l4, idx, hl4, hin4⟩

end Chokan.Kkc
