/-
The `while let Some(..) = heap.pop()` loop of the n-best search terminates (C02).

Every candidate gets a weight: one plus the weights of all chains that extend it.  Popping a candidate
removes its weight from the heap and its children together weigh at least one less, so the total weight
of the heap decreases with every iteration.  Chains cannot grow for ever because every step towards the
start of the sentence moves to a strictly earlier position of the lattice.
-/
import Chokan.Lemmas.KkcAstar

namespace Chokan.Kkc
open Chokan.Dic

/-! ### sums of weights over the heap array -/

def wsum (w : Cand → Nat) (h : Heap) : Nat := (h.toList.map w).sum

theorem sum_set (w : Cand → Nat) : ∀ (l : List Cand) (i : Nat) (x y : Cand), l[i]? = some y →
    ((l.set i x).map w).sum + w y = (l.map w).sum + w x
  | [], i, x, y, h => by simp at h
  | a :: l, 0, x, y, h => by
    simp only [List.getElem?_cons_zero, Option.some.injEq] at h
    subst h
    simp only [List.set_cons_zero, List.map_cons, List.sum_cons]
    omega
  | a :: l, i + 1, x, y, h => by
    simp only [List.getElem?_cons_succ] at h
    have := sum_set w l i x y h
    simp only [List.set_cons_succ, List.map_cons, List.sum_cons]
    omega

theorem wsum_set (w : Cand → Nat) (h : Heap) (i : Nat) (x y : Cand) (hy : h[i]? = some y) :
    wsum w (h.set! i x) + w y = wsum w h + w x := by
  have : (h.set! i x).toList = h.toList.set i x := by simp
  unfold wsum
  rw [this]
  exact sum_set w h.toList i x y (by simpa using hy)

theorem wsum_swap (w : Cand → Nat) (h : Heap) (i j : Nat) (a b : Cand) (hi : h[i]? = some b) (hj : h[j]? = some a) :
    wsum w ((h.set! i a).set! j b) = wsum w h := by
  have h1 := wsum_set w h i a b hi
  have hj' : (h.set! i a)[j]? = some a := by
    simp only [Array.set!_eq_setIfInBounds, Array.getElem?_setIfInBounds]
    by_cases hij : i = j
    · subst hij; simp [lt_size_of_get hi]
    · simp [hij, hj]
  have h2 := wsum_set w (h.set! i a) j b a hj'
  omega

theorem siftUp_wsum (w : Cand → Nat) : ∀ (fuel : Nat) (h : Heap) (start pos : Nat),
    wsum w (siftUp h start fuel pos) = wsum w h
  | 0, h, _, _ => by simp [siftUp]
  | fuel + 1, h, start, pos => by
    unfold siftUp
    split
    · simp only
      split
      · next e p he hp =>
        split
        · rfl
        · rw [siftUp_wsum w fuel _ start _]
          exact wsum_swap w h pos ((pos - 1) / 2) p e he hp
      · rfl
    · rfl

theorem siftDown_wsum (w : Cand → Nat) : ∀ (fuel : Nat) (h : Heap) (end_ pos : Nat),
    wsum w (siftDownToBottom h end_ fuel pos).1 = wsum w h
  | 0, h, _, _ => by simp [siftDownToBottom]
  | fuel + 1, h, end_, pos => by
    unfold siftDownToBottom
    simp only
    split
    · split
      · next a b e ha hb he =>
        rw [siftDown_wsum w fuel _ end_ _]
        by_cases hab : a.priority ≤ b.priority
        · simp only [hab, if_true]
          exact wsum_swap w h pos _ b e he hb
        · simp only [hab, if_false]
          exact wsum_swap w h pos _ a e he ha
      · rfl
    · split
      · split
        · next a e ha he => exact wsum_swap w h pos _ a e he ha
        · rfl
      · rfl

theorem heapPush_wsum (w : Cand → Nat) (h : Heap) (c : Cand) : wsum w (heapPush h c) = wsum w h + w c := by
  unfold heapPush
  rw [siftUp_wsum]
  simp [wsum]

theorem wsum_pop (w : Cand → Nat) (h : Heap) (last : Cand) (hb : h.back? = some last) :
    wsum w h.pop + w last = wsum w h := by
  unfold wsum
  rw [Array.toList_pop]
  have hne : h.toList ≠ [] := by
    intro hh
    have : h = #[] := by cases h; simp_all
    subst this; simp at hb
  have hl : h.toList.getLast hne = last := by
    have : h.toList.getLast? = some last := by
      rw [← Array.getLast?_toList] at hb; exact hb
    rw [List.getLast?_eq_some_getLast hne] at this
    exact Option.some.inj this
  have := List.dropLast_concat_getLast hne
  rw [hl] at this
  conv => rhs; rw [← this]
  simp

/-- Popping removes exactly the weight of the returned candidate. -/
theorem heapPop_wsum (w : Cand → Nat) (h : Heap) (c : Cand) (h' : Heap) (hp : heapPop h = some (c, h')) :
    wsum w h' + w c = wsum w h := by
  unfold heapPop at hp
  cases hb : h.back? with
  | none => simp [hb] at hp
  | some last =>
    simp only [hb] at hp
    have hpop := wsum_pop w h last hb
    split at hp
    · simp only [Option.some.injEq, Prod.mk.injEq] at hp
      obtain ⟨hc, hh'⟩ := hp
      subst hc hh'
      exact hpop
    · cases ht : h.pop[0]? with
      | none =>
        simp only [ht, Option.some.injEq, Prod.mk.injEq] at hp
        obtain ⟨hc, hh'⟩ := hp
        subst hc hh'
        exact hpop
      | some top =>
        simp only [ht, Option.some.injEq, Prod.mk.injEq] at hp
        obtain ⟨hc, hh'⟩ := hp
        subst hc hh'
        rw [siftUp_wsum, siftDown_wsum]
        have := wsum_set w h.pop 0 last top ht
        omega

/-! ### weights -/

/-- One plus the number of `previous`-chains of at most `d` further steps starting at `v`. -/
def wt (g : Graph) : Nat → Node → Nat
  | 0, _ => 1
  | d + 1, v => 1 + ((previous g v).map (wt g d)).sum

theorem wt_pos (g : Graph) : ∀ (d : Nat) (v : Node), 1 ≤ wt g d v
  | 0, _ => Nat.le_refl _
  | d + 1, v => by simp only [wt]; omega

def candW (g : Graph) (L : Nat) (x : Cand) : Nat :=
  match x.chain with
  | [] => 1
  | cur :: _ => wt g (L - x.chain.length) cur

theorem candW_pos (g : Graph) (L : Nat) (x : Cand) : 1 ≤ candW g L x := by
  unfold candW; split
  · exact Nat.le_refl _
  · exact wt_pos g _ _

/-- The chain starts at `bos`, or at a lattice node early enough for the length the chain has reached. -/
def TInv (g : Graph) (x : Cand) : Prop :=
  ∃ cur rest, x.chain = cur :: rest ∧
    (cur = .bos ∨ ∃ (j : Nat) (l : List Node), g[j]? = some l ∧ cur ∈ l ∧ x.chain.length + j ≤ g.length + 1)

theorem child_tinv (input : Str) (g : Graph) (hg : GraphOK input g) (c : Cand) (cur : Node) (rest : List Node)
    (hc : c.chain = cur :: rest) (j : Nat) (l : List Node) (hj : g[j]? = some l) (hcur : cur ∈ l)
    (hlen : c.chain.length + j ≤ g.length + 1) (p : Node) (hp : p ∈ previous g cur) (sc pr : Nat) :
    TInv g { chain := p :: c.chain, score := sc, priority := pr } := by
  refine ⟨p, c.chain, rfl, ?_⟩
  obtain ⟨hok, hend⟩ := hg.2 j l hj cur hcur
  have hl := len_pos_of_ok input cur hok
  have hprev : previous g cur = if cur.endAt < cur.len then [.bos] else g.getD (cur.endAt - cur.len) [] := by
    cases cur <;> simp_all [previous, NodeOK]
  rw [hprev] at hp
  split at hp
  · simp only [List.mem_singleton] at hp; exact Or.inl hp
  · right
    rw [List.getD_eq_getElem?_getD] at hp
    cases hk : g[cur.endAt - cur.len]? with
    | none => simp [hk] at hp
    | some l' =>
      simp [hk] at hp
      refine ⟨cur.endAt - cur.len, l', hk, hp, ?_⟩
      simp only [List.length_cons]
      rw [hend]; omega

theorem foldl_pushChild_wsum (t : Tables) (ctx : Ctx) (f : Freq) (g : Graph) (L : Nat) (c : Cand) (cur : Node) :
    ∀ (ps : List Node) (h : Heap),
      wsum (candW g L) (ps.foldl (pushChild t ctx f c cur) h) ≤
        wsum (candW g L) h + (ps.map (wt g (L - (c.chain.length + 1)))).sum
  | [], h => by simp
  | p :: ps, h => by
    simp only [List.foldl_cons, List.map_cons, List.sum_cons]
    have ih := foldl_pushChild_wsum t ctx f g L c cur ps (pushChild t ctx f c cur h p)
    have hstep : wsum (candW g L) (pushChild t ctx f c cur h p) ≤
        wsum (candW g L) h + wt g (L - (c.chain.length + 1)) p := by
      unfold pushChild
      split
      · split
        · rw [heapPush_wsum]
          simp [candW]
        · omega
      · omega
    omega

/-- Expanding a popped candidate adds strictly less weight than the candidate had. -/
theorem expand_wsum (t : Tables) (ctx : Ctx) (f : Freq) (input : Str) (g : Graph) (hg : GraphOK input g)
    (c : Cand) (h : Heap) (hc : TInv g c) :
    wsum (candW g (g.length + 2)) (expand t ctx f g c h) + 1 ≤
      wsum (candW g (g.length + 2)) h + candW g (g.length + 2) c := by
  obtain ⟨cur, rest, hcc, hcase⟩ := hc
  rw [expand_eq t ctx f g c h cur rest hcc]
  rcases hcase with hb | ⟨j, l, hj, hcur, hlen⟩
  · subst hb
    have := candW_pos g (g.length + 2) c
    simp only [previous, List.foldl_nil]
    omega
  · have hfold := foldl_pushChild_wsum t ctx f g (g.length + 2) c cur (previous g cur) h
    have hw : candW g (g.length + 2) c =
        1 + ((previous g cur).map (wt g (g.length + 2 - (c.chain.length + 1)))).sum := by
      unfold candW
      rw [hcc]
      simp only
      rw [← hcc]
      have : g.length + 2 - c.chain.length = (g.length + 2 - (c.chain.length + 1)) + 1 := by omega
      rw [this, wt]
    omega

theorem expand_tinv (t : Tables) (ctx : Ctx) (f : Freq) (input : Str) (g : Graph) (hg : GraphOK input g)
    (c : Cand) (h : Heap) (hc : TInv g c) (hh : ∀ x ∈ h, TInv g x) :
    ∀ x ∈ expand t ctx f g c h, TInv g x := by
  obtain ⟨cur, rest, hcc, hcase⟩ := id hc
  obtain ⟨_, hmem⟩ := expand_spec t ctx f g c h cur rest hcc
  intro x hx
  rcases (hmem x).1 hx with hx | ⟨p, hp, next, prio, _, _, rfl⟩
  · exact hh x hx
  · rcases hcase with hb | ⟨j, l, hj, hcur, hlen⟩
    · subst hb; simp [previous] at hp
    · exact child_tinv input g hg c cur rest hcc j l hj hcur hlen p hp next prio

/-- With more fuel than the total weight of the heap, the loop ends by itself. -/
theorem searchE_terminates (t : Tables) (ctx : Ctx) (f : Freq) (input : Str) (g : Graph) (hg : GraphOK input g)
    (n : Nat) : ∀ (fuel : Nat) (h : Heap) (res : List Cand) (seen : List Str),
      (∀ x ∈ h, TInv g x) → wsum (candW g (g.length + 2)) h < fuel →
      ∃ R, searchE t ctx f g n fuel h res seen = some R
  | 0, _, _, _, _, hw => by omega
  | fuel + 1, h, res, seen, hT, hw => by
    unfold searchE
    cases hp : heapPop h with
    | none => exact ⟨res, rfl⟩
    | some pr =>
      obtain ⟨c, h1⟩ := pr
      simp only
      obtain ⟨hcin, hsub⟩ := heapPop_sub h c h1 hp
      have hsum := heapPop_wsum (candW g (g.length + 2)) h c h1 hp
      have hcT := hT c hcin
      have hT1 : ∀ x ∈ h1, TInv g x := fun x hx => hT x (hsub x hx)
      have hexp := expand_wsum t ctx f input g hg c h1 hcT
      have hexpT := expand_tinv t ctx f input g hg c h1 hcT hT1
      have hpos := candW_pos g (g.length + 2) c
      split
      · split
        · exact searchE_terminates t ctx f input g hg n fuel h1 res seen hT1 (by omega)
        · split
          · exact ⟨_, rfl⟩
          · exact searchE_terminates t ctx f input g hg n fuel _ _ _ hexpT (by omega)
      · exact searchE_terminates t ctx f input g hg n fuel _ _ _ hexpT (by omega)

/-- **Termination.**  For every lattice there is a number of iterations within which the n-best loop
ends by itself. -/
theorem nBestE_terminates (t : Tables) (ctx : Ctx) (f : Freq) (input : Str) (g : Graph) (hg : GraphOK input g)
    (n : Nat) : ∃ fuel R, nBestE t ctx f g n fuel = some R := by
  -- the children of the root
  have hT0 : ∀ x ∈ expand t ctx f g rootCand #[], TInv g x := by
    obtain ⟨_, hmem⟩ := expand_spec t ctx f g rootCand #[] .eos [] rfl
    intro x hx
    rcases (hmem x).1 hx with hx | ⟨p, hp, next, prio, _, _, rfl⟩
    · simp at hx
    · refine ⟨p, [.eos], rfl, ?_⟩
      simp only [previous] at hp
      split at hp
      · simp only [List.mem_singleton] at hp; exact Or.inl hp
      · right
        rw [List.getD_eq_getElem?_getD] at hp
        cases hk : g[g.length - 1]? with
        | none => simp [hk] at hp
        | some l' =>
          simp [hk] at hp
          refine ⟨g.length - 1, l', hk, hp, ?_⟩
          simp [rootCand]; omega
  obtain ⟨R, hR⟩ := searchE_terminates t ctx f input g hg n
    (wsum (candW g (g.length + 2)) (expand t ctx f g rootCand #[]) + 1) _ [] [] hT0 (Nat.lt_succ_self _)
  refine ⟨wsum (candW g (g.length + 2)) (expand t ctx f g rootCand #[]) + 1 + 1, R, ?_⟩
  unfold nBestE
  rw [heapPush_empty]
  unfold searchE
  rw [heapPop_single]
  simp only [rootCand] at hR ⊢
  exact hR

/-- More fuel never changes a result the loop reached by itself. -/
theorem searchE_mono (t : Tables) (ctx : Ctx) (f : Freq) (g : Graph) (n : Nat) :
    ∀ (fuel : Nat) (h : Heap) (res : List Cand) (seen : List Str) (R : List Cand),
      searchE t ctx f g n fuel h res seen = some R → searchE t ctx f g n (fuel + 1) h res seen = some R
  | 0, _, _, _, _, hs => by simp [searchE] at hs
  | fuel + 1, h, res, seen, R, hs => by
    unfold searchE at hs ⊢
    cases hp : heapPop h with
    | none => simpa [hp] using hs
    | some pr =>
      obtain ⟨c, h1⟩ := pr
      simp only [hp] at hs ⊢
      split
      · next r hchain =>
        simp only [hchain] at hs
        split
        · next hm => simp only [hm, if_true] at hs; exact searchE_mono t ctx f g n fuel _ _ _ R hs
        · next hm =>
          simp only [hm, Bool.false_eq_true, if_false] at hs
          split
          · next hge => simp only [hge, if_true] at hs; exact hs
          · next hge => simp only [hge, if_false] at hs; exact searchE_mono t ctx f g n fuel _ _ _ R hs
      · next hnb =>
        split at hs
        · next r hchain => exact absurd hchain (hnb r)
        · exact searchE_mono t ctx f g n fuel _ _ _ R hs

theorem nBestE_mono (t : Tables) (ctx : Ctx) (f : Freq) (g : Graph) (n fuel : Nat) (R : List Cand)
    (h : nBestE t ctx f g n fuel = some R) : ∀ k, nBestE t ctx f g n (fuel + k) = some R
  | 0 => h
  | k + 1 => searchE_mono t ctx f g n (fuel + k) _ [] [] R (nBestE_mono t ctx f g n fuel R h k)

end Chokan.Kkc
