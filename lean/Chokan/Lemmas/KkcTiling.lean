/-
A `previous`-linked chain from `bos` to `eos` over a lattice satisfying the node invariant tiles the
input: the readings of its nodes concatenate to the input, only its last node may be the unconverted
tail, and its first node is a dictionary word starting at the first character (C01).
-/
import Chokan.Lemmas.KkcSearch

namespace Chokan.Kkc
open Chokan.Dic

def nodeReading : Node → Str
  | .word _ _ w _ => w.reading
  | .virt _ _ s _ => s
  | _ => []

def readings (l : List Node) : Str := (l.map nodeReading).flatten

def isWord : Node → Bool
  | .word _ _ _ _ => true
  | _ => false

/-- `a` is a node of the lattice. -/
def InG (g : Graph) (a : Node) : Prop := ∃ (j : Nat) (l : List Node), g[j]? = some l ∧ a ∈ l

/-- `b` is neither sentence marker. -/
def InGlike (b : Node) : Prop := b ≠ .bos ∧ b ≠ .eos

theorem inG_ok (input : Str) (g : Graph) (hg : GraphOK input g) (a : Node) (h : InG g a) :
    NodeOK input a ∧ a.endAt < input.length := by
  obtain ⟨j, l, hj, ha⟩ := h
  have := hg.2 j l hj a ha
  refine ⟨this.1, ?_⟩
  rw [this.2, ← hg.1]
  exact (List.getElem?_eq_some_iff.1 hj).1

theorem mem_getD_inG (g : Graph) (k : Nat) (a : Node) (h : a ∈ g.getD k []) : InG g a ∧ ∃ l, g[k]? = some l ∧ a ∈ l := by
  unfold List.getD at h
  cases hk : g[k]? with
  | none => simp [hk] at h
  | some l => simp [hk] at h; exact ⟨⟨k, l, hk, h⟩, l, rfl, h⟩

/-- What `a ∈ previous g b` means for a lattice node `a`. -/
theorem previous_lattice (input : Str) (g : Graph) (hg : GraphOK input g) (hn : 0 < input.length)
    (a b : Node) (ha : InG g a) (h : a ∈ previous g b) :
    (b = .eos ∧ a.endAt + 1 = input.length) ∨
    (InGlike b ∧ b.len ≤ b.endAt ∧ a.endAt = b.endAt - b.len) := by
  have hane : a ≠ .bos := by
    intro hb; subst hb; exact (inG_ok input g hg _ ha).1
  cases b with
  | bos => simp [previous] at h
  | eos =>
    left
    simp only [previous] at h
    have hlen : g.length ≠ 0 := by rw [hg.1]; omega
    simp only [hlen, if_false] at h
    obtain ⟨_, l, hl, hal⟩ := mem_getD_inG g _ a h
    have := (hg.2 _ l hl a hal).2
    exact ⟨rfl, by rw [this, hg.1]; omega⟩
  | word e i w f =>
    right
    simp only [previous] at h
    split at h
    · simp only [List.mem_singleton] at h; exact absurd h hane
    · next hlt =>
      obtain ⟨_, l, hl, hal⟩ := mem_getD_inG g _ a h
      have := (hg.2 _ l hl a hal).2
      exact ⟨⟨by simp, by simp⟩, by omega, this⟩
  | virt e i s f =>
    right
    simp only [previous] at h
    split at h
    · simp only [List.mem_singleton] at h; exact absurd h hane
    · next hlt =>
      obtain ⟨_, l, hl, hal⟩ := mem_getD_inG g _ a h
      have := (hg.2 _ l hl a hal).2
      exact ⟨⟨by simp, by simp⟩, by omega, this⟩

/-- Members of `previous` are `bos` or lattice nodes (never `eos`). -/
theorem previous_mem (g : Graph) (a b : Node) (h : a ∈ previous g b) : a = .bos ∨ InG g a := by
  cases b with
  | bos => simp [previous] at h
  | eos =>
    simp only [previous] at h
    split at h
    · simp at h; exact Or.inl h
    · exact Or.inr (mem_getD_inG g _ a h).1
  | word e i w f =>
    simp only [previous] at h
    split at h
    · simp at h; exact Or.inl h
    · exact Or.inr (mem_getD_inG g _ a h).1
  | virt e i s f =>
    simp only [previous] at h
    split at h
    · simp at h; exact Or.inl h
    · exact Or.inr (mem_getD_inG g _ a h).1

theorem reading_of_ok (input : Str) (a : Node) (h : NodeOK input a) :
    a.len = (nodeReading a).length ∧ 1 ≤ a.len ∧ a.len ≤ a.endAt + 1 ∧
    nodeReading a = (input.drop (a.endAt + 1 - a.len)).take a.len := by
  cases a with
  | bos => exact absurd h id
  | eos => exact absurd h id
  | word e i w f =>
    obtain ⟨he, hne, hle, hs⟩ := h
    have hpos : 1 ≤ w.reading.length := List.length_pos_iff.2 hne
    refine ⟨rfl, hpos, hle, ?_⟩
    simp only [nodeReading, Node.len, Node.endAt]
    have h1 : e + 1 - (e + 1 - w.reading.length) = w.reading.length := by omega
    have h2 : slice input (e + 1 - w.reading.length) e = (input.drop (e + 1 - w.reading.length)).take w.reading.length := by
      unfold slice; rw [h1]
    rw [← h2, hs]
  | virt e i s f =>
    obtain ⟨hne, he, hlt, hs⟩ := h
    have hpos : 1 ≤ s.length := List.length_pos_iff.2 hne
    refine ⟨rfl, hpos, by simp only [Node.len, Node.endAt]; omega, ?_⟩
    simp only [nodeReading, Node.len, Node.endAt]
    have : e + 1 - s.length = input.length - s.length := by omega
    rw [this, hs]
    simp

/-- The tail of a chain starting at a lattice node `a`: it reads `input[start a ..]`, its nodes are
lattice nodes up to the final `eos`, and all of them except possibly the last one are words. -/
theorem chain_cover (input : Str) (g : Graph) (hg : GraphOK input g) (hn : 0 < input.length) :
    ∀ (l : List Node) (a : Node), IsChain g (a :: l) → InG g a →
      readings (a :: l) = input.drop (a.endAt + 1 - a.len) ∧
      (∃ mid, a :: l = mid ++ [.eos] ∧ (∀ m ∈ mid, InG g m) ∧ (∀ m ∈ mid.dropLast, isWord m = true))
  | [], a, hc, ha => by
    simp only [IsChain] at hc
    subst hc
    exact absurd (inG_ok input g hg _ ha).1 id
  | [b], a, hc, ha => by
    simp only [IsChain] at hc
    obtain ⟨hab, rfl⟩ := hc
    have hok := inG_ok input g hg a ha
    obtain ⟨hlen, hpos, hle, hr⟩ := reading_of_ok input a hok.1
    rcases previous_lattice input g hg hn a .eos ha hab with ⟨_, hend⟩ | ⟨⟨_, h2⟩, _, _⟩
    · refine ⟨?_, [a], rfl, by simpa using ha, by simp⟩
      have hre : readings [a, .eos] = nodeReading a := by simp [readings, nodeReading]
      rw [hre, hr]
      apply List.take_of_length_le
      simp only [List.length_drop]; omega
    · exact absurd rfl h2
  | b :: c :: rest, a, hc, ha => by
    simp only [IsChain] at hc
    obtain ⟨hab, hbc, hrest⟩ := hc
    have hb : InG g b := by
      rcases previous_mem g b c hbc with rfl | h
      · simp [previous] at hab
      · exact h
    have ih := chain_cover input g hg hn (c :: rest) b ⟨hbc, hrest⟩ hb
    have hoka := inG_ok input g hg a ha
    have hokb := inG_ok input g hg b hb
    obtain ⟨_, hposa, hlea, hra⟩ := reading_of_ok input a hoka.1
    obtain ⟨_, hposb, hleb, _⟩ := reading_of_ok input b hokb.1
    rcases previous_lattice input g hg hn a b ha hab with ⟨rfl, _⟩ | ⟨_, hble, hend⟩
    · exact absurd hokb.1 id
    · -- a ends right before b starts; a cannot be the unconverted tail (that ends at the last character)
      have haw : isWord a = true := by
        cases a with
        | word _ _ _ _ => rfl
        | virt e i s f =>
          exfalso
          obtain ⟨_, he, _, _⟩ := hoka.1
          have h1 : e = b.endAt - b.len := hend
          have h2 : b.endAt < input.length := hokb.2
          have h3 : 1 ≤ b.len := hposb
          have h4 : b.len ≤ b.endAt := hble
          omega
        | bos => exact absurd hoka.1 id
        | eos => exact absurd hoka.1 id
      obtain ⟨hrd, mid, hmid, hin, hw⟩ := ih
      refine ⟨?_, a :: mid, by simp [hmid], ?_, ?_⟩
      · have : readings (a :: b :: c :: rest) = nodeReading a ++ readings (b :: c :: rest) := by
          simp [readings]
        rw [this, hrd, hra]
        have hs : b.endAt + 1 - b.len = (a.endAt + 1 - a.len) + a.len := by omega
        rw [hs, ← List.drop_drop]
        exact List.take_append_drop _ _
      · intro m hm
        rcases List.mem_cons.1 hm with rfl | hm
        · exact ha
        · exact hin m hm
      · intro m hm
        have hmidne : mid ≠ [] := by
          intro hnil; rw [hnil] at hmid; simp at hmid
        rw [List.dropLast_cons_of_ne_nil hmidne] at hm
        rcases List.mem_cons.1 hm with rfl | hm
        · exact haw
        · exact hw m hm

/-- The complete statement about a chain from `bos` to `eos`. -/
theorem chain_tiles (input : Str) (g : Graph) (hg : GraphOK input g) (hn : 0 < input.length)
    (r : List Node) (hc : IsChain g (.bos :: r)) :
    ∃ mid, r = mid ++ [.eos] ∧ mid ≠ [] ∧ readings mid = input ∧ (∀ m ∈ mid, InG g m) ∧
      (∀ m ∈ mid.dropLast, isWord m = true) ∧ (∃ h t, mid = h :: t ∧ isWord h = true) := by
  cases r with
  | nil => simp [IsChain] at hc
  | cons b rest =>
    have hbb : Node.bos ∈ previous g b := by
      cases rest with
      | nil => simp only [IsChain] at hc; exact hc.1
      | cons c t => simp only [IsChain] at hc; exact hc.1
    have hchain : IsChain g (b :: rest) := by
      cases rest with
      | nil => simp only [IsChain] at hc ⊢; exact hc.2
      | cons c t => simp only [IsChain] at hc ⊢; exact hc.2
    -- b is a lattice node
    have hb : InG g b := by
      cases rest with
      | nil =>
        simp only [IsChain] at hchain; subst hchain
        simp only [previous] at hbb
        have hlen : g.length ≠ 0 := by rw [hg.1]; omega
        simp only [hlen, if_false] at hbb
        exact absurd (inG_ok input g hg _ (mem_getD_inG g _ _ hbb).1).1 id
      | cons c t =>
        simp only [IsChain] at hchain
        rcases previous_mem g b c hchain.1 with rfl | h
        · simp [previous] at hbb
        · exact h
    obtain ⟨hrd, mid, hmid, hin, hw⟩ := chain_cover input g hg hn rest b hchain hb
    have hok := inG_ok input g hg b hb
    obtain ⟨_, hpos, hle, _⟩ := reading_of_ok input b hok.1
    -- bos precedes b only if b starts at the first character, and then b is a word
    have hstart : b.endAt < b.len ∧ isWord b = true := by
      cases b with
      | bos => exact absurd hok.1 id
      | eos => exact absurd hok.1 id
      | word e i w f =>
        simp only [previous] at hbb
        split at hbb
        · next h => exact ⟨h, rfl⟩
        · exact absurd (inG_ok input g hg _ (mem_getD_inG g _ _ hbb).1).1 id
      | virt e i s f =>
        simp only [previous] at hbb
        split at hbb
        · next h =>
          obtain ⟨_, he, hlt, _⟩ := hok.1
          simp only [Node.endAt, Node.len] at h
          omega
        · exact absurd (inG_ok input g hg _ (mem_getD_inG g _ _ hbb).1).1 id
    have hmidne : mid ≠ [] := by
      intro hnil; rw [hnil] at hmid
      simp only [List.nil_append, List.cons.injEq] at hmid
      rw [hmid.1] at hok; exact hok.1
    refine ⟨mid, hmid, hmidne, ?_, hin, hw, ?_⟩
    · have h0 : b.endAt + 1 - b.len = 0 := by omega
      rw [h0, List.drop_zero, hmid] at hrd
      simpa [readings, nodeReading] using hrd
    · cases mid with
      | nil => exact absurd rfl hmidne
      | cons h t =>
        simp only [List.cons_append, List.cons.injEq] at hmid
        exact ⟨h, t, rfl, by rw [← hmid.1]; exact hstart.2⟩

end Chokan.Kkc
