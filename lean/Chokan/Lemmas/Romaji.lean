/-
Helper lemmas for the romaji engine model (C19, C17).  Generic in the table: the
side conditions (`noEmptyKey`, `keyChar`, …) are decidable and re-checked by
`decide +kernel` on the regenerated tables in the property files.
-/
import Chokan.Model.Romaji
import Chokan.Gen.Romaji

namespace Chokan.Romaji

theorem beqStr_iff : ∀ (a b : Str), beqStr a b = true ↔ a = b
  | [], [] => by simp [beqStr]
  | [], _ :: _ => by simp [beqStr]
  | _ :: _, [] => by simp [beqStr]
  | x :: xs, y :: ys => by
    simp [beqStr, beqStr_iff xs ys, Nat.beq_eq_true_eq]

theorem beqStr_refl (a : Str) : beqStr a a = true := (beqStr_iff a a).2 rfl

theorem memNat_iff (c : Nat) : ∀ l : List Nat, memNat c l = true ↔ c ∈ l
  | [] => by simp [memNat]
  | x :: t => by simp [memNat, memNat_iff c t, Nat.beq_eq_true_eq]

/-! ### table-row checks -/

def rowOk (table : Table) (cons : List Nat) (bound : Nat) (kv : Str × Str) : Bool :=
  match conv table cons bound kv.1 with
  | some r => beqStr r kv.2
  | none => false

def allRowsOk (table : Table) (cons : List Nat) (bound : Nat) : Table → Bool
  | [] => true
  | kv :: t => rowOk table cons bound kv && allRowsOk table cons bound t

theorem allRowsOk_sound (table : Table) (cons : List Nat) (bound : Nat) :
    ∀ rows, allRowsOk table cons bound rows = true →
      ∀ kv ∈ rows, conv table cons bound kv.1 = some kv.2
  | [], _, kv, h => by cases h
  | r :: t, h, kv, hm => by
    simp only [allRowsOk, Bool.and_eq_true] at h
    rcases List.mem_cons.1 hm with rfl | hm
    · have := h.1
      unfold rowOk at this
      split at this
      · next r' hr => rw [hr, (beqStr_iff _ _).1 this]
      · cases this
    · exact allRowsOk_sound table cons bound t h.2 kv hm

/-! ### key characters -/

/-- `c` occurs in some key of the table. -/
def keyChar : Table → Nat → Bool
  | [], _ => false
  | (k, _) :: t, c => memNat c k || keyChar t c

def noEmptyKey : Table → Bool
  | [] => true
  | (k, _) :: t => !k.isEmpty && noEmptyKey t

theorem assoc_nil_of_noEmptyKey : ∀ table, noEmptyKey table = true → assoc [] table = none
  | [], _ => rfl
  | (k, v) :: t, h => by
    simp only [noEmptyKey, Bool.and_eq_true, Bool.not_eq_true'] at h
    cases k with
    | nil => simp at h
    | cons a as => simp [assoc, beqStr, assoc_nil_of_noEmptyKey t h.2]

/-- A string containing a non-key character is not a key. -/
theorem assoc_none_of_mem : ∀ (table : Table) (s : Str) (c : Nat), c ∈ s → keyChar table c = false →
    assoc s table = none
  | [], _, _, _, _ => rfl
  | (k, v) :: t, s, c, hc, hk => by
    simp only [keyChar, Bool.or_eq_false_iff] at hk
    have hne : beqStr s k = false := by
      cases hb : beqStr s k with
      | false => rfl
      | true =>
        have := (beqStr_iff _ _).1 hb
        subst this
        have := (memNat_iff c s).2 hc
        simp [this] at hk
    simp [assoc, hne, assoc_none_of_mem t s c hc hk.2]

end Chokan.Romaji

namespace Chokan.Romaji

/-! ### the `cl-dotimes` search -/

theorem findKey_some (table : Table) (input : Str) :
    ∀ (todo start len : Nat) (v : Str), findKey table input todo start = some (len, v) →
      start ≤ len ∧ len < start + todo ∧
      assoc (input.take (min input.length len)) table = some v ∧
      ∀ l, start ≤ l → l < len → assoc (input.take (min input.length l)) table = none
  | 0, _, _, _, h => by simp [findKey] at h
  | todo + 1, start, len, v, h => by
    unfold findKey at h
    split at h
    · next v' hv =>
      simp only [Option.some.injEq, Prod.mk.injEq] at h
      obtain ⟨rfl, rfl⟩ := h
      exact ⟨Nat.le_refl _, by omega, hv, fun l h1 h2 => by omega⟩
    · next hv =>
      obtain ⟨h1, h2, h3, h4⟩ := findKey_some table input todo (start + 1) len v h
      refine ⟨by omega, by omega, h3, fun l hl1 hl2 => ?_⟩
      by_cases hl : l = start
      · subst hl; exact hv
      · exact h4 l (by omega) hl2

theorem findKey_none (table : Table) (input : Str) :
    ∀ (todo start : Nat), findKey table input todo start = none →
      ∀ l, start ≤ l → l < start + todo → assoc (input.take (min input.length l)) table = none
  | 0, _, _, l, h1, h2 => by omega
  | todo + 1, start, h, l, h1, h2 => by
    unfold findKey at h
    split at h
    · cases h
    · next hv =>
      by_cases hl : l = start
      · subst hl; exact hv
      · exact findKey_none table input todo (start + 1) h l (by omega) (by omega)

/-- Two inputs that agree on every probed prefix give the same search result. -/
theorem findKey_congr (table : Table) (i1 i2 : Str) :
    ∀ (todo start : Nat),
      (∀ l, start ≤ l → l < start + todo →
        assoc (i1.take (min i1.length l)) table = assoc (i2.take (min i2.length l)) table) →
      findKey table i1 todo start = findKey table i2 todo start
  | 0, _, _ => rfl
  | todo + 1, start, h => by
    unfold findKey
    rw [h start (Nat.le_refl _) (by omega)]
    split
    · rfl
    · exact findKey_congr table i1 i2 todo (start + 1) (fun l h1 h2 => h l (by omega) (by omega))

theorem stepKey_progress (table : Table) (bound : Nat) (hk : noEmptyKey table = true)
    (input : Str) (hne : input ≠ []) :
    ∃ v rest, stepKey table bound input = some (v, rest) ∧ rest.length < input.length := by
  unfold stepKey
  split
  · next len v hf =>
    obtain ⟨_, _, h3, h4⟩ := findKey_some table input bound 0 len v hf
    have hlen1 : 1 ≤ len := by
      rcases Nat.eq_zero_or_pos len with h0 | h0
      · subst h0
        simp [assoc_nil_of_noEmptyKey table hk] at h3
      · exact h0
    have hlen2 : len ≤ input.length := by
      rcases Nat.lt_or_ge input.length len with hc | hc
      · have := h4 input.length (Nat.zero_le _) hc
        rw [Nat.min_eq_left (by omega : input.length ≤ len)] at h3
        simp at this h3
        rw [this] at h3; cases h3
      · exact hc
    refine ⟨v, input.drop len, by simp [hlen2], ?_⟩
    have : 0 < input.length := List.length_pos_iff.2 hne
    simp; omega
  · cases input with
    | nil => exact absurd rfl hne
    | cons c rest => exact ⟨[c], rest, rfl, by simp⟩

/-! ### the sokuon strip -/

theorem stripSokuon_length (cons : List Nat) :
    ∀ input : Str, (stripSokuon cons input).2.length ≤ input.length ∧
      (input ≠ [] → (stripSokuon cons input).2 ≠ [])
  | [] => by simp [stripSokuon]
  | [a] => by simp [stripSokuon, sokuonP]
  | a :: b :: rest => by
    unfold stripSokuon
    split
    · have ih := stripSokuon_length cons (b :: rest)
      constructor
      · simp only [List.length_cons] at ih ⊢; omega
      · intro _; exact ih.2 (by simp)
    · simp

/-! ### totality and fuel independence -/

theorem convFuel_total (table : Table) (cons : List Nat) (bound : Nat)
    (hk : noEmptyKey table = true) :
    ∀ (fuel : Nat) (input : Str), input.length < fuel →
      ∃ out, convFuel table cons bound fuel input = some out
  | _, [], _ => ⟨[], by unfold convFuel; rfl⟩
  | 0, _ :: _, h => by simp at h
  | fuel + 1, a :: t, h => by
    have hs := stripSokuon_length cons (a :: t)
    obtain ⟨v, rest, hstep, hlt⟩ :=
      stepKey_progress table bound hk (stripSokuon cons (a :: t)).2 (hs.2 (by simp))
    obtain ⟨out, hout⟩ := convFuel_total table cons bound hk fuel rest (by
      have := hs.1; simp only [List.length_cons] at this h; omega)
    refine ⟨(stripSokuon cons (a :: t)).1 ++ v ++ out, ?_⟩
    unfold convFuel
    simp only [hstep, hout]

theorem convFuel_fuel (table : Table) (cons : List Nat) (bound : Nat)
    (hk : noEmptyKey table = true) :
    ∀ (f1 f2 : Nat) (input : Str), input.length < f1 → input.length < f2 →
      convFuel table cons bound f1 input = convFuel table cons bound f2 input
  | _, _, [], _, _ => by unfold convFuel; rfl
  | 0, _, _ :: _, h, _ => by simp at h
  | _, 0, _ :: _, _, h => by simp at h
  | f1 + 1, f2 + 1, a :: t, h1, h2 => by
    have hs := stripSokuon_length cons (a :: t)
    obtain ⟨v, rest, hstep, hlt⟩ :=
      stepKey_progress table bound hk (stripSokuon cons (a :: t)).2 (hs.2 (by simp))
    have hr : rest.length < f1 ∧ rest.length < f2 := by
      have := hs.1; simp only [List.length_cons] at this h1 h2; omega
    unfold convFuel
    simp only [hstep, convFuel_fuel table cons bound hk f1 f2 rest hr.1 hr.2]

theorem conv_total (table : Table) (cons : List Nat) (bound : Nat)
    (hk : noEmptyKey table = true) (s : Str) : ∃ out, conv table cons bound s = some out :=
  convFuel_total table cons bound hk _ s (Nat.lt_succ_self _)

theorem conv_eq_fuel (table : Table) (cons : List Nat) (bound : Nat)
    (hk : noEmptyKey table = true) (s : Str) (f : Nat) (h : s.length < f) :
    convFuel table cons bound f s = conv table cons bound s :=
  convFuel_fuel table cons bound hk _ _ s h (Nat.lt_succ_self _)

end Chokan.Romaji

namespace Chokan.Romaji

/-! ### doubled consonants -/

theorem conv_sokuon (table : Table) (cons : List Nat) (bound : Nat)
    (hk : noEmptyKey table = true) (c : Nat) (hc : c ∈ cons) (rest : Str) :
    conv table cons bound (c :: c :: rest) =
      (conv table cons bound (c :: rest)).map (0x3063 :: ·) := by
  have hm : memNat c cons = true := (memNat_iff c cons).2 hc
  have hsok : sokuonP cons (c :: c :: rest) = true := by simp [sokuonP, hm]
  have hs := stripSokuon_length cons (c :: rest)
  obtain ⟨v, rest', hstep, hlt⟩ :=
    stepKey_progress table bound hk (stripSokuon cons (c :: rest)).2 (hs.2 (by simp))
  have hlen : rest'.length < rest.length + 1 := by
    have := hs.1; simp only [List.length_cons] at this; omega
  have e1 : stripSokuon cons (c :: c :: rest) =
      (0x3063 :: (stripSokuon cons (c :: rest)).1, (stripSokuon cons (c :: rest)).2) := by
    rw [stripSokuon]; simp [hsok]
  unfold conv
  simp only [List.length_cons]
  rw [convFuel, convFuel]
  simp only [e1, hstep]
  rw [convFuel_fuel table cons bound hk (rest.length + 1 + 1) (rest.length + 1) rest' (by omega) hlen]
  cases convFuel table cons bound (rest.length + 1) rest' <;> simp

/-! ### pass-through of unmapped characters -/

theorem stripSokuon_cons (cons : List Nat) (a : Nat) (rest : Str) :
    stripSokuon cons (a :: rest) =
      if sokuonP cons (a :: rest) then
        (0x3063 :: (stripSokuon cons rest).1, (stripSokuon cons rest).2)
      else ([], a :: rest) := by
  rw [stripSokuon]

theorem stripSokuon_append (cons : List Nat) (c : Nat) (hc : memNat c cons = false) (ys : Str) :
    ∀ xs : Str, xs ≠ [] → stripSokuon cons (xs ++ c :: ys) =
      ((stripSokuon cons xs).1, (stripSokuon cons xs).2 ++ c :: ys)
  | [], h => absurd rfl h
  | [a], _ => by
    simp [stripSokuon_cons, sokuonP, hc]
  | a :: b :: rest, _ => by
    have ih := stripSokuon_append cons c hc ys (b :: rest) (by simp)
    have e : sokuonP cons (a :: b :: rest ++ c :: ys) = sokuonP cons (a :: b :: rest) := by
      simp [sokuonP]
    simp only [List.cons_append] at ih e ⊢
    rw [stripSokuon_cons cons a (b :: (rest ++ c :: ys)), stripSokuon_cons cons a (b :: rest), e, ih]
    split <;> simp

theorem stripSokuon_unmapped (cons : List Nat) (c : Nat) (hc : memNat c cons = false) (ys : Str) :
    stripSokuon cons (c :: ys) = ([], c :: ys) := by
  cases ys with
  | nil => simp [stripSokuon_cons, sokuonP]
  | cons b t => simp [stripSokuon_cons, sokuonP, hc]

theorem findKey_intro_none (table : Table) (input : Str) :
    ∀ (todo start : Nat),
      (∀ l, start ≤ l → l < start + todo → assoc (input.take (min input.length l)) table = none) →
      findKey table input todo start = none
  | 0, _, _ => rfl
  | todo + 1, start, h => by
    unfold findKey
    rw [h start (Nat.le_refl _) (by omega)]
    exact findKey_intro_none table input todo (start + 1) (fun l h1 h2 => h l (by omega) (by omega))

theorem findKey_intro_some (table : Table) (input : Str) (len : Nat) (v : Str)
    (hv : assoc (input.take (min input.length len)) table = some v) :
    ∀ (todo start : Nat), start ≤ len → len < start + todo →
      (∀ l, start ≤ l → l < len → assoc (input.take (min input.length l)) table = none) →
      findKey table input todo start = some (len, v)
  | 0, _, h1, h2, _ => by omega
  | todo + 1, start, h1, h2, h => by
    unfold findKey
    rcases Nat.eq_or_lt_of_le h1 with he | hl
    · subst he; rw [hv]
    · rw [h start (Nat.le_refl _) hl]
      exact findKey_intro_some table input len v hv todo (start + 1) (by omega) (by omega)
        (fun l h1 h2 => h l (by omega) h2)

theorem findKey_len (table : Table) (bound : Nat) (hk : noEmptyKey table = true)
    (input : Str) (len : Nat) (v : Str) (hf : findKey table input bound 0 = some (len, v)) :
    1 ≤ len ∧ len ≤ input.length := by
  obtain ⟨_, _, h3, h4⟩ := findKey_some table input bound 0 len v hf
  constructor
  · rcases Nat.eq_zero_or_pos len with h0 | h0
    · subst h0
      simp [assoc_nil_of_noEmptyKey table hk] at h3
    · exact h0
  · rcases Nat.lt_or_ge input.length len with hc | hc
    · have := h4 input.length (Nat.zero_le _) hc
      rw [Nat.min_eq_left (by omega : input.length ≤ len)] at h3
      simp at this h3
      rw [this] at h3; cases h3
    · exact hc

/-- A probe that reaches past `r` into `c :: ys` contains the non-key character `c`. -/
theorem probe_past (table : Table) (c : Nat) (hkc : keyChar table c = false) (r ys : Str) (l : Nat)
    (hl : r.length < l) :
    assoc ((r ++ c :: ys).take (min (r ++ c :: ys).length l)) table = none := by
  apply assoc_none_of_mem table _ c _ hkc
  have h1 : min (r ++ c :: ys).length l - r.length = (min (r ++ c :: ys).length l - r.length - 1) + 1 := by
    simp only [List.length_append, List.length_cons]; omega
  rw [List.take_append, h1, List.take_succ_cons]
  simp

theorem probe_within (table : Table) (c : Nat) (r ys : Str) (l : Nat) (hl : l ≤ r.length) :
    assoc ((r ++ c :: ys).take (min (r ++ c :: ys).length l)) table =
      assoc (r.take (min r.length l)) table := by
  have h1 : min (r ++ c :: ys).length l = l := by
    simp only [List.length_append, List.length_cons]; omega
  have h2 : min r.length l = l := by omega
  rw [h1, h2, List.take_append_of_le_length hl]

theorem stepKey_unmapped (table : Table) (bound : Nat) (hk : noEmptyKey table = true)
    (c : Nat) (hkc : keyChar table c = false) (ys : Str) :
    stepKey table bound (c :: ys) = some ([c], ys) := by
  have : findKey table (c :: ys) bound 0 = none := by
    apply findKey_intro_none
    intro l _ _
    rcases Nat.eq_zero_or_pos l with h0 | h0
    · subst h0; simpa using assoc_nil_of_noEmptyKey table hk
    · exact probe_past table c hkc [] ys l (by simpa using h0)
  simp [stepKey, this]

theorem stepKey_append (table : Table) (bound : Nat) (hk : noEmptyKey table = true)
    (c : Nat) (hkc : keyChar table c = false) (r ys : Str) (hr : r ≠ []) :
    stepKey table bound (r ++ c :: ys) =
      (stepKey table bound r).map (fun p => (p.1, p.2 ++ c :: ys)) := by
  cases hf : findKey table r bound 0 with
  | none =>
    have hl : findKey table (r ++ c :: ys) bound 0 = none := by
      apply findKey_intro_none
      intro l h1 h2
      rcases Nat.lt_or_ge r.length l with hl | hl
      · exact probe_past table c hkc r ys l hl
      · rw [probe_within table c r ys l hl]
        exact findKey_none table r bound 0 hf l h1 h2
    cases r with
    | nil => exact absurd rfl hr
    | cons a t =>
      simp only [List.cons_append] at hl
      simp [stepKey, hf, hl]
  | some p =>
    obtain ⟨len, v⟩ := p
    obtain ⟨h1, h2, h3, h4⟩ := findKey_some table r bound 0 len v hf
    obtain ⟨hl1, hl2⟩ := findKey_len table bound hk r len v hf
    have hl : findKey table (r ++ c :: ys) bound 0 = some (len, v) := by
      apply findKey_intro_some table _ len v _ bound 0 h1 h2
      · intro l a b
        rw [probe_within table c r ys l (by omega)]
        exact h4 l a b
      · rw [probe_within table c r ys len hl2]; exact h3
    have : len ≤ (r ++ c :: ys).length := by simp; omega
    simp [stepKey, hf, hl, hl2, List.drop_append_of_le_length hl2] <;> omega

theorem convFuel_cons (table : Table) (cons : List Nat) (bound fuel : Nat) (a : Nat) (t : Str) :
    convFuel table cons bound (fuel + 1) (a :: t) =
      match stepKey table bound (stripSokuon cons (a :: t)).2 with
      | none => none
      | some (v, rest) =>
        match convFuel table cons bound fuel rest with
        | none => none
        | some out => some ((stripSokuon cons (a :: t)).1 ++ v ++ out) := by
  rw [convFuel]
  cases stripSokuon cons (a :: t) with
  | mk e r => rfl

theorem convFuel_passthrough (table : Table) (cons : List Nat) (bound : Nat)
    (hk : noEmptyKey table = true) (c : Nat)
    (hkc : keyChar table c = false) (hc : memNat c cons = false) (ys : Str) :
    ∀ (n : Nat) (xs : Str), xs.length ≤ n → ∀ f1 f2 f3, (xs ++ c :: ys).length < f1 →
      xs.length < f2 → ys.length < f3 →
      convFuel table cons bound f1 (xs ++ c :: ys) =
        (convFuel table cons bound f2 xs).bind fun a =>
          (convFuel table cons bound f3 ys).map fun b => a ++ c :: b := by
  intro n
  induction n with
  | zero =>
    intro xs hx f1 f2 f3 h1 h2 h3
    have : xs = [] := List.length_eq_zero_iff.1 (by omega)
    subst this
    cases f1 with
    | zero => simp at h1
    | succ f1 =>
      rw [List.nil_append, convFuel_cons]
      simp only [stripSokuon_unmapped cons c hc ys, stepKey_unmapped table bound hk c hkc ys]
      rw [convFuel_fuel table cons bound hk f1 f3 ys (by simp at h1; omega) h3]
      have : convFuel table cons bound f2 [] = some [] := by unfold convFuel; rfl
      rw [this]
      cases convFuel table cons bound f3 ys <;> simp
  | succ n ih =>
    intro xs hx f1 f2 f3 h1 h2 h3
    cases xs with
    | nil => exact ih [] (by simp) f1 f2 f3 h1 h2 h3
    | cons a t =>
      cases f1 with
      | zero => simp at h1
      | succ f1 =>
        cases f2 with
        | zero => simp at h2
        | succ f2 =>
          have hs := stripSokuon_length cons (a :: t)
          have hne : (stripSokuon cons (a :: t)).2 ≠ [] := hs.2 (by simp)
          obtain ⟨v, rest, hstep, hlt⟩ :=
            stepKey_progress table bound hk (stripSokuon cons (a :: t)).2 hne
          have hrest : rest.length ≤ n := by
            have := hs.1; simp only [List.length_cons] at this hx; omega
          have e1 := convFuel_cons table cons bound f1 a (t ++ c :: ys)
          rw [← List.cons_append] at e1
          rw [e1, convFuel_cons]
          simp only [stripSokuon_append cons c hc ys (a :: t) (by simp),
            stepKey_append table bound hk c hkc _ ys hne, hstep, Option.map_some]
          rw [ih rest hrest f1 f2 f3 (by
              have := hs.1; simp only [List.length_append, List.length_cons] at this h1 ⊢; omega)
            (by have := hs.1; simp only [List.length_cons] at this h2; omega) h3]
          cases convFuel table cons bound f2 rest with
          | none => simp
          | some o =>
            cases convFuel table cons bound f3 ys <;> simp

theorem conv_passthrough (table : Table) (cons : List Nat) (bound : Nat)
    (hk : noEmptyKey table = true) (xs ys : Str) (c : Nat)
    (hkc : keyChar table c = false) (hc : memNat c cons = false) :
    conv table cons bound (xs ++ c :: ys) =
      (conv table cons bound xs).bind fun a => (conv table cons bound ys).map fun b => a ++ c :: b :=
  convFuel_passthrough table cons bound hk c hkc hc ys xs.length xs (Nat.le_refl _) _ _ _
    (Nat.lt_succ_self _) (Nat.lt_succ_self _) (Nat.lt_succ_self _)

theorem conv_nil (table : Table) (cons : List Nat) (bound : Nat) : conv table cons bound [] = some [] := by
  unfold conv convFuel; rfl

theorem conv_unmapped (table : Table) (cons : List Nat) (bound : Nat)
    (hk : noEmptyKey table = true) :
    ∀ s : Str, (∀ c ∈ s, keyChar table c = false ∧ memNat c cons = false) →
      conv table cons bound s = some s
  | [], _ => conv_nil table cons bound
  | c :: t, h => by
    have hc := h c (by simp)
    have := conv_passthrough table cons bound hk [] t c hc.1 hc.2
    simp only [List.nil_append] at this
    rw [this, conv_nil, conv_unmapped table cons bound hk t (fun x hx => h x (by simp [hx]))]
    simp

/-! ### values of the table are unmapped (kana) -/

def allUnmapped (table : Table) (cons : List Nat) : Str → Bool
  | [] => true
  | c :: t => !keyChar table c && !memNat c cons && allUnmapped table cons t

theorem allUnmapped_sound (table : Table) (cons : List Nat) :
    ∀ s, allUnmapped table cons s = true → ∀ c ∈ s, keyChar table c = false ∧ memNat c cons = false
  | [], _, _, hc => by cases hc
  | x :: t, h, c, hc => by
    simp only [allUnmapped, Bool.and_eq_true, Bool.not_eq_true'] at h
    rcases List.mem_cons.1 hc with rfl | hc
    · exact ⟨h.1.1, h.1.2⟩
    · exact allUnmapped_sound table cons t h.2 c hc

def valuesUnmapped (table : Table) (cons : List Nat) : Table → Bool
  | [] => true
  | (_, v) :: t => allUnmapped table cons v && valuesUnmapped table cons t

theorem valuesUnmapped_sound (table : Table) (cons : List Nat) :
    ∀ rows, valuesUnmapped table cons rows = true →
      ∀ kv ∈ rows, ∀ c ∈ kv.2, keyChar table c = false ∧ memNat c cons = false
  | [], _, _, h => by cases h
  | (k, v) :: t, h, kv, hm => by
    simp only [valuesUnmapped, Bool.and_eq_true] at h
    rcases List.mem_cons.1 hm with rfl | hm
    · exact allUnmapped_sound table cons v h.1
    · exact valuesUnmapped_sound table cons t h.2 kv hm

/-! ### hiragana → katakana -/

theorem hiraToKata_append (kt : Table) : ∀ a b : Str,
    hiraToKata kt (a ++ b) = hiraToKata kt a ++ hiraToKata kt b
  | [], b => rfl
  | c :: a, b => by simp [hiraToKata, hiraToKata_append kt a b]

def kataRowOk (kt : Table) (kv : Str × Str) : Bool :=
  match kv.1 with
  | [c] => (match assoc [c] kt with
      | some v => beqStr (hiraToKata kt [c]) v
      | none => false)
  | _ => true

def kataRowsOk (kt : Table) : Table → Bool
  | [] => true
  | kv :: t => kataRowOk kt kv && kataRowsOk kt t

theorem kataRowsOk_sound (kt : Table) : ∀ rows, kataRowsOk kt rows = true →
    ∀ kv ∈ rows, kv.1.length = 1 →
      hiraToKata kt kv.1 = (assoc kv.1 kt).getD kv.1 ∧ (assoc kv.1 kt).isSome
  | [], _, _, h, _ => by cases h
  | r :: t, h, kv, hm, hl => by
    simp only [kataRowsOk, Bool.and_eq_true] at h
    rcases List.mem_cons.1 hm with rfl | hm
    · obtain ⟨k, v⟩ := kv
      match k, hl with
      | [c], _ =>
        have h1 := h.1
        simp only [kataRowOk] at h1
        split at h1
        · next v' hv => simp [hv, (beqStr_iff _ _).1 h1]
        · cases h1
    · exact kataRowsOk_sound kt t h.2 kv hm hl

/-- Rows whose key did not occur earlier in the table (what `assoc` can return). -/
def firstOccurrencesAux : Table → List Str → Table
  | [], _ => []
  | (k, v) :: t, seen =>
    if seen.any (beqStr k) then firstOccurrencesAux t seen
    else (k, v) :: firstOccurrencesAux t (k :: seen)

def firstOccurrences (t : Table) : Table := firstOccurrencesAux t []

def kataFirstOk (kt : Table) : Table → Bool
  | [] => true
  | (k, v) :: t => (match k with
      | [c] => beqStr (hiraToKata kt [c]) v
      | _ => true) && kataFirstOk kt t

theorem kataFirstOk_sound (kt : Table) : ∀ rows, kataFirstOk kt rows = true →
    ∀ kv ∈ rows, kv.1.length = 1 → hiraToKata kt kv.1 = kv.2
  | [], _, _, h, _ => by cases h
  | (k, v) :: t, h, kv, hm, hl => by
    simp only [kataFirstOk, Bool.and_eq_true] at h
    rcases List.mem_cons.1 hm with rfl | hm
    · match k, hl with
      | [c], _ => exact (beqStr_iff _ _).1 h.1
    · exact kataFirstOk_sound kt t h.2 kv hm hl

end Chokan.Romaji
