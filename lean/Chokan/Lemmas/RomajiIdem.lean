/-
Idempotence of the client's romaji conversion (C19): converting the output of a conversion again
changes nothing.

The output consists of table values and っ (characters no spelling uses: "unmapped") and of
characters passed through one at a time.  A maximal run of passed-through mapped characters is
"stuck": no spelling matches at any of its positions and no doubled consonant starts there — and a
stuck run converts to itself.  Unmapped characters cut the conversion into independent pieces
(`conv_passthrough`).
-/
import Chokan.Lemmas.Romaji

namespace Chokan.Romaji

def unmapped (table : Table) (cons : List Nat) (c : Nat) : Bool := !keyChar table c && !memNat c cons

/-- Every position of the run is a dead end: no doubled consonant, no spelling matches a prefix. -/
def Stuck (table : Table) (cons : List Nat) (bound : Nat) : Str → Prop
  | [] => True
  | c :: t => sokuonP cons (c :: t) = false ∧
      (∀ l, l < bound → assoc ((c :: t).take (min (c :: t).length l)) table = none) ∧
      Stuck table cons bound t

theorem stepKey_pass (table : Table) (bound : Nat) (c : Nat) (t : Str)
    (h : ∀ l, l < bound → assoc ((c :: t).take (min (c :: t).length l)) table = none) :
    stepKey table bound (c :: t) = some ([c], t) := by
  have : findKey table (c :: t) bound 0 = none :=
    findKey_intro_none table (c :: t) bound 0 (fun l _ h2 => h l (by omega))
  simp [stepKey, this]

theorem stripSokuon_none (cons : List Nat) (c : Nat) (t : Str) (h : sokuonP cons (c :: t) = false) :
    stripSokuon cons (c :: t) = ([], c :: t) := by
  rw [stripSokuon_cons]; simp [h]

/-- A stuck run is a fixed point. -/
theorem conv_stuck (table : Table) (cons : List Nat) (bound : Nat) (hk : noEmptyKey table = true) :
    ∀ B : Str, Stuck table cons bound B → conv table cons bound B = some B
  | [], _ => conv_nil table cons bound
  | c :: t, h => by
    obtain ⟨h1, h2, h3⟩ := h
    have ih := conv_stuck table cons bound hk t h3
    unfold conv
    simp only [List.length_cons]
    rw [convFuel_cons, stripSokuon_none cons c t h1]
    simp only [stepKey_pass table bound c t h2]
    rw [conv_eq_fuel table cons bound hk t (t.length + 1) (Nat.lt_succ_self _), ih]
    simp

/-- Unmapped characters in front are copied and the rest is converted on its own. -/
theorem conv_unmapped_prefix (table : Table) (cons : List Nat) (bound : Nat) (hk : noEmptyKey table = true) :
    ∀ (u z : Str), (∀ c ∈ u, unmapped table cons c = true) →
      conv table cons bound (u ++ z) = (conv table cons bound z).map (u ++ ·)
  | [], z, _ => by simp
  | c :: u, z, h => by
    have hc := h c (by simp)
    simp only [unmapped, Bool.and_eq_true, Bool.not_eq_true'] at hc
    have := conv_passthrough table cons bound hk [] (u ++ z) c hc.1 hc.2
    simp only [List.nil_append, conv_nil, Option.bind_some] at this
    rw [List.cons_append, this, conv_unmapped_prefix table cons bound hk u z (fun x hx => h x (by simp [hx]))]
    cases conv table cons bound z <;> simp

/-- The maximal prefix of mapped characters. -/
def mp (table : Table) (cons : List Nat) : Str → Str
  | [] => []
  | c :: t => if unmapped table cons c then [] else c :: mp table cons t

def afterMp (table : Table) (cons : List Nat) : Str → Str
  | [] => []
  | c :: t => if unmapped table cons c then c :: t else afterMp table cons t

theorem mp_split (table : Table) (cons : List Nat) : ∀ s : Str,
    s = mp table cons s ++ afterMp table cons s ∧
    (afterMp table cons s = [] ∨ ∃ d z, afterMp table cons s = d :: z ∧ unmapped table cons d = true)
  | [] => ⟨rfl, Or.inl rfl⟩
  | c :: t => by
    unfold mp afterMp
    by_cases hc : unmapped table cons c = true
    · simp only [hc, if_true]
      exact ⟨rfl, Or.inr ⟨c, t, rfl, hc⟩⟩
    · have hc' : unmapped table cons c = false := by
        cases hq : unmapped table cons c with
        | false => rfl
        | true => exact absurd hq hc
      simp only [hc', Bool.false_eq_true, if_false]
      obtain ⟨h1, h2⟩ := mp_split table cons t
      exact ⟨by rw [List.cons_append, ← h1], h2⟩

/-- Splitting at the first unmapped character. -/
theorem conv_split (table : Table) (cons : List Nat) (bound : Nat) (hk : noEmptyKey table = true)
    (B : Str) (hB : Stuck table cons bound B) (z : Str)
    (hz : z = [] ∨ ∃ d z', z = d :: z' ∧ unmapped table cons d = true) :
    conv table cons bound (B ++ z) = (conv table cons bound z).map (B ++ ·) := by
  rcases hz with rfl | ⟨d, z', rfl, hd⟩
  · simp [conv_stuck table cons bound hk B hB, conv_nil]
  · simp only [unmapped, Bool.and_eq_true, Bool.not_eq_true'] at hd
    rw [conv_passthrough table cons bound hk B z' d hd.1 hd.2, conv_stuck table cons bound hk B hB]
    have := conv_passthrough table cons bound hk [] z' d hd.1 hd.2
    simp only [List.nil_append, conv_nil, Option.bind_some] at this
    rw [this]
    cases conv table cons bound z' <;> simp

def valuesNonempty : Table → Bool
  | [] => true
  | (_, v) :: t => !v.isEmpty && valuesNonempty t

theorem assoc_mem : ∀ (table : Table) (k v : Str), assoc k table = some v → (k, v) ∈ table
  | [], _, _, h => by simp [assoc] at h
  | (k', v') :: t, k, v, h => by
    unfold assoc at h
    split at h
    · next hb =>
      simp only [Option.some.injEq] at h; subst h
      rw [(beqStr_iff _ _).1 hb]; exact List.mem_cons_self
    · exact List.mem_cons_of_mem _ (assoc_mem t k v h)

theorem valuesNonempty_sound : ∀ (rows : Table), valuesNonempty rows = true → ∀ kv ∈ rows, kv.2 ≠ []
  | [], _, _, h => by cases h
  | (k, v) :: t, h, kv, hm => by
    simp only [valuesNonempty, Bool.and_eq_true, Bool.not_eq_true'] at h
    rcases List.mem_cons.1 hm with rfl | hm
    · intro hv
      have hv' : v = [] := hv
      rw [hv'] at h; simp at h
    · exact valuesNonempty_sound t h.2 kv hm

/-- The invariant of a conversion result: it is a fixed point, and its maximal mapped prefix is a
stuck prefix of the input. -/
structure IdemInv (table : Table) (cons : List Nat) (bound : Nat) (s out : Str) : Prop where
  fixed : conv table cons bound out = some out
  stuck : Stuck table cons bound (mp table cons out)
  pre : ∃ s', s = mp table cons out ++ s'

theorem idem_main (table : Table) (cons : List Nat) (bound : Nat) (hk : noEmptyKey table = true)
    (hv : valuesUnmapped table cons table = true) (hne : valuesNonempty table = true)
    (hso : unmapped table cons 0x3063 = true) :
    ∀ (n : Nat) (s out : Str), s.length ≤ n → conv table cons bound s = some out →
      IdemInv table cons bound s out := by
  intro n
  induction n with
  | zero =>
    intro s out hn h
    have : s = [] := List.length_eq_zero_iff.1 (by omega)
    subst this
    rw [conv_nil] at h
    have : out = [] := (Option.some.inj h).symm
    subst this
    exact ⟨conv_nil table cons bound, trivial, ⟨[], rfl⟩⟩
  | succ n ih =>
    intro s out hn h
    cases s with
    | nil =>
      rw [conv_nil] at h
      have : out = [] := (Option.some.inj h).symm
      subst this
      exact ⟨conv_nil table cons bound, trivial, ⟨[], rfl⟩⟩
    | cons a t =>
      unfold conv at h
      simp only [List.length_cons] at h
      rw [convFuel_cons] at h
      have hs := stripSokuon_length cons (a :: t)
      have hrne : (stripSokuon cons (a :: t)).2 ≠ [] := hs.2 (by simp)
      obtain ⟨v, rest, hstep, hlt⟩ := stepKey_progress table bound hk (stripSokuon cons (a :: t)).2 hrne
      simp only [hstep] at h
      have hrestlen : rest.length ≤ n := by
        have := hs.1; simp only [List.length_cons] at this hn; omega
      rw [conv_eq_fuel table cons bound hk rest (t.length + 1) (by
        have := hs.1; simp only [List.length_cons] at this; omega)] at h
      cases hcr : conv table cons bound rest with
      | none => simp [hcr] at h
      | some out' =>
        simp only [hcr, Option.some.injEq] at h
        have ihr := ih rest out' hrestlen hcr
        -- every emitted っ is unmapped
        have he : ∀ c ∈ (stripSokuon cons (a :: t)).1, unmapped table cons c = true := by
          have : ∀ (u : Str) c, c ∈ (stripSokuon cons u).1 → c = 0x3063 := by
            intro u
            induction u with
            | nil => intro c hc; simp [stripSokuon] at hc
            | cons x xs ihx =>
              intro c hc
              rw [stripSokuon_cons] at hc
              split at hc
              · rcases List.mem_cons.1 hc with h | h
                · exact h
                · exact ihx c h
              · simp at hc
          intro c hc
          rw [this _ c hc]; exact hso
        -- the two kinds of step
        unfold stepKey at hstep
        cases hf : findKey table (stripSokuon cons (a :: t)).2 bound 0 with
        | some p =>
          -- a spelling matched: its value is unmapped and non-empty
          obtain ⟨len, val⟩ := p
          simp only [hf] at hstep
          split at hstep
          · simp only [Option.some.injEq, Prod.mk.injEq] at hstep
            obtain ⟨hval, _⟩ := hstep
            subst hval
            obtain ⟨_, _, h3, _⟩ := findKey_some table _ bound 0 len val hf
            have hmem := assoc_mem table _ val h3
            have hvu : ∀ c ∈ val, unmapped table cons c = true := by
              intro c hc
              have := valuesUnmapped_sound table cons table hv _ hmem c hc
              simp [unmapped, this.1, this.2]
            have hvne : val ≠ [] := valuesNonempty_sound table hne _ hmem
            have hall : ∀ c ∈ (stripSokuon cons (a :: t)).1 ++ val, unmapped table cons c = true := by
              intro c hc
              rcases List.mem_append.1 hc with hc | hc
              · exact he c hc
              · exact hvu c hc
            have hout : out = ((stripSokuon cons (a :: t)).1 ++ val) ++ out' := by rw [← h]
            have hmp : mp table cons out = [] := by
              rw [hout]
              cases hev : (stripSokuon cons (a :: t)).1 ++ val with
              | nil =>
                have := List.append_eq_nil_iff.1 hev
                exact absurd this.2 hvne
              | cons x xs =>
                have hx := hall x (by rw [hev]; simp)
                simp [mp, hx]
            refine ⟨?_, by rw [hmp]; trivial, ⟨a :: t, by rw [hmp]; rfl⟩⟩
            rw [hout, conv_unmapped_prefix table cons bound hk _ out' hall, ihr.fixed]
            rfl
          · cases hstep
        | none =>
          simp only [hf] at hstep
          cases hr : (stripSokuon cons (a :: t)).2 with
          | nil => exact absurd hr hrne
          | cons c rt =>
            rw [hr] at hstep hf
            simp only [Option.some.injEq, Prod.mk.injEq] at hstep
            obtain ⟨hval, hrest⟩ := hstep
            subst hval hrest
            have hout : out = (stripSokuon cons (a :: t)).1 ++ (c :: out') := by
              rw [← h]; simp
            -- `c :: out'` is a fixed point whose mapped prefix is stuck and a prefix of `c :: rt`
            have hcore : IdemInv table cons bound (c :: rt) (c :: out') := by
              by_cases hcu : unmapped table cons c = true
              · refine ⟨?_, by simp [mp, hcu, Stuck], ⟨c :: rt, by simp [mp, hcu]⟩⟩
                have := conv_unmapped_prefix table cons bound hk [c] out' (by simpa using hcu)
                simp only [List.cons_append, List.nil_append] at this
                rw [this, ihr.fixed]; rfl
              · have hmpc : mp table cons (c :: out') = c :: mp table cons out' := by simp [mp, hcu]
                obtain ⟨s', hs'⟩ := ihr.pre
                -- the doubled-consonant test and the probes only see the common prefix
                have hnos : sokuonP cons (c :: rt) = false := by
                  have hsr := stripSokuon_cons cons c rt
                  -- `stripSokuon` stopped at `c :: rt`
                  have hstop : ∀ (u : Str), (stripSokuon cons u).2 = c :: rt → sokuonP cons (c :: rt) = false := by
                    intro u
                    induction u with
                    | nil => intro hh; simp [stripSokuon] at hh
                    | cons x xs ihx =>
                      intro hh
                      rw [stripSokuon_cons] at hh
                      split at hh
                      · exact ihx hh
                      · next hns =>
                        simp only [List.cons.injEq] at hh
                        obtain ⟨rfl, rfl⟩ := hh
                        simpa using hns
                  exact hstop _ hr
                have hprobe : ∀ l, l < bound → assoc ((c :: rt).take (min (c :: rt).length l)) table = none :=
                  fun l hl => findKey_none table (c :: rt) bound 0 hf l (Nat.zero_le _) (by omega)
                have hstuck : Stuck table cons bound (c :: mp table cons out') := by
                  refine ⟨?_, ?_, ihr.stuck⟩
                  · -- same first two characters as `c :: rt`
                    cases hm : mp table cons out' with
                    | nil => simp [sokuonP]
                    | cons b bs =>
                      rw [hs', hm] at hnos
                      simpa [sokuonP] using hnos
                  · intro l hl
                    have hpre : (c :: mp table cons out').take (min (c :: mp table cons out').length l) =
                        (c :: rt).take (min (c :: rt).length (min (c :: mp table cons out').length l)) := by
                      rw [hs']
                      have hle : min (c :: mp table cons out').length l ≤ (c :: mp table cons out').length := Nat.min_le_left _ _
                      have h1 : min (c :: (mp table cons out' ++ s')).length (min (c :: mp table cons out').length l) =
                          min (c :: mp table cons out').length l := by
                        simp only [List.length_cons, List.length_append]; omega
                      rw [h1, ← List.cons_append, List.take_append_of_le_length hle]
                    rw [hpre]
                    exact hprobe _ (by omega)
                refine ⟨?_, by rw [hmpc]; exact hstuck, ⟨s', by rw [hmpc, hs']; rfl⟩⟩
                obtain ⟨hsplit, hz⟩ := mp_split table cons out'
                have hfix' := ihr.fixed
                rw [hsplit, conv_split table cons bound hk _ ihr.stuck _ hz] at hfix'
                have hcz : conv table cons bound (afterMp table cons out') = some (afterMp table cons out') := by
                  cases hq : conv table cons bound (afterMp table cons out') with
                  | none => simp [hq] at hfix'
                  | some q =>
                    simp only [hq, Option.map_some, Option.some.injEq] at hfix'
                    rw [List.append_cancel_left hfix']
                have : c :: out' = (c :: mp table cons out') ++ afterMp table cons out' := by
                  rw [List.cons_append, ← hsplit]
                rw [this, conv_split table cons bound hk _ hstuck _ hz, hcz]
                rfl
            -- put the emitted っ in front
            have hfixed : conv table cons bound out = some out := by
              rw [hout, conv_unmapped_prefix table cons bound hk _ _ he, hcore.fixed]; rfl
            by_cases hen : (stripSokuon cons (a :: t)).1 = []
            · -- nothing emitted: the stripped input is the input itself
              have hrs : (stripSokuon cons (a :: t)).2 = a :: t := by
                rw [stripSokuon_cons] at hen ⊢
                split
                · next hsk => simp [hsk] at hen
                · rfl
              rw [hr] at hrs
              rw [hen, List.nil_append] at hout
              rw [hout, ← hrs]
              exact ⟨hcore.fixed, hcore.stuck, hcore.pre⟩
            · have hmp : mp table cons out = [] := by
                rw [hout]
                cases hev : (stripSokuon cons (a :: t)).1 with
                | nil => exact absurd hev hen
                | cons x xs =>
                  have hx := he x (by rw [hev]; simp)
                  simp [mp, hx]
              exact ⟨hfixed, by rw [hmp]; trivial, ⟨a :: t, by rw [hmp]; rfl⟩⟩

/-- **Idempotence.** -/
theorem conv_idempotent (table : Table) (cons : List Nat) (bound : Nat) (hk : noEmptyKey table = true)
    (hv : valuesUnmapped table cons table = true) (hne : valuesNonempty table = true)
    (hso : unmapped table cons 0x3063 = true) (s out : Str) (h : conv table cons bound s = some out) :
    conv table cons bound out = some out :=
  (idem_main table cons bound hk hv hne hso s.length s out (Nat.le_refl _) h).fixed

end Chokan.Romaji
