/-
Lemmas about the SKK line model shared by the C18 theorems and the notes lemmas.
-/
import Chokan.Model.Skk
import Chokan.Props.C10

namespace Chokan.Skk
open Chokan.Dic Chokan.DicText Chokan.Props

theorem spanClass_spec (p : Nat → Bool) : ∀ (s : Str),
    s = (spanClass p s).1 ++ (spanClass p s).2 ∧ (∀ c ∈ (spanClass p s).1, p c = true) ∧
    (∀ c rest, (spanClass p s).2 = c :: rest → p c = false)
  | [] => by simp [spanClass]
  | c :: t => by
    have ih := spanClass_spec p t
    unfold spanClass
    by_cases hc : p c = true
    · simp only [hc, if_true]
      refine ⟨by simp; exact ih.1, ?_, ih.2.2⟩
      intro x hx
      rcases List.mem_cons.1 hx with rfl | hx
      · exact hc
      · exact ih.2.1 x hx
    · have hc' : p c = false := by simpa using hc
      simp only [hc', Bool.false_eq_true, if_false]
      refine ⟨rfl, by simp, ?_⟩
      intro x rest h
      simp only [List.cons.injEq] at h
      rw [← h.1]; exact hc'

/-- Every SKK reading character is a reading character of the dictionary text format. -/
theorem skkKana_in_dic_class (c : Nat) (h : skkKana c = true) :
    isKana Chokan.Gen.DicGrammar.kanaClass c = true := by
  simp only [skkKana, Bool.or_eq_true, Bool.and_eq_true, Nat.ble_eq] at h
  rcases h with (h | h) | h
  · exact C10.C10_kana_class c (by omega) (by omega)
  · have := Nat.eq_of_beq_eq_true h; subst this; exact C10.C10_kana_class _ (by omega) (by omega)
  · have := Nat.eq_of_beq_eq_true h; subst this; decide +kernel

end Chokan.Skk

/-! ### a printer for SKK lines, and the round trip -/

namespace Chokan.Skk
open Chokan.Dic Chokan.DicText

/-- a candidate as it is written in an SKK line: the word and, optionally, an annotation after `;` -/
structure Written where
  word : Str
  annot : Option Str

def printCand (w : Written) : Str :=
  w.word ++ (match w.annot with | some a => 59 :: a | none => []) ++ [47]

/-- `reading okuri blanks /cand/cand/…/` -/
def printSkk (reading okuri sp : Str) (ws : List Written) : Str :=
  reading ++ (okuri ++ (sp ++ 47 :: (ws.map printCand).flatten))

structure WrittenOK (w : Written) : Prop where
  ne : w.word ≠ []
  chars : ∀ c ∈ w.word, isKanjiCh c = true
  annot : ∀ a, w.annot = some a → ∀ c ∈ a, notSlash c = true

theorem parseKanji_print (w : Written) (hw : WrittenOK w) (rest : Str) :
    parseKanji (printCand w ++ rest) = some (w.word, rest) := by
  unfold parseKanji printCand
  obtain ⟨c, t, hct⟩ : ∃ c t, w.word = c :: t := by
    cases h : w.word with
    | nil => exact absurd h hw.ne
    | cons c t => exact ⟨c, t, rfl⟩
  cases ha : w.annot with
  | none =>
    have : spanClass isKanjiCh (w.word ++ [] ++ [47] ++ rest) = (w.word, 47 :: rest) := by
      have := spanClass_append isKanjiCh w.word 47 rest hw.chars (by decide)
      simpa using this
    simp only [this]
    rw [hct]
    simp
  | some a =>
    have h1 : spanClass isKanjiCh (w.word ++ 59 :: a ++ [47] ++ rest) = (w.word, 59 :: (a ++ 47 :: rest)) := by
      have := spanClass_append isKanjiCh w.word 59 (a ++ 47 :: rest) hw.chars (by decide)
      simpa using this
    have h2 : spanClass notSlash (a ++ 47 :: rest) = (a, 47 :: rest) :=
      spanClass_append notSlash a 47 rest (hw.annot a ha) (by decide)
    simp only [h1]
    rw [hct]
    simp only [h2]

theorem parseKanjis_print : ∀ (ws : List Written) (fuel : Nat), (∀ w ∈ ws, WrittenOK w) → ws.length < fuel →
    parseKanjis fuel (ws.map printCand).flatten = (ws.map (·.word), [])
  | [], fuel, _, hf => by
    cases fuel with
    | zero => omega
    | succ n => simp [parseKanjis, parseKanji, spanClass]
  | w :: t, fuel, hok, hf => by
    cases fuel with
    | zero => simp at hf
    | succ n =>
      have ih := parseKanjis_print t n (fun x hx => hok x (List.mem_cons_of_mem _ hx)) (by simp at hf; omega)
      simp only [List.map_cons, List.flatten_cons, parseKanjis]
      rw [parseKanji_print w (hok w List.mem_cons_self)]
      simp [ih]

theorem alpha_not_kana (c : Nat) (h : isAlpha c = true) : skkKana c = false := by
  simp only [isAlpha, Bool.and_eq_true, Nat.ble_eq] at h
  cases hk : skkKana c with
  | false => rfl
  | true =>
    simp only [skkKana, Bool.or_eq_true, Bool.and_eq_true, Nat.ble_eq] at hk
    rcases hk with (hk | hk) | hk
    · omega
    · have := Nat.eq_of_beq_eq_true hk; omega
    · have := Nat.eq_of_beq_eq_true hk; omega

theorem printCand_len (w : Written) : 1 ≤ (printCand w).length := by
  simp only [printCand, List.length_append, List.length_cons, List.length_nil]
  omega

theorem space_not_kana_alpha (c : Nat) (h : isSpace c = true) : skkKana c = false ∧ isAlpha c = false := by
  simp only [isSpace, Bool.or_eq_true] at h
  rcases h with h | h <;> (have := Nat.eq_of_beq_eq_true h; subst this; decide)

/-- **The SKK line parser returns exactly what is written**: for a reading in the SKK kana class, an okuri of
lower-case letters (or none), at least one blank and at least one candidate — each a non-empty word without blank, `/` or
`;`, optionally followed by `;` and an annotation without `/` — the parser returns that reading, that okuri and those
words in that order, annotations stripped. -/
theorem parseSkk_print (reading okuri sp : Str) (ws : List Written)
    (hr : reading ≠ []) (hrk : ∀ c ∈ reading, skkKana c = true) (hok : ∀ c ∈ okuri, isAlpha c = true)
    (hs : sp ≠ []) (hsp : ∀ c ∈ sp, isSpace c = true) (hws : ws ≠ []) (hw : ∀ w ∈ ws, WrittenOK w) :
    parseSkk (printSkk reading okuri sp ws) =
      some ⟨reading, if okuri.isEmpty then none else some okuri, ws.map (·.word)⟩ := by
  obtain ⟨s0, st, hsp0⟩ : ∃ s0 st, sp = s0 :: st := by
    cases h : sp with
    | nil => exact absurd h hs
    | cons a b => exact ⟨a, b, rfl⟩
  have hs0 := hsp s0 (by rw [hsp0]; exact List.mem_cons_self)
  -- reading
  have h1 : spanClass skkKana (printSkk reading okuri sp ws) = (reading, okuri ++ (sp ++ 47 :: (ws.map printCand).flatten)) := by
    unfold printSkk
    cases hok' : okuri with
    | nil =>
      rw [hsp0]
      simpa using spanClass_append skkKana reading s0 (st ++ 47 :: (ws.map printCand).flatten) hrk (space_not_kana_alpha s0 hs0).1
    | cons o ot =>
      have := spanClass_append skkKana reading o (ot ++ (sp ++ 47 :: (ws.map printCand).flatten)) hrk
        (alpha_not_kana o (hok o (by rw [hok']; exact List.mem_cons_self)))
      simpa using this
  -- okuri
  have h2 : spanClass isAlpha (okuri ++ (sp ++ 47 :: (ws.map printCand).flatten)) = (okuri, sp ++ 47 :: (ws.map printCand).flatten) := by
    rw [hsp0]
    simpa using spanClass_append isAlpha okuri s0 (st ++ 47 :: (ws.map printCand).flatten) hok (space_not_kana_alpha s0 hs0).2
  -- blanks
  have h3 : spanClass isSpace (sp ++ 47 :: (ws.map printCand).flatten) = (sp, 47 :: (ws.map printCand).flatten) :=
    spanClass_append isSpace sp 47 _ hsp (by decide)
  have hlen : ws.length < (ws.map printCand).flatten.length + 1 := by
    have : ∀ (l : List Written), l.length ≤ (l.map printCand).flatten.length := by
      intro l
      induction l with
      | nil => simp
      | cons a b ih =>
        have := printCand_len a
        simp only [List.map_cons, List.flatten_cons, List.length_append, List.length_cons]
        omega
    have := this ws; omega
  have h4 := parseKanjis_print ws ((ws.map printCand).flatten.length + 1) hw hlen
  unfold parseSkk
  simp only [h1, h2, h3, h4]
  have hre : reading.isEmpty = false := by cases reading <;> simp_all
  have hse : sp.isEmpty = false := by rw [hsp0]; rfl
  have hwe : (ws.map (·.word)).isEmpty = false := by cases ws <;> simp_all
  simp [hre, hse, hwe]

end Chokan.Skk
