/-
Lemmas about the SKK line model shared by the C18 theorems and the notes lemmas.
-/
import Chokan.Model.Skk
import Chokan.Props.C10

namespace Chokan.Skk
open Chokan.Dic Chokan.DicText Chokan.Props

theorem spanClass_spec (p : Nat → Bool) : ∀ (s : Str),
    s = (spanClass p s).1 ++ (spanClass p s).2 ∧ (∀ c ∈ (spanClass p s).1, p c = true) ∧
    (∀ c rest, (spanClass p s).2 = c :: rest → p c = false)
  | [] => by simp [spanClass]
  | c :: t => by
    have ih := spanClass_spec p t
    unfold spanClass
    by_cases hc : p c = true
    · simp only [hc, if_true]
      refine ⟨by simp; exact ih.1, ?_, ih.2.2⟩
      intro x hx
      rcases List.mem_cons.1 hx with rfl | hx
      · exact hc
      · exact ih.2.1 x hx
    · have hc' : p c = false := by simpa using hc
      simp only [hc', Bool.false_eq_true, if_false]
      refine ⟨rfl, by simp, ?_⟩
      intro x rest h
      simp only [List.cons.injEq] at h
      rw [← h.1]; exact hc'

/-- Every SKK reading character is a reading character of the dictionary text format. -/
theorem skkKana_in_dic_class (c : Nat) (h : skkKana c = true) :
    isKana Chokan.Gen.DicGrammar.kanaClass c = true := by
  simp only [skkKana, Bool.or_eq_true, Bool.and_eq_true, Nat.ble_eq] at h
  rcases h with (h | h) | h
  · exact C10.C10_kana_class c (by omega) (by omega)
  · have := Nat.eq_of_beq_eq_true h; subst this; exact C10.C10_kana_class _ (by omega) (by omega)
  · have := Nat.eq_of_beq_eq_true h; subst this; decide +kernel

end Chokan.Skk
