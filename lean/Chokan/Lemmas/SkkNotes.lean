/-
Lemmas for C18 (notes): what a successful parse of a notes line guarantees about its parts, and
that the converter only emits non-empty kana readings.
-/
import Chokan.Model.SkkNotes
import Chokan.Lemmas.Skk

namespace Chokan.SkkNotes
open Chokan.Dic Chokan.DicText Chokan.Skk

def KanaStr (s : Str) : Prop := ∀ c ∈ s, skkKana c = true

/-- Every range of the notes grammar's (generated) kana class lies in the SKK reading class あ…ん ∪ {ぁ, ー}. -/
def kanaRangesOk : Bool :=
  Chokan.Gen.SkkNotes.kanaRanges.all fun r =>
    (Nat.ble 0x3042 r.1 && Nat.ble r.2 0x3093) || (Nat.beq r.1 r.2 && (Nat.beq r.1 0x3041 || Nat.beq r.1 0x30FC))

theorem kanaRangesOk_true : kanaRangesOk = true := by decide +kernel

theorem notesKana_sub (c : Nat) (h : notesKana c = true) : skkKana c = true := by
  unfold notesKana inRanges at h
  obtain ⟨r, hr, hc⟩ := List.any_eq_true.1 h
  have hok := List.all_eq_true.1 kanaRangesOk_true r hr
  simp only [Bool.and_eq_true, Nat.ble_eq] at hc
  simp only [Bool.or_eq_true, Bool.and_eq_true, Nat.ble_eq, Nat.beq_eq] at hok
  simp only [skkKana, Bool.or_eq_true, Bool.and_eq_true, Nat.ble_eq, Nat.beq_eq]
  omega

/-- A fixed okuri is a non-empty kana string. -/
def OkuriOK : Okuri → Prop
  | .fixed v => v ≠ [] ∧ KanaStr v
  | .charClass _ => True

def SpeechOK (sp : NoteSpeech) : Prop := ∀ o, sp.okuri = some o → OkuriOK o

theorem parseDashKana_ok (s k r : Str) (h : parseDashKana s = some (k, r)) : k ≠ [] ∧ KanaStr k := by
  unfold parseDashKana at h
  split at h
  · next r0 =>
    have hs := spanClass_spec notesKana r0
    cases hk : spanClass notesKana r0 with
    | mk m rest =>
      rw [hk] at h hs
      cases m with
      | nil => simp at h
      | cons a t =>
        simp only [Option.some.injEq, Prod.mk.injEq] at h
        obtain ⟨rfl, _⟩ := h
        exact ⟨by simp, fun c hc => notesKana_sub c (hs.2.1 c hc)⟩
  · cases h

theorem parseDashList_ok : ∀ (fuel : Nat) (s k r : Str), parseDashList fuel s = some (k, r) → k ≠ [] ∧ KanaStr k
  | 0, _, _, _, h => by simp [parseDashList] at h
  | fuel + 1, s, k, r, h => by
    unfold parseDashList at h
    cases hd : parseDashKana s with
    | none => simp [hd] at h
    | some p =>
      obtain ⟨k0, r0⟩ := p
      simp only [hd, Option.some.injEq, Prod.mk.injEq] at h
      obtain ⟨rfl, _⟩ := h
      exact parseDashKana_ok s k0 r0 hd

theorem parseFixed_ok (s : Str) (o : Okuri) (r : Str) (h : parseFixed s = some (o, r)) : OkuriOK o := by
  unfold parseFixed at h
  split at h
  · next r0 =>
    cases hl : parseDashList (r0.length + 1) r0 with
    | none => simp [hl] at h
    | some p =>
      obtain ⟨k, r1⟩ := p
      simp only [hl] at h
      split at h
      · next k' r' heq =>
        simp only [Option.some.injEq, Prod.mk.injEq] at heq h
        obtain ⟨rfl, _⟩ := heq
        obtain ⟨rfl, _⟩ := h
        exact parseDashList_ok _ _ _ _ hl
      · cases h
  · cases h

theorem parseClass_ok (s : Str) (o : Okuri) (r : Str) (h : parseClass s = some (o, r)) : OkuriOK o := by
  unfold parseClass at h
  split at h
  · split at h
    · cases h
    · simp only [Option.some.injEq, Prod.mk.injEq] at h; obtain ⟨rfl, _⟩ := h; trivial
    · cases h
  · cases h

theorem parseOkuri1_ok (s : Str) (o : Okuri) (r : Str) (h : parseOkuri1 s = some (o, r)) : OkuriOK o := by
  unfold parseOkuri1 at h
  cases hf : parseFixed s with
  | some p =>
    obtain ⟨o', r'⟩ := p
    simp only [hf, Option.some.injEq, Prod.mk.injEq] at h
    obtain ⟨rfl, _⟩ := h
    exact parseFixed_ok s o' r' hf
  | none =>
    simp only [hf] at h
    exact parseClass_ok s o r h

theorem parseOkuri_ok (s : Str) (o : Okuri) (r : Str) (h : parseOkuri s = some (o, r)) : OkuriOK o := by
  unfold parseOkuri at h
  cases h1 : parseOkuri1 s with
  | none => simp [h1] at h
  | some p =>
    obtain ⟨o', r'⟩ := p
    simp only [h1] at h
    have := parseOkuri1_ok s o' r' h1
    split at h <;> (simp only [Option.some.injEq, Prod.mk.injEq] at h; obtain ⟨rfl, _⟩ := h; exact this)

theorem parseOkuriOpt_ok (s : Str) (o : Okuri) (h : (parseOkuriOpt s).1 = some o) : OkuriOK o := by
  unfold parseOkuriOpt at h
  cases hp : parseOkuri s with
  | none => simp [hp] at h
  | some p =>
    obtain ⟨o', r'⟩ := p
    simp only [hp, Option.some.injEq] at h
    subst h
    exact parseOkuri_ok s o' r' hp

theorem speechOK_of_opt (sp : NoteSpeech) (s : Str) (h : sp.okuri = (parseOkuriOpt s).1) : SpeechOK sp := by
  intro o ho
  rw [h] at ho
  exact parseOkuriOpt_ok s o ho

theorem speechOK_of_req (sp : NoteSpeech) (s : Str) (o : Okuri) (r : Str) (hp : parseOkuri s = some (o, r))
    (h : sp.okuri = some o) : SpeechOK sp := by
  intro o' ho
  rw [h] at ho
  have : o = o' := Option.some.inj ho
  subst this
  exact parseOkuri_ok s o r hp

theorem parseSpeech1_ok (s : Str) (sp : NoteSpeech) (r : Str) (h : parseSpeech1 s = some (some sp, r)) :
    SpeechOK sp := by
  unfold parseSpeech1 at h
  split at h
  · next tag r0 _ =>
    simp only [Option.some.injEq, Prod.mk.injEq] at h
    obtain ⟨rfl, _⟩ := h
    exact speechOK_of_opt _ r0 rfl
  · split at h
    · next k cls r0 _ =>
      simp only [Option.some.injEq, Prod.mk.injEq] at h
      obtain ⟨rfl, _⟩ := h
      exact speechOK_of_opt _ r0 rfl
    · split at h
      · next r0 _ =>
        simp only [Option.some.injEq, Prod.mk.injEq] at h
        obtain ⟨rfl, _⟩ := h
        exact speechOK_of_opt _ r0 rfl
      · split at h
        · next o r0 heq =>
          simp only [Option.some.injEq, Prod.mk.injEq] at h
          obtain ⟨rfl, _⟩ := h
          obtain ⟨r1, _, h2⟩ := Option.bind_eq_some_iff.1 heq
          exact speechOK_of_req _ r1 o r0 h2 rfl
        · split at h
          · next o r0 heq =>
            simp only [Option.some.injEq, Prod.mk.injEq] at h
            obtain ⟨rfl, _⟩ := h
            obtain ⟨r1, _, h2⟩ := Option.bind_eq_some_iff.1 heq
            exact speechOK_of_req _ r1 o r0 h2 rfl
          · split at h
            · next o r0 heq =>
              simp only [Option.some.injEq, Prod.mk.injEq] at h
              obtain ⟨rfl, _⟩ := h
              obtain ⟨r1, _, h2⟩ := Option.bind_eq_some_iff.1 heq
              exact speechOK_of_req _ r1 o r0 h2 rfl
            · split at h
              · next r0 _ =>
                simp only [Option.some.injEq, Prod.mk.injEq] at h
                obtain ⟨rfl, _⟩ := h
                exact speechOK_of_opt _ r0 rfl
              · split at h
                · next o r0 heq =>
                  simp only [Option.some.injEq, Prod.mk.injEq] at h
                  obtain ⟨rfl, _⟩ := h
                  obtain ⟨r1, _, h2⟩ := Option.bind_eq_some_iff.1 heq
                  exact speechOK_of_req _ r1 o r0 h2 rfl
                · split at h
                  · simp at h
                  · split at h
                    · next r0 _ =>
                      simp only [Option.some.injEq, Prod.mk.injEq] at h
                      obtain ⟨rfl, _⟩ := h
                      exact speechOK_of_opt _ r0 rfl
                    · split at h
                      · next r0 _ =>
                        simp only [Option.some.injEq, Prod.mk.injEq] at h
                        obtain ⟨rfl, _⟩ := h
                        exact speechOK_of_opt _ r0 rfl
                      · cases h

theorem more_ok : ∀ (f : Nat) (r : Str) (sp : NoteSpeech),
    some sp ∈ (parseSpeechList.more f r).1 → SpeechOK sp
  | 0, r, sp, h => by simp [parseSpeechList.more] at h
  | f + 1, r, sp, h => by
    unfold parseSpeechList.more at h
    split at h
    · next r1 =>
      split at h
      · next sp2 r2 hp =>
        simp only at h
        rcases List.mem_cons.1 h with h | h
        · rw [← h] at hp; exact parseSpeech1_ok r1 sp r2 hp
        · exact more_ok f r2 sp h
      · simp at h
    · simp at h

theorem parseSpeechList_ok : ∀ (fuel : Nat) (s : Str) (sp : NoteSpeech),
    some sp ∈ (parseSpeechList fuel s).1 → SpeechOK sp
  | 0, s, sp, h => by simp [parseSpeechList] at h
  | fuel + 1, s, sp, h => by
    cases hp : parseSpeech1 s with
    | none => simp [parseSpeechList, hp] at h
    | some p =>
      obtain ⟨sp0, r⟩ := p
      simp only [parseSpeechList, hp] at h
      rcases List.mem_cons.1 h with h | h
      · rw [← h] at hp; exact parseSpeech1_ok s sp r hp
      · exact more_ok fuel r sp h

theorem parseSpeechs_ok (s : Str) (sps : List NoteSpeech) (r : Str) (h : parseSpeechs s = some (sps, r)) :
    ∀ sp ∈ sps, SpeechOK sp := by
  unfold parseSpeechs at h
  split at h
  · next r0 =>
    simp only [Option.some.injEq, Prod.mk.injEq] at h
    obtain ⟨rfl, _⟩ := h
    intro sp hsp
    obtain ⟨x, hx, hxe⟩ := List.mem_filterMap.1 hsp
    simp only [id] at hxe
    subst hxe
    exact parseSpeechList_ok _ _ sp hx
  · cases h

/-- An entry of a parsed note: fixed okuri are non-empty kana, the stem is non-empty and holds neither
`;` nor `/`. -/
def EntryOK (e : NoteEntry) : Prop := SpeechOK e.speech ∧ e.stem ≠ [] ∧ ∀ c ∈ e.stem, isStemCh c = true

theorem parseStemAnno_ok (s stem r : Str) (h : parseStemAnno s = some (stem, r)) :
    stem ≠ [] ∧ ∀ c ∈ stem, isStemCh c = true := by
  unfold parseStemAnno at h
  split at h
  · next r0 =>
    have hs := spanClass_spec isStemCh r0
    cases hk : spanClass isStemCh r0 with
    | mk m rest =>
      rw [hk] at h hs
      cases m with
      | nil => simp at h
      | cons c t =>
        cases rest with
        | nil => simp at h
        | cons d rest' =>
          by_cases hd : d = 59
          · subst hd
            simp only [Option.some.injEq, Prod.mk.injEq] at h
            obtain ⟨rfl, _⟩ := h
            exact ⟨by simp, hs.2.1⟩
          · exfalso
            revert h
            split <;> simp_all
  · cases h

theorem parseEntry1_ok (s : Str) (es : List NoteEntry) (r : Str) (h : parseEntry1 s = some (es, r)) :
    ∀ e ∈ es, EntryOK e := by
  unfold parseEntry1 at h
  simp only at h
  split at h
  · next x hx =>
    simp only [Option.some.injEq] at h
    subst h
    -- the first three alternatives
    split at hx
    · cases hx
    · next stem r0 hst =>
      split at hx
      · simp only [Option.some.injEq, Prod.mk.injEq] at hx; obtain ⟨rfl, _⟩ := hx; intro e he; cases he
      · split at hx
        · simp only [Option.some.injEq, Prod.mk.injEq] at hx; obtain ⟨rfl, _⟩ := hx; intro e he; cases he
        · split at hx
          · next sps r1 hps =>
            simp only [Option.some.injEq, Prod.mk.injEq] at hx
            obtain ⟨rfl, _⟩ := hx
            intro e he
            obtain ⟨sp, hsp, rfl⟩ := List.mem_map.1 he
            exact ⟨parseSpeechs_ok r0 sps r1 hps sp hsp, parseStemAnno_ok s stem r0 hst⟩
          · cases hx
  · -- no_entry
    split at h
    · split at h
      · cases h
      · simp only [Option.some.injEq, Prod.mk.injEq] at h; obtain ⟨rfl, _⟩ := h; intro e he; cases he
      · simp only [Option.some.injEq, Prod.mk.injEq] at h; obtain ⟨rfl, _⟩ := h; intro e he; cases he
    · cases h

theorem parseEntries_ok : ∀ (fuel : Nat) (s : Str), ∀ es ∈ (parseEntries fuel s).1, ∀ e ∈ es, EntryOK e
  | 0, s, es, h => by simp [parseEntries] at h
  | fuel + 1, s, es, h => by
    unfold parseEntries at h
    split at h
    · next es0 r hp =>
      simp only at h
      rcases List.mem_cons.1 h with h | h
      · subst h; exact parseEntry1_ok s es r hp
      · exact parseEntries_ok fuel r es h
    · simp at h

theorem noteOkuri_ok (r : Str) : (noteOkuri r).1.length ≤ 1 ∧ ∀ c ∈ (noteOkuri r).1, isAlpha c = true := by
  unfold noteOkuri
  split
  · next c t =>
    by_cases ha : isAlpha c = true
    · rw [if_pos ha]; simp [ha]
    · rw [if_neg ha]; simp
  · simp

/-- **What a successfully parsed notes line guarantees**: a non-empty kana headword, at most one
okuri letter, at least one entry, and every fixed okuri a non-empty kana string. -/
theorem parseNote_ok (s : Str) (n : Note) (h : parseNote s = .note n) :
    n.headword ≠ [] ∧ KanaStr n.headword ∧ n.okuri.length ≤ 1 ∧ (∀ c ∈ n.okuri, isAlpha c = true) ∧
    n.entries ≠ [] ∧ ∀ e ∈ n.entries, EntryOK e := by
  unfold parseNote at h
  split at h
  · cases h
  · simp only at h
    have hoL := noteOkuri_ok (spanClass notesKana s).2
    generalize noteOkuri (spanClass notesKana s).2 = o2 at h hoL
    split at h
    · cases h
    · next hne =>
      split at h
      · cases h
      · next hent =>
        split at h
        · split at h
          · cases h
          · next hfl =>
            simp only [PRes.note.injEq] at h
            subst h
            simp only [Bool.or_eq_true, not_or, Bool.not_eq_true, List.isEmpty_eq_false_iff] at hne
            have hk := spanClass_spec notesKana s
            refine ⟨hne.1, fun c hc => notesKana_sub c (hk.2.1 c hc), hoL.1, hoL.2, ?_, ?_⟩
            · simpa using hfl
            · intro e he
              obtain ⟨es, hes, hee⟩ := List.mem_flatten.1 he
              exact parseEntries_ok _ _ es hes e hee
        · cases h

end Chokan.SkkNotes
