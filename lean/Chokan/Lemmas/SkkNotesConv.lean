/-
Lemmas about the notes converter (M13): what `to_entries` emits is storable in the dictionary
text format.
-/
import Chokan.Lemmas.SkkNotes

namespace Chokan.SkkNotes
open Chokan.Dic Chokan.DicText Chokan.Skk
open Chokan.Props.C10 (storableSpeeches Storable)
open Chokan.Gen.SkkNotes (skkOkuriTable)

/-! ### table facts (finite, kernel-decided) -/

def tableOK : Bool :=
  skkOkuriTable.all fun p => p.2.all fun r =>
    decide (Speech.verb p.1 r.1 ∈ storableSpeeches) && r.2.all skkKana && !r.2.isEmpty

theorem tableOK_true : tableOK = true := by decide +kernel

theorem skkOkuri_some (cls : VerbClass) (row k : Str) (h : skkOkuri cls row = some k) :
    Speech.verb cls row ∈ storableSpeeches ∧ KanaStr k ∧ k ≠ [] := by
  unfold skkOkuri at h
  split at h
  · next c rows hf =>
    have hmem := List.mem_of_find?_eq_some hf
    have hc := List.find?_some hf
    simp only [decide_eq_true_eq] at hc
    cases hr : rows.find? (fun r => r.1 == row) with
    | none => simp [hr] at h
    | some r =>
      simp only [hr, Option.map_some, Option.some.injEq] at h
      have hrm := List.mem_of_find?_eq_some hr
      have hrp := List.find?_some hr
      have hrow : r.1 = row := by simpa using hrp
      have ht := tableOK_true
      unfold tableOK at ht
      have := List.all_eq_true.1 (List.all_eq_true.1 ht _ hmem) r hrm
      simp only [Bool.and_eq_true, decide_eq_true_eq, Bool.not_eq_true', List.isEmpty_eq_false_iff] at this
      subst h
      refine ⟨?_, ?_, this.2⟩
      · rw [← hrow, ← hc]; exact this.1.1
      · intro c hc; exact List.all_eq_true.1 this.1.2 c hc
  · cases h

/-! ### byte slicing -/

theorem utf8Len_pos (c : Nat) : 0 < utf8Len c := by unfold utf8Len; split <;> (try split) <;> (try split) <;> omega

theorem utf8Len_kana (c : Nat) (h : skkKana c = true) : utf8Len c = 3 := by
  simp only [skkKana, Bool.or_eq_true, Bool.and_eq_true, Nat.ble_eq, Nat.beq_eq] at h
  unfold utf8Len
  have : 0x800 ≤ c ∧ c < 0x10000 := by omega
  rw [if_neg (by omega), if_neg (by omega), if_pos (by omega)]

theorem utf8LenStr_pos (a : Str) (h : a ≠ []) : 0 < utf8LenStr a := by
  cases a with
  | nil => exact absurd rfl h
  | cons c t => have := utf8Len_pos c; simp [utf8LenStr]; omega

theorem utf8LenStr_kana (a : Str) (h : KanaStr a) (hne : a ≠ []) : 3 ≤ utf8LenStr a := by
  cases a with
  | nil => exact absurd rfl hne
  | cons c t => have := utf8Len_kana c (h c (by simp)); simp [utf8LenStr]; omega

theorem takeBytes_spec : ∀ (w : Str) (n : Nat) (r : Str), takeBytes n w = some r → r <+: w ∧ utf8LenStr r = n
  | w, 0, r, h => by
    simp only [takeBytes, Option.some.injEq] at h
    subst h; exact ⟨List.nil_prefix, rfl⟩
  | [], n + 1, r, h => by simp [takeBytes] at h
  | c :: t, n + 1, r, h => by
    unfold takeBytes at h
    split at h
    · next hle =>
      cases ht : takeBytes (n + 1 - utf8Len c) t with
      | none => simp [ht] at h
      | some r' =>
        simp only [ht, Option.map_some, Option.some.injEq] at h
        subst h
        obtain ⟨hp, hl⟩ := takeBytes_spec t _ r' ht
        refine ⟨by simpa using hp, ?_⟩
        simp only [utf8LenStr, hl]; omega
    · cases h

theorem dropBytesEnd_spec (word : Str) (k : Nat) (r : Str) (h : dropBytesEnd word k = some r) :
    r <+: word ∧ utf8LenStr r + k = utf8LenStr word := by
  unfold dropBytesEnd at h
  split at h
  · obtain ⟨hp, hl⟩ := takeBytes_spec _ _ _ h
    exact ⟨hp, by omega⟩
  · cases h

theorem takeBytesFloor_prefix : ∀ (w : Str) (n : Nat), takeBytesFloor n w <+: w
  | [], n => by simp [takeBytesFloor]
  | c :: t, n => by
    unfold takeBytesFloor
    split
    · simpa using takeBytesFloor_prefix t _
    · exact List.nil_prefix

def isAdj : NoteSpeech → Bool
  | .adjective _ | .adjectivalVerb _ => true
  | _ => false

/-- `drop_dictionary_okuri` returns a non-empty prefix of the word (for adjectives the word must be
longer than the three bytes cut off; every word the converter builds is). -/
theorem dropDict_spec (w : Str) (sp : NoteSpeech) (r : Str) (h : dropDictionaryOkuri w sp = .ok r)
    (hw : w ≠ []) (hadj : isAdj sp = true → 3 < utf8LenStr w) : r ≠ [] ∧ r <+: w := by
  have fromDrop : ∀ k, dropBytesEnd w k = some r → k < utf8LenStr w → r ≠ [] ∧ r <+: w := by
    intro k hk hlt
    obtain ⟨hp, hl⟩ := dropBytesEnd_spec w k r hk
    refine ⟨?_, hp⟩
    intro hr; subst hr; simp [utf8LenStr] at hl; omega
  unfold dropDictionaryOkuri at h
  split at h
  · next cls row o =>
    split at h
    · cases h
    · next ok _ =>
      split at h
      · cases w with
        | nil => exact absurd rfl hw
        | cons c t =>
          simp only [CRes.ok.injEq] at h
          subst h
          exact ⟨by simp, by simp⟩
      · next r' hne =>
        simp only [CRes.ok.injEq] at h
        subst h
        exact ⟨by intro hr; exact hne hr, takeBytesFloor_prefix _ _⟩
  · cases hd : dropBytesEnd w 3 with
    | none => simp [hd] at h
    | some r' =>
      simp only [hd, CRes.ok.injEq] at h
      subst h
      exact fromDrop 3 hd (hadj rfl)
  · cases hd : dropBytesEnd w 3 with
    | none => simp [hd] at h
    | some r' =>
      simp only [hd, CRes.ok.injEq] at h
      subst h
      exact fromDrop 3 hd (hadj rfl)
  · simp only [CRes.ok.injEq] at h
    subst h
    exact ⟨hw, List.prefix_refl _⟩

/-! ### the okuri kana -/

theorem kanaStr_of_all (s : Str) (h : s.all skkKana = true) : KanaStr s :=
  fun c hc => List.all_eq_true.1 h c hc
theorem kana_lit_i : KanaStr (lit "い") ∧ lit "い" ≠ [] :=
  ⟨kanaStr_of_all _ (by decide +kernel), by decide +kernel⟩
theorem kana_lit_da : KanaStr (lit "だ") ∧ lit "だ" ≠ [] :=
  ⟨kanaStr_of_all _ (by decide +kernel), by decide +kernel⟩

theorem toKana_ok (o : Okuri) (d : Str) (ho : OkuriOK o) (hd : KanaStr d) : KanaStr (o.toKana d) := by
  cases o with
  | fixed v => exact ho.2
  | charClass c => exact hd

theorem toKana_ne (o : Okuri) (d : Str) (ho : OkuriOK o) (hd : d ≠ []) : o.toKana d ≠ [] := by
  cases o with
  | fixed v => exact ho.1
  | charClass c => exact hd

theorem kanaStr_nil : KanaStr [] := by intro c hc; cases hc

theorem toOkuriKana_spec (sp : NoteSpeech) (ok : Str) (h : toOkuriKana sp = .ok ok) (hs : SpeechOK sp) :
    KanaStr ok ∧ (isAdj sp = true → ok ≠ []) := by
  unfold SpeechOK at hs
  cases sp with
  | verb cls row o =>
    refine ⟨?_, by intro h; cases h⟩
    unfold toOkuriKana at h
    simp only at h
    split at h
    · next v =>
      simp only [CRes.ok.injEq] at h; subst h
      exact (hs _ rfl).2
    · split at h
      · next k hk => simp only [CRes.ok.injEq] at h; subst h; exact (skkOkuri_some _ _ _ hk).2.1
      · cases h
  | adjective o =>
    simp only [toOkuriKana, CRes.ok.injEq] at h
    subst h
    cases o with
    | none => exact ⟨kana_lit_i.1, fun _ => kana_lit_i.2⟩
    | some v => exact ⟨toKana_ok v _ (hs v rfl) kana_lit_i.1, fun _ => toKana_ne v _ (hs v rfl) kana_lit_i.2⟩
  | adjectivalVerb o =>
    simp only [toOkuriKana, CRes.ok.injEq] at h
    subst h
    exact ⟨toKana_ok o _ (hs o rfl) kana_lit_da.1, fun _ => toKana_ne o _ (hs o rfl) kana_lit_da.2⟩
  | adverb o =>
    simp only [toOkuriKana, CRes.ok.injEq] at h; subst h
    exact ⟨toKana_ok o _ (hs o rfl) kanaStr_nil, by intro h; cases h⟩
  | noun tag o =>
    simp only [toOkuriKana, CRes.ok.injEq] at h; subst h
    refine ⟨?_, by intro h; cases h⟩
    cases o with
    | none => exact kanaStr_nil
    | some v => exact toKana_ok v _ (hs v rfl) kanaStr_nil
  | counter o =>
    simp only [toOkuriKana, CRes.ok.injEq] at h; subst h
    exact ⟨kanaStr_nil, by intro h; cases h⟩
  | verbatim o =>
    simp only [toOkuriKana, CRes.ok.injEq] at h; subst h
    exact ⟨toKana_ok o _ (hs o rfl) kanaStr_nil, by intro h; cases h⟩
  | preNoun o =>
    simp only [toOkuriKana, CRes.ok.injEq] at h; subst h
    refine ⟨?_, by intro h; cases h⟩
    cases o with
    | none => exact kanaStr_nil
    | some v => exact toKana_ok v _ (hs v rfl) kanaStr_nil
  | conjParticle o =>
    simp only [toOkuriKana, CRes.ok.injEq] at h; subst h
    refine ⟨?_, by intro h; cases h⟩
    cases o with
    | none => exact kanaStr_nil
    | some v => exact toKana_ok v _ (hs v rfl) kanaStr_nil
  | conjunction o =>
    simp only [toOkuriKana, CRes.ok.injEq] at h; subst h
    refine ⟨?_, by intro h; cases h⟩
    cases o with
    | none => exact kanaStr_nil
    | some v => exact toKana_ok v _ (hs v rfl) kanaStr_nil

/-! ### no panic -/

theorem takeBytes_append : ∀ (x y : Str), takeBytes (utf8LenStr x) (x ++ y) = some x
  | [], y => by simp [utf8LenStr, takeBytes]
  | c :: t, y => by
    have hp := utf8Len_pos c
    have ih := takeBytes_append t y
    simp only [utf8LenStr, List.cons_append]
    obtain ⟨m, hm⟩ : ∃ m, utf8Len c + utf8LenStr t = m + 1 := ⟨utf8Len c + utf8LenStr t - 1, by omega⟩
    rw [hm, takeBytes, if_pos (by omega), show m + 1 - utf8Len c = utf8LenStr t by omega, ih]
    rfl

theorem dropDict_no_panic (w : Str) (sp : NoteSpeech) (hw : w ≠ [])
    (hadj : isAdj sp = true → ∃ x c, w = x ++ [c] ∧ utf8Len c = 3) : dropDictionaryOkuri w sp ≠ .panic := by
  have adj : isAdj sp = true → ∃ x, dropBytesEnd w 3 = some x := by
    intro ha
    obtain ⟨x, c, rfl, hc⟩ := hadj ha
    refine ⟨x, ?_⟩
    unfold dropBytesEnd
    have hl : utf8LenStr (x ++ [c]) = utf8LenStr x + 3 := by
      rw [Dic.utf8LenStr_append]; simp [utf8LenStr, hc]
    rw [if_pos (by omega), hl, show utf8LenStr x + 3 - 3 = utf8LenStr x by omega]
    exact takeBytes_append x [c]
  unfold dropDictionaryOkuri
  split
  · next cls row o =>
    split
    · intro h; cases h
    · split
      · cases w with
        | nil => exact absurd rfl hw
        | cons c t => intro h; cases h
      · intro h; cases h
  · obtain ⟨x, hx⟩ := adj rfl
    rw [hx]; intro h; cases h
  · obtain ⟨x, hx⟩ := adj rfl
    rw [hx]; intro h; cases h
  · intro h; cases h

theorem toOkuriKana_no_panic (sp : NoteSpeech) : toOkuriKana sp ≠ .panic := by
  cases sp with
  | verb cls row o =>
    unfold toOkuriKana
    simp only
    split
    · intro h; cases h
    · split <;> (intro h; cases h)
  | _ => intro h; cases h

theorem kana_last (ok : Str) (hk : KanaStr ok) (hne : ok ≠ []) : ∃ x c, ok = x ++ [c] ∧ utf8Len c = 3 := by
  refine ⟨ok.dropLast, ok.getLast hne, (List.dropLast_concat_getLast hne).symm, ?_⟩
  exact utf8Len_kana _ (hk _ (List.getLast_mem hne))

end Chokan.SkkNotes
