/-
Lemmas for C04: the double-array trie model is an exact set of label paths.

Plan.  A ghost map `A : Nat → Option (List Nat)` gives every used slot its path from the root.
`Inv` relates `A` to the `base/check` arrays; `B p l` is the base under which the child of `p` with
label `l` is stored (the node's base, except for the not yet moved children during a `rebase`).
-/
import Chokan.Model.Trie

namespace Chokan.Trie

/-! ### lists of naturals -/

theorem memNat_iff (c : Nat) : ∀ l : List Nat, memNat c l = true ↔ c ∈ l
  | [] => by simp [memNat]
  | x :: t => by
    simp only [memNat, Bool.or_eq_true, List.mem_cons, memNat_iff c t]
    constructor
    · rintro (h | h)
      · exact Or.inl (Nat.eq_of_beq_eq_true h)
      · exact Or.inr h
    · rintro (h | h)
      · subst h; exact Or.inl (Nat.beq_refl c)
      · exact Or.inr h

theorem mem_eraseNat (c : Nat) : ∀ l : List Nat, l.Nodup → ∀ x, x ∈ eraseNat c l ↔ x ≠ c ∧ x ∈ l
  | [], _, x => by simp [eraseNat]
  | y :: t, hn, x => by
    have hy : y ∉ t := (List.nodup_cons.1 hn).1
    have ht : t.Nodup := (List.nodup_cons.1 hn).2
    unfold eraseNat
    by_cases hc : Nat.beq c y = true
    · have : c = y := Nat.eq_of_beq_eq_true hc
      subst this
      simp only [hc, if_true, List.mem_cons]
      constructor
      · intro hx; exact ⟨fun h => hy (h ▸ hx), Or.inr hx⟩
      · rintro ⟨h1, h2 | h2⟩
        · exact absurd h2 h1
        · exact h2
    · have hne : c ≠ y := fun h => hc (h ▸ Nat.beq_refl c)
      have hf : Nat.beq c y = false := by cases hb : Nat.beq c y with | false => rfl | true => exact absurd hb hc
      simp only [hf, Bool.false_eq_true, if_false, List.mem_cons, mem_eraseNat c t ht x]
      constructor
      · rintro (h | ⟨h1, h2⟩)
        · exact ⟨fun h' => hne (h'.symm.trans h), Or.inl h⟩
        · exact ⟨h1, Or.inr h2⟩
      · rintro ⟨h1, h2 | h2⟩
        · exact Or.inl h2
        · exact Or.inr ⟨h1, h2⟩

theorem nodup_eraseNat (c : Nat) : ∀ l : List Nat, l.Nodup → (eraseNat c l).Nodup
  | [], _ => by simp [eraseNat]
  | y :: t, hn => by
    have hy : y ∉ t := (List.nodup_cons.1 hn).1
    have ht : t.Nodup := (List.nodup_cons.1 hn).2
    unfold eraseNat
    split
    · exact ht
    · refine List.nodup_cons.2 ⟨?_, nodup_eraseNat c t ht⟩
      intro h
      exact hy ((mem_eraseNat c t ht y).1 h).2

/-! ### reading slots -/

theorem get_eq (s : Nodes) (i : Nat) : s.get i = (s.slots[i]?).getD emptySlot := by
  simp [Nodes.get]

theorem get_of_ge (s : Nodes) (i : Nat) (h : s.size ≤ i) : s.get i = emptySlot := by
  rw [get_eq, List.getElem?_eq_none (by simpa [Nodes.size] using h)]; rfl

theorem check_lt (s : Nodes) (i p : Nat) (h : s.check i = some p) : i < s.size := by
  rcases Nat.lt_or_ge i s.size with hl | hl
  · exact hl
  · simp [Nodes.check, get_of_ge s i hl, emptySlot] at h

theorem base_lt (s : Nodes) (i b : Nat) (h : s.base i = some b) : i < s.size := by
  rcases Nat.lt_or_ge i s.size with hl | hl
  · exact hl
  · simp [Nodes.base, get_of_ge s i hl, emptySlot] at h

/-- A state seen through its three observations. -/
theorem get_setSlot (s : Nodes) (i j : Nat) (v : Slot) :
    ({ s with slots := s.slots.set i v } : Nodes).get j = if j = i ∧ i < s.size then v else s.get j := by
  simp only [get_eq, List.getElem?_set, Nodes.size]
  by_cases hij : i = j
  · subst hij
    by_cases hl : i < s.slots.length
    · simp [hl]
    · simp [hl]
  · have : ¬ (j = i ∧ i < s.slots.length) := fun h => hij h.1.symm
    simp [hij, this]

theorem size_setSlot (s : Nodes) (i : Nat) (v : Slot) :
    ({ s with slots := s.slots.set i v } : Nodes).size = s.size := by
  simp [Nodes.size]

theorem get_expand (s : Nodes) (n i : Nat) : (s.expand n).get i = s.get i := by
  simp only [get_eq, Nodes.expand]
  rcases Nat.lt_or_ge i s.slots.length with hl | hl
  · rw [List.getElem?_append_left hl]
  · rw [List.getElem?_append_right hl, List.getElem?_eq_none hl]
    rcases Nat.lt_or_ge (i - s.slots.length) n with h2 | h2
    · rw [List.getElem?_replicate]; simp [h2]
    · rw [List.getElem?_eq_none (by simpa using h2)]

theorem size_expand (s : Nodes) (n : Nat) : (s.expand n).size = s.size + n := by
  simp [Nodes.size, Nodes.expand]

/-! ### the free list -/

/-- The free list is exactly the set of unused slots inside the array. -/
def FreeOK (s : Nodes) : Prop :=
  s.free.Nodup ∧ ∀ i, i ∈ s.free ↔ (i < s.size ∧ s.check i = none)

theorem freeOK_expand (s : Nodes) (n : Nat) (h : FreeOK s) : FreeOK (s.expand n) := by
  obtain ⟨hn, hm⟩ := h
  have hchk : ∀ i, (s.expand n).check i = s.check i := fun i => by simp [Nodes.check, get_expand]
  constructor
  · simp only [Nodes.expand]
    refine List.nodup_append.2 ⟨hn, ?_, ?_⟩
    · unfold List.Nodup
      rw [List.pairwise_map]
      exact List.Pairwise.imp (fun {a b} (hab : a ≠ b) => by omega) List.nodup_range
    · intro a ha b hb
      obtain ⟨k, _, rfl⟩ := List.mem_map.1 hb
      have := ((hm a).1 ha).1
      omega
  · intro i
    rw [hchk, size_expand]
    simp only [Nodes.expand, List.mem_append, List.mem_map, List.mem_range]
    constructor
    · rintro (h | ⟨k, hk, rfl⟩)
      · have := (hm i).1 h; exact ⟨by omega, this.2⟩
      · refine ⟨by omega, ?_⟩
        simp [Nodes.check, get_of_ge s (k + s.size) (by omega), emptySlot]
    · rintro ⟨h1, h2⟩
      rcases Nat.lt_or_ge i s.size with hl | hl
      · exact Or.inl ((hm i).2 ⟨hl, h2⟩)
      · exact Or.inr ⟨i - s.size, by omega, by omega⟩

/-! ### observations of the primitive updates -/

theorem check_setCheck (s : Nodes) (i : Nat) (c : Option Nat) (j : Nat) :
    (s.setCheck i c).check j = if j = i ∧ i < s.size then c else s.check j := by
  simp only [Nodes.check, Nodes.setCheck, get_setSlot]
  split <;> rfl

theorem base_setCheck (s : Nodes) (i : Nat) (c : Option Nat) (j : Nat) :
    (s.setCheck i c).base j = s.base j := by
  simp only [Nodes.base, Nodes.setCheck, get_setSlot]
  split
  · next h => rw [h.1]
  · rfl

theorem check_setBase (s : Nodes) (i : Nat) (b : Option Nat) (j : Nat) :
    (s.setBase i b).check j = s.check j := by
  simp only [Nodes.check, Nodes.setBase, get_setSlot]
  split
  · next h => rw [h.1]
  · rfl

theorem base_setBase (s : Nodes) (i : Nat) (b : Option Nat) (j : Nat) :
    (s.setBase i b).base j = if j = i ∧ i < s.size then b else s.base j := by
  simp only [Nodes.base, Nodes.setBase, get_setSlot]
  split <;> rfl

theorem size_setBase (s : Nodes) (i : Nat) (b : Option Nat) : (s.setBase i b).size = s.size := by
  simp [Nodes.setBase, size_setSlot]

theorem size_setCheck (s : Nodes) (i : Nat) (c : Option Nat) : (s.setCheck i c).size = s.size := by
  simp [Nodes.setCheck, size_setSlot]

theorem freeOK_setBase (s : Nodes) (i : Nat) (b : Option Nat) (h : FreeOK s) : FreeOK (s.setBase i b) := by
  obtain ⟨hn, hm⟩ := h
  refine ⟨hn, ?_⟩
  intro j
  rw [size_setBase, check_setBase]
  exact hm j

/-- What `record_transition_at` does, seen through `check`, `base`, `size` and the free list. -/
theorem recordTransition_spec (s : Nodes) (idx l : Nat) (s' : Nodes) (ci : Nat)
    (h : s.recordTransition idx l = some (s', ci)) :
    ∃ b, s.base idx = some b ∧ ci = b + l ∧ idx < s.size ∧ s.size ≤ s'.size ∧ ci < s'.size ∧
      (∀ j, s'.check j = if j = ci then some idx else s.check j) ∧ (∀ j, s'.base j = s.base j) ∧
      (FreeOK s → FreeOK s') := by
  unfold Nodes.recordTransition at h
  split at h
  · next hlt =>
    split at h
    · next b hb =>
      simp only [Option.some.injEq, Prod.mk.injEq] at h
      obtain ⟨hs, hci⟩ := h
      refine ⟨b, hb, hci.symm, hlt, ?_⟩
      -- the (possibly) expanded state
      generalize hs1 : (if s.size ≤ b + l then s.expand (b + l - s.size + 1) else s) = s1 at hs
      have hget1 : ∀ j, s1.get j = s.get j := by
        intro j; rw [← hs1]; split
        · exact get_expand _ _ _
        · rfl
      have hsz1 : s.size ≤ s1.size ∧ b + l < s1.size := by
        rw [← hs1]; split
        · rw [size_expand]; omega
        · omega
      have hfree1 : FreeOK s → FreeOK s1 := by
        intro hf; rw [← hs1]; split
        · exact freeOK_expand _ _ hf
        · exact hf
      have hsz' : s'.size = s1.size := by rw [← hs, size_setCheck]; rfl
      have hchk : ∀ j, s'.check j = if j = ci then some idx else s.check j := by
        intro j
        rw [← hs, check_setCheck, ← hci]
        have : (({ s1 with free := eraseNat (b + l) s1.free } : Nodes).size) = s1.size := rfl
        rw [this]
        by_cases hj : j = b + l
        · simp [hj, hsz1.2]
        · simp only [hj, false_and, if_false]
          show ((({ s1 with free := eraseNat (b + l) s1.free } : Nodes).get j).2) = (s.get j).2
          rw [← hget1 j]; rfl
      have hbas : ∀ j, s'.base j = s.base j := by
        intro j
        rw [← hs, base_setCheck]
        show ((({ s1 with free := eraseNat (b + l) s1.free } : Nodes).get j).1) = (s.get j).1
        rw [← hget1 j]; rfl
      refine ⟨by omega, by omega, hchk, hbas, ?_⟩
      intro hf
      obtain ⟨hn1, hm1⟩ := hfree1 hf
      have hfr : s'.free = eraseNat (b + l) s1.free := by rw [← hs]; rfl
      refine ⟨by rw [hfr]; exact nodup_eraseNat _ _ hn1, ?_⟩
      intro j
      rw [hfr, mem_eraseNat _ _ hn1, hm1 j, hchk j, hsz', ← hci]
      have hc1 : s1.check j = s.check j := by simp [Nodes.check, hget1]
      rw [hc1]
      by_cases hj : j = b + l
      · simp [hj]
      · simp [hj]
    · cases h
  · cases h

theorem get_mapSlots (s : Nodes) (f : Slot → Slot) (hf : f emptySlot = emptySlot) (j : Nat) :
    ({ s with slots := s.slots.map f } : Nodes).get j = f (s.get j) := by
  simp only [get_eq, List.getElem?_map]
  cases s.slots[j]? with
  | none => simp [hf]
  | some v => rfl

theorem reparent_spec (s1 : Nodes) (old idx : Nat) (hidx : idx < s1.size)
    (hnogc : s1.base old = none → ∀ i, s1.check i ≠ some old)
    (hfreeb : s1.base old = none → s1.base idx = none) :
    (s1.reparent old idx).size = s1.size ∧ (s1.reparent old idx).free = s1.free ∧
    (∀ j, (s1.reparent old idx).check j = if s1.check j = some old then some idx else s1.check j) ∧
    (∀ j, (s1.reparent old idx).base j = if j = idx then s1.base old else s1.base j) := by
  cases hob : s1.base old with
  | none =>
    have hre : s1.reparent old idx = s1 := by simp [Nodes.reparent, hob]
    rw [hre]
    refine ⟨rfl, rfl, ?_, ?_⟩
    · intro j
      have := hnogc hob j
      simp [this]
    · intro j
      by_cases hj : j = idx
      · rw [if_pos hj, hj, hfreeb hob]
      · rw [if_neg hj]
  | some bo =>
    have hre : s1.reparent old idx = ({ (s1.setBase idx (some bo)) with
        slots := (s1.setBase idx (some bo)).slots.map (reparentSlot old idx) } : Nodes) := by
      simp [Nodes.reparent, hob]
    rw [hre]
    have hf : reparentSlot old idx emptySlot = emptySlot := by simp [reparentSlot, emptySlot]
    refine ⟨by simp [Nodes.size, Nodes.setBase], rfl, ?_, ?_⟩
    · intro j
      show ((({ (s1.setBase idx (some bo)) with slots := (s1.setBase idx (some bo)).slots.map (reparentSlot old idx) } : Nodes).get j).2) = _
      rw [get_mapSlots _ _ hf]
      have hcs : ((s1.setBase idx (some bo)).get j).2 = s1.check j := check_setBase s1 _ _ j
      unfold reparentSlot
      by_cases hq : ((s1.setBase idx (some bo)).get j).2 = some old
      · rw [if_pos hq]; rw [hcs] at hq; simp [hq]
      · rw [if_neg hq]; rw [hcs] at hq; simp [hq, hcs]
    · intro j
      show ((({ (s1.setBase idx (some bo)) with slots := (s1.setBase idx (some bo)).slots.map (reparentSlot old idx) } : Nodes).get j).1) = _
      rw [get_mapSlots _ _ hf]
      have hbs : ((s1.setBase idx (some bo)).get j).1 = if j = idx ∧ idx < s1.size then some bo else s1.base j :=
        base_setBase s1 _ _ j
      have : (reparentSlot old idx ((s1.setBase idx (some bo)).get j)).1 = ((s1.setBase idx (some bo)).get j).1 := by
        unfold reparentSlot; split <;> rfl
      rw [this, hbs]
      by_cases hj : j = idx
      · simp [hj, hidx]
      · simp [hj]

theorem release_spec (s2 : Nodes) (old : Nat) (hold : old < s2.size) :
    (s2.release old).size = s2.size ∧
    (∀ j, (s2.release old).check j = if j = old then none else s2.check j) ∧
    (∀ j, (s2.release old).base j = if j = old then none else s2.base j) ∧
    (s2.free.Nodup → (s2.release old).free.Nodup) ∧
    (∀ j, j ∈ (s2.release old).free ↔ (j ∈ s2.free ∨ j = old)) := by
  have hget : ∀ j, (s2.release old).get j = if j = old ∧ old < s2.size then emptySlot else s2.get j := by
    intro j
    have := get_setSlot s2 old j emptySlot
    simp only [Nodes.get] at this ⊢
    exact this
  refine ⟨by simp [Nodes.size, Nodes.release], ?_, ?_, ?_, ?_⟩
  · intro j
    simp only [Nodes.check, hget]
    by_cases hj : j = old
    · simp [hj, hold, emptySlot]
    · simp [hj]
  · intro j
    simp only [Nodes.base, hget]
    by_cases hj : j = old
    · simp [hj, hold, emptySlot]
    · simp [hj]
  · intro hn
    simp only [Nodes.release]
    split
    · exact hn
    · next hmem =>
      have : old ∉ s2.free := fun hh => hmem ((memNat_iff _ _).2 hh)
      exact List.nodup_append.2 ⟨hn, (by simp), by
        intro a ha b hb; simp at hb; subst hb; exact fun hab => this (hab ▸ ha)⟩
  · intro j
    simp only [Nodes.release]
    split
    · next hmem =>
      have := (memNat_iff _ _).1 hmem
      constructor
      · exact Or.inl
      · rintro (hh | hh)
        · exact hh
        · rw [hh]; exact this
    · simp

/-- What one iteration of the loop of `rebase` does.  `hnogc`: a child without a base has no children
of its own; `hfreeb`: the target slot carries no stale base (both follow from the invariant). -/
theorem moveChild_spec (s : Nodes) (node ob l : Nat) (s' : Nodes)
    (h : s.moveChild node ob l = some s')
    (hnogc : s.base (ob + l) = none → ∀ i, s.check i ≠ some (ob + l))
    (hfreeb : ∀ nb, s.base node = some nb → s.base (nb + l) = none) :
    ∃ nb, s.base node = some nb ∧ node ≠ ob + l ∧ node < s.size ∧ s.size ≤ s'.size ∧
      (∀ j, s'.check j = if j = ob + l then none else if j = nb + l then some node
                         else if s.check j = some (ob + l) then some (nb + l) else s.check j) ∧
      (∀ j, s'.base j = if j = ob + l then none else if j = nb + l then s.base (ob + l) else s.base j) ∧
      (FreeOK s → FreeOK s') := by
  unfold Nodes.moveChild at h
  cases hr : s.recordTransition node l with
  | none => simp [hr] at h
  | some r =>
    obtain ⟨s1, idx⟩ := r
    simp only [hr] at h
    obtain ⟨nb, hnb, hidx, hnode, hsz1, hidxlt, hc1, hb1, hf1⟩ := recordTransition_spec s node l s1 idx hr
    subst hidx
    split at h
    · next hold =>
      split at h
      · cases h
      · next hne =>
        simp only [Option.some.injEq] at h
        have hnogc1 : s1.base (ob + l) = none → ∀ i, s1.check i ≠ some (ob + l) := by
          intro hb i
          rw [hb1] at hb
          rw [hc1]; split
          · intro hh; exact hne (Option.some.inj hh)
          · exact hnogc hb i
        have hfreeb1 : s1.base (ob + l) = none → s1.base (nb + l) = none := by
          intro _; rw [hb1]; exact hfreeb nb hnb
        obtain ⟨hsz2, hfr2, hc2, hb2⟩ := reparent_spec s1 (ob + l) (nb + l) hidxlt hnogc1 hfreeb1
        have hold2 : ob + l < (s1.reparent (ob + l) (nb + l)).size := by rw [hsz2]; exact hold
        obtain ⟨hszf, hcf, hbf, hnf, hmf⟩ := release_spec (s1.reparent (ob + l) (nb + l)) (ob + l) hold2
        rw [h] at hszf hcf hbf hnf hmf
        refine ⟨nb, hnb, hne, hnode, by omega, ?_, ?_, ?_⟩
        · intro j
          rw [hcf, hc2, hc1]
          by_cases hj : j = ob + l
          · simp [hj]
          · simp only [hj, if_false]
            by_cases hj2 : j = nb + l
            · have : (some node : Option Nat) ≠ some (ob + l) := fun hh => hne (Option.some.inj hh)
              simp [hj2, this]
            · simp [hj2]
        · intro j
          rw [hbf, hb2, hb1, hb1]
        · intro hfo
          obtain ⟨hn1, hm1⟩ := hf1 hfo
          refine ⟨hnf (by rw [hfr2]; exact hn1), ?_⟩
          intro j
          rw [hmf, hfr2, hm1 j, hszf, hsz2, hcf, hc2]
          by_cases hj : j = ob + l
          · simp [hj, hold]
          · simp only [hj, or_false, if_false]
            by_cases hq : s1.check j = some (ob + l)
            · simp [hq]
            · simp [hq]
    · cases h

/-! ### the invariant -/

/-- Base under which the child `(p, l)` is stored while the children `pend` of `node` still sit under
the old base `ob` (in the middle of a `rebase`). -/
def cbf (s : Nodes) (node ob : Nat) (pend : List Nat) (p l : Nat) : Option Nat :=
  if p = node ∧ l ∈ pend then some ob else s.base p

theorem cbf_nil (s : Nodes) (node ob : Nat) : cbf s node ob [] = fun p _ => s.base p := by
  funext p l; simp [cbf]

/-- `A i` is the label path from the root to the used slot `i`. -/
structure Inv (nl : Nat) (s : Nodes) (A : Nat → Option (List Nat)) (B : Nat → Nat → Option Nat) : Prop where
  root_check : s.check 0 = some 0
  root_path : A 0 = some []
  used : ∀ i, A i = none ↔ s.check i = none
  empty : ∀ i, s.check i = none → s.base i = none
  child : ∀ i P, i ≠ 0 → A i = some P → ∃ p l b Pp, s.check i = some p ∧ A p = some Pp ∧
    P = Pp ++ [l] ∧ B p l = some b ∧ i = b + l ∧ 1 ≤ l ∧ l ≤ nl

theorem Inv.used_some {nl s A B} (h : Inv nl s A B) (i p : Nat) (hc : s.check i = some p) :
    ∃ P, A i = some P := by
  cases hA : A i with
  | none => rw [(h.used i).1 hA] at hc; cases hc
  | some P => exact ⟨P, rfl⟩

theorem Inv.lt_size {nl s A B} (h : Inv nl s A B) (i : Nat) (P : List Nat) (hA : A i = some P) : i < s.size := by
  cases hc : s.check i with
  | none => rw [(h.used i).2 hc] at hA; cases hA
  | some p => exact check_lt s i p hc

/-- A used slot is not its own parent (the assertion in `rebase` never fires). -/
theorem Inv.not_self_parent {nl s A B} (h : Inv nl s A B) (i : Nat) (hi : i ≠ 0) : s.check i ≠ some i := by
  intro hc
  obtain ⟨P, hP⟩ := h.used_some i i hc
  obtain ⟨p, l, b, Pp, hcp, hAp, hPe, _⟩ := h.child i P hi hP
  rw [hc] at hcp
  have : p = i := (Option.some.inj hcp).symm
  subst this
  rw [hP] at hAp
  have : P = Pp := Option.some.inj hAp
  subst this
  have := congrArg List.length hPe
  simp at this

theorem moveChild_inv (nl : Nat) (s : Nodes) (node ob l : Nat) (rest : List Nat) (s' : Nodes)
    (A : Nat → Option (List Nat)) (P : List Nat)
    (hI : Inv nl s A (cbf s node ob (l :: rest)))
    (hP : A node = some P)
    (hold : s.check (ob + l) = some node) (holdA : A (ob + l) = some (P ++ [l]))
    (hl1 : 1 ≤ l) (hlr : l ∉ rest)
    (hfree : ∀ nb, s.base node = some nb → s.check (nb + l) = none)
    (h : s.moveChild node ob l = some s') :
    ∃ nb, s.base node = some nb ∧ s'.base node = some nb ∧ s.size ≤ s'.size ∧
      node ≠ ob + l ∧ node ≠ nb + l ∧
      Inv nl s' (fun i => if i = ob + l then none else if i = nb + l then A (ob + l) else A i)
        (cbf s' node ob rest) ∧
      (∀ j, s'.check j = if j = ob + l then none else if j = nb + l then some node
                         else if s.check j = some (ob + l) then some (nb + l) else s.check j) ∧
      (FreeOK s → FreeOK s') := by
  have hold0 : ob + l ≠ 0 := by omega
  have hnodeold : node ≠ ob + l := by
    intro hh; exact hI.not_self_parent (ob + l) hold0 (by rw [← hh] at hold ⊢; exact hold)
  have hnogc : s.base (ob + l) = none → ∀ i, s.check i ≠ some (ob + l) := by
    intro hb i hc
    by_cases hi : i = 0
    · rw [hi, hI.root_check] at hc; exact hold0 (Option.some.inj hc).symm
    · obtain ⟨Pi, hPi⟩ := hI.used_some i _ hc
      obtain ⟨p, l', b, Pp, hcp, _, _, hB, _⟩ := hI.child i Pi hi hPi
      rw [hc] at hcp
      have : p = ob + l := (Option.some.inj hcp).symm
      subst this
      have hne : ¬ (ob + l = node ∧ l' ∈ l :: rest) := fun hh => hnodeold hh.1.symm
      simp only [cbf, hne, if_false] at hB
      rw [hb] at hB; cases hB
  have hfreeb : ∀ nb, s.base node = some nb → s.base (nb + l) = none :=
    fun nb hnb => hI.empty _ (hfree nb hnb)
  obtain ⟨nb, hnb, _, hnodelt, hsz, hc', hb', hfo⟩ := moveChild_spec s node ob l s' h hnogc hfreeb
  have hidxfree : s.check (nb + l) = none := hfree nb hnb
  have hAidx : A (nb + l) = none := (hI.used _).2 hidxfree
  have hidxold : nb + l ≠ ob + l := by
    intro hh; rw [hh, hold] at hidxfree; cases hidxfree
  have hnodeidx : node ≠ nb + l := by
    intro hh; rw [← hh, hP] at hAidx; cases hAidx
  have hidx0 : nb + l ≠ 0 := by omega
  have hbnode : s'.base node = some nb := by
    rw [hb', if_neg hnodeold, if_neg hnodeidx, hnb]
  refine ⟨nb, hnb, hbnode, hsz, hnodeold, hnodeidx, ?_, hc', hfo⟩
  constructor
  · -- root_check
    rw [hc', if_neg (Ne.symm hold0), if_neg (Ne.symm hidx0), hI.root_check]
    have : (some 0 : Option Nat) ≠ some (ob + l) := fun hh => hold0 (Option.some.inj hh).symm
    rw [if_neg this]
  · -- root_path
    show (if 0 = ob + l then none else if 0 = nb + l then A (ob + l) else A 0) = some []
    rw [if_neg (Ne.symm hold0), if_neg (Ne.symm hidx0), hI.root_path]
  · -- used
    intro i
    show (if i = ob + l then none else if i = nb + l then A (ob + l) else A i) = none ↔ _
    rw [hc']
    by_cases hi : i = ob + l
    · simp [hi]
    · simp only [hi, if_false]
      by_cases hi2 : i = nb + l
      · simp [hi2, holdA]
      · simp only [hi2, if_false]
        by_cases hq : s.check i = some (ob + l)
        · have : A i ≠ none := fun hh => by rw [(hI.used i).1 hh] at hq; cases hq
          simp [hq, this]
        · simp only [hq, if_false]; exact hI.used i
  · -- empty
    intro i hci
    rw [hc'] at hci
    rw [hb']
    by_cases hi : i = ob + l
    · simp [hi]
    · simp only [hi, if_false] at hci ⊢
      by_cases hi2 : i = nb + l
      · simp [hi2] at hci
      · simp only [hi2, if_false] at hci ⊢
        by_cases hq : s.check i = some (ob + l)
        · simp [hq] at hci
        · simp only [hq, if_false] at hci; exact hI.empty i hci
  · -- child
    intro i Pi hi0 hAi
    have hAi' : (if i = ob + l then none else if i = nb + l then A (ob + l) else A i) = some Pi := hAi
    by_cases hi : i = ob + l
    · simp [hi] at hAi'
    · simp only [hi, if_false] at hAi'
      by_cases hi2 : i = nb + l
      · -- the moved child
        simp only [hi2, if_true] at hAi'
        rw [holdA] at hAi'
        have hPi : Pi = P ++ [l] := (Option.some.inj hAi').symm
        obtain ⟨p, l', b, Pp, _, _, _, _, _, _, hlnl⟩ := hI.child (ob + l) (P ++ [l]) hold0 holdA
        -- bounds of `l` come from the old child's own record
        obtain ⟨p2, l2, b2, Pp2, hcp2, hAp2, hPe2, hB2, hie2, hl2a, hl2b⟩ := hI.child (ob + l) (P ++ [l]) hold0 holdA
        have hl2 : l2 = l := by
          have := congrArg List.getLast? hPe2
          simp at this; exact this.symm
        subst hl2
        refine ⟨node, l2, nb, P, ?_, ?_, hPi, ?_, hi2, hl2a, hl2b⟩
        · rw [hc', if_neg hi, if_pos hi2]
        · show (if node = ob + l2 then none else if node = nb + l2 then A (ob + l2) else A node) = some P
          rw [if_neg hnodeold, if_neg hnodeidx, hP]
        · simp only [cbf, hlr, and_false, if_false]; exact hbnode
      · simp only [hi2, if_false] at hAi'
        obtain ⟨p, l', b, Pp, hcp, hAp, hPe, hB, hie, hla, hlb⟩ := hI.child i Pi hi0 hAi'
        by_cases hp : p = ob + l
        · -- a grandchild: re-parented to the moved child
          subst hp
          refine ⟨nb + l, l', b, Pp, ?_, ?_, hPe, ?_, hie, hla, hlb⟩
          · rw [hc', if_neg hi, if_neg hi2, if_pos hcp]
          · show (if nb + l = ob + l then none else if nb + l = nb + l then A (ob + l) else A (nb + l)) = some Pp
            rw [if_neg hidxold, if_pos rfl]; exact hAp
          · have hne : ¬ (ob + l = node ∧ l' ∈ l :: rest) := fun hh => hnodeold hh.1.symm
            simp only [cbf, hne, if_false] at hB
            have hne2 : ¬ (nb + l = node ∧ l' ∈ rest) := fun hh => hnodeidx hh.1.symm
            simp only [cbf, hne2, if_false]
            rw [hb', if_neg hidxold, if_pos rfl]; exact hB
        · have hpidx : p ≠ nb + l := by
            intro hh; rw [hh, hAidx] at hAp; cases hAp
          refine ⟨p, l', b, Pp, ?_, ?_, hPe, ?_, hie, hla, hlb⟩
          · rw [hc', if_neg hi, if_neg hi2]
            have : s.check i ≠ some (ob + l) := by rw [hcp]; exact fun hh => hp (Option.some.inj hh)
            rw [if_neg this, hcp]
          · show (if p = ob + l then none else if p = nb + l then A (ob + l) else A p) = some Pp
            rw [if_neg hp, if_neg hpidx]; exact hAp
          · have hbp : s'.base p = s.base p := by rw [hb', if_neg hp, if_neg hpidx]
            simp only [cbf] at hB ⊢
            by_cases hq : p = node ∧ l' ∈ rest
            · have hq' : p = node ∧ l' ∈ l :: rest := ⟨hq.1, List.mem_cons_of_mem _ hq.2⟩
              rw [if_pos hq'] at hB; rw [if_pos hq]; exact hB
            · rw [if_neg hq, hbp]
              by_cases hq' : p = node ∧ l' ∈ l :: rest
              · -- then l' = l and i would be the old slot
                rw [if_pos hq'] at hB
                have hbo : b = ob := (Option.some.inj hB).symm
                rcases List.mem_cons.1 hq'.2 with hll | hll
                · exfalso; apply hi; rw [hie, hbo, hll]
                · exact absurd ⟨hq'.1, hll⟩ hq
              · rw [if_neg hq'] at hB; exact hB

theorem moveChildren_inv (nl node ob nb : Nat) (P resv : List Nat) :
    ∀ (pend : List Nat) (s s' : Nodes) (A : Nat → Option (List Nat)),
    Inv nl s A (cbf s node ob pend) → FreeOK s → A node = some P → s.base node = some nb →
    pend.Nodup →
    (∀ l ∈ pend, 1 ≤ l ∧ s.check (ob + l) = some node ∧ A (ob + l) = some (P ++ [l])) →
    (∀ l, l ∈ pend ∨ l ∈ resv → s.check (nb + l) = none) → (∀ l ∈ pend, l ∉ resv) →
    s.moveChildren node ob pend = some s' →
    ∃ A', Inv nl s' A' (fun p _ => s'.base p) ∧ FreeOK s' ∧ A' node = some P ∧ s'.base node = some nb ∧
      (∀ l ∈ resv, s'.check (nb + l) = none) ∧ (∀ M, (∃ i, A' i = some M) ↔ (∃ i, A i = some M)) ∧
      s.size ≤ s'.size := by
  intro pend
  induction pend with
  | nil =>
    intro s s' A hI hF hP hb _ _ hfree _ h
    simp only [Nodes.moveChildren, Option.some.injEq] at h
    subst h
    rw [cbf_nil] at hI
    exact ⟨A, hI, hF, hP, hb, fun l hl => hfree l (Or.inr hl), fun M => Iff.rfl, Nat.le_refl _⟩
  | cons l rest ih =>
    intro s s' A hI hF hP hb hnd hpend hfree hdisj h
    simp only [Nodes.moveChildren] at h
    cases hm : s.moveChild node ob l with
    | none => simp [hm] at h
    | some s1 =>
      simp only [hm, Option.bind_some] at h
      have hlr : l ∉ rest := (List.nodup_cons.1 hnd).1
      have hndr : rest.Nodup := (List.nodup_cons.1 hnd).2
      obtain ⟨hl1, hold, holdA⟩ := hpend l List.mem_cons_self
      have hfree1 : ∀ nb', s.base node = some nb' → s.check (nb' + l) = none := by
        intro nb' hnb'
        rw [hb] at hnb'
        rw [← Option.some.inj hnb']
        exact hfree l (Or.inl List.mem_cons_self)
      obtain ⟨nb', hnb', hb1, hsz1, hnodeold, hnodeidx, hI1, hc1, hF1⟩ :=
        moveChild_inv nl s node ob l rest s1 A P hI hP hold holdA hl1 hlr hfree1 hm
      rw [hb] at hnb'
      have : nb' = nb := (Option.some.inj hnb').symm
      subst this
      have hidxfree : s.check (nb' + l) = none := hfree l (Or.inl List.mem_cons_self)
      have hAidx : A (nb' + l) = none := (hI.used _).2 hidxfree
      have hidxold : nb' + l ≠ ob + l := by
        intro hh; rw [hh, hold] at hidxfree; cases hidxfree
      -- preconditions for the rest of the loop
      have hP1 : (fun i => if i = ob + l then none else if i = nb' + l then A (ob + l) else A i) node = some P := by
        show (if node = ob + l then none else if node = nb' + l then A (ob + l) else A node) = some P
        rw [if_neg hnodeold, if_neg hnodeidx, hP]
      have hpend1 : ∀ l2 ∈ rest, 1 ≤ l2 ∧ s1.check (ob + l2) = some node ∧
          (fun i => if i = ob + l then none else if i = nb' + l then A (ob + l) else A i) (ob + l2) = some (P ++ [l2]) := by
        intro l2 hl2
        obtain ⟨h1, h2, h3⟩ := hpend l2 (List.mem_cons_of_mem _ hl2)
        have hne : l2 ≠ l := fun hh => hlr (hh ▸ hl2)
        have hj1 : ob + l2 ≠ ob + l := by omega
        have hj2 : ob + l2 ≠ nb' + l := by
          intro hh; rw [hh, hidxfree] at h2; cases h2
        refine ⟨h1, ?_, ?_⟩
        · rw [hc1, if_neg hj1, if_neg hj2, h2]
          have : (some node : Option Nat) ≠ some (ob + l) := fun hh => hnodeold (Option.some.inj hh)
          rw [if_neg this]
        · show (if ob + l2 = ob + l then none else if ob + l2 = nb' + l then A (ob + l) else A (ob + l2)) = _
          rw [if_neg hj1, if_neg hj2, h3]
      have hfree' : ∀ l2, l2 ∈ rest ∨ l2 ∈ resv → s1.check (nb' + l2) = none := by
        intro l2 hl2
        have hne : l2 ≠ l := by
          rcases hl2 with hl2 | hl2
          · exact fun hh => hlr (hh ▸ hl2)
          · exact fun hh => hdisj l List.mem_cons_self (hh ▸ hl2)
        have h0 : s.check (nb' + l2) = none := by
          rcases hl2 with hl2 | hl2
          · exact hfree l2 (Or.inl (List.mem_cons_of_mem _ hl2))
          · exact hfree l2 (Or.inr hl2)
        rw [hc1]
        by_cases hj : nb' + l2 = ob + l
        · rw [if_pos hj]
        · rw [if_neg hj, if_neg (by omega), h0]; simp
      have hdisj' : ∀ l2 ∈ rest, l2 ∉ resv := fun l2 hl2 => hdisj l2 (List.mem_cons_of_mem _ hl2)
      obtain ⟨A', hI', hF', hP', hb', hres', hpaths, hsz'⟩ :=
        ih s1 s' _ hI1 (hF1 hF) hP1 hb1 hndr hpend1 hfree' hdisj' h
      refine ⟨A', hI', hF', hP', hb', hres', ?_, by omega⟩
      intro M
      rw [hpaths M]
      constructor
      · rintro ⟨i, hi⟩
        have hi' : (if i = ob + l then none else if i = nb' + l then A (ob + l) else A i) = some M := hi
        by_cases h1 : i = ob + l
        · simp [h1] at hi'
        · simp only [h1, if_false] at hi'
          by_cases h2 : i = nb' + l
          · simp only [h2, if_true] at hi'; exact ⟨_, hi'⟩
          · simp only [h2, if_false] at hi'; exact ⟨_, hi'⟩
      · rintro ⟨i, hi⟩
        by_cases h1 : i = ob + l
        · refine ⟨nb' + l, ?_⟩
          show (if nb' + l = ob + l then none else if nb' + l = nb' + l then A (ob + l) else A (nb' + l)) = some M
          rw [if_neg hidxold, if_pos rfl, ← h1]; exact hi
        · have h2 : i ≠ nb' + l := by intro hh; rw [hh, hAidx] at hi; cases hi
          refine ⟨i, ?_⟩
          show (if i = ob + l then none else if i = nb' + l then A (ob + l) else A i) = some M
          rw [if_neg h1, if_neg h2]; exact hi

/-! ### steps under the plain invariant (`B p _ = base p`) -/

abbrev Inv0 (nl : Nat) (s : Nodes) (A : Nat → Option (List Nat)) : Prop := Inv nl s A (fun p _ => s.base p)

/-- The slot a transition leads to carries the extended path. -/
theorem child_path {nl s A} (hI : Inv0 nl s A) (p b l : Nat) (P : List Nat)
    (hb : s.base p = some b) (hc : s.check (b + l) = some p) (hl : 1 ≤ l) (hP : A p = some P) :
    A (b + l) = some (P ++ [l]) := by
  obtain ⟨Pi, hPi⟩ := hI.used_some _ _ hc
  obtain ⟨p', l', b', Pp, hcp, hAp, hPe, hB, hie, _, _⟩ := hI.child (b + l) Pi (by omega) hPi
  rw [hc] at hcp
  have hp : p' = p := (Option.some.inj hcp).symm
  subst hp
  rw [hP] at hAp
  have : Pp = P := (Option.some.inj hAp).symm
  subst this
  have hB' : s.base p' = some b' := hB
  rw [hb] at hB'
  have : b' = b := (Option.some.inj hB').symm
  subst this
  have : l' = l := by omega
  subst this
  rw [hPi, hPe]

theorem mem_findLabelsOf (s : Nodes) (idx nl l : Nat) :
    l ∈ s.findLabelsOf idx nl ↔ ∃ b, s.base idx = some b ∧ 1 ≤ l ∧ l ≤ nl ∧ s.check (b + l) = some idx := by
  unfold Nodes.findLabelsOf
  cases hb : s.base idx with
  | none => simp
  | some b =>
    simp only [List.mem_filterMap, List.mem_range, Option.some.injEq, exists_eq_left']
    constructor
    · rintro ⟨k, hk, hq⟩
      split at hq
      · next hc => simp only [Option.some.injEq] at hq; subst hq; exact ⟨by omega, by omega, hc⟩
      · cases hq
    · rintro ⟨h1, h2, h3⟩
      refine ⟨l - 1, by omega, ?_⟩
      have : l - 1 + 1 = l := by omega
      simp [this, h3]

theorem nodup_findLabelsOf (s : Nodes) (idx nl : Nat) : (s.findLabelsOf idx nl).Nodup := by
  unfold Nodes.findLabelsOf
  cases s.base idx with
  | none => simp
  | some b =>
    refine List.Pairwise.filterMap _ ?_ List.nodup_range
    intro a a' hne x hx y hy
    simp only at hx hy
    split at hx <;> split at hy <;> simp_all
    omega

theorem recordTransition_inv (nl : Nat) (s : Nodes) (idx l : Nat) (s' : Nodes) (ci : Nat)
    (A : Nat → Option (List Nat)) (P : List Nat)
    (hI : Inv0 nl s A) (hP : A idx = some P) (hl : 1 ≤ l ∧ l ≤ nl)
    (hfree : ∀ b, s.base idx = some b → s.check (b + l) = none)
    (h : s.recordTransition idx l = some (s', ci)) :
    Inv0 nl s' (fun i => if i = ci then some (P ++ [l]) else A i) ∧ (FreeOK s → FreeOK s') ∧
      s.size ≤ s'.size ∧ idx ≠ ci ∧ A ci = none := by
  obtain ⟨b, hb, hci, _, hsz, _, hc', hb', hF'⟩ := recordTransition_spec s idx l s' ci h
  have hcfree : s.check ci = none := by rw [hci]; exact hfree b hb
  have hAci : A ci = none := (hI.used _).2 hcfree
  have hne : idx ≠ ci := by intro hh; rw [hh, hAci] at hP; cases hP
  have hci0 : ci ≠ 0 := by omega
  refine ⟨?_, hF', hsz, hne, hAci⟩
  constructor
  · rw [hc', if_neg (Ne.symm hci0)]; exact hI.root_check
  · show (if 0 = ci then some (P ++ [l]) else A 0) = some []
    rw [if_neg (Ne.symm hci0)]; exact hI.root_path
  · intro i
    show (if i = ci then some (P ++ [l]) else A i) = none ↔ _
    rw [hc']
    by_cases hi : i = ci
    · simp [hi]
    · simp only [hi, if_false]; exact hI.used i
  · intro i hc
    rw [hc'] at hc
    rw [hb']
    by_cases hi : i = ci
    · simp [hi] at hc
    · simp only [hi, if_false] at hc; exact hI.empty i hc
  · intro i Pi hi0 hAi
    have hAi' : (if i = ci then some (P ++ [l]) else A i) = some Pi := hAi
    by_cases hi : i = ci
    · simp only [hi, if_true, Option.some.injEq] at hAi'
      refine ⟨idx, l, b, P, ?_, ?_, hAi'.symm, ?_, by omega, hl.1, hl.2⟩
      · rw [hc', if_pos hi]
      · show (if idx = ci then some (P ++ [l]) else A idx) = some P
        rw [if_neg hne, hP]
      · show s'.base idx = some b
        rw [hb', hb]
    · simp only [hi, if_false] at hAi'
      obtain ⟨p, l', b', Pp, hcp, hAp, hPe, hB, hie, hla, hlb⟩ := hI.child i Pi hi0 hAi'
      have hpci : p ≠ ci := by intro hh; rw [hh, hAci] at hAp; cases hAp
      refine ⟨p, l', b', Pp, ?_, ?_, hPe, ?_, hie, hla, hlb⟩
      · rw [hc', if_neg hi, hcp]
      · show (if p = ci then some (P ++ [l]) else A p) = some Pp
        rw [if_neg hpci, hAp]
      · show s'.base p = some b'
        rw [hb']; exact hB

theorem setBase_inv (nl : Nat) (s : Nodes) (i b : Nat) (A : Nat → Option (List Nat)) (P : List Nat)
    (hI : Inv0 nl s A) (hP : A i = some P) (hb : s.base i = none) :
    Inv0 nl (s.setBase i (some b)) A := by
  have hlt : i < s.size := hI.lt_size i P hP
  constructor
  · rw [check_setBase]; exact hI.root_check
  · exact hI.root_path
  · intro j; rw [check_setBase]; exact hI.used j
  · intro j hc
    rw [check_setBase] at hc
    rw [base_setBase]
    by_cases hj : j = i
    · subst hj; rw [(hI.used j).2 hc] at hP; cases hP
    · simp only [hj, false_and, if_false]; exact hI.empty j hc
  · intro j Pj hj0 hAj
    obtain ⟨p, l', b', Pp, hcp, hAp, hPe, hB, hie, hla, hlb⟩ := hI.child j Pj hj0 hAj
    have hB' : s.base p = some b' := hB
    have hpi : p ≠ i := by intro hh; rw [hh, hb] at hB'; cases hB'
    refine ⟨p, l', b', Pp, ?_, hAp, hPe, ?_, hie, hla, hlb⟩
    · rw [check_setBase]; exact hcp
    · show (s.setBase i (some b)).base p = some b'
      rw [base_setBase]; simp only [hpi, false_and, if_false]; exact hB'

theorem xcheck_spec (s : Nodes) (labels : List Nat) (c t : Nat) (hF : FreeOK s)
    (h : s.xcheck labels c = .ok t) : ∀ l ∈ labels, s.check (t + l) = none := by
  unfold Nodes.xcheck at h
  split at h
  · cases h
  · split at h
    · next hadm =>
      simp only [Res.ok.injEq] at h
      subst h
      intro l hl
      simp only [Nodes.admissible, List.all_eq_true] at hadm
      exact ((hF.2 _).1 ((memNat_iff _ _).1 (hadm l hl))).2
    · split at h
      · next hsz =>
        simp only [Res.ok.injEq] at h
        subst h
        intro l _
        simp [Nodes.check, get_of_ge s (s.size + l) (by omega), emptySlot]
      · cases h

theorem rebase_inv (nl : Nat) (s : Nodes) (node ob nb : Nat) (s' : Nodes)
    (A : Nat → Option (List Nat)) (P resv : List Nat)
    (hI : Inv0 nl s A) (hF : FreeOK s) (hP : A node = some P) (hob : s.base node = some ob)
    (hfree : ∀ l, l ∈ s.findLabelsOf node nl ∨ l ∈ resv → s.check (nb + l) = none)
    (hdisj : ∀ l ∈ s.findLabelsOf node nl, l ∉ resv)
    (h : s.rebase node nb nl = some s') :
    ∃ A', Inv0 nl s' A' ∧ FreeOK s' ∧ A' node = some P ∧ s'.base node = some nb ∧
      (∀ l ∈ resv, s'.check (nb + l) = none) ∧ (∀ M, (∃ i, A' i = some M) ↔ (∃ i, A i = some M)) ∧
      s.size ≤ s'.size := by
  have hlt : node < s.size := hI.lt_size node P hP
  unfold Nodes.rebase at h
  rw [if_pos hlt, hob] at h
  simp only at h
  have hb0 : (s.setBase node (some nb)).base node = some nb := by
    rw [base_setBase]; simp [hlt]
  have hI0 : Inv nl (s.setBase node (some nb)) A
      (cbf (s.setBase node (some nb)) node ob (s.findLabelsOf node nl)) := by
    constructor
    · rw [check_setBase]; exact hI.root_check
    · exact hI.root_path
    · intro j; rw [check_setBase]; exact hI.used j
    · intro j hc
      rw [check_setBase] at hc
      rw [base_setBase]
      by_cases hj : j = node
      · subst hj; rw [(hI.used j).2 hc] at hP; cases hP
      · simp only [hj, false_and, if_false]; exact hI.empty j hc
    · intro j Pj hj0 hAj
      obtain ⟨p, l', b', Pp, hcp, hAp, hPe, hB, hie, hla, hlb⟩ := hI.child j Pj hj0 hAj
      have hB' : s.base p = some b' := hB
      refine ⟨p, l', b', Pp, ?_, hAp, hPe, ?_, hie, hla, hlb⟩
      · rw [check_setBase]; exact hcp
      · simp only [cbf]
        by_cases hp : p = node
        · subst hp
          rw [hob] at hB'
          have hbb : b' = ob := (Option.some.inj hB').symm
          subst hbb
          have : l' ∈ s.findLabelsOf p nl :=
            (mem_findLabelsOf s p nl l').2 ⟨b', hob, hla, hlb, by rw [← hie]; exact hcp⟩
          rw [if_pos ⟨rfl, this⟩]
        · have : ¬ (p = node ∧ l' ∈ s.findLabelsOf node nl) := fun hh => hp hh.1
          rw [if_neg this, base_setBase]
          simp only [hp, false_and, if_false]; exact hB'
  have hpend : ∀ l ∈ s.findLabelsOf node nl, 1 ≤ l ∧ (s.setBase node (some nb)).check (ob + l) = some node ∧
      A (ob + l) = some (P ++ [l]) := by
    intro l hl
    obtain ⟨b, hb, h1, _, hc⟩ := (mem_findLabelsOf s node nl l).1 hl
    rw [hob] at hb
    have : b = ob := (Option.some.inj hb).symm
    subst this
    exact ⟨h1, by rw [check_setBase]; exact hc, child_path hI node b l P hob hc h1 hP⟩
  have hfree0 : ∀ l, l ∈ s.findLabelsOf node nl ∨ l ∈ resv → (s.setBase node (some nb)).check (nb + l) = none := by
    intro l hl; rw [check_setBase]; exact hfree l hl
  obtain ⟨A', hI', hF', hP', hb', hres, hpaths, hsz⟩ :=
    moveChildren_inv nl node ob nb P resv _ _ s' A hI0 (freeOK_setBase s node (some nb) hF) hP hb0
      (nodup_findLabelsOf s node nl) hpend hfree0 hdisj h
  rw [size_setBase] at hsz
  exact ⟨A', hI', hF', hP', hb', hres, hpaths, hsz⟩

/-! ### one step of `insert` -/

theorem paths_record (A : Nat → Option (List Nat)) (ci : Nat) (Q M : List Nat) (hci : A ci = none) :
    (∃ i, (if i = ci then some Q else A i) = some M) ↔ ((∃ i, A i = some M) ∨ M = Q) := by
  constructor
  · rintro ⟨i, hi⟩
    by_cases h : i = ci
    · simp only [h, if_true, Option.some.injEq] at hi; exact Or.inr hi.symm
    · simp only [h, if_false] at hi; exact Or.inl ⟨i, hi⟩
  · rintro (⟨i, hi⟩ | h)
    · have : i ≠ ci := by intro hh; rw [hh, hci] at hi; cases hi
      exact ⟨i, by simp only [this, if_false]; exact hi⟩
    · exact ⟨ci, by simp [h]⟩

theorem xcheck_ne_reject (s : Nodes) (labels : List Nat) (c : Nat) : s.xcheck labels c ≠ .reject := by
  unfold Nodes.xcheck
  split
  · intro h; cases h
  · split
    · intro h; cases h
    · split <;> intro h <;> cases h

theorem insertBase_inv (nl : Nat) (s : Nodes) (cur label : Nat) (oracle : List Nat)
    (s1 : Nodes) (b : Nat) (o1 : List Nat) (A : Nat → Option (List Nat)) (P : List Nat)
    (hI : Inv0 nl s A) (hF : FreeOK s) (hP : A cur = some P)
    (h : insertBase s cur label oracle = .ok (s1, b, o1)) :
    Inv0 nl s1 A ∧ FreeOK s1 ∧ s1.base cur = some b := by
  unfold insertBase at h
  cases hb : s.base cur with
  | some b0 =>
    simp only [hb, Res.ok.injEq, Prod.mk.injEq] at h
    obtain ⟨rfl, rfl, _⟩ := h
    exact ⟨hI, hF, hb⟩
  | none =>
    simp only [hb] at h
    cases oracle with
    | nil => simp at h
    | cons c rest =>
      simp only at h
      cases hx : s.xcheck [label] c with
      | ok b' =>
        simp only [hx, Res.ok.injEq, Prod.mk.injEq] at h
        obtain ⟨rfl, rfl, _⟩ := h
        refine ⟨setBase_inv nl s cur b' A P hI hP hb, freeOK_setBase _ _ _ hF, ?_⟩
        rw [base_setBase]; simp [hI.lt_size cur P hP]
      | reject => simp [hx] at h
      | panic => simp [hx] at h
      | badOracle => simp [hx] at h

theorem insertBase_ne_reject (s : Nodes) (cur label : Nat) (oracle : List Nat) :
    insertBase s cur label oracle ≠ .reject := by
  unfold insertBase
  cases s.base cur with
  | some b0 => intro h; cases h
  | none =>
    cases oracle with
    | nil => intro h; cases h
    | cons c rest =>
      simp only
      cases hx : s.xcheck [label] c with
      | ok b' => intro h; cases h
      | reject => exact absurd hx (xcheck_ne_reject _ _ _)
      | panic => intro h; cases h
      | badOracle => intro h; cases h

theorem insertTail_ne_reject (nl : Nat) (s1 : Nodes) (cur label b : Nat) (o1 : List Nat) :
    insertTail nl s1 cur label b o1 ≠ .reject := by
  unfold insertTail
  cases s1.check (b + label) with
  | none =>
    simp only
    cases s1.recordTransition cur label with
    | none => intro h; cases h
    | some r => intro h; cases h
  | some n =>
    simp only
    split
    · intro h; cases h
    · cases o1 with
      | nil => intro h; cases h
      | cons c rest =>
        simp only
        cases hx : s1.xcheck (s1.findLabelsOf cur nl ++ [label]) c with
        | ok nb =>
          simp only
          cases s1.rebase cur nb nl with
          | none => intro h; cases h
          | some s2 =>
            simp only
            cases s2.recordTransition cur label with
            | none => intro h; cases h
            | some r => intro h; cases h
        | reject => exact absurd hx (xcheck_ne_reject _ _ _)
        | panic => intro h; cases h
        | badOracle => intro h; cases h

theorem insertTail_inv (nl : Nat) (s1 : Nodes) (cur label b : Nat) (o1 : List Nat)
    (s' : Nodes) (cur' : Nat) (o' : List Nat) (A : Nat → Option (List Nat)) (P : List Nat)
    (hI : Inv0 nl s1 A) (hF : FreeOK s1) (hP : A cur = some P) (hb : s1.base cur = some b)
    (hl : 1 ≤ label ∧ label ≤ nl)
    (h : insertTail nl s1 cur label b o1 = .ok (s', cur', o')) :
    ∃ A', Inv0 nl s' A' ∧ FreeOK s' ∧ A' cur' = some (P ++ [label]) ∧
      (∀ M, (∃ i, A' i = some M) ↔ ((∃ i, A i = some M) ∨ M = P ++ [label])) := by
  unfold insertTail at h
  cases hc : s1.check (b + label) with
  | none =>
    simp only [hc] at h
    cases hr : s1.recordTransition cur label with
    | none => simp [hr] at h
    | some r =>
      obtain ⟨s2, t⟩ := r
      simp only [hr, Res.ok.injEq, Prod.mk.injEq] at h
      obtain ⟨rfl, rfl, _⟩ := h
      have hfree : ∀ b', s1.base cur = some b' → s1.check (b' + label) = none := by
        intro b' hb'; rw [hb] at hb'; rw [← Option.some.inj hb']; exact hc
      obtain ⟨hI2, hF2, _, _, hAt⟩ := recordTransition_inv nl s1 cur label s2 t A P hI hP hl hfree hr
      exact ⟨_, hI2, hF2 hF, by simp, fun M => paths_record A t _ M hAt⟩
  | some n =>
    simp only [hc] at h
    by_cases hn : n = cur
    · subst hn
      simp only [if_true, Res.ok.injEq, Prod.mk.injEq] at h
      obtain ⟨rfl, rfl, _⟩ := h
      have hpath := child_path hI n b label P hb hc hl.1 hP
      refine ⟨A, hI, hF, hpath, ?_⟩
      intro M
      constructor
      · exact Or.inl
      · rintro (h | h)
        · exact h
        · exact ⟨b + label, by rw [h]; exact hpath⟩
    · simp only [hn, if_false] at h
      cases o1 with
      | nil => simp at h
      | cons c rest =>
        simp only at h
        cases hx : s1.xcheck (s1.findLabelsOf cur nl ++ [label]) c with
        | reject => simp [hx] at h
        | panic => simp [hx] at h
        | badOracle => simp [hx] at h
        | ok nb =>
          simp only [hx] at h
          have hxs := xcheck_spec s1 _ c nb hF hx
          cases hrb : s1.rebase cur nb nl with
          | none => simp [hrb] at h
          | some s2 =>
            simp only [hrb] at h
            cases hr : s2.recordTransition cur label with
            | none => simp [hr] at h
            | some r =>
              obtain ⟨s3, t⟩ := r
              simp only [hr, Res.ok.injEq, Prod.mk.injEq] at h
              obtain ⟨rfl, rfl, _⟩ := h
              have hfree : ∀ l, l ∈ s1.findLabelsOf cur nl ∨ l ∈ [label] → s1.check (nb + l) = none := by
                intro l hl'
                apply hxs
                rcases hl' with hl' | hl'
                · exact List.mem_append_left _ hl'
                · exact List.mem_append_right _ hl'
              have hdisj : ∀ l ∈ s1.findLabelsOf cur nl, l ∉ [label] := by
                intro l hl' hmem
                simp only [List.mem_singleton] at hmem
                subst hmem
                obtain ⟨b', hb', _, _, hc'⟩ := (mem_findLabelsOf s1 cur nl l).1 hl'
                rw [hb] at hb'
                rw [← Option.some.inj hb', hc] at hc'
                exact hn (Option.some.inj hc')
              obtain ⟨A2, hI2, hF2, hP2, hb2, hres2, hpaths2, _⟩ :=
                rebase_inv nl s1 cur b nb s2 A P [label] hI hF hP hb hfree hdisj hrb
              have hfree2 : ∀ b', s2.base cur = some b' → s2.check (b' + label) = none := by
                intro b' hb'; rw [hb2] at hb'; rw [← Option.some.inj hb']
                exact hres2 label (List.mem_singleton.2 rfl)
              obtain ⟨hI3, hF3, _, _, hAt⟩ := recordTransition_inv nl s2 cur label s3 t A2 P hI2 hP2 hl hfree2 hr
              refine ⟨_, hI3, hF3 hF2, by simp, ?_⟩
              intro M
              rw [paths_record A2 t _ M hAt, hpaths2 M]

theorem insertStep_inv (nl : Nat) (s : Nodes) (cur label : Nat) (oracle : List Nat)
    (s' : Nodes) (cur' : Nat) (o' : List Nat) (A : Nat → Option (List Nat)) (P : List Nat)
    (hI : Inv0 nl s A) (hF : FreeOK s) (hP : A cur = some P) (hl : 1 ≤ label ∧ label ≤ nl)
    (h : insertStep nl s cur label oracle = .ok (s', cur', o')) :
    ∃ A', Inv0 nl s' A' ∧ FreeOK s' ∧ A' cur' = some (P ++ [label]) ∧
      (∀ M, (∃ i, A' i = some M) ↔ ((∃ i, A i = some M) ∨ M = P ++ [label])) := by
  unfold insertStep at h
  rw [if_pos (hI.lt_size cur P hP)] at h
  cases hbse : insertBase s cur label oracle with
  | ok r =>
    obtain ⟨s1, b, o1⟩ := r
    simp only [hbse] at h
    obtain ⟨hI1, hF1, hb1⟩ := insertBase_inv nl s cur label oracle s1 b o1 A P hI hF hP hbse
    exact insertTail_inv nl s1 cur label b o1 s' cur' o' A P hI1 hF1 hP hb1 hl h
  | reject => simp [hbse] at h
  | panic => simp [hbse] at h
  | badOracle => simp [hbse] at h

theorem insertStep_ne_reject (nl : Nat) (s : Nodes) (cur label : Nat) (oracle : List Nat)
    (A : Nat → Option (List Nat)) (P : List Nat) (hI : Inv0 nl s A) (hP : A cur = some P) :
    insertStep nl s cur label oracle ≠ .reject := by
  unfold insertStep
  rw [if_pos (hI.lt_size cur P hP)]
  cases hbse : insertBase s cur label oracle with
  | ok r => obtain ⟨s1, b, o1⟩ := r; exact insertTail_ne_reject nl s1 cur label b o1
  | reject => exact absurd hbse (insertBase_ne_reject _ _ _ _)
  | panic => intro h; cases h
  | badOracle => intro h; cases h

/-! ### the whole insertion -/

theorem insertLoop_inv (nl : Nat) : ∀ (ls : List Nat) (s : Nodes) (cur : Nat) (oracle : List Nat)
    (s' : Nodes) (o' : List Nat) (A : Nat → Option (List Nat)) (P : List Nat),
    Inv0 nl s A → FreeOK s → A cur = some P → (∀ l ∈ ls, 1 ≤ l ∧ l ≤ nl) →
    insertLoop nl s cur ls oracle = .ok (s', o') →
    ∃ A', Inv0 nl s' A' ∧ FreeOK s' ∧
      (∀ M, (∃ i, A' i = some M) ↔
        ((∃ i, A i = some M) ∨ ∃ k, 1 ≤ k ∧ k ≤ ls.length ∧ M = P ++ ls.take k))
  | [], s, cur, oracle, s', o', A, P, hI, hF, _, _, h => by
    simp only [insertLoop, Res.ok.injEq, Prod.mk.injEq] at h
    obtain ⟨rfl, _⟩ := h
    refine ⟨A, hI, hF, ?_⟩
    intro M
    constructor
    · exact Or.inl
    · rintro (h | ⟨k, h1, h2, _⟩)
      · exact h
      · simp at h2; omega
  | l :: ls, s, cur, oracle, s', o', A, P, hI, hF, hP, hls, h => by
    unfold insertLoop at h
    cases hst : insertStep nl s cur l oracle with
    | ok r =>
      obtain ⟨s1, cur1, o1⟩ := r
      simp only [hst] at h
      obtain ⟨A1, hI1, hF1, hP1, hpaths1⟩ :=
        insertStep_inv nl s cur l oracle s1 cur1 o1 A P hI hF hP (hls l List.mem_cons_self) hst
      obtain ⟨A', hI', hF', hpaths'⟩ :=
        insertLoop_inv nl ls s1 cur1 o1 s' o' A1 (P ++ [l]) hI1 hF1 hP1
          (fun x hx => hls x (List.mem_cons_of_mem _ hx)) h
      refine ⟨A', hI', hF', ?_⟩
      intro M
      rw [hpaths' M, hpaths1 M]
      constructor
      · rintro ((h | h) | ⟨k, h1, h2, h3⟩)
        · exact Or.inl h
        · exact Or.inr ⟨1, by omega, by simp, by simp [h]⟩
        · refine Or.inr ⟨k + 1, by omega, by simp; omega, ?_⟩
          rw [h3]; simp
      · rintro (h | ⟨k, h1, h2, h3⟩)
        · exact Or.inl (Or.inl h)
        · rcases Nat.lt_or_ge 1 k with hk | hk
          · refine Or.inr ⟨k - 1, by omega, by simp at h2; omega, ?_⟩
            have : k = (k - 1) + 1 := by omega
            rw [h3, this, List.take_succ_cons]; simp
          · have : k = 1 := by omega
            subst this
            exact Or.inl (Or.inr (by rw [h3]; simp))
    | reject => simp [hst] at h
    | panic => simp [hst] at h
    | badOracle => simp [hst] at h

theorem insertLoop_ne_reject (nl : Nat) : ∀ (ls : List Nat) (s : Nodes) (cur : Nat) (oracle : List Nat)
    (A : Nat → Option (List Nat)) (P : List Nat),
    Inv0 nl s A → FreeOK s → A cur = some P → (∀ l ∈ ls, 1 ≤ l ∧ l ≤ nl) →
    insertLoop nl s cur ls oracle ≠ .reject
  | [], s, cur, oracle, A, P, _, _, _, _ => by simp [insertLoop]
  | l :: ls, s, cur, oracle, A, P, hI, hF, hP, hls => by
    unfold insertLoop
    cases hst : insertStep nl s cur l oracle with
    | ok r =>
      obtain ⟨s1, cur1, o1⟩ := r
      obtain ⟨A1, hI1, hF1, hP1, _⟩ :=
        insertStep_inv nl s cur l oracle s1 cur1 o1 A P hI hF hP (hls l List.mem_cons_self) hst
      exact insertLoop_ne_reject nl ls s1 cur1 o1 A1 (P ++ [l]) hI1 hF1 hP1
        (fun x hx => hls x (List.mem_cons_of_mem _ hx))
    | reject => exact absurd hst (insertStep_ne_reject nl s cur l oracle A P hI hP)
    | panic => intro h; cases h
    | badOracle => intro h; cases h

/-! ### searching -/

theorem walk_append (s : Nodes) : ∀ (M1 M2 : List Nat) (p : Nat),
    s.walk p (M1 ++ M2) = (s.walk p M1).bind fun q => s.walk q M2
  | [], M2, p => by simp [Nodes.walk]
  | l :: M1, M2, p => by
    simp only [List.cons_append, Nodes.walk]
    cases s.child p l with
    | none => rfl
    | some q => exact walk_append s M1 M2 q

theorem child_some (s : Nodes) (p l q : Nat) (h : s.child p l = some q) :
    ∃ b, s.base p = some b ∧ q = b + l ∧ s.check (b + l) = some p := by
  unfold Nodes.child at h
  cases hb : s.base p with
  | none => simp [hb] at h
  | some b =>
    simp only [hb] at h
    split at h
    · next hc => exact ⟨b, rfl, (Option.some.inj h).symm, hc⟩
    · cases h

/-- Walking along labels ≥ 1 from a used slot ends at the slot carrying the extended path. -/
theorem walk_path {nl s A} (hI : Inv0 nl s A) : ∀ (M : List Nat) (p q : Nat) (P : List Nat),
    (∀ l ∈ M, 1 ≤ l) → A p = some P → s.walk p M = some q → A q = some (P ++ M)
  | [], p, q, P, _, hP, h => by
    simp only [Nodes.walk, Option.some.injEq] at h; subst h; simpa using hP
  | l :: M, p, q, P, hM, hP, h => by
    simp only [Nodes.walk] at h
    cases hc : s.child p l with
    | none => simp [hc] at h
    | some q1 =>
      simp only [hc] at h
      obtain ⟨b, hb, hq1, hck⟩ := child_some s p l q1 hc
      have := child_path hI p b l P hb hck (hM l List.mem_cons_self) hP
      rw [← hq1] at this
      have := walk_path hI M q1 q (P ++ [l]) (fun x hx => hM x (List.mem_cons_of_mem _ hx)) this h
      simpa using this

theorem path_walk {nl s A} (hI : Inv0 nl s A) : ∀ (n : Nat) (M : List Nat) (q : Nat),
    M.length = n → A q = some M → s.walk 0 M = some q
  | 0, M, q, hn, hA => by
    have : M = [] := List.eq_nil_of_length_eq_zero hn
    subst this
    by_cases hq : q = 0
    · subst hq; rfl
    · obtain ⟨p, l, b, Pp, _, _, hPe, _⟩ := hI.child q [] hq hA
      have := congrArg List.length hPe
      simp at this
  | n + 1, M, q, hn, hA => by
    have hq : q ≠ 0 := by
      intro hh; subst hh; rw [hI.root_path] at hA
      have := Option.some.inj hA; subst this; simp at hn
    obtain ⟨p, l, b, Pp, hcp, hAp, hPe, hB, hie, hl1, _⟩ := hI.child q M hq hA
    have hB' : s.base p = some b := hB
    have hlen : Pp.length = n := by
      have := congrArg List.length hPe
      simp at this; omega
    have ih := path_walk hI n Pp p hlen hAp
    rw [hPe, walk_append, ih]
    simp only [Option.bind_some, Nodes.walk, Nodes.child, hB']
    rw [← hie, hcp]
    simp

theorem search_iff {nl s A} (hI : Inv0 nl s A) (M : List Nat) (hM : ∀ l ∈ M, 1 ≤ l) :
    (s.walk 0 M).isSome = true ↔ ∃ i, A i = some M := by
  constructor
  · intro h
    cases hw : s.walk 0 M with
    | none => simp [hw] at h
    | some q =>
      have := walk_path hI M 0 q [] hM hI.root_path hw
      exact ⟨q, by simpa using this⟩
  · rintro ⟨q, hq⟩
    rw [path_walk hI M.length M q rfl hq]; rfl

/-! ### keys and labels -/

theorem indexOf_some (c : Nat) : ∀ (l : List Nat) (i : Nat), indexOf c l = some i → l[i]? = some c
  | [], i, h => by simp [indexOf] at h
  | x :: t, i, h => by
    unfold indexOf at h
    split at h
    · next hb =>
      simp only [Option.some.injEq] at h; subst h
      simp [Nat.eq_of_beq_eq_true hb]
    · cases hx : indexOf c t with
      | none => simp [hx] at h
      | some k =>
        simp only [hx, Option.map_some, Option.some.injEq] at h
        subst h
        simpa using indexOf_some c t k hx

theorem indexOf_of_mem (c : Nat) : ∀ (l : List Nat), c ∈ l → ∃ i, indexOf c l = some i
  | [], h => by cases h
  | x :: t, h => by
    unfold indexOf
    by_cases hb : Nat.beq c x = true
    · exact ⟨0, by simp [hb]⟩
    · have hf : Nat.beq c x = false := by cases hq : Nat.beq c x with | false => rfl | true => exact absurd hq hb
      have : c ∈ t := by
        rcases List.mem_cons.1 h with h | h
        · subst h; exact absurd (Nat.beq_refl c) hb
        · exact h
      obtain ⟨i, hi⟩ := indexOf_of_mem c t this
      exact ⟨i + 1, by simp [hf, hi]⟩

theorem keyLabels_bound (alpha : List Nat) : ∀ (key r : List Nat), keyLabels alpha key = some r →
    ∀ l ∈ r, 1 ≤ l ∧ l ≤ alpha.length
  | [], r, h => by simp [keyLabels] at h; subst h; intro l hl; cases hl
  | c :: t, r, h => by
    unfold keyLabels at h
    cases hi : indexOf c alpha with
    | none => simp [hi] at h
    | some i =>
      cases hr : keyLabels alpha t with
      | none => simp [hi, hr] at h
      | some r' =>
        simp only [hi, hr, Option.some.injEq] at h
        subst h
        intro l hl
        rcases List.mem_cons.1 hl with rfl | hl
        · have := indexOf_some c alpha i hi
          have hlt : i < alpha.length := by
            rcases Nat.lt_or_ge i alpha.length with h | h
            · exact h
            · rw [List.getElem?_eq_none h] at this; cases this
          omega
        · exact keyLabels_bound alpha t r' hr l hl

theorem keyLabels_inj (alpha : List Nat) : ∀ (k1 k2 r : List Nat),
    keyLabels alpha k1 = some r → keyLabels alpha k2 = some r → k1 = k2
  | [], [], _, _, _ => rfl
  | [], c :: t, r, h1, h2 => by
    simp [keyLabels] at h1; subst h1
    unfold keyLabels at h2
    cases hi : indexOf c alpha <;> cases hr : keyLabels alpha t <;> simp [hi, hr] at h2
  | c :: t, [], r, h1, h2 => by
    simp [keyLabels] at h2; subst h2
    unfold keyLabels at h1
    cases hi : indexOf c alpha <;> cases hr : keyLabels alpha t <;> simp [hi, hr] at h1
  | c1 :: t1, c2 :: t2, r, h1, h2 => by
    unfold keyLabels at h1 h2
    cases hi1 : indexOf c1 alpha with
    | none => simp [hi1] at h1
    | some i1 =>
      cases hr1 : keyLabels alpha t1 with
      | none => simp [hi1, hr1] at h1
      | some r1 =>
        cases hi2 : indexOf c2 alpha with
        | none => simp [hi2] at h2
        | some i2 =>
          cases hr2 : keyLabels alpha t2 with
          | none => simp [hi2, hr2] at h2
          | some r2 =>
            simp only [hi1, hr1, Option.some.injEq] at h1
            simp only [hi2, hr2, Option.some.injEq] at h2
            rw [← h1] at h2
            simp only [List.cons.injEq] at h2
            have hi : i2 = i1 := by omega
            have hrr : r2 = r1 := h2.2
            subst hi hrr
            have e1 := indexOf_some c1 alpha i2 hi1
            have e2 := indexOf_some c2 alpha i2 hi2
            rw [e1] at e2
            have hc : c1 = c2 := Option.some.inj e2
            rw [hc, keyLabels_inj alpha t1 t2 r2 hr1 hr2]

theorem keyLabels_some_of_mem (alpha : List Nat) : ∀ key : List Nat, (∀ c ∈ key, c ∈ alpha) →
    ∃ r, keyLabels alpha key = some r
  | [], _ => ⟨[], rfl⟩
  | c :: t, h => by
    obtain ⟨i, hi⟩ := indexOf_of_mem c alpha (h c List.mem_cons_self)
    obtain ⟨r, hr⟩ := keyLabels_some_of_mem alpha t (fun x hx => h x (List.mem_cons_of_mem _ hx))
    exact ⟨(i + 1) :: r, by simp [keyLabels, hi, hr]⟩

/-- The initial trie. -/
theorem inv_init (nl : Nat) :
    Inv0 nl Nodes.init (fun i => if i = 0 then some [] else none) ∧ FreeOK Nodes.init := by
  have hget : ∀ i, i ≠ 0 → Nodes.init.get i = emptySlot := by
    intro i hi
    apply get_of_ge
    simp [Nodes.size, Nodes.init]; omega
  refine ⟨⟨rfl, rfl, ?_, ?_, ?_⟩, ?_⟩
  · intro i
    by_cases hi : i = 0
    · subst hi; simp [Nodes.check, Nodes.get, Nodes.init]
    · simp [hi, Nodes.check, hget i hi, emptySlot]
  · intro i hc
    by_cases hi : i = 0
    · subst hi; simp [Nodes.check, Nodes.get, Nodes.init] at hc
    · simp [Nodes.base, hget i hi, emptySlot]
  · intro i P hi hA
    simp [hi] at hA
  · refine ⟨by simp [Nodes.init], ?_⟩
    intro i
    simp only [Nodes.init, List.not_mem_nil, false_iff, not_and]
    intro hlt
    have : i = 0 := by simp [Nodes.size] at hlt; omega
    subst this
    simp [Nodes.check, Nodes.get]

end Chokan.Trie
