/-
Lemmas for C04: the double-array trie model is an exact set of label paths.

Plan.  A ghost map `A : Nat → Option (List Nat)` gives every used slot its path from the root.
`Inv` relates `A` to the `base/check` arrays; `B p l` is the base under which the child of `p` with
label `l` is stored (the node's base, except for the not yet moved children during a `rebase`).
-/
import Chokan.Model.Trie

namespace Chokan.Trie

/-! ### lists of naturals -/

theorem memNat_iff (c : Nat) : ∀ l : List Nat, memNat c l = true ↔ c ∈ l
  | [] => by simp [memNat]
  | x :: t => by
    simp only [memNat, Bool.or_eq_true, List.mem_cons, memNat_iff c t]
    constructor
    · rintro (h | h)
      · exact Or.inl (Nat.eq_of_beq_eq_true h)
      · exact Or.inr h
    · rintro (h | h)
      · subst h; exact Or.inl (Nat.beq_refl c)
      · exact Or.inr h

theorem mem_eraseNat (c : Nat) : ∀ l : List Nat, l.Nodup → ∀ x, x ∈ eraseNat c l ↔ x ≠ c ∧ x ∈ l
  | [], _, x => by simp [eraseNat]
  | y :: t, hn, x => by
    have hy : y ∉ t := (List.nodup_cons.1 hn).1
    have ht : t.Nodup := (List.nodup_cons.1 hn).2
    unfold eraseNat
    by_cases hc : Nat.beq c y = true
    · have : c = y := Nat.eq_of_beq_eq_true hc
      subst this
      simp only [hc, if_true, List.mem_cons]
      constructor
      · intro hx; exact ⟨fun h => hy (h ▸ hx), Or.inr hx⟩
      · rintro ⟨h1, h2 | h2⟩
        · exact absurd h2 h1
        · exact h2
    · have hne : c ≠ y := fun h => hc (h ▸ Nat.beq_refl c)
      have hf : Nat.beq c y = false := by cases hb : Nat.beq c y with | false => rfl | true => exact absurd hb hc
      simp only [hf, Bool.false_eq_true, if_false, List.mem_cons, mem_eraseNat c t ht x]
      constructor
      · rintro (h | ⟨h1, h2⟩)
        · exact ⟨fun h' => hne (h'.symm.trans h), Or.inl h⟩
        · exact ⟨h1, Or.inr h2⟩
      · rintro ⟨h1, h2 | h2⟩
        · exact Or.inl h2
        · exact Or.inr ⟨h1, h2⟩

theorem nodup_eraseNat (c : Nat) : ∀ l : List Nat, l.Nodup → (eraseNat c l).Nodup
  | [], _ => by simp [eraseNat]
  | y :: t, hn => by
    have hy : y ∉ t := (List.nodup_cons.1 hn).1
    have ht : t.Nodup := (List.nodup_cons.1 hn).2
    unfold eraseNat
    split
    · exact ht
    · refine List.nodup_cons.2 ⟨?_, nodup_eraseNat c t ht⟩
      intro h
      exact hy ((mem_eraseNat c t ht y).1 h).2

/-! ### reading slots -/

theorem get_eq (s : Nodes) (i : Nat) : s.get i = (s.slots[i]?).getD emptySlot := by
  simp [Nodes.get]

theorem get_of_ge (s : Nodes) (i : Nat) (h : s.size ≤ i) : s.get i = emptySlot := by
  rw [get_eq, List.getElem?_eq_none (by simpa [Nodes.size] using h)]; rfl

theorem check_lt (s : Nodes) (i p : Nat) (h : s.check i = some p) : i < s.size := by
  rcases Nat.lt_or_ge i s.size with hl | hl
  · exact hl
  · simp [Nodes.check, get_of_ge s i hl, emptySlot] at h

theorem base_lt (s : Nodes) (i b : Nat) (h : s.base i = some b) : i < s.size := by
  rcases Nat.lt_or_ge i s.size with hl | hl
  · exact hl
  · simp [Nodes.base, get_of_ge s i hl, emptySlot] at h

/-- A state seen through its three observations. -/
theorem get_setSlot (s : Nodes) (i j : Nat) (v : Slot) :
    ({ s with slots := s.slots.set i v } : Nodes).get j = if j = i ∧ i < s.size then v else s.get j := by
  simp only [get_eq, List.getElem?_set, Nodes.size]
  by_cases hij : i = j
  · subst hij
    by_cases hl : i < s.slots.length
    · simp [hl]
    · simp [hl]
  · have : ¬ (j = i ∧ i < s.slots.length) := fun h => hij h.1.symm
    simp [hij, this]

theorem size_setSlot (s : Nodes) (i : Nat) (v : Slot) :
    ({ s with slots := s.slots.set i v } : Nodes).size = s.size := by
  simp [Nodes.size]

theorem get_expand (s : Nodes) (n i : Nat) : (s.expand n).get i = s.get i := by
  simp only [get_eq, Nodes.expand]
  rcases Nat.lt_or_ge i s.slots.length with hl | hl
  · rw [List.getElem?_append_left hl]
  · rw [List.getElem?_append_right hl, List.getElem?_eq_none hl]
    rcases Nat.lt_or_ge (i - s.slots.length) n with h2 | h2
    · rw [List.getElem?_replicate]; simp [h2]
    · rw [List.getElem?_eq_none (by simpa using h2)]

theorem size_expand (s : Nodes) (n : Nat) : (s.expand n).size = s.size + n := by
  simp [Nodes.size, Nodes.expand]

/-! ### the free list -/

/-- The free list is exactly the set of unused slots inside the array. -/
def FreeOK (s : Nodes) : Prop :=
  s.free.Nodup ∧ ∀ i, i ∈ s.free ↔ (i < s.size ∧ s.check i = none)

theorem freeOK_expand (s : Nodes) (n : Nat) (h : FreeOK s) : FreeOK (s.expand n) := by
  obtain ⟨hn, hm⟩ := h
  have hchk : ∀ i, (s.expand n).check i = s.check i := fun i => by simp [Nodes.check, get_expand]
  constructor
  · simp only [Nodes.expand]
    refine List.nodup_append.2 ⟨hn, ?_, ?_⟩
    · unfold List.Nodup
      rw [List.pairwise_map]
      exact List.Pairwise.imp (fun {a b} (hab : a ≠ b) => by omega) List.nodup_range
    · intro a ha b hb
      obtain ⟨k, _, rfl⟩ := List.mem_map.1 hb
      have := ((hm a).1 ha).1
      omega
  · intro i
    rw [hchk, size_expand]
    simp only [Nodes.expand, List.mem_append, List.mem_map, List.mem_range]
    constructor
    · rintro (h | ⟨k, hk, rfl⟩)
      · have := (hm i).1 h; exact ⟨by omega, this.2⟩
      · refine ⟨by omega, ?_⟩
        simp [Nodes.check, get_of_ge s (k + s.size) (by omega), emptySlot]
    · rintro ⟨h1, h2⟩
      rcases Nat.lt_or_ge i s.size with hl | hl
      · exact Or.inl ((hm i).2 ⟨hl, h2⟩)
      · exact Or.inr ⟨i - s.size, by omega, by omega⟩

/-! ### observations of the primitive updates -/

theorem check_setCheck (s : Nodes) (i : Nat) (c : Option Nat) (j : Nat) :
    (s.setCheck i c).check j = if j = i ∧ i < s.size then c else s.check j := by
  simp only [Nodes.check, Nodes.setCheck, get_setSlot]
  split <;> rfl

theorem base_setCheck (s : Nodes) (i : Nat) (c : Option Nat) (j : Nat) :
    (s.setCheck i c).base j = s.base j := by
  simp only [Nodes.base, Nodes.setCheck, get_setSlot]
  split
  · next h => rw [h.1]
  · rfl

theorem check_setBase (s : Nodes) (i : Nat) (b : Option Nat) (j : Nat) :
    (s.setBase i b).check j = s.check j := by
  simp only [Nodes.check, Nodes.setBase, get_setSlot]
  split
  · next h => rw [h.1]
  · rfl

theorem base_setBase (s : Nodes) (i : Nat) (b : Option Nat) (j : Nat) :
    (s.setBase i b).base j = if j = i ∧ i < s.size then b else s.base j := by
  simp only [Nodes.base, Nodes.setBase, get_setSlot]
  split <;> rfl

theorem size_setBase (s : Nodes) (i : Nat) (b : Option Nat) : (s.setBase i b).size = s.size := by
  simp [Nodes.setBase, size_setSlot]

theorem size_setCheck (s : Nodes) (i : Nat) (c : Option Nat) : (s.setCheck i c).size = s.size := by
  simp [Nodes.setCheck, size_setSlot]

theorem freeOK_setBase (s : Nodes) (i : Nat) (b : Option Nat) (h : FreeOK s) : FreeOK (s.setBase i b) := by
  obtain ⟨hn, hm⟩ := h
  refine ⟨hn, ?_⟩
  intro j
  rw [size_setBase, check_setBase]
  exact hm j

/-- What `record_transition_at` does, seen through `check`, `base`, `size` and the free list. -/
theorem recordTransition_spec (s : Nodes) (idx l : Nat) (s' : Nodes) (ci : Nat)
    (h : s.recordTransition idx l = some (s', ci)) :
    ∃ b, s.base idx = some b ∧ ci = b + l ∧ idx < s.size ∧ s.size ≤ s'.size ∧ ci < s'.size ∧
      (∀ j, s'.check j = if j = ci then some idx else s.check j) ∧ (∀ j, s'.base j = s.base j) ∧
      (FreeOK s → FreeOK s') := by
  unfold Nodes.recordTransition at h
  split at h
  · next hlt =>
    split at h
    · next b hb =>
      simp only [Option.some.injEq, Prod.mk.injEq] at h
      obtain ⟨hs, hci⟩ := h
      refine ⟨b, hb, hci.symm, hlt, ?_⟩
      -- the (possibly) expanded state
      generalize hs1 : (if s.size ≤ b + l then s.expand (b + l - s.size + 1) else s) = s1 at hs
      have hget1 : ∀ j, s1.get j = s.get j := by
        intro j; rw [← hs1]; split
        · exact get_expand _ _ _
        · rfl
      have hsz1 : s.size ≤ s1.size ∧ b + l < s1.size := by
        rw [← hs1]; split
        · rw [size_expand]; omega
        · omega
      have hfree1 : FreeOK s → FreeOK s1 := by
        intro hf; rw [← hs1]; split
        · exact freeOK_expand _ _ hf
        · exact hf
      have hsz' : s'.size = s1.size := by rw [← hs, size_setCheck]; rfl
      have hchk : ∀ j, s'.check j = if j = ci then some idx else s.check j := by
        intro j
        rw [← hs, check_setCheck, ← hci]
        have : (({ s1 with free := eraseNat (b + l) s1.free } : Nodes).size) = s1.size := rfl
        rw [this]
        by_cases hj : j = b + l
        · simp [hj, hsz1.2]
        · simp only [hj, false_and, if_false]
          show ((({ s1 with free := eraseNat (b + l) s1.free } : Nodes).get j).2) = (s.get j).2
          rw [← hget1 j]; rfl
      have hbas : ∀ j, s'.base j = s.base j := by
        intro j
        rw [← hs, base_setCheck]
        show ((({ s1 with free := eraseNat (b + l) s1.free } : Nodes).get j).1) = (s.get j).1
        rw [← hget1 j]; rfl
      refine ⟨by omega, by omega, hchk, hbas, ?_⟩
      intro hf
      obtain ⟨hn1, hm1⟩ := hfree1 hf
      have hfr : s'.free = eraseNat (b + l) s1.free := by rw [← hs]; rfl
      refine ⟨by rw [hfr]; exact nodup_eraseNat _ _ hn1, ?_⟩
      intro j
      rw [hfr, mem_eraseNat _ _ hn1, hm1 j, hchk j, hsz', ← hci]
      have hc1 : s1.check j = s.check j := by simp [Nodes.check, hget1]
      rw [hc1]
      by_cases hj : j = b + l
      · simp [hj]
      · simp [hj]
    · cases h
  · cases h

theorem get_mapSlots (s : Nodes) (f : Slot → Slot) (hf : f emptySlot = emptySlot) (j : Nat) :
    ({ s with slots := s.slots.map f } : Nodes).get j = f (s.get j) := by
  simp only [get_eq, List.getElem?_map]
  cases s.slots[j]? with
  | none => simp [hf]
  | some v => rfl

theorem reparent_spec (s1 : Nodes) (old idx : Nat) (hidx : idx < s1.size)
    (hnogc : s1.base old = none → ∀ i, s1.check i ≠ some old)
    (hfreeb : s1.base old = none → s1.base idx = none) :
    (s1.reparent old idx).size = s1.size ∧ (s1.reparent old idx).free = s1.free ∧
    (∀ j, (s1.reparent old idx).check j = if s1.check j = some old then some idx else s1.check j) ∧
    (∀ j, (s1.reparent old idx).base j = if j = idx then s1.base old else s1.base j) := by
  cases hob : s1.base old with
  | none =>
    have hre : s1.reparent old idx = s1 := by simp [Nodes.reparent, hob]
    rw [hre]
    refine ⟨rfl, rfl, ?_, ?_⟩
    · intro j
      have := hnogc hob j
      simp [this]
    · intro j
      by_cases hj : j = idx
      · rw [if_pos hj, hj, hfreeb hob]
      · rw [if_neg hj]
  | some bo =>
    have hre : s1.reparent old idx = ({ (s1.setBase idx (some bo)) with
        slots := (s1.setBase idx (some bo)).slots.map (reparentSlot old idx) } : Nodes) := by
      simp [Nodes.reparent, hob]
    rw [hre]
    have hf : reparentSlot old idx emptySlot = emptySlot := by simp [reparentSlot, emptySlot]
    refine ⟨by simp [Nodes.size, Nodes.setBase], rfl, ?_, ?_⟩
    · intro j
      show ((({ (s1.setBase idx (some bo)) with slots := (s1.setBase idx (some bo)).slots.map (reparentSlot old idx) } : Nodes).get j).2) = _
      rw [get_mapSlots _ _ hf]
      have hcs : ((s1.setBase idx (some bo)).get j).2 = s1.check j := check_setBase s1 _ _ j
      unfold reparentSlot
      by_cases hq : ((s1.setBase idx (some bo)).get j).2 = some old
      · rw [if_pos hq]; rw [hcs] at hq; simp [hq]
      · rw [if_neg hq]; rw [hcs] at hq; simp [hq, hcs]
    · intro j
      show ((({ (s1.setBase idx (some bo)) with slots := (s1.setBase idx (some bo)).slots.map (reparentSlot old idx) } : Nodes).get j).1) = _
      rw [get_mapSlots _ _ hf]
      have hbs : ((s1.setBase idx (some bo)).get j).1 = if j = idx ∧ idx < s1.size then some bo else s1.base j :=
        base_setBase s1 _ _ j
      have : (reparentSlot old idx ((s1.setBase idx (some bo)).get j)).1 = ((s1.setBase idx (some bo)).get j).1 := by
        unfold reparentSlot; split <;> rfl
      rw [this, hbs]
      by_cases hj : j = idx
      · simp [hj, hidx]
      · simp [hj]

theorem release_spec (s2 : Nodes) (old : Nat) (hold : old < s2.size) :
    (s2.release old).size = s2.size ∧
    (∀ j, (s2.release old).check j = if j = old then none else s2.check j) ∧
    (∀ j, (s2.release old).base j = if j = old then none else s2.base j) ∧
    (s2.free.Nodup → (s2.release old).free.Nodup) ∧
    (∀ j, j ∈ (s2.release old).free ↔ (j ∈ s2.free ∨ j = old)) := by
  have hget : ∀ j, (s2.release old).get j = if j = old ∧ old < s2.size then emptySlot else s2.get j := by
    intro j
    have := get_setSlot s2 old j emptySlot
    simp only [Nodes.get] at this ⊢
    exact this
  refine ⟨by simp [Nodes.size, Nodes.release], ?_, ?_, ?_, ?_⟩
  · intro j
    simp only [Nodes.check, hget]
    by_cases hj : j = old
    · simp [hj, hold, emptySlot]
    · simp [hj]
  · intro j
    simp only [Nodes.base, hget]
    by_cases hj : j = old
    · simp [hj, hold, emptySlot]
    · simp [hj]
  · intro hn
    simp only [Nodes.release]
    split
    · exact hn
    · next hmem =>
      have : old ∉ s2.free := fun hh => hmem ((memNat_iff _ _).2 hh)
      exact List.nodup_append.2 ⟨hn, (by simp), by
        intro a ha b hb; simp at hb; subst hb; exact fun hab => this (hab ▸ ha)⟩
  · intro j
    simp only [Nodes.release]
    split
    · next hmem =>
      have := (memNat_iff _ _).1 hmem
      constructor
      · exact Or.inl
      · rintro (hh | hh)
        · exact hh
        · rw [hh]; exact this
    · simp

/-- What one iteration of the loop of `rebase` does.  `hnogc`: a child without a base has no children
of its own; `hfreeb`: the target slot carries no stale base (both follow from the invariant). -/
theorem moveChild_spec (s : Nodes) (node ob l : Nat) (s' : Nodes)
    (h : s.moveChild node ob l = some s')
    (hnogc : s.base (ob + l) = none → ∀ i, s.check i ≠ some (ob + l))
    (hfreeb : ∀ nb, s.base node = some nb → s.base (nb + l) = none) :
    ∃ nb, s.base node = some nb ∧ node ≠ ob + l ∧ node < s.size ∧ s.size ≤ s'.size ∧
      (∀ j, s'.check j = if j = ob + l then none else if j = nb + l then some node
                         else if s.check j = some (ob + l) then some (nb + l) else s.check j) ∧
      (∀ j, s'.base j = if j = ob + l then none else if j = nb + l then s.base (ob + l) else s.base j) ∧
      (FreeOK s → FreeOK s') := by
  unfold Nodes.moveChild at h
  cases hr : s.recordTransition node l with
  | none => simp [hr] at h
  | some r =>
    obtain ⟨s1, idx⟩ := r
    simp only [hr] at h
    obtain ⟨nb, hnb, hidx, hnode, hsz1, hidxlt, hc1, hb1, hf1⟩ := recordTransition_spec s node l s1 idx hr
    subst hidx
    split at h
    · next hold =>
      split at h
      · cases h
      · next hne =>
        simp only [Option.some.injEq] at h
        have hnogc1 : s1.base (ob + l) = none → ∀ i, s1.check i ≠ some (ob + l) := by
          intro hb i
          rw [hb1] at hb
          rw [hc1]; split
          · intro hh; exact hne (Option.some.inj hh)
          · exact hnogc hb i
        have hfreeb1 : s1.base (ob + l) = none → s1.base (nb + l) = none := by
          intro _; rw [hb1]; exact hfreeb nb hnb
        obtain ⟨hsz2, hfr2, hc2, hb2⟩ := reparent_spec s1 (ob + l) (nb + l) hidxlt hnogc1 hfreeb1
        have hold2 : ob + l < (s1.reparent (ob + l) (nb + l)).size := by rw [hsz2]; exact hold
        obtain ⟨hszf, hcf, hbf, hnf, hmf⟩ := release_spec (s1.reparent (ob + l) (nb + l)) (ob + l) hold2
        rw [h] at hszf hcf hbf hnf hmf
        refine ⟨nb, hnb, hne, hnode, by omega, ?_, ?_, ?_⟩
        · intro j
          rw [hcf, hc2, hc1]
          by_cases hj : j = ob + l
          · simp [hj]
          · simp only [hj, if_false]
            by_cases hj2 : j = nb + l
            · have : (some node : Option Nat) ≠ some (ob + l) := fun hh => hne (Option.some.inj hh)
              simp [hj2, this]
            · simp [hj2]
        · intro j
          rw [hbf, hb2, hb1, hb1]
        · intro hfo
          obtain ⟨hn1, hm1⟩ := hf1 hfo
          refine ⟨hnf (by rw [hfr2]; exact hn1), ?_⟩
          intro j
          rw [hmf, hfr2, hm1 j, hszf, hsz2, hcf, hc2]
          by_cases hj : j = ob + l
          · simp [hj, hold]
          · simp only [hj, or_false, if_false]
            by_cases hq : s1.check j = some (ob + l)
            · simp [hq]
            · simp [hq]
    · cases h

end Chokan.Trie
