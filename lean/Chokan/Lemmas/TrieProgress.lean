/-
Progress lemmas for C04: under the invariant no step of `insert` panics (index out of range,
`Base + Label` on an unused base, the assertions of `xcheck` and `rebase`); the only way the model
fails is an `xcheck` answer the implementation could not have given (`badOracle`).
-/
import Chokan.Lemmas.Trie

namespace Chokan.Trie

theorem recordTransition_isSome (s : Nodes) (idx l b : Nat) (hlt : idx < s.size) (hb : s.base idx = some b) :
    ∃ r, s.recordTransition idx l = some r := by
  unfold Nodes.recordTransition
  rw [if_pos hlt, hb]
  exact ⟨_, rfl⟩

theorem moveChild_isSome (nl : Nat) (s : Nodes) (node ob l : Nat) (rest : List Nat)
    (A : Nat → Option (List Nat)) (P : List Nat) (nb : Nat)
    (hI : Inv nl s A (cbf s node ob (l :: rest)))
    (hP : A node = some P) (hb : s.base node = some nb)
    (hold : s.check (ob + l) = some node) (hl1 : 1 ≤ l) :
    ∃ s', s.moveChild node ob l = some s' := by
  have hlt : node < s.size := hI.lt_size node P hP
  obtain ⟨⟨s1, idx⟩, hr⟩ := recordTransition_isSome s node l nb hlt hb
  obtain ⟨_, _, _, _, hsz, _, _, _, _⟩ := recordTransition_spec s node l s1 idx hr
  have holdlt : ob + l < s1.size := Nat.lt_of_lt_of_le (check_lt s _ _ hold) hsz
  have hne : node ≠ ob + l := by
    intro hh; exact hI.not_self_parent (ob + l) (by omega) (by rw [← hh] at hold ⊢; exact hold)
  unfold Nodes.moveChild
  simp only [hr]
  rw [if_pos holdlt, if_neg hne]
  exact ⟨_, rfl⟩

theorem moveChildren_isSome (nl node ob nb : Nat) (P resv : List Nat) :
    ∀ (pend : List Nat) (s : Nodes) (A : Nat → Option (List Nat)),
    Inv nl s A (cbf s node ob pend) → FreeOK s → A node = some P → s.base node = some nb →
    pend.Nodup →
    (∀ l ∈ pend, 1 ≤ l ∧ s.check (ob + l) = some node ∧ A (ob + l) = some (P ++ [l])) →
    (∀ l, l ∈ pend ∨ l ∈ resv → s.check (nb + l) = none) → (∀ l ∈ pend, l ∉ resv) →
    ∃ s', s.moveChildren node ob pend = some s' := by
  intro pend
  induction pend with
  | nil => intro s A _ _ _ _ _ _ _ _; exact ⟨s, rfl⟩
  | cons l rest ih =>
    intro s A hI hF hP hb hnd hpend hfree hdisj
    obtain ⟨hl1, hold, holdA⟩ := hpend l List.mem_cons_self
    obtain ⟨s1, hm⟩ := moveChild_isSome nl s node ob l rest A P nb hI hP hb hold hl1
    have hlr : l ∉ rest := (List.nodup_cons.1 hnd).1
    have hndr : rest.Nodup := (List.nodup_cons.1 hnd).2
    have hfree1 : ∀ nb', s.base node = some nb' → s.check (nb' + l) = none := by
      intro nb' hnb'
      rw [hb] at hnb'
      rw [← Option.some.inj hnb']
      exact hfree l (Or.inl List.mem_cons_self)
    obtain ⟨nb', hnb', hb1, _, hnodeold, hnodeidx, hI1, hc1, hF1⟩ :=
      moveChild_inv nl s node ob l rest s1 A P hI hP hold holdA hl1 hlr hfree1 hm
    rw [hb] at hnb'
    have : nb' = nb := (Option.some.inj hnb').symm
    subst this
    have hidxfree : s.check (nb' + l) = none := hfree l (Or.inl List.mem_cons_self)
    have hP1 : (fun i => if i = ob + l then none else if i = nb' + l then A (ob + l) else A i) node = some P := by
      show (if node = ob + l then none else if node = nb' + l then A (ob + l) else A node) = some P
      rw [if_neg hnodeold, if_neg hnodeidx, hP]
    have hpend1 : ∀ l2 ∈ rest, 1 ≤ l2 ∧ s1.check (ob + l2) = some node ∧
        (fun i => if i = ob + l then none else if i = nb' + l then A (ob + l) else A i) (ob + l2) = some (P ++ [l2]) := by
      intro l2 hl2
      obtain ⟨h1, h2, h3⟩ := hpend l2 (List.mem_cons_of_mem _ hl2)
      have hne : l2 ≠ l := fun hh => hlr (hh ▸ hl2)
      have hj1 : ob + l2 ≠ ob + l := by omega
      have hj2 : ob + l2 ≠ nb' + l := by
        intro hh; rw [hh, hidxfree] at h2; cases h2
      refine ⟨h1, ?_, ?_⟩
      · rw [hc1, if_neg hj1, if_neg hj2, h2]
        have : (some node : Option Nat) ≠ some (ob + l) := fun hh => hnodeold (Option.some.inj hh)
        rw [if_neg this]
      · show (if ob + l2 = ob + l then none else if ob + l2 = nb' + l then A (ob + l) else A (ob + l2)) = _
        rw [if_neg hj1, if_neg hj2, h3]
    have hfree' : ∀ l2, l2 ∈ rest ∨ l2 ∈ resv → s1.check (nb' + l2) = none := by
      intro l2 hl2
      have hne : l2 ≠ l := by
        rcases hl2 with hl2 | hl2
        · exact fun hh => hlr (hh ▸ hl2)
        · exact fun hh => hdisj l List.mem_cons_self (hh ▸ hl2)
      have h0 : s.check (nb' + l2) = none := by
        rcases hl2 with hl2 | hl2
        · exact hfree l2 (Or.inl (List.mem_cons_of_mem _ hl2))
        · exact hfree l2 (Or.inr hl2)
      rw [hc1]
      by_cases hj : nb' + l2 = ob + l
      · rw [if_pos hj]
      · rw [if_neg hj, if_neg (by omega), h0]; simp
    obtain ⟨s', hs'⟩ := ih s1 _ hI1 (hF1 hF) hP1 hb1 hndr hpend1 hfree'
      (fun l2 hl2 => hdisj l2 (List.mem_cons_of_mem _ hl2))
    exact ⟨s', by simp only [Nodes.moveChildren, hm, Option.bind_some]; exact hs'⟩

theorem rebase_isSome (nl : Nat) (s : Nodes) (node ob nb : Nat)
    (A : Nat → Option (List Nat)) (P resv : List Nat)
    (hI : Inv0 nl s A) (hF : FreeOK s) (hP : A node = some P) (hob : s.base node = some ob)
    (hfree : ∀ l, l ∈ s.findLabelsOf node nl ∨ l ∈ resv → s.check (nb + l) = none)
    (hdisj : ∀ l ∈ s.findLabelsOf node nl, l ∉ resv) :
    ∃ s', s.rebase node nb nl = some s' := by
  have hlt : node < s.size := hI.lt_size node P hP
  unfold Nodes.rebase
  rw [if_pos hlt, hob]
  simp only
  have hb0 : (s.setBase node (some nb)).base node = some nb := by
    rw [base_setBase]; simp [hlt]
  have hI0 : Inv nl (s.setBase node (some nb)) A
      (cbf (s.setBase node (some nb)) node ob (s.findLabelsOf node nl)) := by
    constructor
    · rw [check_setBase]; exact hI.root_check
    · exact hI.root_path
    · intro j; rw [check_setBase]; exact hI.used j
    · intro j hc
      rw [check_setBase] at hc
      rw [base_setBase]
      by_cases hj : j = node
      · subst hj; rw [(hI.used j).2 hc] at hP; cases hP
      · simp only [hj, false_and, if_false]; exact hI.empty j hc
    · intro j Pj hj0 hAj
      obtain ⟨p, l', b', Pp, hcp, hAp, hPe, hB, hie, hla, hlb⟩ := hI.child j Pj hj0 hAj
      have hB' : s.base p = some b' := hB
      refine ⟨p, l', b', Pp, ?_, hAp, hPe, ?_, hie, hla, hlb⟩
      · rw [check_setBase]; exact hcp
      · simp only [cbf]
        by_cases hp : p = node
        · subst hp
          rw [hob] at hB'
          have hbb : b' = ob := (Option.some.inj hB').symm
          subst hbb
          have : l' ∈ s.findLabelsOf p nl :=
            (mem_findLabelsOf s p nl l').2 ⟨b', hob, hla, hlb, by rw [← hie]; exact hcp⟩
          rw [if_pos ⟨rfl, this⟩]
        · have : ¬ (p = node ∧ l' ∈ s.findLabelsOf node nl) := fun hh => hp hh.1
          rw [if_neg this, base_setBase]
          simp only [hp, false_and, if_false]; exact hB'
  have hpend : ∀ l ∈ s.findLabelsOf node nl, 1 ≤ l ∧ (s.setBase node (some nb)).check (ob + l) = some node ∧
      A (ob + l) = some (P ++ [l]) := by
    intro l hl
    obtain ⟨b, hb, h1, _, hc⟩ := (mem_findLabelsOf s node nl l).1 hl
    rw [hob] at hb
    have : b = ob := (Option.some.inj hb).symm
    subst this
    exact ⟨h1, by rw [check_setBase]; exact hc, child_path hI node b l P hob hc h1 hP⟩
  have hfree0 : ∀ l, l ∈ s.findLabelsOf node nl ∨ l ∈ resv → (s.setBase node (some nb)).check (nb + l) = none := by
    intro l hl; rw [check_setBase]; exact hfree l hl
  exact moveChildren_isSome nl node ob nb P resv _ _ A hI0 (freeOK_setBase s node (some nb) hF) hP hb0
    (nodup_findLabelsOf s node nl) hpend hfree0 hdisj

theorem xcheck_ne_panic (s : Nodes) (labels : List Nat) (c : Nat) (h : labels ≠ []) :
    s.xcheck labels c ≠ .panic := by
  unfold Nodes.xcheck
  have : labels.isEmpty = false := by cases labels with | nil => exact absurd rfl h | cons _ _ => rfl
  simp only [this, Bool.false_eq_true, if_false]
  split
  · intro h; cases h
  · split <;> intro h <;> cases h

theorem insertBase_ne_panic (s : Nodes) (cur label : Nat) (oracle : List Nat) :
    insertBase s cur label oracle ≠ .panic := by
  unfold insertBase
  cases s.base cur with
  | some b0 => intro h; cases h
  | none =>
    cases oracle with
    | nil => intro h; cases h
    | cons c rest =>
      simp only
      cases hx : s.xcheck [label] c with
      | ok b' => intro h; cases h
      | reject => intro h; cases h
      | panic => exact absurd hx (xcheck_ne_panic _ _ _ (by simp))
      | badOracle => intro h; cases h

theorem insertTail_ne_panic (nl : Nat) (s1 : Nodes) (cur label b : Nat) (o1 : List Nat)
    (A : Nat → Option (List Nat)) (P : List Nat)
    (hI : Inv0 nl s1 A) (hF : FreeOK s1) (hP : A cur = some P) (hb : s1.base cur = some b)
    (hl : 1 ≤ label ∧ label ≤ nl) :
    insertTail nl s1 cur label b o1 ≠ .panic := by
  have hlt : cur < s1.size := hI.lt_size cur P hP
  unfold insertTail
  cases hc : s1.check (b + label) with
  | none =>
    simp only
    obtain ⟨r, hr⟩ := recordTransition_isSome s1 cur label b hlt hb
    rw [hr]; intro h; cases h
  | some n =>
    simp only
    split
    · intro h; cases h
    · next hn =>
      cases o1 with
      | nil => intro h; cases h
      | cons c rest =>
        simp only
        cases hx : s1.xcheck (s1.findLabelsOf cur nl ++ [label]) c with
        | reject => intro h; cases h
        | badOracle => intro h; cases h
        | panic => exact absurd hx (xcheck_ne_panic _ _ _ (by simp))
        | ok nb =>
          simp only
          have hxs := xcheck_spec s1 _ c nb hF hx
          have hfree : ∀ l, l ∈ s1.findLabelsOf cur nl ∨ l ∈ [label] → s1.check (nb + l) = none := by
            intro l hl'
            apply hxs
            rcases hl' with hl' | hl'
            · exact List.mem_append_left _ hl'
            · exact List.mem_append_right _ hl'
          have hdisj : ∀ l ∈ s1.findLabelsOf cur nl, l ∉ [label] := by
            intro l hl' hmem
            simp only [List.mem_singleton] at hmem
            subst hmem
            obtain ⟨b', hb', _, _, hc'⟩ := (mem_findLabelsOf s1 cur nl l).1 hl'
            rw [hb] at hb'
            rw [← Option.some.inj hb', hc] at hc'
            exact hn (Option.some.inj hc')
          obtain ⟨s2, hrb⟩ := rebase_isSome nl s1 cur b nb A P [label] hI hF hP hb hfree hdisj
          obtain ⟨A2, hI2, _, hP2, hb2, _, _, _⟩ :=
            rebase_inv nl s1 cur b nb s2 A P [label] hI hF hP hb hfree hdisj hrb
          rw [hrb]
          simp only
          obtain ⟨r, hr⟩ := recordTransition_isSome s2 cur label nb (hI2.lt_size cur P hP2) hb2
          rw [hr]; intro h; cases h

theorem insertStep_ne_panic (nl : Nat) (s : Nodes) (cur label : Nat) (oracle : List Nat)
    (A : Nat → Option (List Nat)) (P : List Nat)
    (hI : Inv0 nl s A) (hF : FreeOK s) (hP : A cur = some P) (hl : 1 ≤ label ∧ label ≤ nl) :
    insertStep nl s cur label oracle ≠ .panic := by
  unfold insertStep
  rw [if_pos (hI.lt_size cur P hP)]
  cases hbse : insertBase s cur label oracle with
  | ok r =>
    obtain ⟨s1, b, o1⟩ := r
    obtain ⟨hI1, hF1, hb1⟩ := insertBase_inv nl s cur label oracle s1 b o1 A P hI hF hP hbse
    exact insertTail_ne_panic nl s1 cur label b o1 A P hI1 hF1 hP hb1 hl
  | reject => intro h; cases h
  | panic => exact absurd hbse (insertBase_ne_panic _ _ _ _)
  | badOracle => intro h; cases h

theorem insertLoop_ne_panic (nl : Nat) : ∀ (ls : List Nat) (s : Nodes) (cur : Nat) (oracle : List Nat)
    (A : Nat → Option (List Nat)) (P : List Nat),
    Inv0 nl s A → FreeOK s → A cur = some P → (∀ l ∈ ls, 1 ≤ l ∧ l ≤ nl) →
    insertLoop nl s cur ls oracle ≠ .panic
  | [], s, cur, oracle, A, P, _, _, _, _ => by simp [insertLoop]
  | l :: ls, s, cur, oracle, A, P, hI, hF, hP, hls => by
    unfold insertLoop
    cases hst : insertStep nl s cur l oracle with
    | ok r =>
      obtain ⟨s1, cur1, o1⟩ := r
      obtain ⟨A1, hI1, hF1, hP1, _⟩ :=
        insertStep_inv nl s cur l oracle s1 cur1 o1 A P hI hF hP (hls l List.mem_cons_self) hst
      exact insertLoop_ne_panic nl ls s1 cur1 o1 A1 (P ++ [l]) hI1 hF1 hP1
        (fun x hx => hls x (List.mem_cons_of_mem _ hx))
    | reject => intro h; cases h
    | panic => exact absurd hst (insertStep_ne_panic nl s cur l oracle A P hI hF hP (hls l List.mem_cons_self))
    | badOracle => intro h; cases h

end Chokan.Trie
