/-
M14 — fine-grained concurrency model of chokan-server: one thread per in-flight request and per background
loop, interleaved at the granularity of single events (lock acquisition, scope-end release, channel
operation, call on shared data, answer).  The event lists are not written here: they are regenerated from
`chokan-server/src/{main,method}.rs` on every run (`Chokan.Gen.Server.handlerPaths`, `taskPaths`).

`std::sync::Mutex` is modelled as: `acq l` can be taken iff no thread holds `l`; everything else a thread
does while it holds a lock is its own business (Rust only hands out the protected data through the guard).
`std::sync::mpsc`: `recv` waits for a queued message; `send` never waits on `channel()`, and waits while
`sync_channel(n)` is full.
-/
import Chokan.Gen.Server

namespace Chokan.Conc
open Chokan.Gen.Server

structure Thread where
  /-- events still to run -/
  rest : List Ev
  /-- locks held, most recent first -/
  held : List Lock
  /-- background loop: the paths of one iteration (a finished iteration starts another one); `none` = a request -/
  body : Option (List (List Ev))
  deriving Repr

structure St where
  threads : List Thread
  queued : Chan → Nat
  /-- capacity of a channel (`none` = unbounded) -/
  cap : Chan → Option Nat

def lockFree (s : St) (l : Lock) : Bool := s.threads.all fun t => !t.held.contains l

/-- can this thread take its next event now? -/
def enabled (s : St) (t : Thread) : Bool :=
  match t.rest with
  | [] => t.body.isSome
  | .acq l :: _ => lockFree s l
  | .recv c :: _ => decide (0 < s.queued c)
  | .send c :: _ => match s.cap c with
    | none => true
    | some k => decide (s.queued c < k)
  | _ :: _ => true

def bump (q : Chan → Nat) (c : Chan) (f : Nat → Nat) : Chan → Nat := fun d => if d = c then f (q d) else q d

/-- the thread after its next event (`k` picks the path of the next loop iteration), and the channel contents -/
def stepThread (q : Chan → Nat) (t : Thread) (k : Nat) : Thread × (Chan → Nat) :=
  match t.rest with
  | [] => match t.body with
    | some ps => ({ t with rest := ps[k]?.getD [] }, q)
    | none => (t, q)
  | .acq l :: r => ({ t with rest := r, held := l :: t.held }, q)
  | .rel l :: r => ({ t with rest := r, held := t.held.erase l }, q)
  | .recv c :: r => ({ t with rest := r }, bump q c (· - 1))
  | .send c :: r => ({ t with rest := r }, bump q c (· + 1))
  | _ :: r => ({ t with rest := r }, q)

/-- the scheduler lets thread `i` take one event (nothing happens if it cannot) -/
def step (s : St) (ik : Nat × Nat) : St :=
  match s.threads[ik.1]? with
  | none => s
  | some t =>
    if enabled s t then
      let r := stepThread s.queued t ik.2
      { s with threads := s.threads.set ik.1 r.1, queued := r.2 }
    else s

def run (s : St) (sched : List (Nat × Nat)) : St := sched.foldl step s

/-- **Lock discipline of one event list**, starting with the locks `held`: a lock is only acquired while every
lock already held ranks strictly below it; a release names a held lock; the thread waits for a message, or
sends on a bounded channel, only while it holds nothing; it ends holding nothing. -/
def disc (rank : Lock → Nat) (unb : Chan → Bool) : List Lock → List Ev → Bool
  | held, [] => held.isEmpty
  | held, .acq l :: r => held.all (fun h => decide (rank h < rank l)) && disc rank unb (l :: held) r
  | held, .rel l :: r => held.contains l && disc rank unb (held.erase l) r
  | held, .recv _ :: r => held.isEmpty && disc rank unb held r
  | held, .send c :: r => (held.isEmpty || unb c) && disc rank unb held r
  | held, .act _ :: r => disc rank unb held r
  | held, .respond :: r => disc rank unb held r

/-- requests `reqs` in flight (each one path of a handler), the background loops `tasks`, empty channels -/
def initSt (unb : Chan → Bool) (capOf : Chan → Nat) (reqs : List (List Ev)) (tasks : List (List (List Ev))) : St :=
  { threads := reqs.map (fun p => ⟨p, [], none⟩) ++ tasks.map (fun ps => ⟨[], [], some ps⟩),
    queued := fun _ => 0,
    cap := fun c => if unb c then none else some (capOf c) }

/-- What every reachable state satisfies. -/
structure Inv (rank : Lock → Nat) (unb : Chan → Bool) (s : St) : Prop where
  disc : ∀ t ∈ s.threads, disc rank unb t.held t.rest = true
  body : ∀ t ∈ s.threads, ∀ ps, t.body = some ps → ∀ p ∈ ps, Conc.disc rank unb [] p = true
  excl : ∀ (i j : Nat) (ti tj : Thread) (l : Lock), s.threads[i]? = some ti → s.threads[j]? = some tj → l ∈ ti.held → l ∈ tj.held → i = j
  cap : ∀ c, unb c = true → s.cap c = none

/-! ### executable search for a stuck state (used by the check when the discipline no longer holds) -/

/-- nobody can move any more, and somebody is still waiting for a lock or for room in a channel: with one-shot
threads this state is final — the waiting threads wait for ever -/
def deadlocked (s : St) : Bool :=
  s.threads.all (fun t => !enabled s t) &&
  s.threads.any fun t => match t.rest with
    | .acq _ :: _ => true
    | .send _ :: _ => true
    | _ => false

def key (s : St) : List (Nat × List Nat) × List Nat :=
  (s.threads.map fun t => (t.rest.length, t.held.map fun l => match l with | .dictionary => 0 | .userPref => 1 | .store => 2),
   [s.queued .entry, s.queued .tick])

/-! ### facts about one event list that the property theorems use -/

/-- a request body never waits for a message and sends only on unbounded channels -/
def noWait (unb : Chan → Bool) : List Ev → Bool
  | [] => true
  | .recv _ :: _ => false
  | .send c :: r => unb c && noWait unb r
  | _ :: r => noWait unb r

/-- locks held at each event when the list is run from `held` -/
def heldAt : List Lock → List Ev → List (Ev × List Lock)
  | _, [] => []
  | held, .acq l :: r => (.acq l, held) :: heldAt (l :: held) r
  | held, .rel l :: r => (.rel l, held) :: heldAt (held.erase l) r
  | held, e :: r => (e, held) :: heldAt held r

/-- every occurrence of action `a` happens while lock `l` is held -/
def actUnder (a : Act) (l : Lock) (p : List Ev) : Bool :=
  (heldAt [] p).all fun eh => !(eh.1 == .act a) || eh.2.contains l

/-- index of the first occurrence -/
def firstIdx (e : Ev) (p : List Ev) : Option Nat :=
  let i := p.findIdx (· == e)
  if i < p.length then some i else none

/-- `a` occurs, and before the first `b` (if `b` occurs at all) -/
def occursBefore (a b : Ev) (p : List Ev) : Bool :=
  match firstIdx a p, firstIdx b p with
  | some i, some j => decide (i < j)
  | some _, none => true
  | none, _ => false

/-- between the first `a` and the next `stop` after it there is no release of `l` (one critical section) -/
def sameSection (a stop : Ev) (l : Lock) (p : List Ev) : Bool :=
  match firstIdx a p with
  | none => true
  | some i =>
    let tail := p.drop i
    let upto := tail.take (tail.findIdx (· == stop) + 1)
    !(upto.contains (.rel l)) && !(upto.contains (.acq l))

def pathsOf (name : String) (hs : List (String × List (List Ev))) : List (List Ev) :=
  (hs.filter (·.1 == name)).flatMap (·.2)

/-- the handlers that convert: every path that computes candidates -/
def convertingPaths (hs : List (String × List (List Ev))) : List (List Ev) :=
  (hs.flatMap (·.2)).filter (·.contains (.act .compute))

end Chokan.Conc

/-! ### the session store under interleaving

`add_session` / `pop_session` given their meaning on a store of session ids; everything else as before.  Ids are
issue numbers (the real ids are random UUIDs: fresh and unguessable — a confirmation can only name an id its client
was answered with, so a confirmation thread *targets* the conversion thread whose answer it confirms). -/

namespace Chokan.Conc
open Chokan.Gen.Server

structure Local where
  /-- a conversion: the id stored with its session by `add_session` -/
  sid : Option Nat := none
  /-- a confirmation: the conversion thread whose answer it confirms (`none`: an id that was never issued) -/
  target : Option Nat := none
  /-- a confirmation: whether `pop_session` found the session -/
  found : Option Bool := none
  deriving Repr

structure DSt where
  st : St
  locals : List Local
  /-- ids in the session store -/
  sess : List Nat
  /-- ids issued so far -/
  next : Nat

/-- the event thread `i` would execute now, if it can move -/
def headEv (s : St) (i : Nat) : Option Ev :=
  match s.threads[i]? with
  | some t => if enabled s t then t.rest.head? else none
  | none => none

/-- the id a confirmation thread asks for: the one its target conversion was given -/
def wanted (d : DSt) (u : Nat) : Option Nat :=
  match d.locals[u]? with
  | some l => match l.target with
    | some c => match d.locals[c]? with
      | some lc => lc.sid
      | none => none
    | none => none
  | none => none

def dstep (d : DSt) (ik : Nat × Nat) : DSt :=
  match headEv d.st ik.1 with
  | some (.act .addSession) =>
    { st := step d.st ik, locals := d.locals.modify ik.1 (fun l => { l with sid := some d.next }),
      sess := d.sess ++ [d.next], next := d.next + 1 }
  | some (.act .popSession) =>
    match wanted d ik.1 with
    | some k => { st := step d.st ik, locals := d.locals.modify ik.1 (fun l => { l with found := some (d.sess.contains k) }),
                  sess := d.sess.filter (· != k), next := d.next }
    | none => { d with st := step d.st ik, locals := d.locals.modify ik.1 (fun l => { l with found := some false }) }
  | _ => { d with st := step d.st ik }

def drun (d : DSt) (sched : List (Nat × Nat)) : DSt := sched.foldl dstep d

def dinit (unb : Chan → Bool) (capOf : Chan → Nat) (reqs : List (List Ev × Option Nat)) (tasks : List (List (List Ev))) : DSt :=
  { st := initSt unb capOf (reqs.map (·.1)) tasks,
    locals := reqs.map (fun r => { target := r.2 }) ++ tasks.map (fun _ => {}),
    sess := [], next := 0 }

/-- thread `c` has sent its answer -/
def answered (s : St) (c : Nat) : Bool :=
  match s.threads[c]? with
  | some t => !t.rest.contains .respond
  | none => false

/-- a schedule in which thread `u` only moves once thread `c` has answered (the client sends the confirmation after it
received the conversion's response) -/
def causal (d : DSt) (c u : Nat) : List (Nat × Nat) → Bool
  | [] => true
  | ik :: rest => (ik.1 != u || answered d.st c) && causal (dstep d ik) c u rest

end Chokan.Conc
