/-
M3 — conjugation, guessing, entries → words (libs/dic/src/base/{speech,entry}.rs).
Tables are parameters (`Chokan.Gen.Dic` supplies the regenerated ones).
`none` models a Rust panic (absent row, `unwrap` on an empty reading, bad byte slice).
-/
import Chokan.Model.DicTypes

namespace Chokan.Dic

abbrev ConjTable := List ((VerbClass × Str) × Arm)
abbrev GuessTable := List (Nat × VerbClass × Str)

def beqStr : Str → Str → Bool
  | [], [] => true
  | a :: as, b :: bs => Nat.beq a b && beqStr as bs
  | _, _ => false

def lookupArm (cls : VerbClass) (row : Str) : ConjTable → Option Arm
  | [] => none
  | ((c, r), a) :: t => if c = cls ∧ beqStr r row then some a else lookupArm cls row t

def appendForms (stem rd : Str) (okuri : List Str) : List (Str × Str) :=
  okuri.map fun o => (stem ++ o, rd ++ o)

/-- The okurigana list an arm selects for a given stem reading. -/
def Arm.okuriFor (rd : Str) : Arm → Option (List Str)
  | .fixed o => some o
  | .byteLen1 a b => some (if utf8LenStr rd = 1 then a else b)
  | .lastCharIs c a b => some (if rd.getLast? = some c then a else b)
  | .kahen o => some o
  | .unknown => none

/-- `VerbForm::to_forms` for one arm. -/
def Arm.forms (stem rd : Str) : Arm → Option (List (Str × Str))
  | .kahen o =>
    if rd = [] then none   -- `stem_reading.char_indices().last().unwrap()`
    else some (o.map fun v => (stem ++ v.tail, rd.dropLast ++ v))
  | .unknown => none
  | a => (a.okuriFor rd).map (appendForms stem rd)

/-- `Speech::to_forms` (as a list in table order; the Rust code returns the `HashSet` of it). -/
def toForms (ct : ConjTable) (adj adjv : List Str) (sp : Speech) (stem rd : Str) : Option (List (Str × Str)) :=
  match sp with
  | .verb cls row => (lookupArm cls row ct).bind (Arm.forms stem rd)
  | .adjective => some (appendForms stem rd adj)
  | .adjectivalVerb => some (appendForms stem rd adjv)
  | _ => some [(stem, rd)]

def guessForm (ch : Nat) : GuessTable → Option (VerbClass × Str)
  | [] => none
  | (c, cls, row) :: t => if Nat.beq c ch then some (cls, row) else guessForm ch t

def endsWith (w suffix : Str) : Bool :=
  suffix.length ≤ w.length && beqStr (w.drop (w.length - suffix.length)) suffix

/-- `Speech::guess`: (speech, stem). な=0x306A い=0x3044 だ=0x3060 -/
def guess (gt : GuessTable) (word : Str) : Speech × Str :=
  let verb : Option (Speech × Str) :=
    if endsWith word [0x306A, 0x3044] && 3 ≤ word.length then
      match word[word.length - 3]? with
      | some ch => (guessForm ch gt).map fun (cls, row) => (Speech.verb cls row, word.take (word.length - 3))
      | none => none
    else none
  match verb with
  | some r => r
  | none =>
    if endsWith word [0x3044] then (.adjective, word.take (word.length - 1))
    else if endsWith word [0x3060] then (.adjectivalVerb, word.take (word.length - 1))
    else (.noun .common, word)

/-- `&s[0..n]` on a Rust `String`: the prefix of exactly `n` bytes; `none` (panic) when `n` is not a
character boundary or exceeds the length. -/
def sliceBytes : Str → Nat → Option Str
  | _, 0 => some []
  | [], _ + 1 => none
  | c :: t, n + 1 =>
    if utf8Len c ≤ n + 1 then (sliceBytes t (n + 1 - utf8Len c)).map (c :: ·) else none

/-- `Entry::new_guessed`. -/
def newGuessed (gt : GuessTable) (reading kanji : Str) : Option Entry :=
  let (speech, stem) := guess gt kanji
  let lenDiff := utf8LenStr kanji - utf8LenStr stem
  if 0 < lenDiff then
    if utf8LenStr reading < lenDiff then none   -- usize underflow / slice out of range
    else (sliceBytes reading (utf8LenStr reading - lenDiff)).map fun sr => ⟨stem, sr, speech⟩
  else some ⟨stem, reading, speech⟩

/-- `Vec<Word>::from(Entry)` (as a list; order of the Rust vector is unspecified — it iterates a HashSet). -/
def entryToWords (ct : ConjTable) (adj adjv : List Str) (e : Entry) : Option (List Word) :=
  (toForms ct adj adjv e.speech e.stem e.stemReading).map fun fs =>
    fs.map fun (w, r) => ⟨w, r, e.speech⟩

/-- `Display for Speech`. -/
def lookupName (sp : Speech) : List (Speech × Str) → Option Str
  | [] => none
  | (s, n) :: t => if s = sp then some n else lookupName sp t

def printSpeech (names : List (Speech × Str)) (vsuf : VerbClass → Str) : Speech → Str
  | .verb cls row => row ++ vsuf cls
  | sp => (lookupName sp names).getD []

/-- `Display for Entry`: reading TAB stem TAB "/" speech "/". -/
def printEntry (names : List (Speech × Str)) (vsuf : VerbClass → Str) (e : Entry) : Str :=
  e.stemReading ++ [9] ++ e.stem ++ [9, 47] ++ printSpeech names vsuf e.speech ++ [47]

end Chokan.Dic
