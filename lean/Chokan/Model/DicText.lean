/-
M4 — the text dictionary format: `Display for Entry` (in Model.Dic) and the rust-peg grammar of
libs/dic/src/standard/dic_grammer.rs as structurally recursive functions.  Grammar data
(character classes, ordered alternatives and their literals) come from `Chokan.Gen.DicGrammar`.
PEG semantics modelled: ordered choice commits to the first alternative that matches at the
position; `e+` / `e*` are greedy and never give characters back; a `pub rule` must consume the
whole input.
-/
import Chokan.Model.Dic
import Chokan.Gen.DicGrammar

namespace Chokan.DicText
open Chokan.Dic Chokan.Gen.DicGrammar

def inRanges (c : Nat) : List (Nat × Nat) → Bool
  | [] => false
  | (lo, hi) :: t => (Nat.ble lo c && Nat.ble c hi) || inRanges c t

def memNat (c : Nat) : List Nat → Bool
  | [] => false
  | x :: t => Nat.beq c x || memNat c t

/-- Match a literal at the start of the input. -/
def stripPrefix : Str → Str → Option Str
  | [], s => some s
  | _ :: _, [] => none
  | a :: as, b :: bs => if Nat.beq a b then stripPrefix as bs else none

/-- Greedy repetition of a character class: (matched, rest). -/
def spanClass (p : Nat → Bool) : Str → Str × Str
  | [] => ([], [])
  | c :: t => if p c then let (m, r) := spanClass p t; (c :: m, r) else ([], c :: t)

/-- `$("a" / "b" / …) {? match … }`: ordered choice of literals. -/
def parseLits {α : Type} : List (Str × α) → Str → Option (α × Str)
  | [], _ => none
  | (lit, v) :: t, s =>
    match stripPrefix lit s with
    | some rest => some (v, rest)
    | none => parseLits t s

def parseAlt (kata : List Nat) : Alt → Str → Option (Speech × Str)
  | .lits l, s => parseLits l s
  | .verb sufs, s =>
    match s with
    | k :: rest =>
      if memNat k kata then
        (parseLits sufs rest).map fun (cls, r) => (Speech.verb cls [k], r)
      else none
    | [] => none

def parseAlts (kata : List Nat) : List Alt → Str → Option (Speech × Str)
  | [], _ => none
  | a :: t, s =>
    match parseAlt kata a s with
    | some r => some r
    | none => parseAlts kata t s

/-- `rule speech() = "/" n:( … / … )`. -/
def parseSpeech (alts : List Alt) (kata : List Nat) : Str → Option (Speech × Str)
  | 47 :: rest => parseAlts kata alts rest
  | _ => none

/-- `speech()+` (greedy), fuel-bounded; each iteration consumes at least the "/". -/
def parseSpeechStar (alts : List Alt) (kata : List Nat) : Nat → Str → List Speech × Str
  | 0, s => ([], s)
  | fuel + 1, s =>
    match parseSpeech alts kata s with
    | some (sp, rest) => let (l, r) := parseSpeechStar alts kata fuel rest; (sp :: l, r)
    | none => ([], s)

/-- `rule speechs() = n:speech()+ "/"`. -/
def parseSpeechs (alts : List Alt) (kata : List Nat) (s : Str) : Option (List Speech × Str) :=
  match parseSpeechStar alts kata (s.length + 1) s with
  | ([], _) => none
  | (l, 47 :: rest) => some (l, rest)
  | _ => none

def isKana (kc : List (Nat × Nat)) (c : Nat) : Bool := inRanges c kc
def isNoSpace (c : Nat) : Bool := !(Nat.beq c 32 || Nat.beq c 9)

/-- `rule entry()` followed by end of input. -/
def parseEntry (kc : List (Nat × Nat)) (alts : List Alt) (kata : List Nat) (s : Str) : Option (List Entry) :=
  match spanClass (isKana kc) s with
  | ([], _) => none
  | (reading, 9 :: r1) =>
    match spanClass isNoSpace r1 with
    | ([], _) => none
    | (stem, 9 :: r2) =>
      match parseSpeechs alts kata r2 with
      | some (sps, []) => some (sps.map fun sp => ⟨stem, reading, sp⟩)
      | _ => none
    | _ => none
  | _ => none

/-- `pub rule root() = comment() / entry()`; `none` = parse error. -/
def parseLine (kc : List (Nat × Nat)) (alts : List Alt) (kata : List Nat) : Str → Option (List Entry)
  | 59 :: _ => some []           -- ";" any()*  consumes the whole line
  | s => parseEntry kc alts kata s

/-- `str::split('\n')`. -/
def splitLines : Str → List Str
  | [] => [[]]
  | c :: t =>
    match splitLines t with
    | [] => [[]]            -- unreachable: splitLines never returns []
    | l :: ls => if Nat.beq c 10 then [] :: l :: ls else (c :: l) :: ls

/-- `StandardDictionaryReader::read_all`: every line is parsed on its own; bad lines are skipped. -/
def readLines (kc : List (Nat × Nat)) (alts : List Alt) (kata : List Nat) : List Str → List Entry
  | [] => []
  | l :: ls => (match parseLine kc alts kata l with | some es => es | none => []) ++ readLines kc alts kata ls

def readAll (kc : List (Nat × Nat)) (alts : List Alt) (kata : List Nat) (content : Str) : List Entry :=
  readLines kc alts kata (splitLines content)

/-- `StandardDictionaryWriter::write_all`: `format!("{}\n", entry)` per entry. -/
def writeAll (names : List (Speech × Str)) (vsuf : VerbClass → Str) : List Entry → Str
  | [] => []
  | e :: t => printEntry names vsuf e ++ [10] ++ writeAll names vsuf t

end Chokan.DicText
