/-
M3 types — parts of speech, conjugation-table arms (libs/dic/src/base/speech.rs).
Text is `List Nat` (Unicode scalar values).
-/
namespace Chokan.Dic

abbrev Str := List Nat

inductive NounVariant | sahen | proper | common
  deriving DecidableEq, Repr

inductive ParticleType | case | adverbial | conjunctive | sentenceFinal | other
  deriving DecidableEq, Repr

inductive AffixVariant | prefix | suffix
  deriving DecidableEq, Repr

inductive VerbClass | godan | yodan | simoIchidan | kamiIchidan | simoNidan | kamiNidan | hen
  deriving DecidableEq, Repr

/-- `Speech`; a verb carries its class and the row *string* (any string: `VerbForm::Godan(String)`). -/
inductive Speech
  | noun (v : NounVariant)
  | verb (cls : VerbClass) (row : Str)
  | adjective | adverb | adjectivalVerb | verbatim | conjunction
  | particle (t : ParticleType)
  | auxiliaryVerb | preNounAdjectival | counter
  | affix (v : AffixVariant)
  deriving DecidableEq, Repr

/-- One `"<row>" => …` arm of `VerbForm::to_forms`, as classified by the translator. -/
inductive Arm
  /-- `vec![o₁,…]`, each appended to stem and to reading -/
  | fixed (okuri : List Str)
  /-- `if stem_reading.len() == 1 { a } else { b }` — a test on the UTF-8 *byte* length -/
  | byteLen1 (a b : List Str)
  /-- `match stem_reading.chars().last() { c => a, _ => b }` -/
  | lastCharIs (c : Nat) (a b : List Str)
  /-- カ変: stem ++ okuri.tail, reading.dropLast ++ okuri; panics on an empty reading -/
  | kahen (okuri : List Str)
  /-- an arm the translator could not classify -/
  | unknown
  deriving DecidableEq, Repr

structure Word where
  word : Str
  reading : Str
  speech : Speech
  deriving DecidableEq, Repr

structure Entry where
  stem : Str
  stemReading : Str
  speech : Speech
  deriving DecidableEq, Repr

def Speech.isAncillary : Speech → Bool
  | .particle _ => true
  | .auxiliaryVerb => true
  | .affix _ => true
  | _ => false

def Speech.isPrefix : Speech → Bool
  | .affix .prefix => true
  | _ => false

def Speech.isSuffix : Speech → Bool
  | .affix .suffix => true
  | _ => false

def Speech.isNounProper : Speech → Bool
  | .noun .proper => true
  | _ => false

/-- UTF-8 encoded length of a scalar value (Rust `char::len_utf8`). -/
def utf8Len (c : Nat) : Nat :=
  if c < 0x80 then 1 else if c < 0x800 then 2 else if c < 0x10000 then 3 else 4

def utf8LenStr : Str → Nat
  | [] => 0
  | c :: t => utf8Len c + utf8LenStr t

end Chokan.Dic
