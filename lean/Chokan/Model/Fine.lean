/-
M15 — the server at the granularity of the code: the interleaving model of Model/Conc (threads stepping through the
event lists extracted from main.rs / method.rs) **with the data**: every event that touches shared data is given its
effect on the server state of Model/Server and on the thread's own local variables.

The atomic steps of Model/Server (`convert`, `confirmId`, `register`, `applyEntry`, `save`) are what a handler / loop
iteration does when nothing interleaves (`runAlone`, proved equal in Lemmas/Fine); here the steps of different threads
interleave event by event, constrained only by the locks and the channels.
-/
import Chokan.Model.Conc
import Chokan.Model.Server

namespace Chokan.Fine
open Chokan.Conc Chokan.Gen.Server Chokan.Server Chokan.Kkc Chokan.Dic

/-- what a thread was asked to do -/
inductive Req
  | conv (ctx : Ctx) (input : Str)
  | confirm (sid : Nat) (id : String) (now : Int)
  | register (kind : RegKind) (reading word : Str)
  /-- requests whose parameters the model does not follow (tankan, original spelling, dump) and the background loops -/
  | other

/-- the local variables of a handler / loop body that the events read and write -/
structure Local where
  req : Req
  /-- conversion: `candidates` -/
  cands : List Cand := []
  /-- conversion: the session it stored (ghost: kept for the theorems) -/
  stored : Option Session := none
  /-- confirmation: `pop_session` has run -/
  popped : Bool := false
  /-- confirmation: `candidate` = the found candidate with the session's context -/
  cand : Option (Ctx × Cand) := none
  /-- confirmation: the learned compound; updater: the received entry -/
  entry : Option Entry := none
  answered : Bool := false

def regEntry (c : Cfg) (kind : RegKind) (reading word : Str) : Option Entry :=
  (match kind with
    | .guess => newGuessed c.guess reading word
    | .commonNoun => some ⟨word, reading, .noun .common⟩
    | .properNoun => some ⟨word, reading, .noun .proper⟩).filter (storable c)

/-- `session.find_candidate(id)` -/
def foundCand (sess : Session) (id : String) : Option Cand :=
  (candIndex sess.cands.length id).bind fun i => sess.cands[i]?

/-- **What one event does** to the thread's locals and to the shared state. Events of the lock layer (`acq`, `rel`, the
tick channel, loop brackets) and actions without the inputs they need have no effect on the data. -/
def effect (c : Cfg) (e : Ev) (l : Local) (s : State) : Local × State :=
  match e, l.req with
  | .act .compute, .conv ctx input =>
    ({ l with cands := (getCandidates c.tables input s.dict ctx (toKkcFreq s.freq) c.nCandidates c.fuel).getD [] }, s)
  | .act .addSession, .conv ctx _ =>
    ({ l with stored := some ⟨s.nextSid, ctx, l.cands⟩ },
     { s with sessions := s.sessions ++ [⟨s.nextSid, ctx, l.cands⟩], nextSid := s.nextSid + 1 })
  | .act .popSession, .confirm sid id _ =>
    ({ l with popped := true,
              cand := (popSession s.sessions sid).1.bind fun sess => (foundCand sess id).map fun cd => (sess.ctx, cd) },
     { s with sessions := (popSession s.sessions sid).2 })
  | .act .updFreq, .confirm _ _ now =>
    match l.cand with
    | some (ctx, cand) =>
      match independentWord cand.chain with
      | some w => (l, { s with freq := expire (updateWord s.freq ctx w now) now c.expiryMs })
      | none => (l, s)
    | none => (l, s)
  | .act .updCompound, .confirm _ _ _ =>
    match l.cand.bind fun p => withAffix p.2.chain with
    | some (word, reading) => ({ l with entry := some ⟨word, reading, .noun .common⟩ }, s)
    | none => (l, s)
  | .send .entry, .confirm _ _ _ =>
    match l.entry with
    | some e => (l, { s with pending := s.pending ++ [e] })
    | none => (l, s)
  | .send .entry, .register kind reading word =>
    match regEntry c kind reading word with
    | some e => (l, { s with pending := s.pending ++ [e] })
    | none => (l, s)
  | .recv .entry, .other => ({ l with entry := s.pending.head? }, { s with pending := s.pending.tail })
  | .act .addEntry, .other =>
    match l.entry with
    | some e => (l, { s with userDict := s.userDict ++ [e] })
    | none => (l, s)
  | .act .mapInsert, .other =>
    match l.entry with
    | some e => (l, { s with dict := (mergeEntry c s.dict e).getD s.dict })
    | none => (l, s)
  | .act .saveFiles, .other => (l, save c s)
  | .respond, _ => ({ l with answered := true }, s)
  | _, _ => (l, s)

/-- a handler / one loop iteration run to its end with nothing in between -/
def runAlone (c : Cfg) (p : List Ev) (l : Local) (s : State) : Local × State :=
  p.foldl (fun (a : Local × State) e => effect c e a.1 a.2) (l, s)

structure FSt where
  st : St
  locals : List Local
  data : State

/-- the scheduler lets thread `ik.1` take one event: lock layer as in `Conc.step`, data as `effect` says -/
def fstep (c : Cfg) (d : FSt) (ik : Nat × Nat) : FSt :=
  match headEv d.st ik.1, d.locals[ik.1]? with
  | some e, some l => { st := step d.st ik, locals := d.locals.set ik.1 (effect c e l d.data).1, data := (effect c e l d.data).2 }
  | _, _ => { d with st := step d.st ik }

def frun (c : Cfg) (d : FSt) (sched : List (Nat × Nat)) : FSt := sched.foldl (fstep c) d

def finit (unb : Chan → Bool) (capOf : Chan → Nat) (reqs : List (List Ev × Req)) (tasks : List (List (List Ev))) (s : State) : FSt :=
  { st := initSt unb capOf (reqs.map (·.1)) tasks,
    locals := reqs.map (fun r => { req := r.2 }) ++ tasks.map (fun _ => { req := .other }),
    data := s }

/-- the locks an action needs: the data it reads or writes lives inside these mutexes -/
def protects : Act → List Lock
  | .compute => [.dictionary, .userPref]
  | .tankan => [.dictionary]
  | .addSession => [.store]
  | .popSession => [.store]
  | .updFreq => [.userPref]
  | .updCompound => [.userPref]
  | .addEntry => [.userPref]
  | .trieInsert => [.dictionary]
  | .mapInsert => [.dictionary]
  | .saveFiles => [.userPref]
  | .loopStart => []
  | .loopEnd => []

/-- every action of the list runs while the locks that protect its data are held (starting with `held`) -/
def guarded : List Lock → List Ev → Bool
  | _, [] => true
  | held, .acq l :: r => guarded (l :: held) r
  | held, .rel l :: r => guarded (held.erase l) r
  | held, .act a :: r => (protects a).all held.contains && guarded held r
  | held, _ :: r => guarded held r

end Chokan.Fine
