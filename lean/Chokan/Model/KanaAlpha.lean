/-
M10 — kana_alpha::convert (libs/kana-alpha): NFC, then repeatedly strip the longest table unit
(a run of sokuon doubles the first letter of the unit that follows); anything else is copied
one character at a time, lower-cased.  The table is a parameter (Chokan.Gen.KanaAlpha).
-/
namespace Chokan.KanaAlpha

abbrev Str := List Nat
/-- (hiragana, katakana, alphabets[0]) -/
abbrev Row := Str × Str × Str

def beqStr : Str → Str → Bool
  | [], [] => true
  | a :: as, b :: bs => Nat.beq a b && beqStr as bs
  | _, _ => false

def startsWith : Str → Str → Bool
  | _, [] => true
  | [], _ :: _ => false
  | a :: as, b :: bs => Nat.beq a b && startsWith as bs

def isSokuon (c : Nat) : Bool := Nat.beq c 0x3063 || Nat.beq c 0x30C3

/-- `while is_sokuon(&ret) { count += 1; ret = ret.skip(1) }` -/
def stripSokuons : Str → Nat × Str
  | [] => (0, [])
  | c :: t => if isSokuon c then let (n, r) := stripSokuons t; (n + 1, r) else (0, c :: t)

def replicateStr (n : Nat) (s : Str) : Str :=
  match n with
  | 0 => []
  | n + 1 => s ++ replicateStr n s

def utf8Len (c : Nat) : Nat :=
  if c < 0x80 then 1 else if c < 0x800 then 2 else if c < 0x10000 then 3 else 4

def utf8LenStr : Str → Nat
  | [] => 0
  | c :: t => utf8Len c + utf8LenStr t

/-- `Conversion::is_sokuon(&self.hiragana)`. -/
def rowIsSokuon (row : Row) : Bool :=
  match row.1 with
  | c :: _ => isSokuon c
  | [] => false

/-- `"aiueo".contains(first letter as a string)` (true for an empty spelling, too) -/
def vowelHead (alpha : Str) : Bool :=
  match alpha.take 1 with
  | [] => true
  | [c] => Nat.beq c 97 || Nat.beq c 105 || Nat.beq c 117 || Nat.beq c 101 || Nat.beq c 111
  | _ => false

/-- The normal case of `expand_roma`: a run of sokuon, then the row's kana. -/
def expandUnit (row : Row) (s : Str) : Option (Str × Nat) :=
  if startsWith (stripSokuons s).2 row.1 || startsWith (stripSokuons s).2 row.2.1 then
    -- doubling a vowel does not spell a sokuon: the row does not match, the sokuon's own row will
    if decide (0 < (stripSokuons s).1) && vowelHead row.2.2 then none
    else some (replicateStr (stripSokuons s).1 (row.2.2.take 1) ++ row.2.2, row.1.length + (stripSokuons s).1)
  else none

/-- `Conversion::expand_roma`: (romaji, number of characters consumed). The row of the sokuon
itself matches one character on its own. -/
def expandRoma (row : Row) (s : Str) : Option (Str × Nat) :=
  if rowIsSokuon row && (startsWith s row.1 || startsWith s row.2.1) then some (row.2.2, 1)
  else expandUnit row s

/-- Stable sort of the table by descending UTF-8 length of the hiragana (`Vec::sort_by` is stable). -/
def insertRow (r : Row) : List Row → List Row
  | [] => [r]
  | x :: t => if utf8LenStr x.1 < utf8LenStr r.1 then r :: x :: t else x :: insertRow r t

def sortTable : List Row → List Row
  | [] => []
  | r :: t => insertRow r (sortTable t)

/-- `sort_by(len); reverse(); get(0)`: the longest match; among equal lengths the last candidate. -/
def pickBest : Option (Str × Nat) → List (Str × Nat) → Option (Str × Nat)
  | best, [] => best
  | none, c :: t => pickBest (some c) t
  | some b, c :: t => if b.2 ≤ c.2 then pickBest (some c) t else pickBest (some b) t

def candidates (sorted : List Row) (s : Str) : List (Str × Nat) :=
  sorted.filterMap fun row => expandRoma row s

/-- ASCII `to_lowercase` (non-ASCII characters are outside the modelled input class). -/
def lower (c : Nat) : Nat := if 65 ≤ c ∧ c ≤ 90 then c + 32 else c

/-- `to_roma_sequence` on a non-empty string: (emitted, rest). -/
def toRomaSequence (sorted : List Row) (s : Str) : Str × Str :=
  match pickBest none (candidates sorted s) with
  | some (v, len) => (v, s.drop len)
  | none => (s.take 1 |>.map lower, s.drop 1)

/-- The conversion loop with explicit fuel; `none` = fuel exhausted. -/
def convFuel (sorted : List Row) : Nat → Str → Option Str
  | _, [] => some []
  | 0, _ :: _ => none
  | fuel + 1, s@(_ :: _) =>
    let (v, rest) := toRomaSequence sorted s
    (convFuel sorted fuel rest).map (v ++ ·)

/-! ### NFC on the kana fragment (model of `unicode-normalization` restricted to kana + U+3099/U+309A) -/

/-- kana that take a dakuten by "+1": か…と は…ほ (and the katakana at +0x60), plus ゝ ヽ -/
def dakutenBase (c : Nat) : Bool :=
  let h := fun (x : Nat) =>
    (0x304B ≤ x ∧ x ≤ 0x3061 ∧ x % 2 = 1) ∨ (0x3064 ≤ x ∧ x ≤ 0x3068 ∧ x % 2 = 0) ∨
    (0x306F ≤ x ∧ x ≤ 0x307B ∧ x % 3 = 0)
  decide (h c) || decide (0x60 ≤ c ∧ h (c - 0x60)) || Nat.beq c 0x309D || Nat.beq c 0x30FD

def handakutenBase (c : Nat) : Bool :=
  let h := fun (x : Nat) => 0x306F ≤ x ∧ x ≤ 0x307B ∧ x % 3 = 0
  decide (h c) || decide (0x60 ≤ c ∧ h (c - 0x60))

def composeKana (base mark : Nat) : Option Nat :=
  if mark = 0x3099 then
    if dakutenBase base then some (base + 1)
    else if base = 0x3046 then some 0x3094        -- う゛ → ゔ
    else if base = 0x30A6 then some 0x30F4        -- ウ゛ → ヴ
    else if 0x30EF ≤ base ∧ base ≤ 0x30F2 then some (base + 8)  -- ワヰヱヲ → ヷヸヹヺ
    else none
  else if mark = 0x309A then
    if handakutenBase base then some (base + 2) else none
  else none

def nfcKana : Str → Str
  | a :: b :: t =>
    match composeKana a b with
    | some c => c :: nfcKana t
    | none => a :: nfcKana (b :: t)
  | s => s

/-- Canonical decomposition (NFD) on the kana block U+3040–U+30FF: the inverse of `composeKana`; any
other character is left alone.  Used to state "NFD-decomposed input behaves as the composed input";
compared with Python's `unicodedata.normalize("NFD", ·)` on the whole block by `./check C17`. -/
def decompKana (c : Nat) : Str :=
  if 0x3040 ≤ c ∧ c < 0x3100 then
    if dakutenBase (c - 1) then [c - 1, 0x3099]
    else if handakutenBase (c - 2) then [c - 2, 0x309A]
    else if c = 0x3094 then [0x3046, 0x3099]
    else if c = 0x30F4 then [0x30A6, 0x3099]
    else if 0x30F7 ≤ c ∧ c ≤ 0x30FA then [c - 8, 0x3099]
    else [c]
  else [c]

def nfdKana (s : Str) : Str := s.flatMap decompKana

/-- `kana_alpha::convert`. -/
def convert (table : List Row) (s : Str) : Option Str :=
  let n := nfcKana s
  convFuel (sortTable table) (n.length + 1) n

end Chokan.KanaAlpha
