/-
M5/M6 — lattice construction (graph.rs), scores (score.rs), Viterbi forward pass and backward A*
n-best search on a replica of `std::collections::BinaryHeap` (lib.rs).

The tries are abstracted as the set of keys they report present (`stdTrie`, `ancTrie`); that the
real trie *is* that set is property C04.  `none` results model Rust panics
(`input.len() - 1` on an empty input in `complete_virtual_nodes`).
-/
import Chokan.Model.KkcTypes

namespace Chokan.Kkc
open Chokan.Dic

structure Tables where
  wordEdges : List (SPat × SPat × Option Nat)
  virtEdges : List (SPat × Option Nat)
  headEdges : List (SPat × Ctx × Option Nat)
  mergeHead : List (SPat × MergeWhen)
  properBonus : Nat

structure Dict where
  std : List (Str × List Word)
  stdTrie : List Str
  anc : List (Str × List Word)
  ancTrie : List Str

/-- learned counts by (context, written form) -/
abbrev Freq := List ((Ctx × Str) × Nat)

abbrev Graph := List (List Node)

def beqStr : Str → Str → Bool
  | [], [] => true
  | a :: as, b :: bs => Nat.beq a b && beqStr as bs
  | _, _ => false

def findMap (key : Str) : List (Str × List Word) → Option (List Word)
  | [] => none
  | (k, ws) :: t => if beqStr k key then some ws else findMap key t

/-- `map.entry(key).or_insert(vec![]).push(w)` on a map with unique keys (insertion order kept). -/
def addToMap : List (Str × List Word) → Str → Word → List (Str × List Word)
  | [], key, w => [(key, [w])]
  | (k, v) :: t, key, w => if beqStr k key then (k, v ++ [w]) :: t else (k, v) :: addToMap t key w

/-- `trie.search(&key).and_then(|_| map.get(&key))` -/
def lookup (trie : List Str) (map : List (Str × List Word)) (key : Str) : List Word :=
  if trie.any (beqStr key) then (findMap key map).getD [] else []

def freqOf (f : Freq) (ctx : Ctx) (w : Str) : Nat :=
  match f with
  | [] => 0
  | ((c, s), n) :: t => if c = ctx ∧ beqStr s w then n else freqOf t ctx w

/-- `input[i..=j]` -/
def slice (input : Str) (i j : Nat) : Str := (input.drop i).take (j + 1 - i)

def Node.endAt : Node → Nat
  | .word e _ _ _ => e
  | .virt e _ _ _ => e
  | _ => 0

def Node.len : Node → Nat
  | .word _ _ w _ => w.reading.length
  | .virt _ _ s _ => s.length
  | _ => 0

def Node.startAt (n : Node) : Nat := n.endAt - (n.len - 1)

def Node.fwd : Node → Score
  | .word _ _ _ f => f
  | .virt _ _ _ f => f
  | _ => some 0

def Node.setFwd (sc : Score) : Node → Node
  | .word e i w _ => .word e i w sc
  | .virt e i s _ => .virt e i s sc
  | n => n

def Node.isAncillary : Node → Bool
  | .word _ _ w _ => w.speech.isAncillary
  | _ => false

def Node.text : Node → Str
  | .word _ _ w _ => w.word
  | .virt _ _ s _ => s
  | _ => []

/-- Push a node at position `j`; the node receives its index in that list (`NodePointer(j, len)`). -/
def pushAt (g : Graph) (j : Nat) (mk : Nat → Node) : Graph :=
  match g[j]? with
  | some l => g.set j (l ++ [mk l.length])
  | none => g

def pushWords (g : Graph) (j : Nat) (ws : List Word) : Graph :=
  ws.foldl (fun g w => pushAt g j fun idx => .word j idx w (some 0)) g

/-- `find_ancillary`: every ancillary word whose reading occurs anywhere in the input. -/
def findAncillary (input : Str) (d : Dict) : Graph :=
  let n := input.length
  (List.range n).foldl (fun acc i =>
    (List.range (n - i)).foldl (fun acc k =>
      pushWords acc (i + k) (lookup d.ancTrie d.anc (slice input i (i + k)))) acc)
    (List.replicate n [])

/-- `find_word_only_first`: standard words that start at the first character. -/
def findWordOnlyFirst (g : Graph) (input : Str) (d : Dict) : Graph :=
  (List.range input.length).foldl (fun g i => pushWords g i (lookup d.stdTrie d.std (slice input 0 i))) g

def isHeadPrefix : Node → Bool
  | n@(.word _ _ w _) => w.speech.isPrefix && n.startAt == 0
  | _ => false

/-- `find_word_after_prefix`: standard words that start right after a prefix found at the head. -/
def findWordAfterPrefix (g : Graph) (input : Str) (d : Dict) (anc : Graph) : Graph :=
  let n := input.length
  (anc.flatten.filter isHeadPrefix).foldl (fun g p =>
    let s := p.endAt + 1
    (List.range (n - s)).foldl (fun g k =>
      pushWords g (s + k) (lookup d.stdTrie d.std (slice input s (s + k)))) g) g

def headMergeable (t : Tables) (ctx : Ctx) (sp : Speech) : Bool :=
  match t.mergeHead.find? fun p => p.1.matches sp with
  | some (_, .always) => true
  | some (_, .only c) => c = ctx
  | none => false

/-- `is_mergeable_ancillary`, reading the lattice merged so far. -/
def isMergeable (t : Tables) (g : Graph) (ctx : Ctx) (node : Node) : Bool :=
  if node.startAt == 0 then
    match node with
    | .word _ _ w _ => headMergeable t ctx w.speech
    | _ => false
  else
    match g[node.startAt - 1]? with
    | some v =>
      (v.any fun x => match x with | .word _ _ w _ => w.speech.isSuffix | _ => false) ||
      (v.any fun x => !x.isAncillary)
    | none => false

def reindex (n : Node) (idx : Nat) : Node :=
  match n with
  | .word e _ w f => .word e idx w f
  | .virt e _ s f => .virt e idx s f
  | x => x

/-- `merge_ancillaries` -/
def mergeAncillaries (t : Tables) (g : Graph) (anc : Graph) (ctx : Ctx) : Graph :=
  anc.flatten.foldl (fun g node =>
    if isMergeable t g ctx node then pushAt g node.endAt (reindex node) else g) g

/-- `complete_virtual_nodes`: a virtual tail after every occupied position, scanning right to left
(nothing to do for the empty input). -/
def completeVirtual (g : Graph) (input : Str) : Graph :=
  let n := input.length
  (List.range (n - 1)).reverse.foldl (fun g i =>
    match g[i]? with
    | some (_ :: _) => pushAt g (n - 1) fun idx => .virt (n - 1) idx (input.drop (i + 1)) (some 0)
    | _ => g) g

/-- `Graph::from_input` (total: the empty input gives the empty lattice). -/
def fromInput (t : Tables) (input : Str) (d : Dict) (ctx : Ctx) : Option Graph :=
  let anc := findAncillary input d
  let g := findWordOnlyFirst (List.replicate input.length []) input d
  let g := findWordAfterPrefix g input d anc
  let g := mergeAncillaries t g anc ctx
  some (completeVirtual g input)

/-- `Graph::previsous_nodes` -/
def previous (g : Graph) : Node → List Node
  | .bos => []
  | .eos => if g.length = 0 then [.bos] else g.getD (g.length - 1) []
  | n => if n.endAt < n.len then [.bos] else g.getD (n.endAt - n.len) []

def firstMatch2 (prev cur : Speech) : List (SPat × SPat × Option Nat) → Score
  | [] => none
  | (p, c, s) :: t => if p.matches prev && c.matches cur then s else firstMatch2 prev cur t

def firstMatch1 (sp : Speech) : List (SPat × Option Nat) → Score
  | [] => none
  | (p, s) :: t => if p.matches sp then s else firstMatch1 sp t

def headEdge (ctx : Ctx) (sp : Speech) : List (SPat × Ctx × Option Nat) → Score
  | [] => some 0
  | (p, c, s) :: t => if p.matches sp && decide (c = ctx) then s else headEdge ctx sp t

/-- `get_edge_score(context, prev, current)` -/
def edgeScore (t : Tables) (ctx : Ctx) (prev cur : Node) : Score :=
  match prev, cur with
  | .bos, .word _ _ w _ => headEdge ctx w.speech t.headEdges
  | .bos, _ => some 0
  | .word _ _ p _, .word _ _ c _ => firstMatch2 p.speech c.speech t.wordEdges
  | .word _ _ p _, .virt _ _ _ _ => firstMatch1 p.speech t.virtEdges
  | _, _ => some 0

/-- `get_node_score(context, current, frequencies)` -/
def nodeScore (t : Tables) (ctx : Ctx) (f : Freq) : Node → Score
  | .word _ _ w _ =>
    some (freqOf f ctx w.word + (w.reading.length - 1) ^ 2 +
      (if ctx = .proper ∧ w.speech.isNounProper then t.properBonus else 0))
  | _ => some 0

/-- `calculate_best_score` -/
def bestScore (t : Tables) (ctx : Ctx) (f : Freq) (cur : Node) (prevs : List Node) : Score :=
  prevs.foldl (fun best p =>
    let sc := Score.add (Score.add p.fwd (nodeScore t ctx f cur)) (edgeScore t ctx p cur)
    if Score.gt sc best then sc else best) none

/-- `forward_dp`: positions left to right; every node gets its best score from the start. -/
def forwardDp (t : Tables) (ctx : Ctx) (f : Freq) (g : Graph) : Graph :=
  (List.range g.length).foldl (fun g i =>
    g.set i ((g.getD i []).map fun node => node.setFwd (bestScore t ctx f node (previous g node)))) g

/-! ### backward A* on a replica of `std::collections::BinaryHeap` -/

structure Cand where
  chain : List Node       -- current node first, eos last
  score : Nat             -- accumulated score of the edges/nodes behind the current node
  priority : Nat
  deriving Repr

def Cand.text (c : Cand) : Str := (c.chain.map Node.text).flatten

abbrev Heap := Array Cand

/-- `sift_up(start, pos)`: move the element at `pos` up while it is greater than its parent. -/
def siftUp (h : Heap) (start : Nat) : Nat → Nat → Heap
  | 0, _ => h
  | fuel + 1, pos =>
    if pos > start then
      let parent := (pos - 1) / 2
      match h[pos]?, h[parent]? with
      | some e, some p =>
        if e.priority ≤ p.priority then h
        else siftUp ((h.set! pos p).set! parent e) start fuel parent
      | _, _ => h
    else h

def heapPush (h : Heap) (c : Cand) : Heap :=
  let h' := h.push c
  siftUp h' 0 h'.size (h'.size - 1)

/-- `sift_down_to_bottom(0)`: move the hole to a leaf following the greater child, then sift up. -/
def siftDownToBottom (h : Heap) (end_ : Nat) : Nat → Nat → Heap × Nat
  | 0, pos => (h, pos)
  | fuel + 1, pos =>
    let child := 2 * pos + 1
    if child ≤ end_ - 2 ∧ 2 ≤ end_ then
      match h[child]?, h[child + 1]?, h[pos]? with
      | some a, some b, some e =>
        let c := if a.priority ≤ b.priority then child + 1 else child
        let x := if a.priority ≤ b.priority then b else a
        siftDownToBottom ((h.set! pos x).set! c e) end_ fuel c
      | _, _, _ => (h, pos)
    else if child = end_ - 1 ∧ 1 ≤ end_ then
      match h[child]?, h[pos]? with
      | some a, some e => ((h.set! pos a).set! child e, child)
      | _, _ => (h, pos)
    else (h, pos)

def heapPop (h : Heap) : Option (Cand × Heap) :=
  match h.back? with
  | none => none
  | some last =>
    let h1 := h.pop
    if h1.isEmpty then some (last, h1)
    else
      match h1[0]? with
      | none => some (last, h1)
      | some top =>
        let h2 := h1.set! 0 last
        let (h3, pos) := siftDownToBottom h2 h2.size h2.size 0
        some (top, siftUp h3 0 h3.size pos)

/-- The successors pushed for one popped candidate. -/
def expand (t : Tables) (ctx : Ctx) (f : Freq) (g : Graph) (c : Cand) (h : Heap) : Heap :=
  match c.chain with
  | [] => h
  | cur :: _ =>
    (previous g cur).foldl (fun h p =>
      match Score.add (Score.add (edgeScore t ctx p cur) (nodeScore t ctx f cur)) (some c.score) with
      | some next =>
        match Score.add (some next) p.fwd with
        | some prio => heapPush h { chain := p :: c.chain, score := next, priority := prio }
        | none => h
      | none => h) h

def memStr (s : Str) : List Str → Bool
  | [] => false
  | x :: t => beqStr s x || memStr s t

/-- `get_n_best_candidates` with explicit fuel (iterations of the `while let`). -/
def search (t : Tables) (ctx : Ctx) (f : Freq) (g : Graph) (n : Nat) :
    Nat → Heap → List Cand → List Str → List Cand
  | 0, _, res, _ => res
  | fuel + 1, h, res, seen =>
    match heapPop h with
    | none => res
    | some (c, h1) =>
      match c.chain with
      | .bos :: _ =>
        if memStr c.text seen then search t ctx f g n fuel h1 res seen
        else
          let res' := res ++ [c]
          if res'.length ≥ n then res'
          else search t ctx f g n fuel (expand t ctx f g c h1) res' (c.text :: seen)
      | _ => search t ctx f g n fuel (expand t ctx f g c h1) res seen

def nBest (t : Tables) (ctx : Ctx) (f : Freq) (g : Graph) (n fuel : Nat) : List Cand :=
  search t ctx f g n fuel (heapPush #[] { chain := [.eos], score := 0, priority := 0 }) [] []

/-- `kkc::get_candidates`. -/
def getCandidates (t : Tables) (input : Str) (d : Dict) (ctx : Ctx) (f : Freq) (n fuel : Nat) : Option (List Cand) :=
  (fromInput t input d ctx).map fun g => nBest t ctx f (forwardDp t ctx f g) n fuel

/-! ### what a confirmation learns from a candidate -/

/-- `Candidate::to_string_only_independent` -/
def independentWord : List Node → Option Str
  | [] => none
  | .word _ _ w _ :: t => if !w.speech.isAncillary then some w.word else independentWord t
  | _ :: t => independentWord t

def isWordNode : Node → Bool
  | .word _ _ _ _ => true
  | _ => false

def asPrefix : Node → Option (Str × Str)
  | .word _ _ w _ => if w.speech.isPrefix then some (w.word, w.reading) else none
  | _ => none
def asSuffix : Node → Option (Str × Str)
  | .word _ _ w _ => if w.speech.isSuffix then some (w.word, w.reading) else none
  | _ => none
def asIndependent : Node → Option (Str × Str)
  | .word _ _ w _ => if !w.speech.isAncillary then some (w.word, w.reading) else none
  | _ => none

/-- `Candidate::to_string_with_affix` on the chain as stored in the candidate. -/
def withAffix (chain : List Node) : Option (Str × Str) :=
  match chain with
  | [] => none
  | .bos :: rest => withAffix rest      -- the sentence-begin node of a search result is skipped
  | cur :: rest =>
    let next := rest.head?.filter isWordNode
    let nextToNext := (rest.drop 1).head?.filter isWordNode
    if !isWordNode cur then none else
    match next, nextToNext with
    | some nx, some nn =>
      match asPrefix cur, asIndependent nx, asSuffix nn with
      | some p, some i, some s => some (p.1 ++ i.1 ++ s.1, p.2 ++ i.2 ++ s.2)
      | _, _, _ => none
    | some nx, none =>
      match asPrefix cur, asIndependent nx, asIndependent cur, asSuffix nx with
      | some p, some i, none, none => some (p.1 ++ i.1, p.2 ++ i.2)
      | none, none, some i, some s => some (i.1 ++ s.1, i.2 ++ s.2)
      | _, _, _, _ => none
    | _, _ => none

end Chokan.Kkc
