/-
M5 types — conversion contexts, speech patterns of the score tables, lattice nodes (libs/kkc).
-/
import Chokan.Model.DicTypes

namespace Chokan.Kkc
open Chokan.Dic

inductive Ctx | normal | foreignWord | numeral | proper
  deriving DecidableEq, Repr

/-- A pattern over `Speech` as written in the `match` arms of score.rs / graph.rs. -/
inductive SPat
  | any | noun | verb | adjective | adverb | adjectivalVerb | verbatim | conjunction
  | particle (t : ParticleType) | auxiliaryVerb | preNounAdjectival | counter
  | affix (v : AffixVariant)
  | nonAncillary                      -- `v if !v.is_ancillary()`
  deriving DecidableEq, Repr

def SPat.matches : SPat → Speech → Bool
  | .any, _ => true
  | .noun, .noun _ => true
  | .verb, .verb _ _ => true
  | .adjective, .adjective => true
  | .adverb, .adverb => true
  | .adjectivalVerb, .adjectivalVerb => true
  | .verbatim, .verbatim => true
  | .conjunction, .conjunction => true
  | .particle t, .particle t' => t = t'
  | .auxiliaryVerb, .auxiliaryVerb => true
  | .preNounAdjectival, .preNounAdjectival => true
  | .counter, .counter => true
  | .affix v, .affix v' => v = v'
  | .nonAncillary, sp => !sp.isAncillary
  | _, _ => false

inductive MergeWhen | always | only (c : Ctx)
  deriving DecidableEq, Repr

/-- `Score`: `none` = not connectable (negative in Rust; absorbing under `+`). -/
abbrev Score := Option Nat

def Score.add (a b : Score) : Score :=
  match a, b with
  | some x, some y => some (x + y)
  | _, _ => none

/-- `score > best` of the Rust `PartialOrd`: every valid score beats "not connectable". -/
def Score.gt (a b : Score) : Bool :=
  match a, b with
  | some x, some y => decide (y < x)
  | some _, none => true
  | none, _ => false

/-- A lattice node. `endAt` = index of the last input character covered; `idx` = position in the
list of nodes ending there (`NodePointer`); `fwd` = best score from the start of the sentence. -/
inductive Node
  | word (endAt idx : Nat) (w : Word) (fwd : Score)
  | virt (endAt idx : Nat) (s : Str) (fwd : Score)
  | bos
  | eos
  deriving DecidableEq, Repr

end Chokan.Kkc
