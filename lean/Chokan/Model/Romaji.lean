/-
M11 — the Emacs client's romaji engine (chokan.el: chokan--roman-sokuon-p,
chokan--roman-to-hiragana, chokan--roman-hira-to-kata).

Text is `List Nat` (Unicode scalar values), so that the kernel evaluates table
look-ups with its native `Nat` arithmetic.  The tables, the consonant list and the
`cl-dotimes` bound are parameters; `Chokan.Gen.Romaji` (regenerated from
/repo/chokan.el on every run) supplies the actual values.
-/
namespace Chokan.Romaji

abbrev Str := List Nat
abbrev Table := List (Str × Str)

/-- String equality by structural recursion over `Nat.beq` (fast in the kernel). -/
def beqStr : Str → Str → Bool
  | [], [] => true
  | a :: as, b :: bs => Nat.beq a b && beqStr as bs
  | _, _ => false

/-- `(assoc k table)`: first entry whose key is `equal` to `k`. -/
def assoc (k : Str) : Table → Option Str
  | [] => none
  | (k', v) :: t => if beqStr k k' then some v else assoc k t

/-- `(member c list)` on characters. -/
def memNat (c : Nat) : List Nat → Bool
  | [] => false
  | x :: t => Nat.beq c x || memNat c t

/-- `chokan--roman-sokuon-p`. -/
def sokuonP (cons : List Nat) : Str → Bool
  | a :: b :: _ => Nat.beq a b && memNat a cons && memNat b cons
  | _ => false

/-- Longest key length in the table (`seq-reduce … max … 0`). -/
def maxKey : Table → Nat
  | [] => 0
  | (k, _) :: t => max (maxKey t) k.length

/-- The inner `(while (sokuon-p input) …)`: emit っ and drop one character.
Structural on the input. Returns (emitted, remaining input). -/
def stripSokuon (cons : List Nat) : Str → Str × Str
  | a :: rest =>
    if sokuonP cons (a :: rest) then
      let (e, r) := stripSokuon cons rest
      (0x3063 :: e, r)
    else ([], a :: rest)
  | [] => ([], [])

/-- The `cl-dotimes (len bound)` search: try `len = start, start+1, …` (`todo` more
values) and return the first `(len, value)` whose `(substring input 0 (min |input| len))`
is a key. -/
def findKey (table : Table) (input : Str) : (todo start : Nat) → Option (Nat × Str)
  | 0, _ => none
  | todo + 1, len =>
    match assoc (input.take (min input.length len)) table with
    | some v => some (len, v)
    | none => findKey table input todo (len + 1)

/-- One iteration of the outer `while`, after the sokuon strip: `none` = Lisp error
(`substring` out of range). Input must be non-empty. Returns (emitted, rest). -/
def stepKey (table : Table) (bound : Nat) (input : Str) : Option (Str × Str) :=
  match findKey table input bound 0 with
  | some (len, v) => if len ≤ input.length then some (v, input.drop len) else none
  | none => match input with
    | c :: rest => some ([c], rest)
    | [] => none

/-- `chokan--roman-to-hiragana` with explicit fuel; `none` = error or fuel exhausted. -/
def convFuel (table : Table) (cons : List Nat) (bound : Nat) : Nat → Str → Option Str
  | _, [] => some []
  | 0, _ :: _ => none
  | fuel + 1, input@(_ :: _) =>
    let (e, r) := stripSokuon cons input
    match stepKey table bound r with
    | none => none
    | some (v, rest) =>
      match convFuel table cons bound fuel rest with
      | none => none
      | some out => some (e ++ v ++ out)

/-- The engine as the client runs it: fuel `|input| + 1` (shown sufficient in C19_total). -/
def conv (table : Table) (cons : List Nat) (bound : Nat) (input : Str) : Option Str :=
  convFuel table cons bound (input.length + 1) input

/-- `chokan--roman-hira-to-kata`: per character `assoc`, identity when absent. Only
single-character keys can ever match (the argument is split into characters). -/
def hiraToKata (kt : Table) : Str → Str
  | [] => []
  | c :: rest => (match assoc [c] kt with | some v => v | none => [c]) ++ hiraToKata kt rest

end Chokan.Romaji
