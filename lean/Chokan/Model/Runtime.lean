/-
M13 — runtime inventory models: async worker occupancy (C13), lock order (C14), the file-operation
sequence of a save under process death (C09).  Data from Chokan.Gen.Server.
-/
import Chokan.Gen.Server

namespace Chokan.Runtime
open Chokan.Gen.Server

/-! ### worker pool (C13) -/

/-- A runtime with `workers` async worker threads on which `occupiers` tasks that never yield have been
spawned: each of them takes one worker for good as soon as it is polled; the accept loop and the
request handlers are cooperative tasks on the same pool and need a worker that is not lost. -/
def lostWorkers (workers occupiers : Nat) : Nat := min workers occupiers
def serves (workers occupiers : Nat) : Bool := decide (lostWorkers workers occupiers < workers)

/-- threads the blocking pool may grow to, given the number of async workers -/
def poolSize : Pool → Nat → Nat
  | .default, _ => 512
  | .const n, _ => n
  | .perWorker k, w => w * k
  | .workersPlus k, w => w + k

/-- the never-ending `spawn_blocking` duties, each of which keeps one thread of the blocking pool for good -/
def blockingDuties (ds : List Spawn) : Nat := (ds.filter (· == .blockingPool)).length

/-- decidable form of "for every worker count from one upward the pool has a thread for each of `n` never-ending duties":
the pool is smallest with one worker -/
def poolOk (p : Pool) (n : Nat) : Bool := decide (n ≤ poolSize p 1)

/-! ### lock order (C14) -/

def lockRank : Lock → Nat
  | .dictionary => 0
  | .store => 0
  | .userPref => 1

/-- every nested acquisition goes strictly upwards in `lockRank` -/
def edgesRespectRank (es : List (Lock × Lock)) : Bool := es.all fun e => decide (lockRank e.1 < lockRank e.2)

/-! ### save under process death (C09) -/

/-- What a data file (frequency.bin or user.dic) holds. -/
inductive Content | old | new | torn | empty | absent
  deriving DecidableEq, Repr

structure FileState where
  file : Content        -- the real file
  tmp : Content         -- its temporary sibling
  deriving DecidableEq, Repr

structure Fs where
  freq : FileState
  dic : FileState
  deriving DecidableEq, Repr

/-- operations that open a file for writing: `File::create` (truncating) or `OpenOptions` without `truncate` -/
def isCreate (o : SaveOp) : Bool := o = .createInPlace || o = .createTmp || o = .openInPlace || o = .openTmp

/-- The save writes frequency.bin first, then user.dic: operations up to and including the first
`rename` (or, without renames, the first `write`) belong to the first file. -/
def splitOps (ops : List SaveOp) : List SaveOp × List SaveOp :=
  let body := ops.filter (· ≠ .mkdir)
  let creates := body.filter fun o => isCreate o
  if creates.length ≠ 2 then (body, []) else
  -- split before the second create
  let rec go (seen : Nat) : List SaveOp → List SaveOp × List SaveOp
    | [] => ([], [])
    | o :: t =>
      if isCreate o ∧ seen = 1 then ([], o :: t)
      else
        let (a, b) := go (if isCreate o then seen + 1 else seen) t
        (o :: a, b)
  go 0 body

/-- Effect of one *completed* operation on a file. -/
def applyOp (f : FileState) : SaveOp → FileState
  | .createInPlace => { f with file := .empty }
  | .createTmp => { f with tmp := .empty }
  -- opened without truncation: an existing file keeps its bytes
  | .openInPlace => if f.file = .absent then { f with file := .empty } else f
  | .openTmp => if f.tmp = .absent then { f with tmp := .empty } else f
  | .write =>
    if f.tmp = .empty then { f with tmp := .new }
    -- a file that was NOT truncated before being written keeps whatever was there beyond the new bytes: the
    -- result is complete only if nothing was there (pessimistically: it is torn)
    else if f.tmp ≠ .absent then { f with tmp := .torn }
    else if f.file = .empty then { f with file := .new }
    else { f with file := .torn }
  | .rename => { file := f.tmp, tmp := .absent }
  | _ => f

/-- Effect of an operation cut short by the death of the process (only a write has an inside). -/
def applyPartial (f : FileState) : SaveOp → FileState
  | .write => if f.tmp = .absent then { f with file := .torn } else { f with tmp := .torn }
  | _ => f

/-- All states one file can be left in when the process dies at any instant of its operation list. -/
def crashStatesOf (f : FileState) : List SaveOp → List FileState
  | [] => [f]
  | o :: t => f :: applyPartial f o :: crashStatesOf (applyOp f o) t

def finalOf (f : FileState) (ops : List SaveOp) : FileState := ops.foldl applyOp f

/-- All file-system states after a crash at any instant of a save that starts in `start`. -/
def crashStatesFrom (start : Fs) (ops : List SaveOp) : List Fs :=
  let (a, b) := splitOps ops
  (crashStatesOf start.freq a).map (fun f => ⟨f, start.dic⟩) ++
  (crashStatesOf start.dic b).map (fun d => ⟨finalOf start.freq a, d⟩)

/-- The state a completed save leaves. -/
def completeFrom (start : Fs) (ops : List SaveOp) : Fs :=
  let (a, b) := splitOps ops
  ⟨finalOf start.freq a, finalOf start.dic b⟩

/-- All file-system states after a crash at any instant of the first save (previous versions present,
no temporary files). -/
def crashStates (ops : List SaveOp) : List Fs := crashStatesFrom ⟨⟨.old, .absent⟩, ⟨.old, .absent⟩⟩ ops

/-- A data file restores iff it is complete (the previous or the new version). -/
def restorable (c : Content) : Bool := c = .old || c = .new

/-- Start-up after a crash: both files restore to a complete version and the save directory is kept. -/
def startupOk (fs : Fs) : Bool := restorable fs.freq.file && restorable fs.dic.file

end Chokan.Runtime
