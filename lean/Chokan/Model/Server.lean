/-
M7 (server state machine), M8 (persistence, abstractly: what a save writes and a start reads back)
and M9 (dictionary builder) — chokan-server/src/{main,method,user_pref,session}.rs, chokan-dic.

One transition per critical section.  Background work (applying a registered entry, saving) is an
explicit step, so a schedule is a list of steps.  `none` = a panic of the Rust code at that point.
-/
import Chokan.Model.Kkc
import Chokan.Model.Dic
import Chokan.Model.DicText
import Chokan.Model.KanaAlpha

namespace Chokan.Server
open Chokan.Kkc Chokan.Dic

/-- All regenerated tables the server's behaviour depends on. -/
structure Cfg where
  tables : Tables
  conj : ConjTable
  adj : List Str
  adjv : List Str
  guess : GuessTable
  names : List (Speech × Str)
  vsuf : VerbClass → Str
  kanaClass : List (Nat × Nat)
  alts : List Chokan.Gen.DicGrammar.Alt
  kata : List Nat
  alpha : List Nat                 -- trie alphabet (chokan-dic JP_KEYS ++ EN_KEYS)
  kanaAlpha : List Chokan.KanaAlpha.Row
  expiryMs : Nat
  nCandidates : Nat
  fuel : Nat

structure FreqEntry where
  ctx : Ctx
  word : Str
  count : Nat
  last : Int
  deriving DecidableEq, Repr

structure Session where
  sid : Nat
  ctx : Ctx
  cands : List Cand

/-- What a completed save leaves on disk (abstract: decoded contents of frequency.bin / user.dic). -/
structure Saved where
  freq : List FreqEntry
  userDicText : Str

structure State where
  base : Dict                      -- the dictionary image loaded at start
  tankan : List (Str × List Word)
  dict : Dict                      -- running dictionary (base + user words)
  freq : List FreqEntry
  userDict : List Entry
  sessions : List Session
  pending : List Entry             -- the entry channel (FIFO)
  nextSid : Nat
  hasDir : Bool
  saved : Option Saved

def inAlpha (alpha : List Nat) (s : Str) : Bool := s.all fun c => alpha.any (Nat.beq c)

/-- `trie.insert(&reading)` (ignored `Err`) + `map.entry(reading).push(word)` on the standard dictionary. -/
def addStdWord (alpha : List Nat) (d : Dict) (w : Word) : Dict :=
  { d with
    std := addToMap d.std w.reading w,
    stdTrie := if inAlpha alpha w.reading && !(d.stdTrie.any (Kkc.beqStr w.reading)) then d.stdTrie ++ [w.reading] else d.stdTrie }

def toKkcFreq (f : List FreqEntry) : Freq := f.map fun e => ((e.ctx, e.word), e.count)

/-- Merge the user dictionary into a dictionary image (`main.rs` start-up loop, and the updater). -/
def mergeEntry (c : Cfg) (d : Dict) (e : Entry) : Option Dict :=
  (entryToWords c.conj c.adj c.adjv e).map fun ws => ws.foldl (addStdWord c.alpha) d

def mergeEntries (c : Cfg) : Dict → List Entry → Option Dict
  | d, [] => some d
  | d, e :: t => (mergeEntry c d e).bind fun d' => mergeEntries c d' t

/-- Server start: restore (a missing directory content = defaults), merge user words. -/
def start (c : Cfg) (base : Dict) (tankan : List (Str × List Word)) (hasDir : Bool) (saved : Option Saved) : Option State :=
  let freq := match saved with | some s => s.freq | none => []
  let entries := match saved with
    | some s => Chokan.DicText.readAll c.kanaClass c.alts c.kata s.userDicText
    | none => []
  (mergeEntries c base entries).map fun d =>
    { base := base, tankan := tankan, dict := d, freq := freq, userDict := entries, sessions := [], pending := [],
      nextSid := 0, hasDir := hasDir, saved := saved }

/-- GetCandidates / GetProperCandidates: (new state, session id, candidate texts). -/
def convert (c : Cfg) (s : State) (ctx : Ctx) (input : Str) : Option (State × Nat × List Cand) :=
  (getCandidates c.tables input s.dict ctx (toKkcFreq s.freq) c.nCandidates c.fuel).map fun cs =>
    ({ s with sessions := s.sessions ++ [⟨s.nextSid, ctx, cs⟩], nextSid := s.nextSid + 1 }, s.nextSid, cs)

def tankanCandidates (s : State) (input : Str) : List Str :=
  ((findMap input s.tankan).getD []).map (·.word)

/-- `ConversionFrequency::update_word` -/
def updateWord (f : List FreqEntry) (ctx : Ctx) (w : Str) (now : Int) : List FreqEntry :=
  if f.any (fun e => e.ctx = ctx ∧ Kkc.beqStr e.word w) then
    f.map fun e => if e.ctx = ctx ∧ Kkc.beqStr e.word w then { e with count := e.count + 1, last := now } else e
  else f ++ [⟨ctx, w, 1, now⟩]

/-- `ConversionFrequency::expire_frequencies`: drop entries with `now - last > expiration`. -/
def expire (f : List FreqEntry) (now : Int) (expiry : Nat) : List FreqEntry :=
  f.filter fun e => !decide (now - e.last > (expiry : Int))

def popSession (ss : List Session) (sid : Nat) : Option Session × List Session :=
  (ss.find? (·.sid == sid), ss.filter (·.sid != sid))

/-- UpdateFrequency(session id, candidate id = index in the answered list). -/
def confirm (c : Cfg) (s : State) (sid : Nat) (cid : Option Nat) (now : Int) : State :=
  match popSession s.sessions sid with
  | (none, rest) => { s with sessions := rest }
  | (some sess, rest) =>
    let s1 := { s with sessions := rest }
    match cid.bind fun i => sess.cands[i]? with
    | none => s1
    | some cand =>
      let s2 := match independentWord cand.chain with
        | some w => { s1 with freq := expire (updateWord s1.freq sess.ctx w now) now c.expiryMs }
        | none => s1
      match withAffix cand.chain with
      | some (word, reading) =>
        -- the compound is queued for the updater, which records it in the user dictionary when it applies it (fix c5e9959)
        { s2 with pending := s2.pending ++ [⟨word, reading, .noun .common⟩] }
      | none => s2

/-- `ConversionSession::find_candidate`: the candidates of a session carry the ids `"0"`, `"1"`, … (`idx.to_string()` in
the handlers) and the id of the request is compared with them **as a string**: the first candidate whose id equals it. -/
def candIndex (n : Nat) (id : String) : Option Nat := (List.range n).find? fun i => toString i == id

/-- UpdateFrequency as it arrives: session id already resolved to its issue number, candidate id still the request's string -/
def confirmId (c : Cfg) (s : State) (sid : Nat) (id : String) (now : Int) : State :=
  confirm c s sid ((s.sessions.find? (·.sid == sid)).bind fun sess => candIndex sess.cands.length id) now

inductive RegKind | guess | commonNoun | properNoun
  deriving DecidableEq, Repr

/-- `is_storable`: the entry's user.dic line is read back as exactly this entry. -/
def storable (c : Cfg) (e : Entry) : Bool :=
  decide (Chokan.DicText.readAll c.kanaClass c.alts c.kata (printEntry c.names c.vsuf e) = [e])

/-- RegisterWord: `none` = nothing was registered — the guesser panicked before touching shared state
(connection closed) or the entry was refused because user.dic could not store it (error reply). -/
def register (c : Cfg) (s : State) (kind : RegKind) (reading word : Str) : Option State :=
  let e : Option Entry := match kind with
    | .guess => newGuessed c.guess reading word
    | .commonNoun => some ⟨word, reading, .noun .common⟩
    | .properNoun => some ⟨word, reading, .noun .proper⟩
  (e.filter (storable c)).map fun e => { s with pending := s.pending ++ [e] }

/-- The updater task takes one entry from the channel: user dictionary first, then the dictionary
(the latter under the dictionary lock; `none` = panic while holding it). -/
def applyEntry (c : Cfg) (s : State) : Option State :=
  match s.pending with
  | [] => some s
  | e :: rest =>
    (mergeEntry c s.dict e).map fun d =>
      { s with pending := rest, userDict := s.userDict ++ [e], dict := d }

/-- A completed periodic save. -/
def save (c : Cfg) (s : State) : State :=
  if s.hasDir then
    { s with saved := some ⟨s.freq, Chokan.DicText.writeAll c.names c.vsuf s.userDict⟩ }
  else s

/-- Stop and start again on the same user directory. -/
def restart (c : Cfg) (s : State) : Option State :=
  start c s.base s.tankan s.hasDir s.saved

/-! ### histories: any interleaving of atomic steps of clients and background tasks -/

/-- One atomic step of the server: a client request (one critical section each) or a background step. -/
inductive Op
  | convert (ctx : Ctx) (input : Str)
  | confirm (sid : Nat) (cid : Option Nat) (now : Int)
  | register (k : RegKind) (reading word : Str)
  /-- the updater task takes one entry from the channel -/
  | apply
  /-- the periodic save completes -/
  | save

/-- A request that fails (guesser panic / refused entry / updater panic) leaves the state as it was. -/
def stepOp (c : Cfg) (s : State) : Op → State
  | .convert ctx input => match convert c s ctx input with | some (s', _, _) => s' | none => s
  | .confirm sid cid now => confirm c s sid cid now
  | .register k r w => (register c s k r w).getD s
  | .apply => (applyEntry c s).getD s
  | .save => save c s

def runOps (c : Cfg) (s : State) (ops : List Op) : State := ops.foldl (stepOp c) s

/-! ### M9: the dictionary builder (chokan-dic) -/

def ltStr : Str → Str → Bool
  | [], [] => false
  | [], _ :: _ => true
  | _ :: _, [] => false
  | a :: as, b :: bs => if a < b then true else if b < a then false else ltStr as bs

/-- stable insertion sort by reading (`sort_by` on `Vec<char>`) -/
def insertSorted (w : Word) : List Word → List Word
  | [] => [w]
  | x :: t => if ltStr w.reading x.reading then w :: x :: t else x :: insertSorted w t

def sortWords : List Word → List Word
  | [] => []
  | w :: t => insertSorted w (sortWords t)

/-- `Vec<Word>::from(Entry)` iterates a `HashSet`; words of one entry are put in canonical order
(the order is unobservable after the stable sort because they have different readings). -/
def allWords (c : Cfg) : List Entry → Option (List Word)
  | [] => some []
  | e :: t => match entryToWords c.conj c.adj c.adjv e, allWords c t with
    | some ws, some r => some (ws ++ r)
    | _, _ => none

/-- `read_and_make_dictionary`: (map in first-insertion order, trie key list). `none` = panic. -/
def buildMap (c : Cfg) (content : Str) : Option (List (Str × List Word) × List Str) :=
  (allWords c (Chokan.DicText.readAll c.kanaClass c.alts c.kata content)).map fun ws =>
    (sortWords ws.reverse).foldl (fun (acc : List (Str × List Word) × List Str) w =>
      (addToMap acc.1 w.reading w,
       if inAlpha c.alpha w.reading && !(acc.2.any (Kkc.beqStr w.reading)) then acc.2 ++ [w.reading] else acc.2)) ([], [])

end Chokan.Server
