/-
M12 — SKK import: the PEG of skk-dic-parser (`root`) and the three line converters built on it
(skk-noun-converter, skk-jinmei-converter, skk-tankan-converter).  The notes grammar/converter
(skk-notes-converter) is not modelled here; it is checked on the implementation by the executable
oracle of the C18 check.
-/
import Chokan.Model.DicText

namespace Chokan.Skk
open Chokan.Dic Chokan.DicText

structure SkkEntry where
  reading : Str
  okuri : Option Str
  words : List Str
  deriving DecidableEq, Repr

/-- `rule kana()` of the SKK grammars: あ…ん (which contains the small kana listed) and ー. -/
def skkKana (c : Nat) : Bool := (Nat.ble 0x3042 c && Nat.ble c 0x3093) || Nat.beq c 0x3041 || Nat.beq c 0x30FC
def isAlpha (c : Nat) : Bool := Nat.ble 97 c && Nat.ble c 122
def isSpace (c : Nat) : Bool := Nat.beq c 32 || Nat.beq c 9
/-- `[^ ' ' | '/' | ';']` -/
def isKanjiCh (c : Nat) : Bool := !(Nat.beq c 32 || Nat.beq c 47 || Nat.beq c 59)
/-- `[^ '/']` -/
def notSlash (c : Nat) : Bool := !Nat.beq c 47

/-- `rule kanji() = n:$([^ ' ' | '/' | ';']+) annotation()? "/"` -/
def parseKanji (s : Str) : Option (Str × Str) :=
  match spanClass isKanjiCh s with
  | ([], _) => none
  | (w, 59 :: r) =>                      -- ";" [^ '/']*
    (match (spanClass notSlash r).2 with
     | 47 :: r2 => some (w, r2)
     | _ => none)
  | (w, 47 :: r) => some (w, r)
  | _ => none

/-- `kanji()+` (greedy), fuel-bounded; every iteration consumes at least two characters. -/
def parseKanjis : Nat → Str → List Str × Str
  | 0, s => ([], s)
  | fuel + 1, s =>
    match parseKanji s with
    | some (w, r) => let (l, r') := parseKanjis fuel r; (w :: l, r')
    | none => ([], s)

/-- `pub rule root() = comment() {None} / entry()`; `comment() = ";" any()* "\n"` can never match
(`any()*` swallows the newline it then asks for). Result: `none` = `Err`, `some e` = `Ok(Some e)`. -/
def parseSkk (s : Str) : Option SkkEntry :=
  let reading := (spanClass skkKana s).1
  let r1 := (spanClass skkKana s).2
  let ok := (spanClass isAlpha r1).1
  let r2 := (spanClass isAlpha r1).2
  let sp := (spanClass isSpace r2).1
  let r3 := (spanClass isSpace r2).2
  if reading.isEmpty || sp.isEmpty then none else
  match r3 with
  | 47 :: r4 =>
    let ks := parseKanjis (r4.length + 1) r4
    if ks.1.isEmpty || !ks.2.isEmpty then none
    else some ⟨reading, if ok.isEmpty then none else some ok, ks.1⟩
  | _ => none

/-- The three converters: `none` = `Err`, `some none` = `Ok(None)` (line skipped), `some (some es)`. -/
def parseNouns (s : Str) : Option (Option (List Entry)) :=
  (parseSkk s).map fun e =>
    if e.okuri.isSome then none else some (e.words.map fun w => ⟨w, e.reading, .noun .common⟩)

def parsePropers (s : Str) : Option (Option (List Entry)) :=
  (parseSkk s).map fun e => some (e.words.map fun w => ⟨w, e.reading, .noun .proper⟩)

def parseTankan (s : Str) : Option (Option (List Entry)) :=
  (parseSkk s).map fun e =>
    let ws := e.words.filter fun w => w.length == 1
    if ws.isEmpty then none else some (ws.map fun w => ⟨w, e.reading, .noun .common⟩)

end Chokan.Skk
