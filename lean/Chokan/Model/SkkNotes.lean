/-
M13 — SKK notes import (skk-notes-converter: note_grammer.rs, converter.rs).

The PEG is followed rule by rule (ordered choice, greedy possessive repetition, `e ** sep`,
optional parts that backtrack as a whole).  The converter slices strings by UTF-8 byte counts; the
model does the same (`dropBytesEnd`), with `panic` for an index that underflows or falls inside a
character and `unsupported` for the converter's explicit "Can not get okuri for …" rejection.
-/
import Chokan.Model.Skk
import Chokan.Gen.SkkNotes

namespace Chokan.SkkNotes
open Chokan.Dic Chokan.DicText Chokan.Skk
open Chokan.Gen.SkkNotes (skkOkuriTable)

inductive Okuri
  | fixed (s : Str)
  | charClass (s : Str)
  deriving DecidableEq, Repr

inductive NoteSpeech
  | verb (cls : VerbClass) (row : Str) (o : Option Okuri)
  | adjective (o : Option Okuri)
  | adjectivalVerb (o : Okuri)
  | adverb (o : Okuri)
  | noun (tag : Str) (o : Option Okuri)
  | counter (o : Okuri)
  | verbatim (o : Okuri)
  | preNoun (o : Option Okuri)
  | conjParticle (o : Option Okuri)
  | conjunction (o : Option Okuri)
  deriving DecidableEq, Repr

structure NoteEntry where
  stem : Str
  speech : NoteSpeech
  deriving DecidableEq, Repr

structure Note where
  headword : Str
  okuri : Str
  entries : List NoteEntry
  deriving DecidableEq, Repr

/-! ### character classes and literals -/

def lit (s : String) : Str := s.toList.map Char.toNat

/-- `[^ ';' | '/']` -/
def isStemCh (c : Nat) : Bool := !(Nat.beq c 59 || Nat.beq c 47)
/-- `[^ '∥' | '/']` -/
def isAnnoCh (c : Nat) : Bool := !(Nat.beq c 0x2225 || Nat.beq c 47)
def inRanges (rs : List (Nat × Nat)) (c : Nat) : Bool := rs.any fun r => Nat.ble r.1 c && Nat.ble c r.2
/-- `rule char_class()`'s class `['a'..='z' | '>' | '<' | '#' | '*' | '-' | '(' | ')' | 'φ' | '.']` (generated) -/
def isClassCh (c : Nat) : Bool := inRanges Chokan.Gen.SkkNotes.classRanges c
/-- `rule katakana()`: the row letters ア カ サ タ ナ ハ マ ヤ ワ ラ ダ バ ガ ザ (generated) -/
def isRowKata (c : Nat) : Bool := Chokan.Gen.SkkNotes.rowKata.any (Nat.beq c)
/-- `rule kana()` of the notes grammar (generated ranges) -/
def notesKana (c : Nat) : Bool := inRanges Chokan.Gen.SkkNotes.kanaRanges c

/-! ### okuri -/

/-- `"-" kana()+` -/
def parseDashKana (s : Str) : Option (Str × Str) :=
  match s with
  | 45 :: r =>
    match spanClass notesKana r with
    | ([], _) => none
    | (k, r') => some (k, r')
  | _ => none

/-- `($("-" kana()+)) ++ ","`: the first element and the rest of the input after the whole list. -/
def parseDashList : Nat → Str → Option (Str × Str)
  | 0, _ => none
  | fuel + 1, s =>
    match parseDashKana s with
    | none => none
    | some (k, r) =>
      -- further `"," element` pairs; a comma not followed by an element is not consumed
      let rec more : Nat → Str → Str
        | 0, r => r
        | f + 1, r =>
          match r with
          | 44 :: r1 =>
            (match parseDashKana r1 with
             | some (_, r2) => more f r2
             | none => r)
          | _ => r
      some (k, more fuel r)

/-- `rule fixed_okuri()` -/
def parseFixed (s : Str) : Option (Okuri × Str) :=
  match s with
  | 40 :: r =>
    match parseDashList (r.length + 1) r with
    | some (k, 41 :: r') => some (.fixed k, r')
    | _ => none
  | _ => none

/-- `rule char_class()` -/
def parseClass (s : Str) : Option (Okuri × Str) :=
  match s with
  | 91 :: r =>
    match spanClass isClassCh r with
    | ([], _) => none
    | (k, 93 :: r') => some (.charClass k, r')
    | _ => none
  | _ => none

def parseOkuri1 (s : Str) : Option (Okuri × Str) :=
  match parseFixed s with
  | some x => some x
  | none => parseClass s

/-- `rule okuri() = n:(fixed / class) (fixed / class)? { n }` -/
def parseOkuri (s : Str) : Option (Okuri × Str) :=
  match parseOkuri1 s with
  | none => none
  | some (o, r) =>
    match parseOkuri1 r with
    | some (_, r') => some (o, r')
    | none => some (o, r)

/-- `okuri()?` -/
def parseOkuriOpt (s : Str) : Option Okuri × Str :=
  match parseOkuri s with
  | some (o, r) => (some o, r)
  | none => (none, s)

/-! ### speeches -/

/-- `rule noun()`'s tags, in the order of the ordered choice (generated) -/
def nounTags : List Str := Chokan.Gen.SkkNotes.nounTags

def firstLit : List Str → Str → Option (Str × Str)
  | [], _ => none
  | l :: t, s => match stripPrefix l s with
    | some r => some (l, r)
    | none => firstLit t s

/-- `rule verb_form()`: suffix → class (generated) -/
def verbSuffixes : List (Str × VerbClass) := Chokan.Gen.SkkNotes.verbSuffixes

/-- One alternative of the speech list: `some (some sp, rest)`, `some (none, rest)` for 補助動詞. -/
def parseSpeech1 (s : Str) : Option (Option NoteSpeech × Str) :=
  -- noun
  match firstLit nounTags s with
  | some (tag, r) => let (o, r') := parseOkuriOpt r; some (some (.noun tag o), r')
  | none =>
  -- verb
  match (match s with
    | k :: r => if isRowKata k then (parseLits verbSuffixes r).map fun (cls, r') => (k, cls, r') else none
    | [] => none) with
  | some (k, cls, r) => let (o, r') := parseOkuriOpt r; some (some (.verb cls [k] o), r')
  | none =>
  match stripPrefix (lit "形容詞") s with
  | some r => let (o, r') := parseOkuriOpt r; some (some (.adjective o), r')
  | none =>
  match (stripPrefix (lit "形容動詞") s).bind parseOkuri with
  | some (o, r) => some (some (.adjectivalVerb o), r)
  | none =>
  match (stripPrefix (lit "助数詞") s).bind parseOkuri with
  | some (o, r) => some (some (.counter o), r)
  | none =>
  match (stripPrefix (lit "感動詞") s).bind parseOkuri with
  | some (o, r) => some (some (.verbatim o), r)
  | none =>
  match stripPrefix (lit "連体詞") s with
  | some r => let (o, r') := parseOkuriOpt r; some (some (.preNoun o), r')
  | none =>
  match (stripPrefix (lit "副詞") s).bind parseOkuri with
  | some (o, r) => some (some (.adverb o), r)
  | none =>
  match stripPrefix (lit "補助動詞") s with
  | some r => some (none, (parseOkuriOpt r).2)
  | none =>
  match stripPrefix (lit "接続助詞") s with
  | some r => let (o, r') := parseOkuriOpt r; some (some (.conjParticle o), r')
  | none =>
  match stripPrefix (lit "接続詞") s with
  | some r => let (o, r') := parseOkuriOpt r; some (some (.conjunction o), r')
  | none => none

/-- `alt ** ","`: zero or more, separated by commas (a comma not followed by an element stays). -/
def parseSpeechList : Nat → Str → List (Option NoteSpeech) × Str
  | 0, s => ([], s)
  | fuel + 1, s =>
    match parseSpeech1 s with
    | none => ([], s)
    | some (sp, r) =>
      let rec more : Nat → Str → List (Option NoteSpeech) × Str
        | 0, r => ([], r)
        | f + 1, r =>
          match r with
          | 44 :: r1 =>
            (match parseSpeech1 r1 with
             | some (sp2, r2) => let (l, r3) := more f r2; (sp2 :: l, r3)
             | none => ([], r))
          | _ => ([], r)
      let (l, r') := more fuel r
      (sp :: l, r')

def speechHeaders : List Str := Chokan.Gen.SkkNotes.speechHeaders

/-- `rule note_in_entry() = space()* "¶" [^ '/']*`, optional as a whole. -/
def skipNoteInEntry (s : Str) : Str :=
  match (spanClass isSpace s).2 with
  | 0xB6 :: r => (spanClass notSlash r).2
  | _ => s

/-- `rule speech()`: `"∥" header? list note_in_entry?` -/
def parseSpeechs (s : Str) : Option (List NoteSpeech × Str) :=
  match s with
  | 0x2225 :: r =>
    let r1 := match firstLit speechHeaders r with | some (_, x) => x | none => r
    let (l, r2) := parseSpeechList (r1.length + 1) r1
    some (l.filterMap id, skipNoteInEntry r2)
  | _ => none

/-! ### entries and the note -/

/-- `"/" s:stem() annotation()` prefix shared by the first three alternatives. -/
def parseStemAnno (s : Str) : Option (Str × Str) :=
  match s with
  | 47 :: r =>
    match spanClass isStemCh r with
    | ([], _) => none
    | (stem, 59 :: r1) => some (stem, (spanClass isAnnoCh r1).2)
    | _ => none
  | _ => none

/-- One element of `entries:(okuri_nasi_entry / derived_entry / entry / no_entry)+`. -/
def parseEntry1 (s : Str) : Option (List NoteEntry × Str) :=
  let viaAnno : Option (List NoteEntry × Str) :=
    match parseStemAnno s with
    | none => none
    | some (stem, r) =>
      match stripPrefix (lit "∥<okuri-nasi>") r with
      | some r1 => some ([], (spanClass notSlash r1).2)
      | none =>
        match stripPrefix (lit "∥<derived>") r with
        | some r1 => some ([], (spanClass notSlash r1).2)
        | none =>
          match parseSpeechs r with
          | some (sps, r1) => some (sps.map fun sp => ⟨stem, sp⟩, r1)
          | none => none
  match viaAnno with
  | some x => some x
  | none =>
    -- no_entry: "/" stem annotation()?
    match s with
    | 47 :: r =>
      match spanClass isStemCh r with
      | ([], _) => none
      | (_, 59 :: r1) => some ([], (spanClass isAnnoCh r1).2)
      | (_, r1) => some ([], r1)
    | _ => none

def parseEntries : Nat → Str → List (List NoteEntry) × Str
  | 0, s => ([], s)
  | fuel + 1, s =>
    match parseEntry1 s with
    | some (es, r) => let (l, r') := parseEntries fuel r; (es :: l, r')
    | none => ([], s)

inductive PRes
  | err
  | none
  | note (n : Note)
  deriving DecidableEq, Repr

/-- the optional okuri letter after the headword: `$(['a'..='z'])?` -/
def noteOkuri (r1 : Str) : Str × Str :=
  match r1 with
  | c :: t => if isAlpha c then ([c], t) else ([], r1)
  | [] => ([], [])

/-- `parse_note` = `root()` on the whole line. -/
def parseNote (s : Str) : PRes :=
  match s with
  | 59 :: _ => .none                                   -- comment() = ";" any()*
  | _ =>
    let h := (spanClass notesKana s).1
    let r1 := (spanClass notesKana s).2
    let o := (noteOkuri r1).1
    let r2 := (noteOkuri r1).2
    let sp := (spanClass isSpace r2).1
    let r3 := (spanClass isSpace r2).2
    if h.isEmpty || sp.isEmpty then .err else
    let (ess, r4) := parseEntries (r3.length + 1) r3
    if ess.isEmpty then .err else
    match r4 with
    | [47] =>
      let entries := ess.flatten
      if entries.isEmpty then .none else .note ⟨h, o, entries⟩
    | _ => .err

/-! ### the converter -/

inductive CRes (α : Type)
  | ok (a : α)
  | unsupported
  | panic
  deriving Repr

def Okuri.toKana (o : Okuri) (dflt : Str) : Str :=
  match o with
  | .fixed v => v
  | .charClass _ => dflt

def Okuri.hasPrefix : Okuri → Bool
  | .fixed _ => false
  | .charClass s => s.any (Nat.beq 62)
def Okuri.hasSuffix : Okuri → Bool
  | .fixed _ => false
  | .charClass s => s.any (Nat.beq 60)

def NoteSpeech.okuri : NoteSpeech → Option Okuri
  | .verb _ _ o => o | .adjective o => o | .adjectivalVerb o => some o | .adverb o => some o
  | .noun _ o => o | .counter o => some o | .verbatim o => some o | .preNoun o => o
  | .conjParticle o => o | .conjunction o => o

/-- `form_to_skk_okuri`: the table (class, row letter) → dictionary-form ending is generated from the
source (`Chokan.Gen.SkkNotes.skkOkuriTable`); `none` = the explicit panic. -/
def skkOkuri (cls : VerbClass) (row : Str) : Option Str :=
  match skkOkuriTable.find? fun p => decide (p.1 = cls) with
  | some (_, rows) => (rows.find? fun r => (r.1 == row)).map fun r => r.2
  | none => none

/-- `&word[..word.len() - k]` on UTF-8 bytes: `none` when it underflows or cuts a character. -/
def takeBytes : Nat → Str → Option Str
  | 0, _ => some []
  | _ + 1, [] => none
  | n + 1, c :: t => if utf8Len c ≤ n + 1 then (takeBytes (n + 1 - utf8Len c) t).map (c :: ·) else none

/-- `let mut end = n; while !word.is_char_boundary(end) { end -= 1 }; &word[..end]`: the longest
prefix of whole characters with at most `n` bytes. -/
def takeBytesFloor : Nat → Str → Str
  | _, [] => []
  | n, c :: t => if utf8Len c ≤ n then c :: takeBytesFloor (n - utf8Len c) t else []

def dropBytesEnd (word : Str) (k : Nat) : Option Str :=
  if k ≤ utf8LenStr word then takeBytes (utf8LenStr word - k) word else none

/-- `drop_dictionary_okuri` -/
def dropDictionaryOkuri (word : Str) (sp : NoteSpeech) : CRes Str :=
  match sp with
  | .verb cls row _ =>
    match skkOkuri cls row with
    | none => .unsupported
    | some ok =>
      match takeBytesFloor (utf8LenStr word - utf8LenStr ok) word with
      | [] =>
        (match word with
         | c :: _ => .ok [c]
         | [] => .panic)
      | w => .ok w
  | .adjective _ | .adjectivalVerb _ =>
    match dropBytesEnd word 3 with
    | some w => .ok w
    | none => .panic
  | _ => .ok word

/-- `NoteSpeech::to_okuri_kana` -/
def toOkuriKana (sp : NoteSpeech) : CRes Str :=
  match sp with
  | .verb cls row o =>
    match o with
    | some (.fixed v) => .ok v
    | _ => match skkOkuri cls row with
      | some k => .ok k
      | none => .unsupported
  | .adjective o => .ok ((o.map fun v => v.toKana (lit "い")).getD (lit "い"))
  | .adjectivalVerb o => .ok (o.toKana (lit "だ"))
  | .adverb o => .ok (o.toKana [])
  | .noun _ o => .ok ((o.map fun v => v.toKana []).getD [])
  | .counter _ => .ok []
  | .verbatim o => .ok (o.toKana [])
  | .preNoun o | .conjParticle o | .conjunction o => .ok ((o.map fun v => v.toKana []).getD [])

/-- `get_dictionary_form`: (stem, headword) with the dictionary ending removed. -/
def dictionaryForm (e : NoteEntry) (headword : Str) : CRes (Str × Str) :=
  match toOkuriKana e.speech with
  | .unsupported => .unsupported
  | .panic => .panic
  | .ok ok =>
    match dropDictionaryOkuri (e.stem ++ ok) e.speech with
    | .unsupported => .unsupported
    | .panic => .panic
    | .ok st =>
      match dropDictionaryOkuri (headword ++ ok) e.speech with
      | .unsupported => .unsupported
      | .panic => .panic
      | .ok hw => .ok (st, hw)

def speechOf : NoteSpeech → Speech
  | .verb cls row _ => .verb cls row
  | .adjective _ => .adjective
  | .adjectivalVerb _ => .adjectivalVerb
  | .adverb _ => .adverb
  | .noun tag _ => if (tag == lit "サ変名詞") then .noun .sahen else .noun .common
  | .counter _ => .counter
  | .verbatim _ => .verbatim
  | .preNoun _ => .preNounAdjectival
  | .conjParticle _ => .particle .conjunctive
  | .conjunction _ => .conjunction

/-- `NoteEntry::to_entries`: the entry itself and, for a class okuri with `>` / `<`, the affix entry.
A converted entry is written as a dictionary `Entry` (reading = headword, stem = word). -/
def entryToEntries (e : NoteEntry) (headword : Str) : CRes (List Entry) :=
  match dictionaryForm e headword with
  | .unsupported => .unsupported
  | .panic => .panic
  | .ok (st, hw) =>
    let base : Entry := ⟨st, hw, speechOf e.speech⟩
    let affix : Option Speech := e.speech.okuri.bind fun o =>
      if o.hasPrefix then some (.affix .prefix) else if o.hasSuffix then some (.affix .suffix) else none
    match affix with
    | some sp => .ok [base, ⟨st, hw, sp⟩]
    | none => .ok [base]

def noteToEntries (n : Note) : CRes (List Entry) :=
  n.entries.foldl (fun acc e =>
    match acc with
    | .ok l => (match entryToEntries e n.headword with
      | .ok l2 => .ok (l ++ l2)
      | .unsupported => .unsupported
      | .panic => .panic)
    | r => r) (.ok [])

end Chokan.SkkNotes
