/-
M2 — the double-array trie (libs/trie: lib.rs, nodes.rs, types.rs).

State: `slots[i] = (base, check)` with `none` for the Rust value -1 (unused), and `free`, the
`empties: HashSet<Empty>` as a duplicate-free list.  Reading beyond the array gives `(none, none)`,
which is how `check_of`/`base_of` returning `None` is treated by every caller.

The only nondeterminism of the Rust code is the iteration order of the hash set in `Nodes::xcheck`;
it is an explicit argument here (`choice`, the base the call returns): a choice is accepted iff the
Rust loop could return it.  `find_labels_of` iterates a `HashMap`; the model uses ascending label
order (the result of `rebase` does not depend on the order — validated by the correspondence run,
which compares complete states under randomly seeded hash orders).

`Except`-like results: `.panic` models an `expect`/`assert!`/index panic of the Rust code,
`.reject` the `Err(())` of `insert`, `.badOracle` a `choice` the Rust loop could not have returned.
-/
namespace Chokan.Trie

abbrev Slot := Option Nat × Option Nat   -- (base, check)

structure Nodes where
  slots : List Slot
  free : List Nat
  deriving Repr, DecidableEq

inductive Res (α : Type) where
  | ok (a : α)
  | reject
  | panic
  | badOracle
  deriving Repr, DecidableEq

def emptySlot : Slot := (none, none)

def Nodes.init : Nodes := { slots := [(some 0, some 0)], free := [] }   -- Node::new_root()

def Nodes.size (s : Nodes) : Nat := s.slots.length
def Nodes.get (s : Nodes) (i : Nat) : Slot := s.slots.getD i emptySlot
def Nodes.base (s : Nodes) (i : Nat) : Option Nat := (s.get i).1
def Nodes.check (s : Nodes) (i : Nat) : Option Nat := (s.get i).2

def memNat (c : Nat) : List Nat → Bool
  | [] => false
  | x :: t => Nat.beq c x || memNat c t

def eraseNat (c : Nat) : List Nat → List Nat
  | [] => []
  | x :: t => if Nat.beq c x then t else x :: eraseNat c t

/-- `empties::expand_empties`: append `n` unused slots and add them to the free set. -/
def Nodes.expand (s : Nodes) (n : Nat) : Nodes :=
  { slots := s.slots ++ List.replicate n emptySlot,
    free := s.free ++ (List.range n).map (· + s.size) }

def Nodes.setCheck (s : Nodes) (i : Nat) (c : Option Nat) : Nodes :=
  { s with slots := s.slots.set i ((s.get i).1, c) }

def Nodes.setBase (s : Nodes) (i : Nat) (b : Option Nat) : Nodes :=
  { s with slots := s.slots.set i (b, (s.get i).2) }

/-- `Nodes::record_transition_at(idx, label)`: returns the new state and the child index.
`none` = panic (`idx` out of range, or its base unused: `Base + Label` asserts). -/
def Nodes.recordTransition (s : Nodes) (idx label : Nat) : Option (Nodes × Nat) :=
  if idx < s.size then
    match s.base idx with
    | some b =>
      let ci := b + label
      let s1 := if s.size ≤ ci then s.expand (ci - s.size + 1) else s
      let s2 : Nodes := { s1 with free := eraseNat ci s1.free }
      some (s2.setCheck ci (some idx), ci)
    | none => none
  else none

/-- `Nodes::find_labels_of(idx)` with labels tried in ascending order 1..nLabels. -/
def Nodes.findLabelsOf (s : Nodes) (idx nLabels : Nat) : List Nat :=
  match s.base idx with
  | some b => (List.range nLabels).filterMap fun k =>
      let l := k + 1
      if s.check (b + l) = some idx then some l else none
  | none => []

def minList : List Nat → Nat
  | [] => 0
  | [a] => a
  | a :: t => min a (minList t)

/-- The base `t` is one the loop of `xcheck` can return: `t + min` is in the free set (it is the
`e` the loop is looking at) and every other `t + label` is in the free set. -/
def Nodes.admissible (s : Nodes) (labels : List Nat) (t : Nat) : Bool :=
  labels.all fun l => memNat (t + l) s.free

/-- `Nodes::xcheck(labels)` given the base it returned (`choice`). -/
def Nodes.xcheck (s : Nodes) (labels : List Nat) (choice : Nat) : Res Nat :=
  if labels.isEmpty then .panic                      -- assert!(!labels.is_empty())
  else if s.admissible labels choice then .ok choice
  else if choice = s.size ∧
      (s.free.all fun e => !(minList labels ≤ e && s.admissible labels (e - minList labels))) then
    .ok s.size
  else .badOracle

def reparentSlot (old idx : Nat) (sl : Slot) : Slot :=
  if sl.2 = some old then (sl.1, some idx) else sl

/-- The moved child takes over the base of the old one and the grandchildren are re-parented.
Re-parenting is written as a map over all slots: under the structural invariant the slots whose
check is the old child are exactly those `find_labels_of` finds. -/
def Nodes.reparent (s1 : Nodes) (old idx : Nat) : Nodes :=
  match s1.base old with
  | some _ =>
    let s' := s1.setBase idx (s1.base old)
    { s' with slots := s'.slots.map (reparentSlot old idx) }
  | none => s1

/-- The old slot is cleared and returned to the free set. -/
def Nodes.release (s2 : Nodes) (old : Nat) : Nodes :=
  { slots := s2.slots.set old emptySlot,
    free := if memNat old s2.free then s2.free else s2.free ++ [old] }

/-- One child of `node` moves from `oldBase + l` to `newBase + l` (body of the loop of `rebase`). -/
def Nodes.moveChild (s : Nodes) (node oldBase l : Nat) : Option Nodes :=
  match s.recordTransition node l with
  | none => none
  | some (s1, idx) =>
    let old := oldBase + l
    if old < s1.size then
      if node = old then none     -- assert!(*node != old_transitted_node_idx)
      else some ((s1.reparent old idx).release old)
    else none

def Nodes.moveChildren (s : Nodes) (node oldBase : Nat) : List Nat → Option Nodes
  | [] => some s
  | l :: t => (s.moveChild node oldBase l).bind fun s' => s'.moveChildren node oldBase t

/-- `Nodes::rebase(node, new_base)`. -/
def Nodes.rebase (s : Nodes) (node newBase nLabels : Nat) : Option Nodes :=
  if node < s.size then
    match s.base node with
    | some oldBase =>
      let transitions := s.findLabelsOf node nLabels
      (s.setBase node (some newBase)).moveChildren node oldBase transitions
    | none => (s.setBase node (some newBase)).moveChildren node 0 []   -- base_unchecked on an unused base: no children
  else none

structure Trie where
  nodes : Nodes
  alpha : List Nat      -- `Labels`: character at index i has label i+1; terminal label = length+1
  deriving Repr, DecidableEq

def Trie.fromKeys (alpha : List Nat) : Trie := { nodes := Nodes.init, alpha := alpha }

def indexOf (c : Nat) : List Nat → Option Nat
  | [] => none
  | x :: t => if Nat.beq c x then some 0 else (indexOf c t).map (· + 1)

def Trie.nLabels (t : Trie) : Nat := t.alpha.length + 1
def Trie.terminal (t : Trie) : Nat := t.alpha.length + 1

/-- `Labels::key_to_labels`: labels of the characters followed by the terminal label. -/
def keyLabels (alpha : List Nat) : List Nat → Option (List Nat)
  | [] => some []
  | c :: t => match indexOf c alpha, keyLabels alpha t with
    | some i, some r => some ((i + 1) :: r)
    | _, _ => none

def Trie.keyToLabels (t : Trie) (key : List Nat) : Option (List Nat) :=
  (keyLabels t.alpha key).map (· ++ [t.terminal])

/-- Base of the current node, allocating one through `xcheck` when it is unused;
`oracle` = bases returned by the `xcheck` calls still to come. -/
def insertBase (s : Nodes) (current label : Nat) (oracle : List Nat) : Res (Nodes × Nat × List Nat) :=
  match s.base current with
  | some b => .ok (s, b, oracle)
  | none =>
    match oracle with
    | [] => .badOracle
    | c :: rest =>
      match s.xcheck [label] c with
      | .ok b => .ok (s.setBase current (some b), b, rest)
      | .reject => .reject | .panic => .panic | .badOracle => .badOracle

/-- Follow, or create, the transition `label` of `current` whose base is `b`. -/
def insertTail (nl : Nat) (s1 : Nodes) (current label b : Nat) (oracle1 : List Nat) :
    Res (Nodes × Nat × List Nat) :=
  match s1.check (b + label) with
  | some n =>
    if n = current then .ok (s1, b + label, oracle1)
    else
      -- move_conflicted, then record the transition
      match oracle1 with
      | [] => .badOracle
      | c :: rest =>
        match s1.xcheck (s1.findLabelsOf current nl ++ [label]) c with
        | .ok nb =>
          match s1.rebase current nb nl with
          | some s2 =>
            match s2.recordTransition current label with
            | some (s3, t) => .ok (s3, t, rest)
            | none => .panic
          | none => .panic
        | .reject => .reject | .panic => .panic | .badOracle => .badOracle
  | none =>
    match s1.recordTransition current label with
    | some (s2, t) => .ok (s2, t, oracle1)
    | none => .panic

/-- The per-label body of `Trie::insert`. -/
def insertStep (nl : Nat) (s : Nodes) (current label : Nat) (oracle : List Nat) :
    Res (Nodes × Nat × List Nat) :=
  if current < s.size then
    match insertBase s current label oracle with
    | .ok (s1, b, oracle1) => insertTail nl s1 current label b oracle1
    | .reject => .reject | .panic => .panic | .badOracle => .badOracle
  else .reject      -- `base_of(&current)` is None: `return Err(())`

def insertLoop (nl : Nat) : Nodes → Nat → List Nat → List Nat → Res (Nodes × List Nat)
  | s, _, [], oracle => .ok (s, oracle)
  | s, current, l :: ls, oracle =>
    match insertStep nl s current l oracle with
    | .ok (s', cur', oracle') => insertLoop nl s' cur' ls oracle'
    | .reject => .reject | .panic => .panic | .badOracle => .badOracle

/-- `Trie::insert(key)`; returns the new trie and the unused part of the oracle. -/
def Trie.insert (t : Trie) (key : List Nat) (oracle : List Nat) : Res (Trie × List Nat) :=
  match t.keyToLabels key with
  | none => .reject
  | some labels =>
    match insertLoop t.nLabels t.nodes 0 labels oracle with
    | .ok (s, rest) => .ok ({ t with nodes := s }, rest)
    | .reject => .reject | .panic => .panic | .badOracle => .badOracle

/-- One step of `Trie::search`. -/
def Nodes.child (s : Nodes) (p l : Nat) : Option Nat :=
  match s.base p with
  | some b => if s.check (b + l) = some p then some (b + l) else none
  | none => none

def Nodes.walk (s : Nodes) : Nat → List Nat → Option Nat
  | p, [] => some p
  | p, l :: ls => match s.child p l with
    | some q => s.walk q ls
    | none => none

/-- `Trie::search(key)`: the index of the terminal node, if the key is present. -/
def Trie.search (t : Trie) (key : List Nat) : Option Nat :=
  match t.keyToLabels key with
  | none => none
  | some labels => t.nodes.walk 0 labels

end Chokan.Trie
