/-
C01 — every candidate re-reads to exactly the input; only a leading run is converted.

Model: Chokan.Model.Kkc.  Proof: the lattice invariant through the five construction passes and the
forward pass (Lemmas/KkcLattice), `previous`-linked chains through the A* loop using only that the heap
returns what was put in (Lemmas/KkcSearch), and the tiling of a bos→eos chain (Lemmas/KkcTiling).
The theorem holds for every table (`Tables`), dictionary, context, learned data, `n` and fuel.
-/
import Chokan.Lemmas.KkcTiling

namespace Chokan.Props.C01
open Chokan.Kkc Chokan.Dic

/-- **C01.** For every well-formed dictionary (every word stored under its own non-empty reading — true of
every dictionary the builder and the server's updater produce: C11_sound), every non-empty input, context,
learned-count state, `n` and search budget, each returned candidate is `bos :: mid ++ [eos]` where
 * `mid` is non-empty and consists of lattice nodes,
 * the readings of `mid` concatenated are exactly the input,
 * the candidate text is the concatenation of the written forms of `mid`,
 * every node of `mid` except possibly the last is a dictionary word (only the tail may be unconverted),
 * the first node of `mid` is a dictionary word (conversion starts at the first character). -/
theorem C01 (t : Tables) (input : Str) (d : Dict) (ctx : Ctx) (f : Freq) (n fuel : Nat) (cs : List Cand)
    (hd : Dict.WF d) (hin : input ≠ []) (h : getCandidates t input d ctx f n fuel = some cs) :
    ∀ c ∈ cs, ∃ mid : List Node, c.chain = Node.bos :: (mid ++ [Node.eos]) ∧ mid ≠ [] ∧
      readings mid = input ∧ c.text = (mid.map Node.text).flatten ∧
      (∀ m ∈ mid.dropLast, isWord m = true) ∧ (∃ hd tl, mid = hd :: tl ∧ isWord hd = true) ∧
      (∀ m ∈ mid, m ≠ .bos ∧ m ≠ .eos) := by
  intro c hc
  unfold getCandidates at h
  cases hg : fromInput t input d ctx with
  | none => simp [hg] at h
  | some g =>
    simp only [hg, Option.map_some, Option.some.injEq] at h
    subst h
    have hg0 := fromInput_ok t input d ctx hd g hg
    have hg1 := forwardDp_ok t ctx f input g hg0
    have hn : 0 < input.length := List.length_pos_iff.2 hin
    obtain ⟨hchain, r, hr⟩ := nBest_chains t ctx f _ n fuel c hc
    rw [hr] at hchain
    obtain ⟨mid, hmid, hne, hread, hinG, hwords, hfirst⟩ := chain_tiles input _ hg1 hn r hchain
    refine ⟨mid, by rw [hr, hmid], hne, hread, ?_, hwords, hfirst, ?_⟩
    · simp [Cand.text, hr, hmid, Node.text]
    · intro m hm
      have hok := (inG_ok input _ hg1 m (hinG m hm)).1
      constructor <;> (intro he; subst he; exact hok)

/-- The candidate text is the concatenation of the parts' written forms (by definition of `Display`). -/
theorem C01_text (c : Cand) : c.text = (c.chain.map Node.text).flatten := rfl

/-- The hypothesis of `C01` is met: words found by a look-up carry exactly the looked-up key as reading. -/
theorem C01_lookup_reading (d : Dict) (h : Dict.WF d) (key : Str) (w : Word) :
    (w ∈ lookup d.stdTrie d.std key → w.reading = key ∧ key ≠ []) ∧
    (w ∈ lookup d.ancTrie d.anc key → w.reading = key ∧ key ≠ []) := by
  constructor
  · intro hw
    obtain ⟨_, ws, hm, hws⟩ := lookup_sound _ _ key w hw
    exact ⟨(h.1 _ hm).2 w hws, (h.1 _ hm).1⟩
  · intro hw
    obtain ⟨_, ws, hm, hws⟩ := lookup_sound _ _ key w hw
    exact ⟨(h.2 _ hm).2 w hws, (h.2 _ hm).1⟩

/-- Non-vacuity: the repository's own example sentence with its test dictionary (車 / 来る / 繰る, まで, で). -/
def exTables : Tables :=
  { wordEdges := Chokan.Gen.Kkc.wordEdges, virtEdges := Chokan.Gen.Kkc.virtEdges, headEdges := Chokan.Gen.Kkc.headEdges,
    mergeHead := Chokan.Gen.Kkc.mergeHead, properBonus := Chokan.Gen.Kkc.properBonus }
def exDict : Dict :=
  { std := [([0x304F, 0x308B, 0x307E], [⟨[0x8ECA], [0x304F, 0x308B, 0x307E], .noun .common⟩])],
    stdTrie := [[0x304F, 0x308B, 0x307E]],
    anc := [([0x3067], [⟨[0x3067], [0x3067], .particle .case⟩])], ancTrie := [[0x3067]] }
example : Dict.WF exDict := by
  constructor <;> intro p hp <;> simp [exDict] at hp <;> subst hp <;> simp
example : (getCandidates exTables [0x304F, 0x308B, 0x307E, 0x3067] exDict .normal [] 3 100).map (·.map Cand.text) =
    some [[0x8ECA, 0x3067]] := by decide +kernel

end Chokan.Props.C01
