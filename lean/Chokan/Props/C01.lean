/-
C01 — every candidate re-reads to exactly the input; only a leading run is converted.

The full statement is `C01_statement`.  Its proof (lattice invariant through the five construction
passes + `previous`-linked chains in the A* loop) is work in progress; meanwhile the tiling oracle is
evaluated on every candidate the implementation returns in the correspondence run.
-/
import Chokan.Lemmas.Kkc

namespace Chokan.Props.C01
open Chokan.Kkc Chokan.Dic

/-- Dictionary well-formedness: every word is stored under its own non-empty reading. -/
def Dict.WF (d : Dict) : Prop :=
  (∀ p ∈ d.std, p.1 ≠ [] ∧ ∀ w ∈ p.2, w.reading = p.1) ∧ (∀ p ∈ d.anc, p.1 ≠ [] ∧ ∀ w ∈ p.2, w.reading = p.1)

def isVirt : Node → Bool
  | .virt _ _ _ _ => true
  | _ => false

def nodeReading : Node → Str
  | .word _ _ w _ => w.reading
  | .virt _ _ s _ => s
  | _ => []

/-- Full-strength statement of the tiling property. -/
def C01_statement : Prop :=
  ∀ (t : Tables) (input : Str) (d : Dict) (ctx : Ctx) (f : Freq) (n fuel : Nat) (cs : List Cand),
    Dict.WF d → input ≠ [] → 1 ≤ n → getCandidates t input d ctx f n fuel = some cs →
    ∀ c ∈ cs, ∃ (mid : List Node), c.chain = Node.bos :: (mid ++ [Node.eos]) ∧ mid ≠ [] ∧
      (mid.map nodeReading).flatten = input ∧ c.text = (mid.map Node.text).flatten ∧
      (∀ m ∈ mid.dropLast, isVirt m = false) ∧ (∀ m ∈ mid, m ≠ .bos ∧ m ≠ .eos)

/-- The candidate text is the concatenation of the parts' written forms (by definition of `Display`). -/
theorem C01_text (c : Cand) : c.text = (c.chain.map Node.text).flatten := rfl

/-- Words found for a key carry exactly the key as their reading (under `Dict.WF`). -/
theorem C01_lookup_reading (d : Dict) (h : Dict.WF d) (key : Str) (w : Word) :
    (w ∈ lookup d.stdTrie d.std key → w.reading = key ∧ key ≠ []) ∧
    (w ∈ lookup d.ancTrie d.anc key → w.reading = key ∧ key ≠ []) := by
  constructor
  · intro hw
    obtain ⟨_, ws, hm, hws⟩ := lookup_sound _ _ key w hw
    exact ⟨(h.1 _ hm).2 w hws, (h.1 _ hm).1⟩
  · intro hw
    obtain ⟨_, ws, hm, hws⟩ := lookup_sound _ _ key w hw
    exact ⟨(h.2 _ hm).2 w hws, (h.2 _ hm).1⟩

end Chokan.Props.C01
