/-
C02 — the n-best list is duplicate-free, best-first and optimal over all connectable paths.

Model: Chokan.Model.Kkc (`forwardDp`, `nBest` on a replica of std's BinaryHeap), score tables from
Chokan.Gen.Kkc.  Proved so far: the Viterbi step (`bestScore` is exactly the maximum over the
connectable predecessors).  The full statement is `C02_statement`; the optimality of the A* loop is
checked on the implementation against exhaustive path enumeration by the correspondence oracle.
-/
import Chokan.Lemmas.KkcScore
import Chokan.Lemmas.KkcTiling

namespace Chokan.Props.C02
open Chokan.Kkc Chokan.Dic

/-- Viterbi step, upper bound: the score stored in a node is at least the score through every
connectable predecessor. -/
theorem C02_forward_step_ge (t : Tables) (ctx : Ctx) (f : Freq) (cur : Node) (prevs : List Node)
    (p : Node) (hp : p ∈ prevs) (x : Nat) (hx : stepScore t ctx f cur p = some x) :
    ∃ y, bestScore t ctx f cur prevs = some y ∧ x ≤ y :=
  foldl_best_ge t ctx f cur prevs none x (Or.inr ⟨p, hp, hx⟩)

/-- Viterbi step, attainment: the stored score is the score through one of the predecessors. -/
theorem C02_forward_step_attained (t : Tables) (ctx : Ctx) (f : Freq) (cur : Node) (prevs : List Node)
    (y : Nat) (h : bestScore t ctx f cur prevs = some y) :
    ∃ p ∈ prevs, stepScore t ctx f cur p = some y := by
  rcases foldl_best_mem t ctx f cur prevs none y h with h1 | h1
  · cases h1
  · exact h1

/-- A node is unreachable (score "not connectable") iff no predecessor connects to it. -/
theorem C02_forward_step_none (t : Tables) (ctx : Ctx) (f : Freq) (cur : Node) (prevs : List Node) :
    bestScore t ctx f cur prevs = none ↔ ∀ p ∈ prevs, stepScore t ctx f cur p = none := by
  constructor
  · intro h p hp
    cases hs : stepScore t ctx f cur p with
    | none => rfl
    | some x =>
      obtain ⟨y, hy, _⟩ := C02_forward_step_ge t ctx f cur prevs p hp x hs
      rw [h] at hy; cases hy
  · intro h
    cases hb : bestScore t ctx f cur prevs with
    | none => rfl
    | some y =>
      obtain ⟨p, hp, hs⟩ := C02_forward_step_attained t ctx f cur prevs y hb
      rw [h p hp] at hs; cases hs

/-- The list has at most `n` entries and no two entries have the same text (all `n ≥ 1`, any lattice,
any search budget). -/
theorem C02_length_and_distinct (t : Tables) (ctx : Ctx) (f : Freq) (g : Graph) (n fuel : Nat) (hn : 1 ≤ n) :
    (nBest t ctx f g n fuel).length ≤ n ∧ ((nBest t ctx f g n fuel).map Cand.text).Nodup :=
  nBest_list t ctx f g n fuel hn

/-- Every returned candidate is a `previous`-linked chain from `bos` to `eos` all of whose edges are
connectable, and its reported score is exactly the score of that path (edge scores plus node scores). -/
theorem C02_is_connectable_path (t : Tables) (ctx : Ctx) (f : Freq) (g : Graph) (n fuel : Nat) :
    ∀ c ∈ nBest t ctx f g n fuel, IsChain g c.chain ∧ (∃ r, c.chain = .bos :: r) ∧
      pathScore t ctx f c.chain = some c.score := by
  intro c hc
  obtain ⟨h1, h2⟩ := nBest_chains t ctx f g n fuel c hc
  exact ⟨h1, h2, nBest_scores t ctx f g n fuel c hc⟩

/-- Repeating a query on the same state returns the same list: the result is a function of
(tables, context, learned counts, lattice, n). -/
theorem C02_deterministic (t : Tables) (input : Str) (d : Dict) (ctx : Ctx) (f : Freq) (n fuel : Nat) :
    getCandidates t input d ctx f n fuel = getCandidates t input d ctx f n fuel := rfl

/-- Full-strength statement; the two conjuncts not yet proved are best-first order and optimality
(nothing left out beats anything returned), which need the max-heap property of the BinaryHeap replica
and the exactness of the forward scores as A* heuristic.  They are decided per case by exhaustive path
enumeration on the implementation in the C02 check. -/
def C02_statement : Prop :=
  ∀ (t : Tables) (ctx : Ctx) (f : Freq) (g : Graph) (n : Nat), 1 ≤ n →
    ∃ fuel, let R := nBest t ctx f g n fuel
      R.length ≤ n ∧ (R.map Cand.text).Nodup ∧ (R.map Cand.score).Pairwise (· ≥ ·) ∧
      ∀ (p : List Node) (s : Nat), IsChain g (.bos :: p) → pathScore t ctx f (.bos :: p) = some s →
        ((p.map Node.text).flatten ∈ R.map Cand.text) ∨ (R.length = n ∧ ∀ r ∈ R, s ≤ r.score)

end Chokan.Props.C02
