/-
C02 — the n-best list is duplicate-free, best-first and optimal over all connectable paths.

Model: Chokan.Model.Kkc (`forwardDp`, `nBest` on a replica of std's BinaryHeap), score tables from
Chokan.Gen.Kkc.  Proved: the Viterbi step, length/distinctness, every result is a connectable path with
its exact score, and `C02` — best-first order and optimality over all connectable paths whenever the
loop ends by itself.  Not proved: that the loop always ends (`C02_statement`).
-/
import Chokan.Lemmas.KkcScore
import Chokan.Lemmas.KkcTiling
import Chokan.Lemmas.KkcAstar
import Chokan.Lemmas.KkcTermination

namespace Chokan.Props.C02
open Chokan.Kkc Chokan.Dic

/-- Viterbi step, upper bound: the score stored in a node is at least the score through every
connectable predecessor. -/
theorem C02_forward_step_ge (t : Tables) (ctx : Ctx) (f : Freq) (cur : Node) (prevs : List Node)
    (p : Node) (hp : p ∈ prevs) (x : Nat) (hx : stepScore t ctx f cur p = some x) :
    ∃ y, bestScore t ctx f cur prevs = some y ∧ x ≤ y :=
  foldl_best_ge t ctx f cur prevs none x (Or.inr ⟨p, hp, hx⟩)

/-- Viterbi step, attainment: the stored score is the score through one of the predecessors. -/
theorem C02_forward_step_attained (t : Tables) (ctx : Ctx) (f : Freq) (cur : Node) (prevs : List Node)
    (y : Nat) (h : bestScore t ctx f cur prevs = some y) :
    ∃ p ∈ prevs, stepScore t ctx f cur p = some y := by
  rcases foldl_best_mem t ctx f cur prevs none y h with h1 | h1
  · cases h1
  · exact h1

/-- A node is unreachable (score "not connectable") iff no predecessor connects to it. -/
theorem C02_forward_step_none (t : Tables) (ctx : Ctx) (f : Freq) (cur : Node) (prevs : List Node) :
    bestScore t ctx f cur prevs = none ↔ ∀ p ∈ prevs, stepScore t ctx f cur p = none := by
  constructor
  · intro h p hp
    cases hs : stepScore t ctx f cur p with
    | none => rfl
    | some x =>
      obtain ⟨y, hy, _⟩ := C02_forward_step_ge t ctx f cur prevs p hp x hs
      rw [h] at hy; cases hy
  · intro h
    cases hb : bestScore t ctx f cur prevs with
    | none => rfl
    | some y =>
      obtain ⟨p, hp, hs⟩ := C02_forward_step_attained t ctx f cur prevs y hb
      rw [h p hp] at hs; cases hs

/-- The list has at most `n` entries and no two entries have the same text (all `n ≥ 1`, any lattice,
any search budget). -/
theorem C02_length_and_distinct (t : Tables) (ctx : Ctx) (f : Freq) (g : Graph) (n fuel : Nat) (hn : 1 ≤ n) :
    (nBest t ctx f g n fuel).length ≤ n ∧ ((nBest t ctx f g n fuel).map Cand.text).Nodup :=
  nBest_list t ctx f g n fuel hn

/-- Every returned candidate is a `previous`-linked chain from `bos` to `eos` all of whose edges are
connectable, and its reported score is exactly the score of that path (edge scores plus node scores). -/
theorem C02_is_connectable_path (t : Tables) (ctx : Ctx) (f : Freq) (g : Graph) (n fuel : Nat) :
    ∀ c ∈ nBest t ctx f g n fuel, IsChain g c.chain ∧ (∃ r, c.chain = .bos :: r) ∧
      pathScore t ctx f c.chain = some c.score := by
  intro c hc
  obtain ⟨h1, h2⟩ := nBest_chains t ctx f g n fuel c hc
  exact ⟨h1, h2, nBest_scores t ctx f g n fuel c hc⟩

/-- Repeating a query on the same state returns the same list: the result is a function of
(tables, context, learned counts, lattice, n). -/
theorem C02_deterministic (t : Tables) (input : Str) (d : Dict) (ctx : Ctx) (f : Freq) (n fuel : Nat) :
    getCandidates t input d ctx f n fuel = getCandidates t input d ctx f n fuel := rfl

/-- **Best-first and optimal** (partial correctness of the A* loop).  For the lattice of any input
over any well-formed dictionary, after the forward pass, for every `n ≥ 1`: whenever the `while let`
loop ends by itself within `fuel` iterations (`nBestE … = some R`: the heap ran empty or `n` results
were collected), the list `R` it returns
* is what `nBest` returns, has at most `n` entries with pairwise different texts,
* is in non-increasing order of the engine's own path score,
* and is optimal over **all** connectable `bos → eos` paths of the lattice: every such path either has
  its text in `R`, or `R` has exactly `n` entries and none of them scores less than the path (so when
  fewer than `n` distinct texts exist, all of them are returned).
Proof: the heap replica is a max-heap (`Lemmas/KkcHeap`), the forward scores are exact Viterbi steps
(`Lemmas/KkcForward`), priorities bound the score of every completion and never grow from parent to
child, and every complete path keeps a suffix in the heap until it is output (`Lemmas/KkcAstar`). -/
theorem C02_best_first_optimal (t : Tables) (ctx : Ctx) (f : Freq) (input : Str) (g0 : Graph)
    (hg : GraphOK input g0) (n fuel : Nat) (hn : 1 ≤ n) (R : List Cand)
    (h : nBestE t ctx f (forwardDp t ctx f g0) n fuel = some R) :
    nBest t ctx f (forwardDp t ctx f g0) n fuel = R ∧
    R.length ≤ n ∧ (R.map Cand.text).Nodup ∧ (R.map Cand.score).Pairwise (· ≥ ·) ∧
    ∀ (p : List Node) (s : Nat), IsChain (forwardDp t ctx f g0) (.bos :: p) →
      pathScore t ctx f (.bos :: p) = some s →
      ((p.map Node.text).flatten ∈ R.map Cand.text) ∨ (R.length = n ∧ ∀ r ∈ R, s ≤ r.score) := by
  have hR := nBestE_some t ctx f _ n fuel R h
  have hF := forwardDp_fwdOK t ctx f input g0 hg
  obtain ⟨hsorted, hopt⟩ := nBestE_spec t ctx f _ n fuel hn hF R h
  obtain ⟨hlen, hnd⟩ := nBest_list t ctx f (forwardDp t ctx f g0) n fuel hn
  rw [hR] at hlen hnd
  refine ⟨hR, hlen, hnd, hsorted, ?_⟩
  intro p s hch hs
  rcases hopt (.bos :: p) s ⟨⟨p, rfl⟩, hch, hs⟩ with h1 | ⟨h2, h3⟩
  · left
    simpa [chainText, Node.text] using h1
  · exact Or.inr ⟨by omega, h3⟩

/-- The same at the level of `get_candidates`: any input, any well-formed dictionary, context,
learned counts and `n ≥ 1`. -/
theorem C02 (t : Tables) (input : Str) (d : Dict) (ctx : Ctx) (f : Freq) (n fuel : Nat) (hn : 1 ≤ n)
    (hd : Dict.WF d) (g0 : Graph) (hg0 : fromInput t input d ctx = some g0) (R : List Cand)
    (h : nBestE t ctx f (forwardDp t ctx f g0) n fuel = some R) :
    getCandidates t input d ctx f n fuel = some R ∧
    R.length ≤ n ∧ (R.map Cand.text).Nodup ∧ (R.map Cand.score).Pairwise (· ≥ ·) ∧
    ∀ (p : List Node) (s : Nat), IsChain (forwardDp t ctx f g0) (.bos :: p) →
      pathScore t ctx f (.bos :: p) = some s →
      ((p.map Node.text).flatten ∈ R.map Cand.text) ∨ (R.length = n ∧ ∀ r ∈ R, s ≤ r.score) := by
  have hg := fromInput_ok t input d ctx hd g0 hg0
  obtain ⟨h1, h2⟩ := C02_best_first_optimal t ctx f input g0 hg n fuel hn R h
  refine ⟨?_, h2⟩
  simp [getCandidates, hg0, h1]

/-- Full-strength statement: from some number of iterations on the loop ends by itself, always with
the same list, which is duplicate-free, best-first and optimal over all connectable paths of the lattice. -/
def C02_statement : Prop :=
  ∀ (t : Tables) (input : Str) (d : Dict) (ctx : Ctx) (f : Freq) (n : Nat), 1 ≤ n → Dict.WF d →
    ∀ g0, fromInput t input d ctx = some g0 →
    ∃ fuel0 R, ∀ fuel, fuel0 ≤ fuel →
      getCandidates t input d ctx f n fuel = some R ∧
      R.length ≤ n ∧ (R.map Cand.text).Nodup ∧ (R.map Cand.score).Pairwise (· ≥ ·) ∧
      ∀ (p : List Node) (s : Nat), IsChain (forwardDp t ctx f g0) (.bos :: p) →
        pathScore t ctx f (.bos :: p) = some s →
        ((p.map Node.text).flatten ∈ R.map Cand.text) ∨ (R.length = n ∧ ∀ r ∈ R, s ≤ r.score)

/-- **C02 at full strength**, termination of the `while let` loop included: the total weight of the
heap (each candidate weighs one plus all chains extending it) decreases with every iteration. -/
theorem C02_full : C02_statement := by
  intro t input d ctx f n hn hd g0 hg0
  have hg := fromInput_ok t input d ctx hd g0 hg0
  have hg' := forwardDp_ok t ctx f input g0 hg
  obtain ⟨fuel0, R, hR⟩ := nBestE_terminates t ctx f input (forwardDp t ctx f g0) hg' n
  refine ⟨fuel0, R, ?_⟩
  intro fuel hf
  have hR' : nBestE t ctx f (forwardDp t ctx f g0) n fuel = some R := by
    have := nBestE_mono t ctx f _ n fuel0 R hR (fuel - fuel0)
    rwa [show fuel0 + (fuel - fuel0) = fuel by omega] at this
  exact C02 t input d ctx f n fuel hn hd g0 hg0 R hR'

end Chokan.Props.C02
