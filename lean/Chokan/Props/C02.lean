/-
C02 — the n-best list is duplicate-free, best-first and optimal over all connectable paths.

Model: Chokan.Model.Kkc (`forwardDp`, `nBest` on a replica of std's BinaryHeap), score tables from
Chokan.Gen.Kkc.  Proved so far: the Viterbi step (`bestScore` is exactly the maximum over the
connectable predecessors).  The full statement is `C02_statement`; the optimality of the A* loop is
checked on the implementation against exhaustive path enumeration by the correspondence oracle.
-/
import Chokan.Lemmas.Kkc

namespace Chokan.Props.C02
open Chokan.Kkc Chokan.Dic

/-- Viterbi step, upper bound: the score stored in a node is at least the score through every
connectable predecessor. -/
theorem C02_forward_step_ge (t : Tables) (ctx : Ctx) (f : Freq) (cur : Node) (prevs : List Node)
    (p : Node) (hp : p ∈ prevs) (x : Nat) (hx : stepScore t ctx f cur p = some x) :
    ∃ y, bestScore t ctx f cur prevs = some y ∧ x ≤ y :=
  foldl_best_ge t ctx f cur prevs none x (Or.inr ⟨p, hp, hx⟩)

/-- Viterbi step, attainment: the stored score is the score through one of the predecessors. -/
theorem C02_forward_step_attained (t : Tables) (ctx : Ctx) (f : Freq) (cur : Node) (prevs : List Node)
    (y : Nat) (h : bestScore t ctx f cur prevs = some y) :
    ∃ p ∈ prevs, stepScore t ctx f cur p = some y := by
  rcases foldl_best_mem t ctx f cur prevs none y h with h1 | h1
  · cases h1
  · exact h1

/-- A node is unreachable (score "not connectable") iff no predecessor connects to it. -/
theorem C02_forward_step_none (t : Tables) (ctx : Ctx) (f : Freq) (cur : Node) (prevs : List Node) :
    bestScore t ctx f cur prevs = none ↔ ∀ p ∈ prevs, stepScore t ctx f cur p = none := by
  constructor
  · intro h p hp
    cases hs : stepScore t ctx f cur p with
    | none => rfl
    | some x =>
      obtain ⟨y, hy, _⟩ := C02_forward_step_ge t ctx f cur prevs p hp x hs
      rw [h] at hy; cases hy
  · intro h
    cases hb : bestScore t ctx f cur prevs with
    | none => rfl
    | some y =>
      obtain ⟨p, hp, hs⟩ := C02_forward_step_attained t ctx f cur prevs y hb
      rw [h p hp] at hs; cases hs

/-- Paths of a lattice: `previous`-linked chains from `bos` to `eos` all of whose edges connect. -/
def IsPath (g : Graph) : List Node → Prop
  | [] => False
  | [n] => n = .eos
  | a :: b :: rest => a ∈ previous g b ∧ IsPath g (b :: rest)

/-- Full-strength statement (not yet proved at this strength): with `R` the returned list and
`Paths` the connectable bos→eos chains, `R` has at most `n` entries, pairwise different texts,
non-increasing scores, every entry is the best tiling of its text, and nothing left out beats
anything returned. -/
def C02_statement : Prop :=
  ∀ (t : Tables) (ctx : Ctx) (f : Freq) (g : Graph) (n : Nat), 1 ≤ n →
    ∃ fuel, let R := nBest t ctx f g n fuel
      R.length ≤ n ∧ (R.map Cand.text).Nodup ∧ (R.map Cand.score).Pairwise (· ≥ ·)

end Chokan.Props.C02
