/-
C03 — conversion offers every matching dictionary word and only dictionary words.

Model: Chokan.Model.Kkc.  Soundness is proved for every candidate (`C03_sound`); completeness at the head
is proved at lattice level (`C03_head_word_is_node`) and at candidate level (`C03_complete_head`: with
the regenerated score tables the path word + rest is connectable, and the optimal search of C02 returns
it unless the list is cut at `n`), and likewise right after a leading prefix-affix
(`C03_complete_after_prefix`) for every word the engine's own connection rule lets follow a prefix.
-/
import Chokan.Lemmas.KkcSource
import Chokan.Lemmas.KkcComplete
import Chokan.Lemmas.KkcPrefix
import Chokan.Props.C02

namespace Chokan.Props.C03
open Chokan.Kkc Chokan.Dic

/-- Soundness of a look-up: a returned word is an entry of the map under the looked-up key, and the
trie reports that key. -/
theorem C03_lookup_sound (trie : List Str) (m : List (Str × List Word)) (key : Str) (w : Word)
    (h : w ∈ lookup trie m key) : key ∈ trie ∧ ∃ ws, (key, ws) ∈ m ∧ w ∈ ws :=
  lookup_sound trie m key w h

/-- A key the trie does not report yields no word (a trie false negative hides the entry: C04). -/
theorem C03_lookup_needs_trie (trie : List Str) (m : List (Str × List Word)) (key : Str)
    (h : key ∉ trie) : lookup trie m key = [] := by
  unfold lookup
  split
  · next ht =>
    obtain ⟨k, hk, hb⟩ := List.any_eq_true.1 ht
    rw [← (beqStr_iff _ _).1 hb] at hk
    exact absurd hk h
  · rfl

/-- **Soundness.** Every converted word inside any candidate is an entry of the loaded dictionary
(standard or ancillary) stored under its own reading, reported present by the corresponding trie, and
that reading is exactly the stretch of the input the part covers. -/
theorem C03_sound (t : Tables) (input : Str) (d : Dict) (ctx : Ctx) (f : Freq) (n fuel : Nat) (cs : List Cand)
    (hd : Dict.WF d) (hin : input ≠ []) (h : getCandidates t input d ctx f n fuel = some cs) :
    ∀ c ∈ cs, ∀ m ∈ c.chain, ∀ e i w fw, m = Node.word e i w fw →
      ((w.reading ∈ d.stdTrie ∧ ∃ ws, (w.reading, ws) ∈ d.std ∧ w ∈ ws) ∨
       (w.reading ∈ d.ancTrie ∧ ∃ ws, (w.reading, ws) ∈ d.anc ∧ w ∈ ws)) ∧
      slice input (e + 1 - w.reading.length) e = w.reading := by
  intro c hc m hm e i w fw hmw
  unfold getCandidates at h
  cases hg : fromInput t input d ctx with
  | none => simp [hg] at h
  | some g =>
    simp only [hg, Option.map_some, Option.some.injEq] at h
    subst h
    have hg0 := fromInput_ok t input d ctx hd g hg
    have hg1 := forwardDp_ok t ctx f input g hg0
    have hs1 := forwardDp_fromDict t ctx f d g (fromInput_fromDict t input d ctx hd g hg)
    have hn : 0 < input.length := List.length_pos_iff.2 hin
    obtain ⟨hchain, r, hr⟩ := nBest_chains t ctx f _ n fuel c hc
    rw [hr] at hchain
    obtain ⟨mid, hmid, _, _, hinG, _, _⟩ := chain_tiles input _ hg1 hn r hchain
    have hmmid : m ∈ mid := by
      rw [hr, hmid] at hm
      subst hmw
      simp only [List.mem_cons, List.mem_append, List.not_mem_nil, or_false] at hm
      rcases hm with h | h | h
      · cases h
      · exact h
      · cases h
    obtain ⟨j, l, hj, hml⟩ := hinG m hmmid
    have hsrc := hs1 j l hj m hml
    have hok := (hg1.2 j l hj m hml).1
    subst hmw
    constructor
    · rcases hsrc with hsrc | hsrc
      · left; exact lookup_sound _ _ _ w hsrc
      · right; exact lookup_sound _ _ _ w hsrc
    · exact hok.2.2.2

/-- **Completeness at the head, lattice level.** Every word the standard dictionary (trie + map) returns
for a non-empty prefix of the input is a node of the lattice ending where that prefix ends. -/
theorem C03_head_word_is_node (t : Tables) (input : Str) (d : Dict) (ctx : Ctx) (g : Graph)
    (hg : fromInput t input d ctx = some g) (i : Nat) (hi : i < input.length) (w : Word)
    (hw : w ∈ lookup d.stdTrie d.std (slice input 0 i)) :
    ∃ l idx, g[i]? = some l ∧ Node.word i idx w (some 0) ∈ l :=
  head_word_in_lattice t input d ctx g hg i hi w hw

/-- **Completeness at the head, candidate level.**  With the score tables regenerated from the source,
for every input, well-formed dictionary, context, learned counts and `n ≥ 1`: for every independent
word the standard dictionary returns for a non-empty prefix `input[0..=i]`, the candidate list (the
same from some number of loop iterations on) contains that word's written form followed by the rest of
the input verbatim — unless the list is full (`n` entries), i.e. always in the untruncated list. -/
theorem C03_complete_head (input : Str) (d : Dict) (ctx : Ctx) (f : Freq) (n : Nat) (hn : 1 ≤ n)
    (hd : Dict.WF d) (i : Nat) (hi : i < input.length) (w : Word)
    (hw : w ∈ lookup d.stdTrie d.std (slice input 0 i)) (hind : w.speech.isAncillary = false) :
    ∃ fuel0 R, ∀ fuel, fuel0 ≤ fuel →
      getCandidates genTables input d ctx f n fuel = some R ∧
      (w.word ++ input.drop (i + 1) ∈ R.map Cand.text ∨ R.length = n) := by
  have hg0 : ∃ g0, fromInput genTables input d ctx = some g0 := ⟨_, rfl⟩
  obtain ⟨g0, hg0⟩ := hg0
  obtain ⟨fuel0, R, hall⟩ := C02.C02_full genTables input d ctx f n hn hd g0 hg0
  obtain ⟨p, s, hch, hps, htext⟩ := head_path input d ctx f hd g0 hg0 i hi w hw hind
  refine ⟨fuel0, R, ?_⟩
  intro fuel hf
  obtain ⟨hget, _, _, _, hopt⟩ := hall fuel hf
  refine ⟨hget, ?_⟩
  rcases hopt p s hch hps with h | ⟨h, _⟩
  · left; rw [← htext]; exact h
  · exact Or.inr h

/-- **Completeness right after a leading prefix, candidate level.**  With the regenerated tables: for a
prefix-affix `P` of the ancillary dictionary whose reading is `input[0..=k]` and an independent standard
word `w` whose reading is `input[k+1..=i]`, if the engine's own connection rule lets `w` follow a prefix
(`firstMatch2 prefix w.speech = some _`, i.e. `get_edge_score` is not "not connectable"), the candidate
list contains the prefix's written form, the word's written form and the rest of the input verbatim —
unless the list is full (`n` entries). -/
theorem C03_complete_after_prefix (input : Str) (d : Dict) (ctx : Ctx) (f : Freq) (n : Nat) (hn : 1 ≤ n)
    (hd : Dict.WF d) (k : Nat) (P : Word) (hP : P ∈ lookup d.ancTrie d.anc (slice input 0 k))
    (hPsp : P.speech = .affix .prefix) (i : Nat) (hki : k + 1 ≤ i) (hi : i < input.length) (w : Word)
    (hw : w ∈ lookup d.stdTrie d.std (slice input (k + 1) i)) (hind : w.speech.isAncillary = false)
    (x : Nat) (hconn : firstMatch2 (.affix .prefix) w.speech genTables.wordEdges = some x) :
    ∃ fuel0 R, ∀ fuel, fuel0 ≤ fuel →
      getCandidates genTables input d ctx f n fuel = some R ∧
      (P.word ++ w.word ++ input.drop (i + 1) ∈ R.map Cand.text ∨ R.length = n) := by
  have hg0 : ∃ g0, fromInput genTables input d ctx = some g0 := ⟨_, rfl⟩
  obtain ⟨g0, hg0⟩ := hg0
  obtain ⟨fuel0, R, hall⟩ := C02.C02_full genTables input d ctx f n hn hd g0 hg0
  obtain ⟨p, s, hch, hps, htext⟩ := prefix_path input d ctx f hd g0 hg0 k P hP hPsp i hki hi w hw hind x hconn
  refine ⟨fuel0, R, ?_⟩
  intro fuel hf
  obtain ⟨hget, _, _, _, hopt⟩ := hall fuel hf
  refine ⟨hget, ?_⟩
  rcases hopt p s hch hps with h | ⟨h, _⟩
  · left; rw [← htext]; exact h
  · exact Or.inr h

/-- The connection rule of the regenerated table: which parts of speech may follow a prefix. -/
theorem C03_prefix_connects (sp : Speech) :
    (firstMatch2 (.affix .prefix) sp genTables.wordEdges).isSome = true ↔
      (Chokan.Gen.Kkc.wordEdges.find? fun r => r.1.matches (.affix .prefix) && r.2.1.matches sp).any
        (fun r => r.2.2.isSome) = true := by
  show (firstMatch2 (.affix .prefix) sp Chokan.Gen.Kkc.wordEdges).isSome = true ↔ _
  generalize Chokan.Gen.Kkc.wordEdges = l
  induction l with
  | nil => simp [firstMatch2]
  | cons a l ih =>
    obtain ⟨p, c, s⟩ := a
    unfold firstMatch2
    by_cases hm : (p.matches (.affix .prefix) && c.matches sp) = true
    · simp [hm, List.find?_cons]
    · have hm' : (p.matches (.affix .prefix) && c.matches sp) = false := by simpa using hm
      simp only [hm', Bool.false_eq_true, if_false, List.find?_cons]
      exact ih

/-! ### non-vacuity: a concrete dictionary meets the hypotheses, and the kernel evaluates the list -/

def exW1 : Word := { word := [34442], reading := [12363], speech := .noun .common }     -- 蚊 / か
def exW2 : Word := { word := [39321], reading := [12363], speech := .noun .common }     -- 香 / か
def exDict : Dict := { std := [([12363], [exW1, exW2])], stdTrie := [[12363]], anc := [], ancTrie := [] }

example : Dict.WF exDict := by
  refine ⟨?_, by intro p hp; cases hp⟩
  intro p hp
  simp only [exDict, List.mem_singleton] at hp
  subst hp
  refine ⟨by simp, ?_⟩
  intro w hw
  simp only [List.mem_cons, List.not_mem_nil, or_false] at hw
  rcases hw with rfl | rfl <;> rfl

/-- Input かか: both homophones are offered, each followed by the rest of the input verbatim, best first. -/
example : (getCandidates genTables [12363, 12363] exDict .normal [] 5 100).map (List.map fun c => (c.text, c.score))
    = some [([34442, 12363], 1), ([39321, 12363], 1)] := by decide +kernel

end Chokan.Props.C03
