/-
C03 — conversion offers every matching dictionary word and only dictionary words.

Model: Chokan.Model.Kkc.  Soundness is proved for every candidate (`C03_sound`); completeness is proved
at lattice level (`C03_head_word_is_node`): the candidate-level claim additionally needs the
completeness of the A* enumeration (C02), which is checked per case by the executable oracle.
-/
import Chokan.Lemmas.KkcSource

namespace Chokan.Props.C03
open Chokan.Kkc Chokan.Dic

/-- Soundness of a look-up: a returned word is an entry of the map under the looked-up key, and the
trie reports that key. -/
theorem C03_lookup_sound (trie : List Str) (m : List (Str × List Word)) (key : Str) (w : Word)
    (h : w ∈ lookup trie m key) : key ∈ trie ∧ ∃ ws, (key, ws) ∈ m ∧ w ∈ ws :=
  lookup_sound trie m key w h

/-- A key the trie does not report yields no word (a trie false negative hides the entry: C04). -/
theorem C03_lookup_needs_trie (trie : List Str) (m : List (Str × List Word)) (key : Str)
    (h : key ∉ trie) : lookup trie m key = [] := by
  unfold lookup
  split
  · next ht =>
    obtain ⟨k, hk, hb⟩ := List.any_eq_true.1 ht
    rw [← (beqStr_iff _ _).1 hb] at hk
    exact absurd hk h
  · rfl

/-- **Soundness.** Every converted word inside any candidate is an entry of the loaded dictionary
(standard or ancillary) stored under its own reading, reported present by the corresponding trie, and
that reading is exactly the stretch of the input the part covers. -/
theorem C03_sound (t : Tables) (input : Str) (d : Dict) (ctx : Ctx) (f : Freq) (n fuel : Nat) (cs : List Cand)
    (hd : Dict.WF d) (hin : input ≠ []) (h : getCandidates t input d ctx f n fuel = some cs) :
    ∀ c ∈ cs, ∀ m ∈ c.chain, ∀ e i w fw, m = Node.word e i w fw →
      ((w.reading ∈ d.stdTrie ∧ ∃ ws, (w.reading, ws) ∈ d.std ∧ w ∈ ws) ∨
       (w.reading ∈ d.ancTrie ∧ ∃ ws, (w.reading, ws) ∈ d.anc ∧ w ∈ ws)) ∧
      slice input (e + 1 - w.reading.length) e = w.reading := by
  intro c hc m hm e i w fw hmw
  unfold getCandidates at h
  cases hg : fromInput t input d ctx with
  | none => simp [hg] at h
  | some g =>
    simp only [hg, Option.map_some, Option.some.injEq] at h
    subst h
    have hg0 := fromInput_ok t input d ctx hd g hg
    have hg1 := forwardDp_ok t ctx f input g hg0
    have hs1 := forwardDp_fromDict t ctx f d g (fromInput_fromDict t input d ctx hd g hg)
    have hn : 0 < input.length := List.length_pos_iff.2 hin
    obtain ⟨hchain, r, hr⟩ := nBest_chains t ctx f _ n fuel c hc
    rw [hr] at hchain
    obtain ⟨mid, hmid, _, _, hinG, _, _⟩ := chain_tiles input _ hg1 hn r hchain
    have hmmid : m ∈ mid := by
      rw [hr, hmid] at hm
      subst hmw
      simp only [List.mem_cons, List.mem_append, List.not_mem_nil, or_false] at hm
      rcases hm with h | h | h
      · cases h
      · exact h
      · cases h
    obtain ⟨j, l, hj, hml⟩ := hinG m hmmid
    have hsrc := hs1 j l hj m hml
    have hok := (hg1.2 j l hj m hml).1
    subst hmw
    constructor
    · rcases hsrc with hsrc | hsrc
      · left; exact lookup_sound _ _ _ w hsrc
      · right; exact lookup_sound _ _ _ w hsrc
    · exact hok.2.2.2

/-- **Completeness at the head, lattice level.** Every word the standard dictionary (trie + map) returns
for a non-empty prefix of the input is a node of the lattice ending where that prefix ends. -/
theorem C03_head_word_is_node (t : Tables) (input : Str) (d : Dict) (ctx : Ctx) (g : Graph)
    (hg : fromInput t input d ctx = some g) (i : Nat) (hi : i < input.length) (w : Word)
    (hw : w ∈ lookup d.stdTrie d.std (slice input 0 i)) :
    ∃ l idx, g[i]? = some l ∧ Node.word i idx w (some 0) ∈ l :=
  head_word_in_lattice t input d ctx g hg i hi w hw

end Chokan.Props.C03
