/-
C03 — conversion offers every matching dictionary word and only dictionary words.

Proved so far (model level): every word the lattice construction can push comes from the
dictionary under exactly the key that was looked up, and only when the trie reports the key.
-/
import Chokan.Lemmas.Kkc

namespace Chokan.Props.C03
open Chokan.Kkc Chokan.Dic

/-- Soundness of a look-up: a returned word is an entry of the map under the looked-up key, and the
trie reports that key. -/
theorem C03_lookup_sound (trie : List Str) (m : List (Str × List Word)) (key : Str) (w : Word)
    (h : w ∈ lookup trie m key) : key ∈ trie ∧ ∃ ws, (key, ws) ∈ m ∧ w ∈ ws :=
  lookup_sound trie m key w h

/-- A key the trie does not report yields no word (a trie false negative hides the entry: C04). -/
theorem C03_lookup_needs_trie (trie : List Str) (m : List (Str × List Word)) (key : Str)
    (h : key ∉ trie) : lookup trie m key = [] := by
  unfold lookup
  split
  · next ht =>
    obtain ⟨k, hk, hb⟩ := List.any_eq_true.1 ht
    rw [← (beqStr_iff _ _).1 hb] at hk
    exact absurd hk h
  · rfl

end Chokan.Props.C03
