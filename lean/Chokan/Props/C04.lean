/-
C04 — The double-array trie behaves as an exact set of keys under any insertion history.

Model: Chokan.Model.Trie (hand-written from libs/trie; tied by the two-pass correspondence run that
replays the implementation's own `xcheck` choices and compares complete states).
-/
import Chokan.Model.Trie

namespace Chokan.Props.C04
open Chokan.Trie

/-- One operation of a history: insert a key (with the bases the `xcheck` calls of this insertion
return), or a clone / serialize+deserialize round trip (the identity on the abstract state). -/
inductive Op
  | insert (key : List Nat) (oracle : List Nat)
  | roundTrip

/-- Run a history; `none` when an oracle is not one the implementation could produce, or on a panic. -/
def run (t : Trie) : List Op → Option Trie
  | [] => some t
  | .roundTrip :: ops => run t ops
  | .insert key oracle :: ops =>
    match t.insert key oracle with
    | .ok (t', _) => run t' ops
    | .reject => run t ops          -- `Err(())`: the caller goes on with the unchanged trie
    | .panic => none
    | .badOracle => none

def insertedKeys : List Op → List (List Nat)
  | [] => []
  | .roundTrip :: ops => insertedKeys ops
  | .insert key _ :: ops => key :: insertedKeys ops

/-- Full-strength statement of the property (see `C04` for what is proved so far). -/
def C04_statement : Prop :=
  ∀ (alpha : List Nat), alpha.Nodup → 0 < alpha.length → alpha.length ≤ 254 →
  ∀ (ops : List Op) (t : Trie), run (Trie.fromKeys alpha) ops = some t →
  ∀ key, (t.search key).isSome ↔ (key ∈ insertedKeys ops ∧ ∀ c ∈ key, c ∈ alpha)

theorem keyLabels_none_of_not_mem (alpha : List Nat) :
    ∀ key : List Nat, (∃ c ∈ key, c ∉ alpha) → keyLabels alpha key = none
  | [], h => by obtain ⟨c, hc, _⟩ := h; cases hc
  | c :: t, h => by
    unfold keyLabels
    cases hi : indexOf c alpha with
    | none => rfl
    | some i =>
      have hmem : ∀ (l : List Nat) (j : Nat), indexOf c l = some j → c ∈ l := by
        intro l
        induction l with
        | nil => intro j h; simp [indexOf] at h
        | cons x xs ih =>
          intro j h
          unfold indexOf at h
          split at h
          · next hb => rw [Nat.eq_of_beq_eq_true hb]; exact List.mem_cons_self
          · cases hx : indexOf c xs with
            | none => simp [hx] at h
            | some k => exact List.mem_cons_of_mem _ (ih k hx)
      have hc : c ∈ alpha := hmem alpha i hi
      obtain ⟨d, hd, hnd⟩ := h
      rcases List.mem_cons.1 hd with rfl | hd
      · exact absurd hc hnd
      · rw [keyLabels_none_of_not_mem alpha t ⟨d, hd, hnd⟩]

/-- Keys containing a character outside the alphabet are rejected, whatever the oracle; the caller
keeps the unchanged trie (`insert` returns no new state), and such keys are never found. -/
theorem C04_reject (t : Trie) (key oracle : List Nat) (h : ∃ c ∈ key, c ∉ t.alpha) :
    t.insert key oracle = .reject ∧ t.search key = none := by
  have := keyLabels_none_of_not_mem t.alpha key h
  simp [Trie.insert, Trie.search, Trie.keyToLabels, this]

/-- A clone / serde round trip changes nothing observable. -/
theorem C04_roundtrip (t : Trie) (ops : List Op) : run t (.roundTrip :: ops) = run t ops := rfl

end Chokan.Props.C04
