/-
C04 — The double-array trie behaves as an exact set of keys under any insertion history.

Model: Chokan.Model.Trie (hand-written from libs/trie; tied by the two-pass correspondence run that
replays the implementation's own `xcheck` choices and compares complete states).

`C04` is the full statement: for every alphabet, every history of insertions (with any bases the
`xcheck` calls may return, i.e. any hash-set iteration order), clone / serde round trips and
rejected keys that runs without a panic, `search` finds exactly the inserted keys over the alphabet.
Proof: `Lemmas/Trie.lean` — a ghost map from used slots to label paths, an invariant relating it to
`base/check`, preserved by `record_transition_at`, by every iteration of `rebase` and by `insert`.
-/
import Chokan.Model.Trie
import Chokan.Lemmas.Trie
import Chokan.Lemmas.TrieProgress

namespace Chokan.Props.C04
open Chokan.Trie

/-- One operation of a history: insert a key (with the bases the `xcheck` calls of this insertion
return), or a clone / serialize+deserialize round trip (the identity on the abstract state). -/
inductive Op
  | insert (key : List Nat) (oracle : List Nat)
  | roundTrip

/-- Run a history; `none` when an oracle is not one the implementation could produce, or on a panic. -/
def run (t : Trie) : List Op → Option Trie
  | [] => some t
  | .roundTrip :: ops => run t ops
  | .insert key oracle :: ops =>
    match t.insert key oracle with
    | .ok (t', _) => run t' ops
    | .reject => run t ops          -- `Err(())`: the caller goes on with the unchanged trie
    | .panic => none
    | .badOracle => none

def insertedKeys : List Op → List (List Nat)
  | [] => []
  | .roundTrip :: ops => insertedKeys ops
  | .insert key _ :: ops => key :: insertedKeys ops

/-- Full-strength statement of the property (see `C04` for what is proved so far). -/
def C04_statement : Prop :=
  ∀ (alpha : List Nat), alpha.Nodup → 0 < alpha.length → alpha.length ≤ 254 →
  ∀ (ops : List Op) (t : Trie), run (Trie.fromKeys alpha) ops = some t →
  ∀ key, (t.search key).isSome ↔ (key ∈ insertedKeys ops ∧ ∀ c ∈ key, c ∈ alpha)

theorem keyLabels_none_of_not_mem (alpha : List Nat) :
    ∀ key : List Nat, (∃ c ∈ key, c ∉ alpha) → keyLabels alpha key = none
  | [], h => by obtain ⟨c, hc, _⟩ := h; cases hc
  | c :: t, h => by
    unfold keyLabels
    cases hi : indexOf c alpha with
    | none => rfl
    | some i =>
      have hmem : ∀ (l : List Nat) (j : Nat), indexOf c l = some j → c ∈ l := by
        intro l
        induction l with
        | nil => intro j h; simp [indexOf] at h
        | cons x xs ih =>
          intro j h
          unfold indexOf at h
          split at h
          · next hb => rw [Nat.eq_of_beq_eq_true hb]; exact List.mem_cons_self
          · cases hx : indexOf c xs with
            | none => simp [hx] at h
            | some k => exact List.mem_cons_of_mem _ (ih k hx)
      have hc : c ∈ alpha := hmem alpha i hi
      obtain ⟨d, hd, hnd⟩ := h
      rcases List.mem_cons.1 hd with rfl | hd
      · exact absurd hc hnd
      · rw [keyLabels_none_of_not_mem alpha t ⟨d, hd, hnd⟩]

/-- Keys containing a character outside the alphabet are rejected, whatever the oracle; the caller
keeps the unchanged trie (`insert` returns no new state), and such keys are never found. -/
theorem C04_reject (t : Trie) (key oracle : List Nat) (h : ∃ c ∈ key, c ∉ t.alpha) :
    t.insert key oracle = .reject ∧ t.search key = none := by
  have := keyLabels_none_of_not_mem t.alpha key h
  simp [Trie.insert, Trie.search, Trie.keyToLabels, this]

/-- A clone / serde round trip changes nothing observable. -/
theorem C04_roundtrip (t : Trie) (ops : List Op) : run t (.roundTrip :: ops) = run t ops := rfl

/-- Label lists of the accepted insertions of a history. -/
def insertedLabels (alpha : List Nat) : List Op → List (List Nat)
  | [] => []
  | .roundTrip :: ops => insertedLabels alpha ops
  | .insert key _ :: ops =>
    match keyLabels alpha key with
    | some r => (r ++ [alpha.length + 1]) :: insertedLabels alpha ops
    | none => insertedLabels alpha ops

/-- State invariant of a trie that holds the label lists `Ks`. -/
def Holds (t : Trie) (Ks : List (List Nat)) : Prop :=
  ∃ A, Inv0 t.nLabels t.nodes A ∧ FreeOK t.nodes ∧
    ∀ M, (∃ i, A i = some M) ↔ (M = [] ∨ ∃ K ∈ Ks, ∃ k, 1 ≤ k ∧ k ≤ K.length ∧ M = K.take k)

theorem holds_init (alpha : List Nat) : Holds (Trie.fromKeys alpha) [] := by
  obtain ⟨hI, hF⟩ := inv_init (Trie.fromKeys alpha).nLabels
  refine ⟨_, hI, hF, ?_⟩
  intro M
  constructor
  · rintro ⟨i, hi⟩
    by_cases h0 : i = 0
    · simp [h0] at hi; exact Or.inl hi
    · simp [h0] at hi
  · rintro (h | ⟨K, hK, _⟩)
    · exact ⟨0, by simp [h]⟩
    · cases hK

/-- One insertion: accepted keys are added, rejected keys are exactly those outside the alphabet. -/
theorem insert_holds (t : Trie) (Ks : List (List Nat)) (key oracle : List Nat) (h : Holds t Ks) :
    (∀ t' rest, t.insert key oracle = .ok (t', rest) →
      ∃ r, keyLabels t.alpha key = some r ∧ t'.alpha = t.alpha ∧
        Holds t' (Ks ++ [r ++ [t.alpha.length + 1]])) ∧
    (t.insert key oracle = .reject → keyLabels t.alpha key = none) := by
  obtain ⟨A, hI, hF, hpaths⟩ := h
  unfold Trie.insert Trie.keyToLabels
  cases hk : keyLabels t.alpha key with
  | none => simp
  | some r =>
    simp only [Option.map_some]
    have hlab : ∀ l ∈ r ++ [t.terminal], 1 ≤ l ∧ l ≤ t.nLabels := by
      intro l hl
      rcases List.mem_append.1 hl with hl | hl
      · have := keyLabels_bound t.alpha key r hk l hl
        simp only [Trie.nLabels]; omega
      · simp only [List.mem_singleton] at hl; subst hl
        simp [Trie.terminal, Trie.nLabels]
    cases hl : insertLoop t.nLabels t.nodes 0 (r ++ [t.terminal]) oracle with
    | ok res =>
      obtain ⟨s', o'⟩ := res
      simp only [Res.ok.injEq, Prod.mk.injEq, reduceCtorEq, false_implies, and_true]
      intro t' rest ht
      obtain ⟨ht, _⟩ := ht
      subst ht
      obtain ⟨A', hI', hF', hpaths'⟩ :=
        insertLoop_inv t.nLabels _ t.nodes 0 oracle s' o' A [] hI hF hI.root_path hlab hl
      refine ⟨r, rfl, rfl, A', hI', hF', ?_⟩
      intro M
      rw [hpaths' M, hpaths M]
      simp only [List.nil_append, List.mem_append, List.mem_singleton, Trie.terminal]
      constructor
      · rintro ((h | ⟨K, hK, hk'⟩) | ⟨k, h1, h2, h3⟩)
        · exact Or.inl h
        · exact Or.inr ⟨K, Or.inl hK, hk'⟩
        · exact Or.inr ⟨_, Or.inr rfl, k, h1, h2, h3⟩
      · rintro (h | ⟨K, hK | hK, hk'⟩)
        · exact Or.inl (Or.inl h)
        · exact Or.inl (Or.inr ⟨K, hK, hk'⟩)
        · subst hK; exact Or.inr hk'
    | reject =>
      exact absurd hl (insertLoop_ne_reject t.nLabels _ t.nodes 0 oracle A [] hI hF hI.root_path hlab)
    | panic => simp
    | badOracle => simp

theorem run_holds (alpha : List Nat) : ∀ (ops : List Op) (t t' : Trie) (Ks : List (List Nat)),
    t.alpha = alpha → Holds t Ks → run t ops = some t' →
    t'.alpha = alpha ∧ Holds t' (Ks ++ insertedLabels alpha ops)
  | [], t, t', Ks, ha, hH, h => by
    simp only [run, Option.some.injEq] at h; subst h
    simpa [insertedLabels] using ⟨ha, hH⟩
  | .roundTrip :: ops, t, t', Ks, ha, hH, h => run_holds alpha ops t t' Ks ha hH h
  | .insert key oracle :: ops, t, t', Ks, ha, hH, h => by
    obtain ⟨hok, hrej⟩ := insert_holds t Ks key oracle hH
    simp only [run] at h
    cases hi : t.insert key oracle with
    | ok res =>
      obtain ⟨t1, rest⟩ := res
      simp only [hi] at h
      obtain ⟨r, hr, ha1, hH1⟩ := hok t1 rest hi
      rw [ha] at hr hH1
      have := run_holds alpha ops t1 t' _ (ha1.trans ha) hH1 h
      simpa [insertedLabels, hr, List.append_assoc] using this
    | reject =>
      simp only [hi] at h
      have hn := hrej hi
      rw [ha] at hn
      have := run_holds alpha ops t t' Ks ha hH h
      simpa [insertedLabels, hn] using this
    | panic => simp [hi] at h
    | badOracle => simp [hi] at h

theorem mem_insertedLabels (alpha : List Nat) (K : List Nat) : ∀ ops : List Op,
    K ∈ insertedLabels alpha ops ↔
      ∃ key ∈ insertedKeys ops, ∃ r, keyLabels alpha key = some r ∧ K = r ++ [alpha.length + 1]
  | [] => by simp [insertedLabels, insertedKeys]
  | .roundTrip :: ops => by simpa [insertedLabels, insertedKeys] using mem_insertedLabels alpha K ops
  | .insert key o :: ops => by
    have ih := mem_insertedLabels alpha K ops
    simp only [insertedLabels, insertedKeys, List.mem_cons]
    cases hk : keyLabels alpha key with
    | none =>
      simp only [ih]
      constructor
      · rintro ⟨k2, hk2, r, hr, hK⟩; exact ⟨k2, Or.inr hk2, r, hr, hK⟩
      · rintro ⟨k2, hk2 | hk2, r, hr, hK⟩
        · subst hk2; rw [hk] at hr; cases hr
        · exact ⟨k2, hk2, r, hr, hK⟩
    | some r0 =>
      simp only [List.mem_cons, ih]
      constructor
      · rintro (h | ⟨k2, hk2, r, hr, hK⟩)
        · exact ⟨key, Or.inl rfl, r0, hk, h⟩
        · exact ⟨k2, Or.inr hk2, r, hr, hK⟩
      · rintro ⟨k2, hk2 | hk2, r, hr, hK⟩
        · subst hk2; rw [hk] at hr; rw [← Option.some.inj hr] at hK; exact Or.inl hK
        · exact Or.inr ⟨k2, hk2, r, hr, hK⟩

/-- **C04.**  The trie is an exact set: after any history that runs without a panic (whatever bases
the `xcheck` calls returned), `search` finds a key iff it was inserted and lies over the alphabet. -/
theorem C04 : C04_statement := by
  intro alpha _ _ _ ops t hrun key
  obtain ⟨ha, A, hI, hF, hpaths⟩ := run_holds alpha ops (Trie.fromKeys alpha) t [] rfl (holds_init alpha) hrun
  simp only [List.nil_append] at hpaths
  unfold Trie.search Trie.keyToLabels
  rw [ha]
  cases hk : keyLabels alpha key with
  | none =>
    simp only [Option.map_none, Option.isSome_none, Bool.false_eq_true, false_iff, not_and]
    intro _ hall
    obtain ⟨r, hr⟩ := keyLabels_some_of_mem alpha key hall
    rw [hk] at hr; cases hr
  | some r =>
    simp only [Option.map_some]
    have hterm : t.terminal = alpha.length + 1 := by simp [Trie.terminal, ha]
    have hb := keyLabels_bound alpha key r hk
    have hM : ∀ l ∈ r ++ [t.terminal], 1 ≤ l := by
      intro l hl
      rcases List.mem_append.1 hl with hl | hl
      · exact (hb l hl).1
      · simp only [List.mem_singleton] at hl; rw [hl, hterm]; omega
    rw [search_iff hI _ hM, hpaths, hterm]
    constructor
    · rintro (h | ⟨K, hK, k, h1, h2, h3⟩)
      · simp at h
      · obtain ⟨key', hkey', r', hr', hKe⟩ := (mem_insertedLabels alpha K ops).1 hK
        subst hKe
        have hb' := keyLabels_bound alpha key' r' hr'
        -- the prefix ends in the terminal label, so it is the whole list
        have hkfull : r'.length < k := by
          rcases Nat.lt_or_ge r'.length k with h | h
          · exact h
          · exfalso
            rw [List.take_append_of_le_length h] at h3
            have hmem : alpha.length + 1 ∈ r'.take k := by rw [← h3]; simp
            have := (hb' _ (List.mem_of_mem_take hmem)).2
            omega
        rw [List.take_of_length_le (by simp at h2 ⊢; omega)] at h3
        have hrr : r = r' := List.append_inj_left' h3 rfl
        subst hrr
        have hkk : key = key' := keyLabels_inj alpha key key' r hk hr'
        subst hkk
        refine ⟨hkey', ?_⟩
        intro c hc
        rcases Classical.em (c ∈ alpha) with h | h
        · exact h
        · rw [keyLabels_none_of_not_mem alpha key ⟨c, hc, h⟩] at hk; cases hk
    · rintro ⟨hkey, _⟩
      refine Or.inr ⟨r ++ [alpha.length + 1], (mem_insertedLabels alpha _ ops).2 ⟨key, hkey, r, hk, rfl⟩,
        (r ++ [alpha.length + 1]).length, by simp, Nat.le_refl _,
        (List.take_of_length_le (Nat.le_refl _)).symm⟩

/-- No panic: in every state reached by a history, an insertion never hits an `expect`, an index
out of range, `Base + Label` on an unused base, or the assertions of `xcheck` and `rebase`. -/
theorem C04_no_panic (t : Trie) (Ks : List (List Nat)) (key oracle : List Nat) (h : Holds t Ks) :
    t.insert key oracle ≠ .panic := by
  obtain ⟨A, hI, hF, _⟩ := h
  unfold Trie.insert Trie.keyToLabels
  cases hk : keyLabels t.alpha key with
  | none => simp
  | some r =>
    simp only [Option.map_some]
    have hlab : ∀ l ∈ r ++ [t.terminal], 1 ≤ l ∧ l ≤ t.nLabels := by
      intro l hl
      rcases List.mem_append.1 hl with hl | hl
      · have := keyLabels_bound t.alpha key r hk l hl
        simp only [Trie.nLabels]; omega
      · simp only [List.mem_singleton] at hl; subst hl
        simp [Trie.terminal, Trie.nLabels]
    cases hl : insertLoop t.nLabels t.nodes 0 (r ++ [t.terminal]) oracle with
    | ok res => simp
    | reject => simp
    | panic =>
      exact absurd hl (insertLoop_ne_panic t.nLabels _ t.nodes 0 oracle A [] hI hF hI.root_path hlab)
    | badOracle => simp

/-- The only way a history fails to run in the model is an `xcheck` answer the implementation's loop
could not have produced: every prefix runs, up to an insertion that reports `badOracle`. -/
theorem C04_only_bad_oracle : ∀ (ops : List Op) (t : Trie) (Ks : List (List Nat)), Holds t Ks →
    run t ops = none →
    ∃ pre key oracle post t', ops = pre ++ .insert key oracle :: post ∧ run t pre = some t' ∧
      t'.insert key oracle = .badOracle
  | [], t, Ks, _, h => by simp [run] at h
  | .roundTrip :: ops, t, Ks, hH, h => by
    obtain ⟨pre, key, oracle, post, t', h1, h2, h3⟩ := C04_only_bad_oracle ops t Ks hH h
    exact ⟨.roundTrip :: pre, key, oracle, post, t', by rw [h1]; rfl, h2, h3⟩
  | .insert key oracle :: ops, t, Ks, hH, h => by
    obtain ⟨hok, _⟩ := insert_holds t Ks key oracle hH
    simp only [run] at h
    cases hi : t.insert key oracle with
    | ok res =>
      obtain ⟨t1, rest⟩ := res
      simp only [hi] at h
      obtain ⟨r, _, _, hH1⟩ := hok t1 rest hi
      obtain ⟨pre, key', oracle', post, t', h1, h2, h3⟩ := C04_only_bad_oracle ops t1 _ hH1 h
      exact ⟨.insert key oracle :: pre, key', oracle', post, t', by rw [h1]; rfl, by simp [run, hi, h2], h3⟩
    | reject =>
      simp only [hi] at h
      obtain ⟨pre, key', oracle', post, t', h1, h2, h3⟩ := C04_only_bad_oracle ops t Ks hH h
      exact ⟨.insert key oracle :: pre, key', oracle', post, t', by rw [h1]; rfl, by simp [run, hi, h2], h3⟩
    | panic => exact absurd hi (C04_no_panic t Ks key oracle hH)
    | badOracle => exact ⟨[], key, oracle, ops, t, rfl, rfl, hi⟩

/-- Non-vacuity: a concrete history whose last insertion relocates the two children of a node
(`rebase` from base 2 to base 10) runs without panic under the listed `xcheck` answers, and finds
exactly what `C04` says. -/
example :
    (run (Trie.fromKeys [10, 11, 12])
      [.insert [10, 11] [2, 5], .insert [11] [1], .insert [10] [], .roundTrip, .insert [13] [],
       .insert [12, 10] [6, 4], .insert [10, 12] [10, 0]]).map
      (fun t => [[10, 11], [11], [10], [12, 10], [10, 12], [12], [10, 10], [], [13]].map
        fun k => (t.search k).isSome)
    = some [true, true, true, true, true, false, false, false, false] := by
  decide +kernel

end Chokan.Props.C04
