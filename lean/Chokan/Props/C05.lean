/-
C05 — no request history can wedge, poison or kill the conversion server.

Model: Chokan.Model.Server.  `none` results of the model are the panics of the Rust code; the theorems
say which steps can panic at all and that those that hold locks cannot.
-/
import Chokan.Model.Server
import Chokan.Lemmas.Kkc

namespace Chokan.Props.C05
open Chokan.Server Chokan.Kkc Chokan.Dic

/-- A conversion (which runs while holding the dictionary and user-preference locks) never panics,
for any input — the empty one included — any dictionary and any learned data. -/
theorem C05_convert_total (c : Cfg) (s : State) (ctx : Ctx) (input : Str) :
    ∃ r, convert c s ctx input = some r := by
  simp [convert, getCandidates, fromInput]

/-- A confirmation (which holds the session-store and user-preference locks) never panics. -/
theorem C05_confirm_total (c : Cfg) (s : State) (sid : Nat) (cid : Option Nat) (now : Int) :
    ∃ s', confirm c s sid cid now = s' := ⟨_, rfl⟩

/-- RegisterWord touches shared state only through the entry channel; a panic in the guesser happens
before anything is sent, with no lock held: the state is unchanged. -/
theorem C05_register_no_partial_effect (c : Cfg) (s s' : State) (k : RegKind) (r w : Str)
    (h : register c s k r w = some s') :
    s'.dict = s.dict ∧ s'.freq = s.freq ∧ s'.userDict = s.userDict ∧ s'.sessions = s.sessions ∧
      ∃ e, s'.pending = s.pending ++ [e] := by
  unfold register at h
  simp only [Option.map_eq_some_iff] at h
  obtain ⟨e, _, rfl⟩ := h
  exact ⟨rfl, rfl, rfl, rfl, e, rfl⟩

/-- Nouns always conjugate (to themselves): registering a noun can never make the updater panic. -/
theorem C05_noun_entry_applies (c : Cfg) (d : Dict) (stem rd : Str) (v : NounVariant) :
    ∃ d', mergeEntry c d ⟨stem, rd, .noun v⟩ = some d' := by
  simp [mergeEntry, entryToWords, toForms]

/-! ## every request history (Model/Server `Op`, `stepOp`, `runOps`) -/

/-- **No history can make the server refuse a conversion**: after any sequence of requests and background
steps — failed ones included — a conversion request for any input in any context is answered. -/
theorem C05_history_convert_answered (c : Cfg) (s0 : State) (ops : List Op) (ctx : Ctx) (input : Str) :
    ∃ r, convert c (runOps c s0 ops) ctx input = some r :=
  C05_convert_total c _ ctx input

/-- **No history can poison the answers**: what a conversion answers depends on the running dictionary and
the learned counts only — not on open sessions, ids handed out, queued entries or what was saved. A
freshly started server with the same dictionary and learned data answers identically. -/
theorem C05_answer_depends_on_dict_and_counts (c : Cfg) (s s' : State) (ctx : Ctx) (input : Str)
    (hd : s.dict = s'.dict) (hf : s.freq = s'.freq) :
    (convert c s ctx input).map (·.2.2) = (convert c s' ctx input).map (·.2.2) := by
  unfold convert
  rw [hd, hf]
  cases getCandidates c.tables input s'.dict ctx (toKkcFreq s'.freq) c.nCandidates c.fuel <;> rfl

/-- Requests that fail (a refused or panicking registration, a confirmation of an unknown session or
candidate) change neither the dictionary nor the learned counts. -/
theorem C05_failed_requests_change_nothing (c : Cfg) (s : State) :
    (∀ k r w, register c s k r w = none → (stepOp c s (.register k r w)) = s) ∧
    (∀ sid cid now, s.sessions.find? (·.sid == sid) = none →
      (confirm c s sid cid now).dict = s.dict ∧ (confirm c s sid cid now).freq = s.freq ∧
      (confirm c s sid cid now).userDict = s.userDict ∧ (confirm c s sid cid now).pending = s.pending) ∧
    (∀ sid now sess, s.sessions.find? (·.sid == sid) = some sess →
      ∀ cid, (cid.bind fun i => sess.cands[i]?) = none →
      (confirm c s sid cid now).dict = s.dict ∧ (confirm c s sid cid now).freq = s.freq ∧
      (confirm c s sid cid now).userDict = s.userDict ∧ (confirm c s sid cid now).pending = s.pending) := by
  refine ⟨?_, ?_, ?_⟩
  · intro k r w h; simp [stepOp, h]
  · intro sid cid now h
    unfold confirm popSession
    simp [h]
  · intro sid now sess h cid hc
    unfold confirm popSession
    simp [h, hc]

end Chokan.Props.C05
