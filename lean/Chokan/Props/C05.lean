/-
C05 — no request history can wedge, poison or kill the conversion server.

Model: Chokan.Model.Server.  `none` results of the model are the panics of the Rust code; the theorems
say which steps can panic at all and that those that hold locks cannot.
-/
import Chokan.Model.Server
import Chokan.Lemmas.Kkc

namespace Chokan.Props.C05
open Chokan.Server Chokan.Kkc Chokan.Dic

/-- A conversion (which runs while holding the dictionary and user-preference locks) never panics,
for any input — the empty one included — any dictionary and any learned data. -/
theorem C05_convert_total (c : Cfg) (s : State) (ctx : Ctx) (input : Str) :
    ∃ r, convert c s ctx input = some r := by
  simp [convert, getCandidates, fromInput]

/-- A confirmation (which holds the session-store and user-preference locks) never panics. -/
theorem C05_confirm_total (c : Cfg) (s : State) (sid : Nat) (cid : Option Nat) (now : Int) :
    ∃ s', confirm c s sid cid now = s' := ⟨_, rfl⟩

/-- RegisterWord touches shared state only through the entry channel; a panic in the guesser happens
before anything is sent, with no lock held: the state is unchanged. -/
theorem C05_register_no_partial_effect (c : Cfg) (s s' : State) (k : RegKind) (r w : Str)
    (h : register c s k r w = some s') :
    s'.dict = s.dict ∧ s'.freq = s.freq ∧ s'.userDict = s.userDict ∧ s'.sessions = s.sessions ∧
      ∃ e, s'.pending = s.pending ++ [e] := by
  unfold register at h
  simp only [Option.map_eq_some_iff] at h
  obtain ⟨e, _, rfl⟩ := h
  exact ⟨rfl, rfl, rfl, rfl, e, rfl⟩

/-- Nouns always conjugate (to themselves): registering a noun can never make the updater panic. -/
theorem C05_noun_entry_applies (c : Cfg) (d : Dict) (stem rd : Str) (v : NounVariant) :
    ∃ d', mergeEntry c d ⟨stem, rd, .noun v⟩ = some d' := by
  simp [mergeEntry, entryToWords, toForms]

end Chokan.Props.C05
