/-
C06 — a confirmation updates exactly one learned count, and learning only re-ranks.

Model: Chokan.Model.Server (`confirm`, `updateWord`, `expire`) and Chokan.Model.Kkc (scores).
-/
import Chokan.Model.Server
import Chokan.Lemmas.Kkc
import Chokan.Gen.Server

namespace Chokan.Props.C06
open Chokan.Server Chokan.Kkc Chokan.Dic

def countOf (f : List FreqEntry) (ctx : Ctx) (w : Str) : Nat := freqOf (toKkcFreq f) ctx w

/-- An unknown (or already consumed) session changes no count, no user word and queues nothing. -/
theorem C06_unknown_session (c : Cfg) (s : State) (sid : Nat) (cid : Option Nat) (now : Int)
    (h : s.sessions.find? (·.sid == sid) = none) :
    (confirm c s sid cid now).freq = s.freq ∧ (confirm c s sid cid now).userDict = s.userDict ∧
    (confirm c s sid cid now).pending = s.pending := by
  simp [confirm, popSession, h]

/-- A known session with an unknown candidate id changes no count either (the session is consumed). -/
theorem C06_unknown_candidate (c : Cfg) (s : State) (sid : Nat) (cid : Option Nat) (now : Int) (sess : Session)
    (h : s.sessions.find? (·.sid == sid) = some sess) (hc : (cid.bind fun i => sess.cands[i]?) = none) :
    (confirm c s sid cid now).freq = s.freq ∧ (confirm c s sid cid now).userDict = s.userDict := by
  simp [confirm, popSession, h, hc]

/-- Sessions are single-use: after a confirmation the session id is gone, whatever the candidate id. -/
theorem C06_single_use (c : Cfg) (s : State) (sid : Nat) (cid : Option Nat) (now : Int) :
    (confirm c s sid cid now).sessions.find? (·.sid == sid) = none := by
  have hf : (s.sessions.filter (·.sid != sid)).find? (·.sid == sid) = none := by
    rw [List.find?_eq_none]
    intro x hx
    have := (List.mem_filter.1 hx).2
    simp only [bne_iff_ne, ne_eq] at this
    simp [this]
  unfold confirm popSession
  cases hs : s.sessions.find? (·.sid == sid) with
  | none => simpa [hs] using hf
  | some sess =>
    simp only [hs]
    cases hc : (cid.bind fun i => sess.cands[i]?) with
    | none => simpa [hc] using hf
    | some cand =>
      simp only [hc]
      cases independentWord cand.chain <;> cases withAffix cand.chain <;> simpa using hf

/-- Expiry keeps exactly the entries used within the expiry period (strict `>` as in frequency.rs). -/
theorem C06_expiry (f : List FreqEntry) (now : Int) (expiry : Nat) (e : FreqEntry) :
    e ∈ expire f now expiry ↔ e ∈ f ∧ ¬ (now - e.last > (expiry : Int)) := by
  simp [expire, List.mem_filter]

/-- The expiry period is three days, in milliseconds. -/
theorem C06_expiry_constant : Chokan.Gen.Server.expiryMs = 3 * 24 * 60 * 60 * 1000 := by decide

/-- Learned counts only enter the score of the node of that written form in that context: the node
score is the count plus a term that does not depend on the learned data. -/
theorem C06_node_score (t : Tables) (ctx : Ctx) (f : Freq) (e i : Nat) (w : Word) (fw : Score) :
    nodeScore t ctx f (.word e i w fw) =
      (nodeScore t ctx [] (.word e i w fw)).map (· + freqOf f ctx w.word) := by
  simp [nodeScore, freqOf]; omega

/-- Edge scores and the lattice construction take no learned data at all (they have no such argument);
in particular counts learned in one context never influence another: -/
theorem C06_context_isolation (t : Tables) (ctx : Ctx) (f g : Freq) (n : Node)
    (h : ∀ w, freqOf f ctx w = freqOf g ctx w) : nodeScore t ctx f n = nodeScore t ctx g n := by
  cases n <;> simp [nodeScore, h]

end Chokan.Props.C06
