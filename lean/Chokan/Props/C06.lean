/-
C06 — a confirmation updates exactly one learned count, and learning only re-ranks.

Model: Chokan.Model.Server (`confirm`, `updateWord`, `expire`) and Chokan.Model.Kkc (scores).
-/
import Chokan.Model.Server
import Chokan.Lemmas.Kkc
import Chokan.Gen.Server
import Chokan.Lemmas.KkcCounts
import Chokan.Props.C02

namespace Chokan.Props.C06
open Chokan.Server Chokan.Kkc Chokan.Dic

def countOf (f : List FreqEntry) (ctx : Ctx) (w : Str) : Nat := freqOf (toKkcFreq f) ctx w

/-- An unknown (or already consumed) session changes no count, no user word and queues nothing. -/
theorem C06_unknown_session (c : Cfg) (s : State) (sid : Nat) (cid : Option Nat) (now : Int)
    (h : s.sessions.find? (·.sid == sid) = none) :
    (confirm c s sid cid now).freq = s.freq ∧ (confirm c s sid cid now).userDict = s.userDict ∧
    (confirm c s sid cid now).pending = s.pending := by
  simp [confirm, popSession, h]

/-- A known session with an unknown candidate id changes no count either (the session is consumed). -/
theorem C06_unknown_candidate (c : Cfg) (s : State) (sid : Nat) (cid : Option Nat) (now : Int) (sess : Session)
    (h : s.sessions.find? (·.sid == sid) = some sess) (hc : (cid.bind fun i => sess.cands[i]?) = none) :
    (confirm c s sid cid now).freq = s.freq ∧ (confirm c s sid cid now).userDict = s.userDict := by
  simp [confirm, popSession, h, hc]

/-- Sessions are single-use: after a confirmation the session id is gone, whatever the candidate id. -/
theorem C06_single_use (c : Cfg) (s : State) (sid : Nat) (cid : Option Nat) (now : Int) :
    (confirm c s sid cid now).sessions.find? (·.sid == sid) = none := by
  have hf : (s.sessions.filter (·.sid != sid)).find? (·.sid == sid) = none := by
    rw [List.find?_eq_none]
    intro x hx
    have := (List.mem_filter.1 hx).2
    simp only [bne_iff_ne, ne_eq] at this
    simp [this]
  unfold confirm popSession
  cases hs : s.sessions.find? (·.sid == sid) with
  | none => simpa [hs] using hf
  | some sess =>
    simp only [hs]
    cases hc : (cid.bind fun i => sess.cands[i]?) with
    | none => simpa [hc] using hf
    | some cand =>
      simp only [hc]
      cases independentWord cand.chain <;> cases withAffix cand.chain <;> simpa using hf

/-- Expiry keeps exactly the entries used within the expiry period (strict `>` as in frequency.rs). -/
theorem C06_expiry (f : List FreqEntry) (now : Int) (expiry : Nat) (e : FreqEntry) :
    e ∈ expire f now expiry ↔ e ∈ f ∧ ¬ (now - e.last > (expiry : Int)) := by
  simp [expire, List.mem_filter]

/-- The expiry period is three days, in milliseconds. -/
theorem C06_expiry_constant : Chokan.Gen.Server.expiryMs = 3 * 24 * 60 * 60 * 1000 := by decide

/-- Learned counts only enter the score of the node of that written form in that context: the node
score is the count plus a term that does not depend on the learned data. -/
theorem C06_node_score (t : Tables) (ctx : Ctx) (f : Freq) (e i : Nat) (w : Word) (fw : Score) :
    nodeScore t ctx f (.word e i w fw) =
      (nodeScore t ctx [] (.word e i w fw)).map (· + freqOf f ctx w.word) := by
  simp [nodeScore, freqOf]; omega

/-- Edge scores and the lattice construction take no learned data at all (they have no such argument);
in particular counts learned in one context never influence another: -/
theorem C06_context_isolation (t : Tables) (ctx : Ctx) (f g : Freq) (n : Node)
    (h : ∀ w, freqOf f ctx w = freqOf g ctx w) : nodeScore t ctx f n = nodeScore t ctx g n := by
  cases n <;> simp [nodeScore, h]

/-- Every text of one list is a text of the other when that one is untruncated. -/
theorem texts_transfer (t : Tables) (ctx : Ctx) (f f' : Freq) (g0 : Graph) (n fuel : Nat) (R R' : List Cand)
    (hR : nBest t ctx f (forwardDp t ctx f g0) n fuel = R)
    (hopt' : ∀ (p : List Node) (s : Nat), IsChain (forwardDp t ctx f' g0) (.bos :: p) →
      pathScore t ctx f' (.bos :: p) = some s →
      ((p.map Node.text).flatten ∈ R'.map Cand.text) ∨ (R'.length = n ∧ ∀ r ∈ R', s ≤ r.score))
    (hlt' : R'.length < n) : ∀ x ∈ R.map Cand.text, x ∈ R'.map Cand.text := by
  intro x hx
  obtain ⟨r, hr, rfl⟩ := List.mem_map.1 hx
  rw [← hR] at hr
  obtain ⟨hch, p, hp⟩ := nBest_chains t ctx f _ n fuel r hr
  have hsc := nBest_scores t ctx f _ n fuel r hr
  have hsame : SameUpToFwd (forwardDp t ctx f g0) (forwardDp t ctx f' g0) :=
    sameUpToFwd_trans (sameUpToFwd_symm (forwardDp_same t ctx f g0)) (forwardDp_same t ctx f' g0)
  obtain ⟨C', hC', hs⟩ := chain_same hsame r.chain hch
  rw [hp] at hs
  cases C' with
  | nil => simp at hs
  | cons a' p' =>
    simp only [List.map_cons, List.cons.injEq] at hs
    have ha' : a' = .bos := strip_bos a' hs.1
    subst ha'
    obtain ⟨s', hs'⟩ := pathScore_same t ctx f f' r.chain (.bos :: p') (by rw [hp]; simp [hs.2]) r.score hsc
    have htext : ((Node.bos :: p').map Node.text).flatten = (r.chain.map Node.text).flatten :=
      map_text_strip r.chain (.bos :: p') (by rw [hp]; simp [hs.2])
    rcases hopt' p' s' hC' hs' with h | ⟨h, _⟩
    · have : (p'.map Node.text).flatten = r.text := by
        simpa [Cand.text, Node.text] using htext
      rw [← this]; exact h
    · omega

/-- **Learning only re-ranks.**  For every input, well-formed dictionary, context and `n ≥ 1`, and any
two states `f`, `f'` of the learned counts (in particular with and without learned data): from some
number of loop iterations on both conversions return fixed lists, and whenever both are untruncated
(fewer than `n` entries) they contain exactly the same texts. -/
theorem C06_same_untruncated_set (t : Tables) (input : Str) (d : Dict) (ctx : Ctx) (f f' : Freq) (n : Nat)
    (hn : 1 ≤ n) (hd : Dict.WF d) :
    ∃ fuel0 R R', ∀ fuel, fuel0 ≤ fuel →
      getCandidates t input d ctx f n fuel = some R ∧ getCandidates t input d ctx f' n fuel = some R' ∧
      (R.length < n → R'.length < n → ∀ x, x ∈ R.map Cand.text ↔ x ∈ R'.map Cand.text) := by
  have hg0 : ∃ g0, fromInput t input d ctx = some g0 := ⟨_, rfl⟩
  obtain ⟨g0, hg0⟩ := hg0
  obtain ⟨fa, R, hall⟩ := C02.C02_full t input d ctx f n hn hd g0 hg0
  obtain ⟨fb, R', hall'⟩ := C02.C02_full t input d ctx f' n hn hd g0 hg0
  refine ⟨max fa fb, R, R', ?_⟩
  intro fuel hf
  obtain ⟨hget, _, _, _, hopt⟩ := hall fuel (by omega)
  obtain ⟨hget', _, _, _, hopt'⟩ := hall' fuel (by omega)
  refine ⟨hget, hget', ?_⟩
  intro hlt hlt' x
  have hR : nBest t ctx f (forwardDp t ctx f g0) n fuel = R := by
    simpa [getCandidates, hg0] using hget
  have hR' : nBest t ctx f' (forwardDp t ctx f' g0) n fuel = R' := by
    simpa [getCandidates, hg0] using hget'
  exact ⟨texts_transfer t ctx f f' g0 n fuel R R' hR hopt' hlt' x,
         texts_transfer t ctx f' f g0 n fuel R' R hR' hopt hlt x⟩

end Chokan.Props.C06
