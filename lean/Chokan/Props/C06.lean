/-
C06 — a confirmation updates exactly one learned count, and learning only re-ranks.

Model: Chokan.Model.Server (`confirm`, `updateWord`, `expire`) and Chokan.Model.Kkc (scores).
-/
import Std.Data.String.ToNat
import Chokan.Model.Server
import Chokan.Lemmas.Kkc
import Chokan.Gen.Server
import Chokan.Lemmas.KkcCounts
import Chokan.Lemmas.Counts
import Chokan.Props.C02

namespace Chokan.Props.C06
open Chokan.Server Chokan.Kkc Chokan.Dic

/-- An unknown (or already consumed) session changes no count, no user word and queues nothing. -/
theorem C06_unknown_session (c : Cfg) (s : State) (sid : Nat) (cid : Option Nat) (now : Int)
    (h : s.sessions.find? (·.sid == sid) = none) :
    (confirm c s sid cid now).freq = s.freq ∧ (confirm c s sid cid now).userDict = s.userDict ∧
    (confirm c s sid cid now).pending = s.pending := by
  simp [confirm, popSession, h]

/-- A known session with an unknown candidate id changes no count either (the session is consumed). -/
theorem C06_unknown_candidate (c : Cfg) (s : State) (sid : Nat) (cid : Option Nat) (now : Int) (sess : Session)
    (h : s.sessions.find? (·.sid == sid) = some sess) (hc : (cid.bind fun i => sess.cands[i]?) = none) :
    (confirm c s sid cid now).freq = s.freq ∧ (confirm c s sid cid now).userDict = s.userDict := by
  simp [confirm, popSession, h, hc]

/-- Sessions are single-use: after a confirmation the session id is gone, whatever the candidate id. -/
theorem C06_single_use (c : Cfg) (s : State) (sid : Nat) (cid : Option Nat) (now : Int) :
    (confirm c s sid cid now).sessions.find? (·.sid == sid) = none := by
  have hf : (s.sessions.filter (·.sid != sid)).find? (·.sid == sid) = none := by
    rw [List.find?_eq_none]
    intro x hx
    have := (List.mem_filter.1 hx).2
    simp only [bne_iff_ne, ne_eq] at this
    simp [this]
  unfold confirm popSession
  cases hs : s.sessions.find? (·.sid == sid) with
  | none => simpa [hs] using hf
  | some sess =>
    simp only [hs]
    cases hc : (cid.bind fun i => sess.cands[i]?) with
    | none => simpa [hc] using hf
    | some cand =>
      simp only [hc]
      cases independentWord cand.chain <;> cases withAffix cand.chain <;> simpa using hf

/-- Expiry keeps exactly the entries used within the expiry period (strict `>` as in frequency.rs). -/
theorem C06_expiry (f : List FreqEntry) (now : Int) (expiry : Nat) (e : FreqEntry) :
    e ∈ expire f now expiry ↔ e ∈ f ∧ ¬ (now - e.last > (expiry : Int)) := by
  simp [expire, List.mem_filter]

/-- The expiry period is three days, in milliseconds. -/
theorem C06_expiry_constant : Chokan.Gen.Server.expiryMs = 3 * 24 * 60 * 60 * 1000 := by decide

/-- Learned counts only enter the score of the node of that written form in that context: the node
score is the count plus a term that does not depend on the learned data. -/
theorem C06_node_score (t : Tables) (ctx : Ctx) (f : Freq) (e i : Nat) (w : Word) (fw : Score) :
    nodeScore t ctx f (.word e i w fw) =
      (nodeScore t ctx [] (.word e i w fw)).map (· + freqOf f ctx w.word) := by
  simp [nodeScore, freqOf]; omega

/-- Edge scores and the lattice construction take no learned data at all (they have no such argument);
in particular counts learned in one context never influence another: -/
theorem C06_context_isolation (t : Tables) (ctx : Ctx) (f g : Freq) (n : Node)
    (h : ∀ w, freqOf f ctx w = freqOf g ctx w) : nodeScore t ctx f n = nodeScore t ctx g n := by
  cases n <;> simp [nodeScore, h]

/-- Every text of one list is a text of the other when that one is untruncated. -/
theorem texts_transfer (t : Tables) (ctx : Ctx) (f f' : Freq) (g0 : Graph) (n fuel : Nat) (R R' : List Cand)
    (hR : nBest t ctx f (forwardDp t ctx f g0) n fuel = R)
    (hopt' : ∀ (p : List Node) (s : Nat), IsChain (forwardDp t ctx f' g0) (.bos :: p) →
      pathScore t ctx f' (.bos :: p) = some s →
      ((p.map Node.text).flatten ∈ R'.map Cand.text) ∨ (R'.length = n ∧ ∀ r ∈ R', s ≤ r.score))
    (hlt' : R'.length < n) : ∀ x ∈ R.map Cand.text, x ∈ R'.map Cand.text := by
  intro x hx
  obtain ⟨r, hr, rfl⟩ := List.mem_map.1 hx
  rw [← hR] at hr
  obtain ⟨hch, p, hp⟩ := nBest_chains t ctx f _ n fuel r hr
  have hsc := nBest_scores t ctx f _ n fuel r hr
  have hsame : SameUpToFwd (forwardDp t ctx f g0) (forwardDp t ctx f' g0) :=
    sameUpToFwd_trans (sameUpToFwd_symm (forwardDp_same t ctx f g0)) (forwardDp_same t ctx f' g0)
  obtain ⟨C', hC', hs⟩ := chain_same hsame r.chain hch
  rw [hp] at hs
  cases C' with
  | nil => simp at hs
  | cons a' p' =>
    simp only [List.map_cons, List.cons.injEq] at hs
    have ha' : a' = .bos := strip_bos a' hs.1
    subst ha'
    obtain ⟨s', hs'⟩ := pathScore_same t ctx f f' r.chain (.bos :: p') (by rw [hp]; simp [hs.2]) r.score hsc
    have htext : ((Node.bos :: p').map Node.text).flatten = (r.chain.map Node.text).flatten :=
      map_text_strip r.chain (.bos :: p') (by rw [hp]; simp [hs.2])
    rcases hopt' p' s' hC' hs' with h | ⟨h, _⟩
    · have : (p'.map Node.text).flatten = r.text := by
        simpa [Cand.text, Node.text] using htext
      rw [← this]; exact h
    · omega

/-- **Learning only re-ranks.**  For every input, well-formed dictionary, context and `n ≥ 1`, and any
two states `f`, `f'` of the learned counts (in particular with and without learned data): from some
number of loop iterations on both conversions return fixed lists, and whenever both are untruncated
(fewer than `n` entries) they contain exactly the same texts. -/
theorem C06_same_untruncated_set (t : Tables) (input : Str) (d : Dict) (ctx : Ctx) (f f' : Freq) (n : Nat)
    (hn : 1 ≤ n) (hd : Dict.WF d) :
    ∃ fuel0 R R', ∀ fuel, fuel0 ≤ fuel →
      getCandidates t input d ctx f n fuel = some R ∧ getCandidates t input d ctx f' n fuel = some R' ∧
      (R.length < n → R'.length < n → ∀ x, x ∈ R.map Cand.text ↔ x ∈ R'.map Cand.text) := by
  have hg0 : ∃ g0, fromInput t input d ctx = some g0 := ⟨_, rfl⟩
  obtain ⟨g0, hg0⟩ := hg0
  obtain ⟨fa, R, hall⟩ := C02.C02_full t input d ctx f n hn hd g0 hg0
  obtain ⟨fb, R', hall'⟩ := C02.C02_full t input d ctx f' n hn hd g0 hg0
  refine ⟨max fa fb, R, R', ?_⟩
  intro fuel hf
  obtain ⟨hget, _, _, _, hopt⟩ := hall fuel (by omega)
  obtain ⟨hget', _, _, _, hopt'⟩ := hall' fuel (by omega)
  refine ⟨hget, hget', ?_⟩
  intro hlt hlt' x
  have hR : nBest t ctx f (forwardDp t ctx f g0) n fuel = R := by
    simpa [getCandidates, hg0] using hget
  have hR' : nBest t ctx f' (forwardDp t ctx f' g0) n fuel = R' := by
    simpa [getCandidates, hg0] using hget'
  exact ⟨texts_transfer t ctx f f' g0 n fuel R R' hR hopt' hlt' x,
         texts_transfer t ctx f' f g0 n fuel R' R hR' hopt hlt x⟩


/-! ## candidate ids are strings -/

theorem toString_nat_inj {i j : Nat} (h : toString i = toString j) : i = j := by
  rw [Nat.toString_eq_repr, Nat.toString_eq_repr] at h
  exact Nat.repr_injective h

/-- **Only an id that was issued names a candidate.**  A session with `n` candidates answers to exactly the `n`
strings `"0"`, …, `toString (n-1)` it was issued with, each naming its own position: no other string (`"+0"`,
`"00"`, `" 1"`, `"1.0"`, an index past the end, …) resolves to any candidate. -/
theorem C06_candidate_id_exact (n i : Nat) (id : String) :
    Chokan.Server.candIndex n id = some i ↔ i < n ∧ id = toString i := by
  unfold Chokan.Server.candIndex
  constructor
  · intro h
    have hp := List.find?_some h
    have hm := List.mem_of_find?_eq_some h
    exact ⟨by simpa using hm, by simpa using (beq_iff_eq.1 hp).symm⟩
  · rintro ⟨hi, rfl⟩
    cases hf : (List.range n).find? (fun j => toString j == toString i) with
    | none =>
      rw [List.find?_eq_none] at hf
      exact absurd (by simp) (hf i (by simpa using hi))
    | some j =>
      have hp := List.find?_some hf
      rw [toString_nat_inj (beq_iff_eq.1 hp)]

/-- … so a confirmation whose candidate id is not one of the issued strings changes no learned count and no
user word (it only consumes the session, as an unknown candidate does). -/
theorem C06_unissued_id_changes_nothing (c : Chokan.Server.Cfg) (s : Chokan.Server.State) (sid : Nat) (id : String) (now : Int)
    (hbad : ∀ sess, s.sessions.find? (·.sid == sid) = some sess → ∀ i, i < sess.cands.length → id ≠ toString i) :
    (Chokan.Server.confirmId c s sid id now).freq = s.freq ∧
    (Chokan.Server.confirmId c s sid id now).userDict = s.userDict ∧
    (Chokan.Server.confirmId c s sid id now).pending = s.pending := by
  unfold Chokan.Server.confirmId
  cases hs : s.sessions.find? (·.sid == sid) with
  | none => simp [Chokan.Server.confirm, Chokan.Server.popSession, hs]
  | some sess =>
    have hnone : Chokan.Server.candIndex sess.cands.length id = none := by
      cases hc : Chokan.Server.candIndex sess.cands.length id with
      | none => rfl
      | some i =>
        obtain ⟨hi, hid⟩ := (C06_candidate_id_exact _ _ _).1 hc
        exact absurd hid (hbad sess hs i hi)
    simp [Chokan.Server.confirm, Chokan.Server.popSession, hs, hnone]

example : Chokan.Server.candIndex 3 "2" = some 2 ∧ Chokan.Server.candIndex 3 "+0" = none ∧
    Chokan.Server.candIndex 3 "00" = none ∧ Chokan.Server.candIndex 3 "3" = none ∧ Chokan.Server.candIndex 3 "" = none := by
  decide


/-! ## a path's score rises by count × occurrences -/

/-- the learned counts of the written forms of the word nodes of a list (one term per occurrence) -/
def learnedSum (f : Freq) (ctx : Ctx) : List Node → Nat
  | [] => 0
  | .word _ _ w _ :: t => freqOf f ctx w.word + learnedSum f ctx t
  | _ :: t => learnedSum f ctx t

theorem nodeScore_learned (t : Tables) (ctx : Ctx) (f : Freq) (n : Node) :
    nodeScore t ctx f n = (nodeScore t ctx [] n).map (· + learnedSum f ctx [n]) := by
  cases n with
  | word e i w fw => rw [C06_node_score]; simp [learnedSum]
  | bos => simp [nodeScore, learnedSum]
  | eos => simp [nodeScore, learnedSum]
  | virt e i s fw => simp [nodeScore, learnedSum]

theorem learnedSum_cons (f : Freq) (ctx : Ctx) (n : Node) (t : List Node) :
    learnedSum f ctx (n :: t) = learnedSum f ctx [n] + learnedSum f ctx t := by
  cases n <;> simp [learnedSum]

/-- **Every path's score rises by count × occurrences of the learned words**: with learned data the score of a path is
its score without learned data plus, for every word node after the first node — whatever its part of speech —, the
count learned for that node's written form in this context; a path that is not connectable stays so. -/
theorem C06_path_score (t : Tables) (ctx : Ctx) (f : Freq) : ∀ (p : List Node),
    pathScore t ctx f p = (pathScore t ctx [] p).map (· + learnedSum f ctx p.tail)
  | [] => by simp [pathScore, learnedSum]
  | [_] => by simp [pathScore, learnedSum]
  | a :: b :: rest => by
    have ih := C06_path_score t ctx f (b :: rest)
    simp only [pathScore, List.tail_cons]
    rw [ih, nodeScore_learned t ctx f b, learnedSum_cons f ctx b rest]
    simp only [List.tail_cons]
    cases edgeScore t ctx a b <;> cases nodeScore t ctx [] b <;> cases pathScore t ctx [] (b :: rest) <;>
      simp [Score.add] <;> omega

/-! ### the first clause: exactly one count, by exactly one -/

/-- **`update_word` is an exact table update**: the count filed under (context, word) rises by one (from 0 if there was none) and
the count under every other key is what it was. -/
theorem C06_update_exact (f : List FreqEntry) (ctx : Ctx) (w : Str) (now : Int) (c' : Ctx) (w' : Str) :
    countOf (updateWord f ctx w now) c' w' = countOf f c' w' + (if c' = ctx ∧ w' = w then 1 else 0) := by
  rw [updateWord_eq]
  by_cases hk : c' = ctx ∧ w' = w
  · obtain ⟨rfl, rfl⟩ := hk
    simp only [and_self, if_true]
    cases ha : f.any (isKey c' w') with
    | true => simp [countOf_map_hit c' w' now f ha]
    | false =>
      have hx : isKey c' w' ⟨c', w', 1, now⟩ = true := (isKey_iff _ _ _).2 ⟨rfl, rfl⟩
      simp [countOf_append, ha, hx, countOf_miss c' w' f ha]
  · simp only [hk, if_false, Nat.add_zero]
    cases ha : f.any (isKey ctx w) with
    | true => simp [countOf_map_other ctx w now c' w' hk f]
    | false =>
      have hx : isKey c' w' ⟨ctx, w, 1, now⟩ = false := by
        cases h2 : isKey c' w' ⟨ctx, w, 1, now⟩ with
        | false => rfl
        | true => exact absurd (by have := (isKey_iff _ _ _).1 h2; exact ⟨this.1.symm, this.2.symm⟩) hk
      simp only [Bool.false_eq_true, if_false, countOf_append, hx]
      cases hb : f.any (isKey c' w') with
      | true => simp
      | false => simp [countOf_miss c' w' f hb]

/-- **What a confirmation does to the learned counts** (`UserPref::update_frequency` = `update_word` then `expire_frequencies`,
the shape the translator checks): the confirmed word's count in the confirmation's context rises by exactly one; every other count
that is not due for expiry is unchanged; a count is dropped exactly when all its entries are older than the expiry period. -/
theorem C06_confirmation_counts (f : List FreqEntry) (ctx : Ctx) (w : Str) (now : Int) (ex : Nat) :
    countOf (expire (updateWord f ctx w now) now ex) ctx w = countOf f ctx w + 1 ∧
    (∀ c' w', ¬ (c' = ctx ∧ w' = w) → (∀ e ∈ f, isKey c' w' e = true → fresh now ex e = true) →
      countOf (expire (updateWord f ctx w now) now ex) c' w' = countOf f c' w') ∧
    (∀ c' w', ¬ (c' = ctx ∧ w' = w) → (∀ e ∈ f, isKey c' w' e = true → fresh now ex e = false) →
      countOf (expire (updateWord f ctx w now) now ex) c' w' = 0) := by
  have other : ∀ c' w', ¬ (c' = ctx ∧ w' = w) → ∀ e ∈ updateWord f ctx w now, isKey c' w' e = true → e ∈ f := by
    intro c' w' hne e he hk
    apply (mem_updateWord f ctx w now e he).2
    cases h2 : isKey ctx w e with
    | false => rfl
    | true =>
      have h1 := (isKey_iff c' w' e).1 hk
      have h3 := (isKey_iff ctx w e).1 h2
      exact absurd ⟨h1.1.symm.trans h3.1, h1.2.symm.trans h3.2⟩ hne
  refine ⟨?_, ?_, ?_⟩
  · rw [countOf_expire_fresh, C06_update_exact]
    · simp
    · intro e he hk
      have := (mem_updateWord f ctx w now e he).1 hk
      simp only [fresh, this, Int.sub_self, gt_iff_lt, Bool.not_eq_eq_eq_not, Bool.not_true, decide_eq_false_iff_not, Int.not_lt]
      exact Int.natCast_nonneg ex
  · intro c' w' hne hf
    rw [countOf_expire_fresh, C06_update_exact]
    · simp [hne]
    · intro e he hk
      exact hf e (other c' w' hne e he hk) hk
  · intro c' w' hne hf
    apply countOf_expire_stale
    intro e he hk
    exact hf e (other c' w' hne e he hk) hk

/-- premises satisfiable, and the numbers: 時 confirmed in `normal` at t = 300 000 000 — its count 2 → 3; 次 (fresh) keeps 5; 個,
last used at t = 0, more than three days earlier, is dropped; the same word in another context is another key. -/
example :
    let f : List FreqEntry := [⟨.normal, [26178], 2, 100000000⟩, ⟨.normal, [27425], 5, 299999999⟩, ⟨.normal, [20491], 7, 0⟩,
                               ⟨.proper, [26178], 4, 250000000⟩]
    let f' := expire (updateWord f .normal [26178] 300000000) 300000000 259200000
    countOf f' .normal [26178] = 3 ∧ countOf f' .normal [27425] = 5 ∧ countOf f' .normal [20491] = 0 ∧
    countOf f' .proper [26178] = 4 := by decide

/-- The server's `UpdateFrequency` on a known session and candidate with an independent word: the learned table afterwards is
`update_word` then `expire_frequencies` of the table before, in the context the session was converted under — so
`C06_confirmation_counts` describes every count after the confirmation. A candidate without independent word changes no count. -/
theorem C06_confirm_freq (c : Cfg) (s : State) (sid i : Nat) (now : Int) (sess : Session) (cand : Cand)
    (h : s.sessions.find? (·.sid == sid) = some sess) (hc : sess.cands[i]? = some cand) :
    (confirm c s sid (some i) now).freq =
      match independentWord cand.chain with
      | some w => expire (updateWord s.freq sess.ctx w now) now c.expiryMs
      | none => s.freq := by
  simp only [confirm, popSession, h, Option.bind_some, hc]
  cases independentWord cand.chain <;> cases withAffix cand.chain <;> rfl

theorem C06_confirm_exactly_one (c : Cfg) (s : State) (sid i : Nat) (now : Int) (sess : Session) (cand : Cand) (w : Str)
    (h : s.sessions.find? (·.sid == sid) = some sess) (hc : sess.cands[i]? = some cand)
    (hw : independentWord cand.chain = some w) :
    let f' := (confirm c s sid (some i) now).freq
    countOf f' sess.ctx w = countOf s.freq sess.ctx w + 1 ∧
    (∀ c' w', ¬ (c' = sess.ctx ∧ w' = w) → (∀ e ∈ s.freq, isKey c' w' e = true → fresh now c.expiryMs e = true) →
      countOf f' c' w' = countOf s.freq c' w') ∧
    (∀ c' w', ¬ (c' = sess.ctx ∧ w' = w) → (∀ e ∈ s.freq, isKey c' w' e = true → fresh now c.expiryMs e = false) →
      countOf f' c' w' = 0) := by
  have := C06_confirm_freq c s sid i now sess cand h hc
  rw [hw] at this
  simp only [this]
  exact C06_confirmation_counts s.freq sess.ctx w now c.expiryMs

end Chokan.Props.C06
