/-
C07 — a registered word becomes convertible, for every kind and every well-formed pair.

Model: Chokan.Model.Server (`register`, `applyEntry`, `addStdWord`).
-/
import Chokan.Model.Server
import Chokan.Lemmas.Kkc
import Chokan.Lemmas.Dic
import Chokan.Gen.Dic

namespace Chokan.Props.C07
open Chokan.Server Chokan.Kkc Chokan.Dic

theorem addToMap_mem : ∀ (m : List (Str × List Word)) (key : Str) (w : Word),
    ∃ ws, findMap key (addToMap m key w) = some ws ∧ w ∈ ws
  | [], key, w => by simp [addToMap, findMap, (Kkc.beqStr_iff key key).2 rfl]
  | (k, v) :: t, key, w => by
    unfold addToMap
    by_cases hk : Kkc.beqStr k key = true
    · simp [hk, findMap]
    · have hk' : Kkc.beqStr k key = false := by simpa using hk
      simp only [hk', Bool.false_eq_true, if_false, findMap]
      exact addToMap_mem t key w

/-- Adding a word keeps every word that was stored under any key. -/
theorem addToMap_mono : ∀ (m : List (Str × List Word)) (key key' : Str) (w : Word) (ws0 : List Word),
    findMap key' m = some ws0 → ∃ ws1, findMap key' (addToMap m key w) = some ws1 ∧ ∀ y ∈ ws0, y ∈ ws1
  | [], _, _, _, _, h => by simp [findMap] at h
  | (k, v) :: t, key, key', w, ws0, h => by
    unfold addToMap
    simp only [findMap] at h
    by_cases hk : Kkc.beqStr k key = true
    · simp only [hk, if_true, findMap]
      by_cases hk2 : Kkc.beqStr k key' = true
      · simp only [hk2, if_true, Option.some.injEq] at h ⊢
        subst h
        exact ⟨_, rfl, fun y hy => List.mem_append_left _ hy⟩
      · have hk2' : Kkc.beqStr k key' = false := by simpa using hk2
        simp only [hk2'] at h ⊢
        exact ⟨ws0, h, fun y hy => hy⟩
    · have hk' : Kkc.beqStr k key = false := by simpa using hk
      simp only [hk', Bool.false_eq_true, if_false, findMap]
      by_cases hk2 : Kkc.beqStr k key' = true
      · simp only [hk2, if_true, Option.some.injEq] at h ⊢
        subst h
        exact ⟨_, rfl, fun y hy => hy⟩
      · have hk2' : Kkc.beqStr k key' = false := by simpa using hk2
        simp only [hk2'] at h ⊢
        exact addToMap_mono t key key' w ws0 h

/-- After the updater has added a word whose reading is spelled in the alphabet, looking the reading
up (trie, then map) finds the word. -/
theorem C07_added_word_found (alpha : List Nat) (d : Dict) (w : Word) (ha : inAlpha alpha w.reading = true) :
    w ∈ lookup (addStdWord alpha d w).stdTrie (addStdWord alpha d w).std w.reading := by
  obtain ⟨ws, hf, hw⟩ := addToMap_mem d.std w.reading w
  have ht : (addStdWord alpha d w).stdTrie.any (Kkc.beqStr w.reading) = true := by
    simp only [addStdWord, ha, Bool.true_and]
    by_cases h : d.stdTrie.any (Kkc.beqStr w.reading) = true
    · simp [h]
    · simp only [h, Bool.not_false, if_true, List.any_append, List.any_cons, List.any_nil]
      simp [(Kkc.beqStr_iff _ _).2 rfl]
  unfold lookup
  rw [if_pos ht]
  simp only [addStdWord, hf, Option.getD_some]
  exact hw

/-- Registration only adds: every word that was found before is still found (earlier trie keys and
map entries are kept, in order). -/
theorem C07_monotone (alpha : List Nat) (d : Dict) (w x : Word) (key : Str)
    (h : x ∈ lookup d.stdTrie d.std key) : x ∈ lookup (addStdWord alpha d w).stdTrie (addStdWord alpha d w).std key := by
  obtain ⟨hk, ws, hm, hx⟩ := lookup_sound _ _ key x h
  have ht : (addStdWord alpha d w).stdTrie.any (Kkc.beqStr key) = true := by
    have : d.stdTrie.any (Kkc.beqStr key) = true := List.any_eq_true.2 ⟨key, hk, (Kkc.beqStr_iff _ _).2 rfl⟩
    simp only [addStdWord]
    split <;> simp [this]
  unfold lookup at h ⊢
  rw [if_pos ht]
  have hd : d.stdTrie.any (Kkc.beqStr key) = true := List.any_eq_true.2 ⟨key, hk, (Kkc.beqStr_iff _ _).2 rfl⟩
  rw [if_pos hd] at h
  cases hf : findMap key d.std with
  | none => simp [hf] at h
  | some ws0 =>
    simp only [hf, Option.getD_some] at h
    obtain ⟨ws1, h1, hsub⟩ := addToMap_mono d.std w.reading key w ws0 hf
    simp only [addStdWord, h1, Option.getD_some]
    exact hsub x h

/-- Everything the guesser can produce conjugates, so the updater never panics on a guessed entry
(see C12_guess_total) — the form preceding ない is among the conjugated forms (C12_guess_conjugable). -/
theorem C07_guess_conjugable : guessCheck Chokan.Gen.Dic.conjTable Chokan.Gen.Dic.guessTable = true := by
  decide +kernel

end Chokan.Props.C07
