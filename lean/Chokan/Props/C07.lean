/-
C07 — a registered word becomes convertible, for every kind and every well-formed pair.

Model: Chokan.Model.Server (`register`, `applyEntry`, `addStdWord`).
-/
import Chokan.Model.Server
import Chokan.Lemmas.Kkc
import Chokan.Lemmas.Dic
import Chokan.Gen.Dic
import Chokan.Props.C03

namespace Chokan.Props.C07
open Chokan.Server Chokan.Kkc Chokan.Dic

theorem addToMap_mem : ∀ (m : List (Str × List Word)) (key : Str) (w : Word),
    ∃ ws, findMap key (addToMap m key w) = some ws ∧ w ∈ ws
  | [], key, w => by simp [addToMap, findMap, (Kkc.beqStr_iff key key).2 rfl]
  | (k, v) :: t, key, w => by
    unfold addToMap
    by_cases hk : Kkc.beqStr k key = true
    · simp [hk, findMap]
    · have hk' : Kkc.beqStr k key = false := by simpa using hk
      simp only [hk', Bool.false_eq_true, if_false, findMap]
      exact addToMap_mem t key w

/-- Adding a word keeps every word that was stored under any key. -/
theorem addToMap_mono : ∀ (m : List (Str × List Word)) (key key' : Str) (w : Word) (ws0 : List Word),
    findMap key' m = some ws0 → ∃ ws1, findMap key' (addToMap m key w) = some ws1 ∧ ∀ y ∈ ws0, y ∈ ws1
  | [], _, _, _, _, h => by simp [findMap] at h
  | (k, v) :: t, key, key', w, ws0, h => by
    unfold addToMap
    simp only [findMap] at h
    by_cases hk : Kkc.beqStr k key = true
    · simp only [hk, if_true, findMap]
      by_cases hk2 : Kkc.beqStr k key' = true
      · simp only [hk2, if_true, Option.some.injEq] at h ⊢
        subst h
        exact ⟨_, rfl, fun y hy => List.mem_append_left _ hy⟩
      · have hk2' : Kkc.beqStr k key' = false := by simpa using hk2
        simp only [hk2'] at h ⊢
        exact ⟨ws0, h, fun y hy => hy⟩
    · have hk' : Kkc.beqStr k key = false := by simpa using hk
      simp only [hk', Bool.false_eq_true, if_false, findMap]
      by_cases hk2 : Kkc.beqStr k key' = true
      · simp only [hk2, if_true, Option.some.injEq] at h ⊢
        subst h
        exact ⟨_, rfl, fun y hy => hy⟩
      · have hk2' : Kkc.beqStr k key' = false := by simpa using hk2
        simp only [hk2'] at h ⊢
        exact addToMap_mono t key key' w ws0 h

/-- After the updater has added a word whose reading is spelled in the alphabet, looking the reading
up (trie, then map) finds the word. -/
theorem C07_added_word_found (alpha : List Nat) (d : Dict) (w : Word) (ha : inAlpha alpha w.reading = true) :
    w ∈ lookup (addStdWord alpha d w).stdTrie (addStdWord alpha d w).std w.reading := by
  obtain ⟨ws, hf, hw⟩ := addToMap_mem d.std w.reading w
  have ht : (addStdWord alpha d w).stdTrie.any (Kkc.beqStr w.reading) = true := by
    simp only [addStdWord, ha, Bool.true_and]
    by_cases h : d.stdTrie.any (Kkc.beqStr w.reading) = true
    · simp [h]
    · simp only [h, Bool.not_false, if_true, List.any_append, List.any_cons, List.any_nil]
      simp [(Kkc.beqStr_iff _ _).2 rfl]
  unfold lookup
  rw [if_pos ht]
  simp only [addStdWord, hf, Option.getD_some]
  exact hw

/-- Registration only adds: every word that was found before is still found (earlier trie keys and
map entries are kept, in order). -/
theorem C07_monotone (alpha : List Nat) (d : Dict) (w x : Word) (key : Str)
    (h : x ∈ lookup d.stdTrie d.std key) : x ∈ lookup (addStdWord alpha d w).stdTrie (addStdWord alpha d w).std key := by
  obtain ⟨hk, ws, hm, hx⟩ := lookup_sound _ _ key x h
  have ht : (addStdWord alpha d w).stdTrie.any (Kkc.beqStr key) = true := by
    have : d.stdTrie.any (Kkc.beqStr key) = true := List.any_eq_true.2 ⟨key, hk, (Kkc.beqStr_iff _ _).2 rfl⟩
    simp only [addStdWord]
    split <;> simp [this]
  unfold lookup at h ⊢
  rw [if_pos ht]
  have hd : d.stdTrie.any (Kkc.beqStr key) = true := List.any_eq_true.2 ⟨key, hk, (Kkc.beqStr_iff _ _).2 rfl⟩
  rw [if_pos hd] at h
  cases hf : findMap key d.std with
  | none => simp [hf] at h
  | some ws0 =>
    simp only [hf, Option.getD_some] at h
    obtain ⟨ws1, h1, hsub⟩ := addToMap_mono d.std w.reading key w ws0 hf
    simp only [addStdWord, h1, Option.getD_some]
    exact hsub x h

/-- Everything the guesser can produce conjugates, so the updater never panics on a guessed entry
(see C12_guess_total) — the form preceding ない is among the conjugated forms (C12_guess_conjugable). -/
theorem C07_guess_conjugable : guessCheck Chokan.Gen.Dic.conjTable Chokan.Gen.Dic.guessTable = true := by
  decide +kernel

/-! ### candidate-level visibility -/

theorem addToMap_wf : ∀ (m : List (Str × List Word)) (w : Word), w.reading ≠ [] →
    (∀ p ∈ m, p.1 ≠ [] ∧ ∀ x ∈ p.2, x.reading = p.1) →
    ∀ p ∈ addToMap m w.reading w, p.1 ≠ [] ∧ ∀ x ∈ p.2, x.reading = p.1
  | [], w, hne, _, p, hp => by
    simp only [addToMap, List.mem_singleton] at hp
    subst hp
    exact ⟨hne, fun x hx => by simp only [List.mem_singleton] at hx; rw [hx]⟩
  | (k, v) :: t, w, hne, hm, p, hp => by
    unfold addToMap at hp
    by_cases hk : Kkc.beqStr k w.reading = true
    · simp only [hk, if_true, List.mem_cons] at hp
      have hkr : k = w.reading := (Kkc.beqStr_iff _ _).1 hk
      rcases hp with rfl | hp
      · have h0 := hm (k, v) List.mem_cons_self
        refine ⟨h0.1, ?_⟩
        intro x hx
        rcases List.mem_append.1 hx with hx | hx
        · exact h0.2 x hx
        · simp only [List.mem_singleton] at hx; rw [hx, hkr]
      · exact hm p (List.mem_cons_of_mem _ hp)
    · have hk' : Kkc.beqStr k w.reading = false := by
        cases hq : Kkc.beqStr k w.reading with
        | false => rfl
        | true => exact absurd hq hk
      simp only [hk', Bool.false_eq_true, if_false, List.mem_cons] at hp
      rcases hp with rfl | hp
      · exact hm _ List.mem_cons_self
      · exact addToMap_wf t w hne (fun q hq => hm q (List.mem_cons_of_mem _ hq)) p hp

theorem addStdWord_wf (alpha : List Nat) (d : Dict) (w : Word) (hne : w.reading ≠ []) (hd : Dict.WF d) :
    Dict.WF (addStdWord alpha d w) :=
  ⟨addToMap_wf d.std w hne hd.1, hd.2⟩

/-- **A registered word is offered.**  Once the updater has applied an independent word whose non-empty
reading is spelled in the trie alphabet, every input that begins with that reading gets — in every
context, with any learned counts, from some number of loop iterations on — a candidate list that
contains the word's written form followed by the rest of the input, unless the list is cut at `n`
(lookup: `C07_added_word_found`; lattice and search: `C03_complete_head`, `C02_full`). -/
theorem C07_registered_word_offered (alpha : List Nat) (d : Dict) (w : Word) (rest : Str) (ctx : Ctx) (f : Freq)
    (n : Nat) (hn : 1 ≤ n) (hd : Dict.WF d) (hne : w.reading ≠ []) (ha : inAlpha alpha w.reading = true)
    (hind : w.speech.isAncillary = false) :
    ∃ fuel0 R, ∀ fuel, fuel0 ≤ fuel →
      getCandidates genTables (w.reading ++ rest) (addStdWord alpha d w) ctx f n fuel = some R ∧
      (w.word ++ rest ∈ R.map Cand.text ∨ R.length = n) := by
  have hlen : 0 < w.reading.length := List.length_pos_iff.2 hne
  have hslice : slice (w.reading ++ rest) 0 (w.reading.length - 1) = w.reading := by
    simp only [slice, List.drop_zero]
    rw [show w.reading.length - 1 + 1 - 0 = w.reading.length by omega, List.take_left']
    rfl
  have hw := C07_added_word_found alpha d w ha
  rw [← hslice] at hw
  obtain ⟨fuel0, R, h⟩ := C03.C03_complete_head (w.reading ++ rest) (addStdWord alpha d w) ctx f n hn
    (addStdWord_wf alpha d w hne hd) (w.reading.length - 1) (by simp; omega) w hw hind
  refine ⟨fuel0, R, ?_⟩
  intro fuel hf
  obtain ⟨h1, h2⟩ := h fuel hf
  refine ⟨h1, ?_⟩
  rw [show w.reading.length - 1 + 1 = w.reading.length by omega, List.drop_left'] at h2
  · exact h2
  · rfl

end Chokan.Props.C07
