/-
C08 — saved user data restores exactly; a restart does not change any answer.

Model: `save` / `restart` / `start` of Chokan.Model.Server; the user dictionary goes through the text
format of C10 (`writeAll` / `readAll`), the learned counts are restored as saved (the postcard wire
format is not modelled; it is compared on the real files by the check).
-/
import Chokan.Props.C10
import Chokan.Model.Server
import Chokan.Gen.Server
import Chokan.Gen.Kkc
import Chokan.Gen.KanaAlpha

namespace Chokan.Props.C08
open Chokan.Server Chokan.Kkc Chokan.Dic Chokan.DicText

/-- The configuration of the real server: every table regenerated from the source. -/
def cfg : Cfg :=
  { tables := { wordEdges := Chokan.Gen.Kkc.wordEdges, virtEdges := Chokan.Gen.Kkc.virtEdges, headEdges := Chokan.Gen.Kkc.headEdges,
                mergeHead := Chokan.Gen.Kkc.mergeHead, properBonus := Chokan.Gen.Kkc.properBonus },
    conj := Chokan.Gen.Dic.conjTable, adj := Chokan.Gen.Dic.adjectiveForms, adjv := Chokan.Gen.Dic.adjectivalVerbForms,
    guess := Chokan.Gen.Dic.guessTable, names := Chokan.Gen.Dic.simpleNames, vsuf := Chokan.Gen.Dic.verbSuffix,
    kanaClass := Chokan.Gen.DicGrammar.kanaClass, alts := Chokan.Gen.DicGrammar.speechAlts, kata := Chokan.Gen.DicGrammar.katakanaClass,
    alpha := Chokan.Gen.Server.alphabet, kanaAlpha := Chokan.Gen.KanaAlpha.table, expiryMs := Chokan.Gen.Server.expiryMs,
    nCandidates := Chokan.Gen.Server.nCandidates, fuel := 1000000 }

/-- user.dic round trip: what a save writes is read back as exactly the user dictionary, entry by
entry and in order, for every storable user dictionary (C10_file). -/
theorem C08_user_dic_roundtrip (es : List Entry) (h : ∀ e ∈ es, C10.Storable e ∧ ∀ c ∈ e.stem, c ≠ 10) :
    readAll cfg.kanaClass cfg.alts cfg.kata (writeAll cfg.names cfg.vsuf es) = es :=
  C10.C10_file es h

/-- Every reading spelled in the dictionary (trie) alphabet is a reading the text format accepts, so
nothing registrable under a convertible reading is dropped for its reading. -/
theorem C08_alphabet_in_reading_class :
    Chokan.Gen.Server.alphabet.all (fun c => isKana Chokan.Gen.DicGrammar.kanaClass c) = true := by
  decide +kernel

/-- An accepted registration queues an entry that user.dic stores faithfully (the handler checks it). -/
theorem C08_register_storable (s s' : State) (k : RegKind) (r w : Str) (h : register cfg s k r w = some s') :
    ∃ e, s'.pending = s.pending ++ [e] ∧
      readAll cfg.kanaClass cfg.alts cfg.kata (printEntry cfg.names cfg.vsuf e) = [e] := by
  unfold register at h
  simp only [Option.map_eq_some_iff, Option.filter_eq_some_iff] at h
  obtain ⟨e, ⟨_, hst⟩, rfl⟩ := h
  exact ⟨e, rfl, by simpa [storable] using hst⟩

/-- A start after a completed save restores the learned counts as saved and the user dictionary
exactly (when it round-trips), with the save directory kept. -/
theorem C08_restart_restores (s s' : State) (hdir : s.hasDir = true)
    (hrt : readAll cfg.kanaClass cfg.alts cfg.kata (writeAll cfg.names cfg.vsuf s.userDict) = s.userDict)
    (h : restart cfg (save cfg s) = some s') :
    s'.freq = s.freq ∧ s'.userDict = s.userDict ∧ s'.hasDir = true ∧ s'.base = s.base ∧
      mergeEntries cfg s.base s.userDict = some s'.dict := by
  simp only [restart, save, hdir, if_true, start, hrt, Option.map_eq_some_iff] at h
  obtain ⟨d, hd, rfl⟩ := h
  exact ⟨rfl, rfl, rfl, rfl, hd⟩

/-- Saving and restoring again is idempotent: the second save writes what the first one wrote. -/
theorem C08_idempotent (s s' : State) (hdir : s.hasDir = true)
    (hrt : readAll cfg.kanaClass cfg.alts cfg.kata (writeAll cfg.names cfg.vsuf s.userDict) = s.userDict)
    (h : restart cfg (save cfg s) = some s') :
    (save cfg s').saved.map (fun x => (x.freq, x.userDicText)) =
      (save cfg s).saved.map (fun x => (x.freq, x.userDicText)) := by
  obtain ⟨hf, hu, hd, _, _⟩ := C08_restart_restores s s' hdir hrt h
  simp [save, hdir, hd, hf, hu]

/-- The invariant a restart needs in order to change no answer: the running dictionary is the image
merged with the user dictionary in registration order.  It holds at every start … -/
def InvDict (s : State) : Prop := mergeEntries cfg s.base s.userDict = some s.dict

theorem C08_inv_at_start (base : Dict) (tk : List (Str × List Word)) (dir : Bool) (sv : Option Saved) (s : State)
    (h : start cfg base tk dir sv = some s) : InvDict s := by
  simp only [start, Option.map_eq_some_iff] at h
  obtain ⟨d, hd, rfl⟩ := h
  exact hd

theorem mergeEntries_append (d : Dict) (es : List Entry) (e : Entry) (d1 : Dict)
    (h : mergeEntries cfg d es = some d1) :
    mergeEntries cfg d (es ++ [e]) = mergeEntry cfg d1 e := by
  induction es generalizing d with
  | nil =>
    simp only [mergeEntries, Option.some.injEq] at h
    subst h
    simp only [List.nil_append, mergeEntries]
    cases mergeEntry cfg d e <;> simp [mergeEntries]
  | cons x xs ih =>
    simp only [mergeEntries, List.cons_append] at h ⊢
    cases hx : mergeEntry cfg d x with
    | none => simp [hx] at h
    | some d' =>
      simp only [hx, Option.bind_some] at h ⊢
      exact ih d' h

/-- … and is preserved when the updater applies a registered entry. -/
theorem C08_inv_apply (s s' : State) (hinv : InvDict s) (h : applyEntry cfg s = some s') : InvDict s' := by
  unfold applyEntry at h
  cases hp : s.pending with
  | nil => simp only [hp, Option.some.injEq] at h; subst h; exact hinv
  | cons e rest =>
    simp only [hp, Option.map_eq_some_iff] at h
    obtain ⟨d, hd, rfl⟩ := h
    unfold InvDict at hinv ⊢
    simp only
    rw [mergeEntries_append s.base s.userDict e s.dict hinv]
    exact hd

/-! ## every history: the invariant, and what a restart then answers

`C08_full_statement` is the property at full strength on the model.  Until fix c5e9959 a compound confirmation appended
its entry to the user dictionary at once *and* queued it (the updater appended it again), so after a restart the dictionary
held the compound's word twice where the running one held it once: `InvDict` failed, the theorem could only be proved for
histories without compound confirmations (`C08_same_answers_partial`), and the thorough tier of the C08 check found a history
on the real server after which two equal-score candidates came back in the other order.  With the fix every step is quiet
(`quiet_all`) and the full statement is a theorem (`C08_full`). -/

/-- Full strength: in every reachable quiescent state, save + restart changes no answer. -/
def C08_full_statement : Prop :=
  ∀ (s0 s s' : State) (ops : List Op), InvDict s0 → s = runOps cfg s0 ops → s.pending = [] → s.hasDir = true →
    readAll cfg.kanaClass cfg.alts cfg.kata (writeAll cfg.names cfg.vsuf s.userDict) = s.userDict →
    restart cfg (save cfg s) = some s' →
    ∀ ctx input, (convert cfg s' ctx input).map (·.2.2) = (convert cfg s ctx input).map (·.2.2)

/-- A step that is not a compound confirmation: it leaves the user dictionary alone, or it is the updater. -/
def QuietStep (s : State) (op : Op) : Prop := (stepOp cfg s op).userDict = s.userDict ∨ op = .apply

theorem base_step (s : State) (op : Op) : (stepOp cfg s op).base = s.base := by
  cases op with
  | convert ctx input =>
    simp only [stepOp]
    cases hc : convert cfg s ctx input with
    | none => rfl
    | some r =>
      obtain ⟨s', sid, cs⟩ := r
      unfold convert at hc
      simp only [Option.map_eq_some_iff, Prod.mk.injEq] at hc
      obtain ⟨_, _, rfl, _, _⟩ := hc
      rfl
  | confirm sid cid now =>
    simp only [stepOp]
    unfold confirm popSession
    cases hs : s.sessions.find? (·.sid == sid) with
    | none => rfl
    | some sess' =>
      simp only
      cases hcb : (cid.bind fun i => sess'.cands[i]?) with
      | none => rfl
      | some cand =>
        simp only
        cases independentWord cand.chain <;> cases withAffix cand.chain <;> rfl
  | register k r w =>
    simp only [stepOp]
    cases hr : register cfg s k r w with
    | none => rfl
    | some s' =>
      unfold register at hr
      simp only [Option.map_eq_some_iff] at hr
      obtain ⟨e, _, rfl⟩ := hr
      rfl
  | apply =>
    simp only [stepOp]
    cases ha : applyEntry cfg s with
    | none => rfl
    | some s' =>
      unfold applyEntry at ha
      cases hp : s.pending with
      | nil => simp only [hp, Option.some.injEq] at ha; subst ha; rfl
      | cons e rest =>
        simp only [hp, Option.map_eq_some_iff] at ha
        obtain ⟨d, _, rfl⟩ := ha
        rfl
  | save =>
    simp only [stepOp, save]
    split <;> rfl

theorem dict_step_non_apply (s : State) (op : Op) (h : op ≠ .apply) : (stepOp cfg s op).dict = s.dict := by
  cases op with
  | apply => exact absurd rfl h
  | convert ctx input =>
    simp only [stepOp]
    cases hc : convert cfg s ctx input with
    | none => rfl
    | some r =>
      obtain ⟨s', sid, cs⟩ := r
      unfold convert at hc
      simp only [Option.map_eq_some_iff, Prod.mk.injEq] at hc
      obtain ⟨_, _, rfl, _, _⟩ := hc
      rfl
  | confirm sid cid now =>
    simp only [stepOp]
    unfold confirm popSession
    cases hs : s.sessions.find? (·.sid == sid) with
    | none => rfl
    | some sess' =>
      simp only
      cases hcb : (cid.bind fun i => sess'.cands[i]?) with
      | none => rfl
      | some cand =>
        simp only
        cases independentWord cand.chain <;> cases withAffix cand.chain <;> rfl
  | register k r w =>
    simp only [stepOp]
    cases hr : register cfg s k r w with
    | none => rfl
    | some s' =>
      unfold register at hr
      simp only [Option.map_eq_some_iff] at hr
      obtain ⟨e, _, rfl⟩ := hr
      rfl
  | save =>
    simp only [stepOp, save]
    split <;> rfl

/-- The invariant survives every quiet step … -/
theorem C08_inv_step (s : State) (op : Op) (hinv : InvDict s) (hq : QuietStep s op) : InvDict (stepOp cfg s op) := by
  by_cases ha : op = .apply
  · subst ha
    simp only [stepOp]
    cases hap : applyEntry cfg s with
    | none => exact hinv
    | some s' => exact C08_inv_apply s s' hinv hap
  · rcases hq with hq | hq
    · unfold InvDict at hinv ⊢
      rw [base_step, hq, dict_step_non_apply s op ha]
      exact hinv
    · exact absurd hq ha

/-- … hence every history of quiet steps (`QuietHistory`: each step is quiet in the state it runs in). -/
def QuietHistory : State → List Op → Prop
  | _, [] => True
  | s, op :: t => QuietStep s op ∧ QuietHistory (stepOp cfg s op) t

theorem C08_inv_history : ∀ (ops : List Op) (s : State), InvDict s → QuietHistory s ops → InvDict (runOps cfg s ops)
  | [], _, h, _ => h
  | op :: t, s, h, hq => C08_inv_history t (stepOp cfg s op) (C08_inv_step s op h hq.1) hq.2

/-- **After a save and restart every conversion returns the same candidates in the same order** — for
every history without compound confirmations (see the section header for what is missing). -/
theorem C08_same_answers_partial (s0 s s' : State) (ops : List Op) (hinv : InvDict s0) (hs : s = runOps cfg s0 ops)
    (hquiet : QuietHistory s0 ops) (hdir : s.hasDir = true)
    (hrt : readAll cfg.kanaClass cfg.alts cfg.kata (writeAll cfg.names cfg.vsuf s.userDict) = s.userDict)
    (h : restart cfg (save cfg s) = some s') :
    ∀ ctx input, (convert cfg s' ctx input).map (·.2.2) = (convert cfg s ctx input).map (·.2.2) := by
  obtain ⟨hf, _, _, _, hd⟩ := C08_restart_restores s s' hdir hrt h
  have hI : InvDict s := by rw [hs]; exact C08_inv_history ops s0 hinv hquiet
  unfold InvDict at hI
  rw [hI] at hd
  have hdict : s'.dict = s.dict := (Option.some.inj hd).symm
  intro ctx input
  unfold convert
  rw [hdict, hf]
  cases getCandidates cfg.tables input s.dict ctx (toKkcFreq s.freq) cfg.nCandidates cfg.fuel <;> rfl

/-! Non-vacuity: a concrete quiet history (a registration, its application, a conversion, its
confirmation, a save) from a state that satisfies the invariant. -/

def exBase : Dict :=
  { std := [([12363], [{ word := [34442], reading := [12363], speech := .noun .common }])], stdTrie := [[12363]],
    anc := [], ancTrie := [] }

def exState : State :=
  { base := exBase, tankan := [], dict := exBase, freq := [], userDict := [], sessions := [], pending := [],
    nextSid := 0, hasDir := true, saved := none }

def exOps : List Op :=
  [.register .commonNoun [12363] [39321], .apply, .convert .normal [12363], .confirm 0 (some 0) 7, .save]

example : InvDict exState := by unfold InvDict; rfl

example : QuietHistory exState exOps := by
  refine ⟨Or.inl (by decide +kernel), Or.inr rfl, Or.inl (by decide +kernel), Or.inl (by decide +kernel),
    Or.inl (by decide +kernel), trivial⟩

example : (runOps cfg exState exOps).userDict = [⟨[39321], [12363], .noun .common⟩] ∧
    (runOps cfg exState exOps).freq.map (fun e => (e.word, e.count)) = [([39321], 1)] ∨
    (runOps cfg exState exOps).freq.map (fun e => (e.word, e.count)) = [([34442], 1)] := by
  decide +kernel

/-- With fix c5e9959 every step is quiet: only the updater touches the user dictionary. -/
theorem quiet_all (s : State) (op : Op) : QuietStep s op := by
  cases op with
  | apply => exact Or.inr rfl
  | save => left; simp only [stepOp, save]; split <;> rfl
  | convert ctx input =>
    left
    simp only [stepOp]
    cases hc : convert cfg s ctx input with
    | none => rfl
    | some r =>
      obtain ⟨s', sid, cs⟩ := r
      unfold convert at hc
      simp only [Option.map_eq_some_iff, Prod.mk.injEq] at hc
      obtain ⟨_, _, rfl, _, _⟩ := hc
      rfl
  | register k r w =>
    left
    simp only [stepOp]
    cases hr : register cfg s k r w with
    | none => rfl
    | some s' =>
      unfold register at hr
      simp only [Option.map_eq_some_iff] at hr
      obtain ⟨e, _, rfl⟩ := hr
      rfl
  | confirm sid cid now =>
    left
    simp only [stepOp]
    unfold confirm popSession
    cases hs : s.sessions.find? (·.sid == sid) with
    | none => rfl
    | some sess =>
      simp only
      cases hcb : (cid.bind fun i => sess.cands[i]?) with
      | none => rfl
      | some cand =>
        simp only
        cases independentWord cand.chain <;> cases withAffix cand.chain <;> rfl

theorem quiet_history : ∀ (ops : List Op) (s : State), QuietHistory s ops
  | [], _ => trivial
  | op :: t, s => ⟨quiet_all s op, quiet_history t (stepOp cfg s op)⟩

/-- **C08 at full strength on the model: after a save and restart every conversion returns the same candidates in the same
order, for every history** — registrations, conversions, confirmations (compound confirmations included), updater steps
and saves in any order. -/
theorem C08_full : C08_full_statement := by
  intro s0 s s' ops hinv hs _ hdir hrt h
  exact C08_same_answers_partial s0 s s' ops hinv hs (quiet_history ops s0) hdir hrt h

/-! The history that used to break the invariant: a compound (prefix 御 + 蚊) is confirmed and applied — the user dictionary
now holds it once, and the dictionary a restart would build is the running one. -/

def exBase2 : Dict :=
  { std := [([12363], [{ word := [34442], reading := [12363], speech := .noun .common }])], stdTrie := [[12363]],
    anc := [([12362], [{ word := [24481], reading := [12362], speech := .affix .prefix }])], ancTrie := [[12362]] }

def exState2 : State := { exState with base := exBase2, dict := exBase2 }

def exOps2 : List Op := [.convert .normal [12362, 12363], .confirm 0 (some 0) 7, .apply]

example : (runOps cfg exState2 exOps2).userDict.length = 1 ∧ (runOps cfg exState2 exOps2).pending = [] ∧
    (mergeEntries cfg exState2.base (runOps cfg exState2 exOps2).userDict).map (fun d => d.std.map fun p => p.2.length) =
      some [1, 1] ∧
    (runOps cfg exState2 exOps2).dict.std.map (fun p => p.2.length) = [1, 1] := by
  decide +kernel

end Chokan.Props.C08
