/-
C08 — saved user data restores exactly; a restart does not change any answer.

Model: `save` / `restart` / `start` of Chokan.Model.Server; the user dictionary goes through the text
format of C10 (`writeAll` / `readAll`), the learned counts are restored as saved (the postcard wire
format is not modelled; it is compared on the real files by the check).
-/
import Chokan.Props.C10
import Chokan.Model.Server
import Chokan.Gen.Server
import Chokan.Gen.Kkc
import Chokan.Gen.KanaAlpha

namespace Chokan.Props.C08
open Chokan.Server Chokan.Kkc Chokan.Dic Chokan.DicText

/-- The configuration of the real server: every table regenerated from the source. -/
def cfg : Cfg :=
  { tables := { wordEdges := Chokan.Gen.Kkc.wordEdges, virtEdges := Chokan.Gen.Kkc.virtEdges, headEdges := Chokan.Gen.Kkc.headEdges,
                mergeHead := Chokan.Gen.Kkc.mergeHead, properBonus := Chokan.Gen.Kkc.properBonus },
    conj := Chokan.Gen.Dic.conjTable, adj := Chokan.Gen.Dic.adjectiveForms, adjv := Chokan.Gen.Dic.adjectivalVerbForms,
    guess := Chokan.Gen.Dic.guessTable, names := Chokan.Gen.Dic.simpleNames, vsuf := Chokan.Gen.Dic.verbSuffix,
    kanaClass := Chokan.Gen.DicGrammar.kanaClass, alts := Chokan.Gen.DicGrammar.speechAlts, kata := Chokan.Gen.DicGrammar.katakanaClass,
    alpha := Chokan.Gen.Server.alphabet, kanaAlpha := Chokan.Gen.KanaAlpha.table, expiryMs := Chokan.Gen.Server.expiryMs,
    nCandidates := Chokan.Gen.Server.nCandidates, fuel := 1000000 }

/-- user.dic round trip: what a save writes is read back as exactly the user dictionary, entry by
entry and in order, for every storable user dictionary (C10_file). -/
theorem C08_user_dic_roundtrip (es : List Entry) (h : ∀ e ∈ es, C10.Storable e ∧ ∀ c ∈ e.stem, c ≠ 10) :
    readAll cfg.kanaClass cfg.alts cfg.kata (writeAll cfg.names cfg.vsuf es) = es :=
  C10.C10_file es h

/-- Every reading spelled in the dictionary (trie) alphabet is a reading the text format accepts, so
nothing registrable under a convertible reading is dropped for its reading. -/
theorem C08_alphabet_in_reading_class :
    Chokan.Gen.Server.alphabet.all (fun c => isKana Chokan.Gen.DicGrammar.kanaClass c) = true := by
  decide +kernel

/-- An accepted registration queues an entry that user.dic stores faithfully (the handler checks it). -/
theorem C08_register_storable (s s' : State) (k : RegKind) (r w : Str) (h : register cfg s k r w = some s') :
    ∃ e, s'.pending = s.pending ++ [e] ∧
      readAll cfg.kanaClass cfg.alts cfg.kata (printEntry cfg.names cfg.vsuf e) = [e] := by
  unfold register at h
  simp only [Option.map_eq_some_iff, Option.filter_eq_some_iff] at h
  obtain ⟨e, ⟨_, hst⟩, rfl⟩ := h
  exact ⟨e, rfl, by simpa [storable] using hst⟩

/-- A start after a completed save restores the learned counts as saved and the user dictionary
exactly (when it round-trips), with the save directory kept. -/
theorem C08_restart_restores (s s' : State) (hdir : s.hasDir = true)
    (hrt : readAll cfg.kanaClass cfg.alts cfg.kata (writeAll cfg.names cfg.vsuf s.userDict) = s.userDict)
    (h : restart cfg (save cfg s) = some s') :
    s'.freq = s.freq ∧ s'.userDict = s.userDict ∧ s'.hasDir = true ∧ s'.base = s.base ∧
      mergeEntries cfg s.base s.userDict = some s'.dict := by
  simp only [restart, save, hdir, if_true, start, hrt, Option.map_eq_some_iff] at h
  obtain ⟨d, hd, rfl⟩ := h
  exact ⟨rfl, rfl, rfl, rfl, hd⟩

/-- Saving and restoring again is idempotent: the second save writes what the first one wrote. -/
theorem C08_idempotent (s s' : State) (hdir : s.hasDir = true)
    (hrt : readAll cfg.kanaClass cfg.alts cfg.kata (writeAll cfg.names cfg.vsuf s.userDict) = s.userDict)
    (h : restart cfg (save cfg s) = some s') :
    (save cfg s').saved.map (fun x => (x.freq, x.userDicText)) =
      (save cfg s).saved.map (fun x => (x.freq, x.userDicText)) := by
  obtain ⟨hf, hu, hd, _, _⟩ := C08_restart_restores s s' hdir hrt h
  simp [save, hdir, hd, hf, hu]

/-- The invariant a restart needs in order to change no answer: the running dictionary is the image
merged with the user dictionary in registration order.  It holds at every start … -/
def InvDict (s : State) : Prop := mergeEntries cfg s.base s.userDict = some s.dict

theorem C08_inv_at_start (base : Dict) (tk : List (Str × List Word)) (dir : Bool) (sv : Option Saved) (s : State)
    (h : start cfg base tk dir sv = some s) : InvDict s := by
  simp only [start, Option.map_eq_some_iff] at h
  obtain ⟨d, hd, rfl⟩ := h
  exact hd

theorem mergeEntries_append (d : Dict) (es : List Entry) (e : Entry) (d1 : Dict)
    (h : mergeEntries cfg d es = some d1) :
    mergeEntries cfg d (es ++ [e]) = mergeEntry cfg d1 e := by
  induction es generalizing d with
  | nil =>
    simp only [mergeEntries, Option.some.injEq] at h
    subst h
    simp only [List.nil_append, mergeEntries]
    cases mergeEntry cfg d e <;> simp [mergeEntries]
  | cons x xs ih =>
    simp only [mergeEntries, List.cons_append] at h ⊢
    cases hx : mergeEntry cfg d x with
    | none => simp [hx] at h
    | some d' =>
      simp only [hx, Option.bind_some] at h ⊢
      exact ih d' h

/-- … and is preserved when the updater applies a registered entry. -/
theorem C08_inv_apply (s s' : State) (hinv : InvDict s) (h : applyEntry cfg s = some s') : InvDict s' := by
  unfold applyEntry at h
  cases hp : s.pending with
  | nil => simp only [hp, Option.some.injEq] at h; subst h; exact hinv
  | cons e rest =>
    simp only [hp, Option.map_eq_some_iff] at h
    obtain ⟨d, hd, rfl⟩ := h
    unfold InvDict at hinv ⊢
    simp only
    rw [mergeEntries_append s.base s.userDict e s.dict hinv]
    exact hd

end Chokan.Props.C08
