/-
C09 — a crash at any instant of a save never destroys or disables the user's data.

Model: Chokan.Model.Runtime (file contents old/new/partial/empty, process death at every operation
boundary and inside every write).  Data: Chokan.Gen.Server.saveOps, the ordered file operations of
`save_user_dictionary`, regenerated on every run.  Assumed: rename is atomic, a completed write is
durable (process death, not power loss).
-/
import Chokan.Model.Runtime

namespace Chokan.Props.C09
open Chokan.Runtime Chokan.Gen.Server

/-- At whatever instant the process dies, each of the two data files holds a complete version
(the previously saved one or the new one), so the next start restores both and keeps saving. -/
theorem C09 : (crashStates saveOps).all startupOk = true := by decide

/-- A save that is not interrupted ends with the new version of both files. -/
theorem C09_complete_save :
    (let (a, b) := splitOps saveOps
     (finalOf ⟨.old, .absent⟩ a).file = .new ∧ (finalOf ⟨.old, .absent⟩ b).file = .new) := by decide

/-- The crash points enumerated are not vacuous: there are states strictly inside the save. -/
theorem C09_nonvacuous : 10 ≤ (crashStates saveOps).length := by decide

/-- Why this matters: were a file to be found incomplete, start-up would silently continue with default
data and without a save directory (main.rs) — that branch is what `C09` shows unreachable by a crash. -/
theorem C09_fallback_is_silent : restoreFailureDisablesSaving = true := by decide

/-! ## histories: any number of saves, each completed or cut short, with whatever an earlier crash left -/

/-- Every state a save can start in after any past: each data file complete (previous or new version),
its temporary sibling in *any* condition (absent, empty, torn, or a complete stale copy). -/
def startStates : List Fs :=
  let cs : List Content := [.old, .new, .torn, .empty, .absent]
  let files : List FileState := [Content.old, Content.new].flatMap fun f => cs.map fun t => ⟨f, t⟩
  files.flatMap fun a => files.map fun b => ⟨a, b⟩

def goodStart (fs : Fs) : Bool := restorable fs.freq.file && restorable fs.dic.file

theorem startStates_complete (fs : Fs) (h : goodStart fs = true) : fs ∈ startStates := by
  obtain ⟨⟨ff, ft⟩, ⟨df, dt⟩⟩ := fs
  simp only [goodStart, restorable, Bool.and_eq_true, Bool.or_eq_true, decide_eq_true_eq] at h
  rcases h with ⟨h1 | h1, h2 | h2⟩ <;> subst h1 <;> subst h2 <;> cases ft <;> cases dt <;> decide

/-- From every such start — stale or torn temporary files included — a crash at any instant of the save
leaves both data files complete, and a completed save leaves the new version of both with no temporary
file behind. -/
theorem C09_from_any_leftover :
    startStates.all (fun st =>
      (crashStatesFrom st saveOps).all startupOk &&
      decide ((completeFrom st saveOps).freq = ⟨.new, .absent⟩ ∧ (completeFrom st saveOps).dic = ⟨.new, .absent⟩)) = true := by
  decide

/-- The file system after a history of saves, each completed or crashed at some instant. -/
inductive Reachable : Fs → Prop
  | start (fs : Fs) : goodStart fs = true → Reachable fs
  | crashed (fs fs' : Fs) : Reachable fs → fs' ∈ crashStatesFrom fs saveOps → Reachable fs'
  | completed (fs : Fs) : Reachable fs → Reachable (completeFrom fs saveOps)

/-- **At whatever instants the process dies, in any history of saves and restarts, both data files hold a
complete version** — so every start restores both and periodic saving keeps working: the next completed
save again ends with the new version of both files. -/
theorem C09_history (fs : Fs) (h : Reachable fs) :
    startupOk fs = true ∧
    (completeFrom fs saveOps).freq = ⟨.new, .absent⟩ ∧ (completeFrom fs saveOps).dic = ⟨.new, .absent⟩ := by
  have key : ∀ st, goodStart st = true →
      (∀ x ∈ crashStatesFrom st saveOps, startupOk x = true) ∧
      (completeFrom st saveOps).freq = ⟨.new, .absent⟩ ∧ (completeFrom st saveOps).dic = ⟨.new, .absent⟩ := by
    intro st hst
    have := List.all_eq_true.1 C09_from_any_leftover st (startStates_complete st hst)
    simp only [Bool.and_eq_true, decide_eq_true_eq, List.all_eq_true] at this
    exact ⟨this.1, this.2⟩
  have good : goodStart fs = true := by
    induction h with
    | start fs h => exact h
    | crashed fs fs' _ hmem ih => exact (key fs ih).1 fs' hmem
    | completed fs _ ih =>
      obtain ⟨_, h1, h2⟩ := key fs ih
      simp [goodStart, restorable, h1, h2]
  exact ⟨good, (key fs good).2⟩


/-! ## a directory in which a file has never been saved (the first save) -/

/-- every state a save can start in when a data file may not exist yet: each data file the previous version, the new one or
**absent**, its temporary sibling in any condition -/
def startStatesFresh : List Fs :=
  let cs : List Content := [.old, .new, .torn, .empty, .absent]
  let files : List FileState := [Content.old, Content.new, Content.absent].flatMap fun f => cs.map fun t => ⟨f, t⟩
  files.flatMap fun a => files.map fun b => ⟨a, b⟩

/-- what the save started with (possibly nothing), or the new version — never a torn or empty file, and never *nothing*
where there was something -/
def keeps (st x : FileState) : Bool := x.file = st.file || x.file = .new

/-- **The first save is crash-safe too**: from every such start, a crash at any instant leaves each data file as the
save found it (a complete version, or still absent: start-up then takes the defaults and keeps the save directory) or
complete and new; a completed save leaves the new version of both and no temporary file. -/
theorem C09_first_save :
    startStatesFresh.all (fun st =>
      (crashStatesFrom st saveOps).all (fun x => keeps st.freq x.freq && keeps st.dic x.dic) &&
      decide ((completeFrom st saveOps).freq = ⟨.new, .absent⟩ ∧ (completeFrom st saveOps).dic = ⟨.new, .absent⟩)) = true := by
  decide +kernel


/-- a data file that start-up can take: complete (previous or new version) or never saved -/
def usable (c : Content) : Bool := c = .old || c = .new || c = .absent

def goodStartFresh (fs : Fs) : Bool := usable fs.freq.file && usable fs.dic.file

theorem startStatesFresh_complete (fs : Fs) (h : goodStartFresh fs = true) : fs ∈ startStatesFresh := by
  obtain ⟨⟨ff, ft⟩, ⟨df, dt⟩⟩ := fs
  simp only [goodStartFresh, usable, Bool.and_eq_true, Bool.or_eq_true, decide_eq_true_eq] at h
  rcases h with ⟨(h1 | h1) | h1, (h2 | h2) | h2⟩ <;> subst h1 <;> subst h2 <;> cases ft <;> cases dt <;> decide

/-- the file system after a history of saves — completed or crashed at some instant — that begins in a directory where
files may never have been saved -/
inductive ReachableFresh : Fs → Prop
  | start (fs : Fs) : goodStartFresh fs = true → ReachableFresh fs
  | crashed (fs fs' : Fs) : ReachableFresh fs → fs' ∈ crashStatesFrom fs saveOps → ReachableFresh fs'
  | completed (fs : Fs) : ReachableFresh fs → ReachableFresh (completeFrom fs saveOps)

/-- **From a fresh directory too, whatever the history of completed and crashed saves**: no data file is ever torn or
empty (start-up takes it, or the defaults when it was never saved, and keeps the save directory), and the next completed
save ends with the new version of both files and no temporary file. -/
theorem C09_history_fresh (fs : Fs) (h : ReachableFresh fs) :
    goodStartFresh fs = true ∧
    (completeFrom fs saveOps).freq = ⟨.new, .absent⟩ ∧ (completeFrom fs saveOps).dic = ⟨.new, .absent⟩ := by
  have key : ∀ st, goodStartFresh st = true →
      (∀ x ∈ crashStatesFrom st saveOps, goodStartFresh x = true) ∧
      (completeFrom st saveOps).freq = ⟨.new, .absent⟩ ∧ (completeFrom st saveOps).dic = ⟨.new, .absent⟩ := by
    intro st hst
    have := List.all_eq_true.1 C09_first_save st (startStatesFresh_complete st hst)
    simp only [Bool.and_eq_true, decide_eq_true_eq, List.all_eq_true] at this
    refine ⟨?_, this.2⟩
    intro x hx
    have hk := this.1 x hx
    simp only [keeps, Bool.or_eq_true, decide_eq_true_eq] at hk
    simp only [goodStartFresh, usable, Bool.and_eq_true, Bool.or_eq_true, decide_eq_true_eq] at hst ⊢
    constructor
    · rcases hk.1 with h1 | h1
      · rw [h1]; exact hst.1
      · rw [h1]; exact Or.inl (Or.inr rfl)
    · rcases hk.2 with h1 | h1
      · rw [h1]; exact hst.2
      · rw [h1]; exact Or.inl (Or.inr rfl)
  have good : goodStartFresh fs = true := by
    induction h with
    | start fs h => exact h
    | crashed fs fs' _ hmem ih => exact (key fs ih).1 fs' hmem
    | completed fs _ ih =>
      obtain ⟨_, h1, h2⟩ := key fs ih
      simp [goodStartFresh, usable, h1, h2]
  exact ⟨good, (key fs good).2⟩

end Chokan.Props.C09
