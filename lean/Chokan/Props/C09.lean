/-
C09 — a crash at any instant of a save never destroys or disables the user's data.

Model: Chokan.Model.Runtime (file contents old/new/partial/empty, process death at every operation
boundary and inside every write).  Data: Chokan.Gen.Server.saveOps, the ordered file operations of
`save_user_dictionary`, regenerated on every run.  Assumed: rename is atomic, a completed write is
durable (process death, not power loss).
-/
import Chokan.Model.Runtime

namespace Chokan.Props.C09
open Chokan.Runtime Chokan.Gen.Server

/-- At whatever instant the process dies, each of the two data files holds a complete version
(the previously saved one or the new one), so the next start restores both and keeps saving. -/
theorem C09 : (crashStates saveOps).all startupOk = true := by decide

/-- A save that is not interrupted ends with the new version of both files. -/
theorem C09_complete_save :
    (let (a, b) := splitOps saveOps
     (finalOf ⟨.old, .absent⟩ a).file = .new ∧ (finalOf ⟨.old, .absent⟩ b).file = .new) := by decide

/-- The crash points enumerated are not vacuous: there are states strictly inside the save. -/
theorem C09_nonvacuous : 10 ≤ (crashStates saveOps).length := by decide

/-- Why this matters: were a file to be found incomplete, start-up would silently continue with default
data and without a save directory (main.rs) — that branch is what `C09` shows unreachable by a crash. -/
theorem C09_fallback_is_silent : restoreFailureDisablesSaving = true := by decide

end Chokan.Props.C09
