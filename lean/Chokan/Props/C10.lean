/-
C10 — The text dictionary format round-trips every entry and isolates bad lines.

Model: Chokan.Model.DicText (PEG of dic_grammer.rs as recursive functions; reader/writer of io.rs),
printing from Chokan.Model.Dic.  Data: Chokan.Gen.DicGrammar (character classes, ordered
alternatives, literals) and Chokan.Gen.Dic (Display names), regenerated on every run.
-/
import Chokan.Lemmas.DicText

namespace Chokan.Props.C10
open Chokan.Dic Chokan.DicText

def names := Chokan.Gen.Dic.simpleNames
def vsuf := Chokan.Gen.Dic.verbSuffix
def kc := Chokan.Gen.DicGrammar.kanaClass
def alts := Chokan.Gen.DicGrammar.speechAlts
def kata := Chokan.Gen.DicGrammar.katakanaClass

def allClasses : List VerbClass := [.godan, .yodan, .simoIchidan, .kamiIchidan, .simoNidan, .kamiNidan, .hen]

/-- The part-of-speech values the text format can express: the 18 non-verb values with a printed
name and every conjugation class × every row letter the grammar admits. -/
def storableSpeeches : List Speech :=
  names.map (·.1) ++ allClasses.flatMap fun cls => kata.map fun k => Speech.verb cls [k]

def pr (sp : Speech) : Str := printSpeech names vsuf sp
def printE (e : Entry) : Str := printEntry names vsuf e
def parseL (l : Str) : Option (List Entry) := parseLine kc alts kata l

/-- What the property quantifies over: any kana reading, any stem without blank/TAB, any of the
116 part-of-speech values. -/
structure Storable (e : Entry) : Prop where
  reading_ne : e.stemReading ≠ []
  reading_kana : ∀ c ∈ e.stemReading, isKana kc c = true
  stem_ne : e.stem ≠ []
  stem_nospace : ∀ c ∈ e.stem, isNoSpace c = true
  speech_ok : e.speech ∈ storableSpeeches

/-- "Any kana reading": the grammar's reading class contains every hiragana from ぁ (U+3041) to
ん (U+3093) — so `Storable` is not silently narrowed when the class in the source changes. -/
theorem C10_kana_class (c : Nat) (h1 : 0x3041 ≤ c) (h2 : c ≤ 0x3093) : isKana kc c = true := by
  have h : (List.range 83).all (fun i => isKana kc (0x3041 + i)) = true := by decide +kernel
  have := List.all_eq_true.1 h (c - 0x3041) (List.mem_range.2 (by omega))
  rwa [show 0x3041 + (c - 0x3041) = c by omega] at this

theorem C10_speech_count : storableSpeeches.length = 116 := by decide +kernel

theorem speechChecks : storableSpeeches.all (fun sp => speechCheck alts kata (pr sp) sp) = true := by
  decide +kernel

/-- Each of the 116 printed names, between slashes and followed by anything, is read back as
exactly that part of speech (this is where the order of the PEG alternatives matters). -/
theorem C10_speech (sp : Speech) (h : sp ∈ storableSpeeches) (rest : Str) :
    parseSpeech alts kata (47 :: (pr sp ++ 47 :: rest)) = some (sp, 47 :: rest) :=
  speechCheck_sound alts kata (pr sp) sp (List.all_eq_true.1 speechChecks sp h) rest

theorem parseAlts_nil : parseAlts kata alts [] = none := by decide +kernel
theorem kana_not_tab : isKana kc 9 = false := by decide +kernel
theorem kana_not_semicolon : isKana kc 59 = false := by decide +kernel
theorem kana_not_newline : isKana kc 10 = false := by decide +kernel

theorem printSpeechs_length (sps : List Speech) : sps.length ≤ (printSpeechs names vsuf sps).length := by
  induction sps with
  | nil => simp [printSpeechs]
  | cons s t ih => simp [printSpeechs]; omega

/-- A multi-speech line reads as one entry per speech, in order. -/
theorem C10_multi (reading stem : Str) (sps : List Speech)
    (hr : reading ≠ []) (hrk : ∀ c ∈ reading, isKana kc c = true)
    (hs : stem ≠ []) (hsn : ∀ c ∈ stem, isNoSpace c = true)
    (hsp : sps ≠ []) (hall : ∀ sp ∈ sps, sp ∈ storableSpeeches) :
    parseL (reading ++ 9 :: (stem ++ 9 :: (printSpeechs names vsuf sps ++ [47]))) =
      some (sps.map fun sp => ⟨stem, reading, sp⟩) := by
  have h1 := spanClass_append (isKana kc) reading 9
    (stem ++ 9 :: (printSpeechs names vsuf sps ++ [47])) hrk kana_not_tab
  have h2 := spanClass_append isNoSpace stem 9 (printSpeechs names vsuf sps ++ [47]) hsn (by decide)
  have h3 := parseSpeechStar_print alts kata names vsuf parseAlts_nil sps
    ((printSpeechs names vsuf sps ++ [47]).length + 1)
    (fun sp h => List.all_eq_true.1 speechChecks sp (hall sp h))
    (by have := printSpeechs_length sps; simp; omega)
  have h4 : parseSpeechs alts kata (printSpeechs names vsuf sps ++ [47]) = some (sps, []) := by
    unfold parseSpeechs
    rw [h3]
    cases sps with
    | nil => exact absurd rfl hsp
    | cons a t => rfl
  obtain ⟨a, t, rfl⟩ := List.exists_cons_of_ne_nil hr
  obtain ⟨b, u, rfl⟩ := List.exists_cons_of_ne_nil hs
  have ha : a ≠ 59 := by
    intro h; subst h
    have := hrk 59 List.mem_cons_self
    rw [kana_not_semicolon] at this; cases this
  unfold parseL parseLine
  split
  · next heq => simp at heq; exact absurd heq.1 ha
  · unfold parseEntry
    rw [h1]; simp only
    rw [h2]; simp only
    rw [h4]

/-- Every storable entry, printed, is read back as exactly that entry. -/
theorem C10_entry (e : Entry) (h : Storable e) : parseL (printE e) = some [e] := by
  have := C10_multi e.stemReading e.stem [e.speech] h.reading_ne h.reading_kana h.stem_ne h.stem_nospace
    (by simp) (by intro sp hsp; simp at hsp; subst hsp; exact h.speech_ok)
  simp only [printSpeechs, List.append_nil, List.map] at this
  unfold printE printEntry
  simp only [List.append_assoc, List.cons_append, List.nil_append, List.singleton_append] at this ⊢
  exact this

/-- Distinct entries never read back equal (printing is injective on storable entries). -/
theorem C10_injective (e₁ e₂ : Entry) (h₁ : Storable e₁) (h₂ : Storable e₂)
    (h : printE e₁ = printE e₂) : e₁ = e₂ := by
  have a := C10_entry e₁ h₁
  have b := C10_entry e₂ h₂
  rw [h, b] at a
  simpa using a.symm

theorem readLines_append (l₁ l₂ : List Str) :
    readLines kc alts kata (l₁ ++ l₂) = readLines kc alts kata l₁ ++ readLines kc alts kata l₂ := by
  induction l₁ with
  | nil => rfl
  | cons l t ih => simp [readLines, ih]

/-- A malformed line is skipped without affecting the entries read from any other line. -/
theorem C10_isolation (l₁ l₂ : List Str) (bad : Str) (hb : parseL bad = none) :
    readLines kc alts kata (l₁ ++ bad :: l₂) = readLines kc alts kata l₁ ++ readLines kc alts kata l₂ := by
  unfold parseL at hb
  rw [readLines_append]
  simp [readLines, hb]

/-- Comment lines contribute nothing. -/
theorem C10_comment (rest : Str) : parseL (59 :: rest) = some [] := rfl

theorem splitLines_line : ∀ (l rest : Str), (∀ c ∈ l, c ≠ 10) →
    splitLines (l ++ 10 :: rest) = l :: splitLines rest
  | [], rest, _ => by
    simp only [List.nil_append]
    rw [splitLines]
    cases h : splitLines rest <;> simp [Nat.beq]
  | c :: t, rest, hl => by
    have ih := splitLines_line t rest (fun x hx => hl x (List.mem_cons_of_mem _ hx))
    have hc : Nat.beq c 10 = false := by
      have := hl c List.mem_cons_self
      cases hb : Nat.beq c 10 with
      | false => rfl
      | true => exact absurd (Nat.eq_of_beq_eq_true hb) this
    rw [List.cons_append, splitLines, ih]
    simp [hc]

theorem printE_no_newline (e : Entry) (h : Storable e) (hn : ∀ c ∈ e.stem, c ≠ 10)
    (hsp : ∀ c ∈ pr e.speech, c ≠ 10) : ∀ c ∈ printE e, c ≠ 10 := by
  intro c hc h10
  subst h10
  unfold printE printEntry at hc
  simp only [List.mem_append, List.mem_cons, List.not_mem_nil, or_false] at hc
  have e1 : (10 : Nat) ≠ 9 := by decide
  have e2 : (10 : Nat) ≠ 47 := by decide
  simp only [e1, e2, or_false, false_or] at hc
  rcases hc with (hc | hc) | hc
  · have := h.reading_kana 10 hc
    rw [kana_not_newline] at this; cases this
  · exact hn 10 hc rfl
  · exact hsp 10 hc rfl

theorem names_no_newline : storableSpeeches.all (fun sp => (pr sp).all fun c => !Nat.beq c 10) = true := by
  decide +kernel

/-- A written file reads back as exactly the entries written, one line per entry
(stems must not contain a line feed, which would split the line). -/
theorem C10_file : ∀ (es : List Entry), (∀ e ∈ es, Storable e ∧ ∀ c ∈ e.stem, c ≠ 10) →
    readAll kc alts kata (writeAll names vsuf es) = es
  | [], _ => by
    simp [readAll, writeAll, splitLines, readLines, parseLine, parseEntry, spanClass]
  | e :: t, h => by
    have he := h e List.mem_cons_self
    have ih := C10_file t (fun x hx => h x (List.mem_cons_of_mem _ hx))
    have hsp : ∀ c ∈ pr e.speech, c ≠ 10 := by
      intro c hc h10; subst h10
      have := List.all_eq_true.1 (List.all_eq_true.1 names_no_newline e.speech he.1.speech_ok) 10 hc
      simp [Nat.beq] at this
    have hline := printE_no_newline e he.1 he.2 hsp
    unfold readAll at ih ⊢
    simp only [writeAll, List.append_assoc, List.singleton_append]
    rw [show printEntry names vsuf e = printE e from rfl, splitLines_line (printE e) _ hline]
    simp only [readLines]
    rw [show parseLine kc alts kata (printE e) = parseL (printE e) from rfl, C10_entry e he.1, ih]
    rfl

/-- Non-vacuity: a concrete storable entry and its line. -/
example : Storable ⟨[0x8ECA], [0x304F, 0x308B, 0x307E], .noun .common⟩ :=
  ⟨by decide, by decide +kernel, by decide, by decide +kernel, by decide +kernel⟩
example : parseL [0x305F, 9, 0x98DF, 9, 47, 0x30D0, 0x884C, 0x4E0B, 0x4E00, 47, 0x4E00, 0x822C, 0x540D, 0x8A5E, 47]
    = some [⟨[0x98DF], [0x305F], .verb .simoIchidan [0x30D0]⟩, ⟨[0x98DF], [0x305F], .noun .common⟩] := by
  decide +kernel

end Chokan.Props.C10
