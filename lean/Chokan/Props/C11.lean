/-
C11 — the dictionary builder loses no accepted word and invents none.

Model: `buildMap` of Chokan.Model.Server (read with the text format, conjugate, stable sort by
reading, fold into map + trie key set).  postcard/serde are the identity on these values (validated by
loading the real image in the check); that the real trie is the key set is C04.
-/
import Chokan.Model.Server
import Chokan.Lemmas.Kkc
import Chokan.Props.C07

namespace Chokan.Props.C11
open Chokan.Server Chokan.Kkc Chokan.Dic

/-- One step of the fold that fills map and trie key set. -/
def step (alpha : List Nat) (acc : List (Str × List Word) × List Str) (w : Word) : List (Str × List Word) × List Str :=
  (addToMap acc.1 w.reading w,
   if inAlpha alpha w.reading && !(acc.2.any (Kkc.beqStr w.reading)) then acc.2 ++ [w.reading] else acc.2)

/-- The fold of `read_and_make_dictionary` over the (sorted) word list. -/
def fill (alpha : List Nat) (ws : List Word) : List (Str × List Word) × List Str :=
  ws.foldl (step alpha) ([], [])

theorem buildMap_eq_fill (c : Cfg) (content : Str) :
    buildMap c content =
      (allWords c (Chokan.DicText.readAll c.kanaClass c.alts c.kata content)).map fun ws =>
        fill c.alpha (sortWords ws.reverse) := rfl

theorem keep_found (alpha : List Nat) :
    ∀ (ws : List Word) (acc : List (Str × List Word) × List Str) (x : Word) (key : Str) (l : List Word),
      findMap key acc.1 = some l → x ∈ l →
      ∃ l', findMap key (ws.foldl (step alpha) acc).1 = some l' ∧ x ∈ l'
  | [], acc, x, key, l, h, hx => ⟨l, h, hx⟩
  | w :: t, acc, x, key, l, h, hx => by
    obtain ⟨l1, h1, hsub⟩ := C07.addToMap_mono acc.1 w.reading key w l h
    exact keep_found alpha t (step alpha acc w) x key l1 h1 (hsub x hx)

theorem complete_gen (alpha : List Nat) :
    ∀ (ws : List Word) (acc : List (Str × List Word) × List Str) (w : Word), w ∈ ws →
      ∃ l, findMap w.reading (ws.foldl (step alpha) acc).1 = some l ∧ w ∈ l
  | [], _, _, hw => by cases hw
  | x :: t, acc, w, hw => by
    simp only [List.foldl_cons]
    rcases List.mem_cons.1 hw with rfl | hw
    · obtain ⟨l, hl, hm⟩ := C07.addToMap_mem acc.1 w.reading w
      exact keep_found alpha t (step alpha acc w) w w.reading l hl hm
    · exact complete_gen alpha t (step alpha acc x) w hw

/-- Complete: every word that goes into the fold is stored under its reading. -/
theorem C11_complete (alpha : List Nat) (ws : List Word) (w : Word) (hw : w ∈ ws) :
    ∃ l, findMap w.reading (fill alpha ws).1 = some l ∧ w ∈ l :=
  complete_gen alpha ws ([], []) w hw

theorem addToMap_sound : ∀ (m : List (Str × List Word)) (key key' : Str) (w x : Word) (l : List Word),
    findMap key' (addToMap m key w) = some l → x ∈ l →
    (x = w ∧ key' = key) ∨ ∃ l0, findMap key' m = some l0 ∧ x ∈ l0
  | [], key, key', w, x, l, h, hx => by
    simp only [addToMap, findMap] at h
    split at h
    · next hb =>
      simp only [Option.some.injEq] at h
      rw [← h] at hx
      simp at hx; exact Or.inl ⟨hx, ((Kkc.beqStr_iff _ _).1 hb).symm⟩
    · cases h
  | (k, v) :: t, key, key', w, x, l, h, hx => by
    unfold addToMap at h
    by_cases hk : Kkc.beqStr k key = true
    · simp only [hk, if_true, findMap] at h
      by_cases hk2 : Kkc.beqStr k key' = true
      · simp only [hk2, if_true, Option.some.injEq] at h
        rw [← h] at hx
        rcases List.mem_append.1 hx with hx | hx
        · exact Or.inr ⟨v, by simp [findMap, hk2], hx⟩
        · simp at hx
          have e1 := (Kkc.beqStr_iff _ _).1 hk
          have e2 := (Kkc.beqStr_iff _ _).1 hk2
          exact Or.inl ⟨hx, by rw [← e2, e1]⟩
      · have hk2' : Kkc.beqStr k key' = false := by simpa using hk2
        simp only [hk2', Bool.false_eq_true, if_false] at h
        exact Or.inr ⟨l, by simp [findMap, hk2', h], hx⟩
    · have hk' : Kkc.beqStr k key = false := by simpa using hk
      simp only [hk', Bool.false_eq_true, if_false, findMap] at h
      by_cases hk2 : Kkc.beqStr k key' = true
      · simp only [hk2, if_true, Option.some.injEq] at h
        rw [← h] at hx
        exact Or.inr ⟨v, by simp [findMap, hk2], hx⟩
      · have hk2' : Kkc.beqStr k key' = false := by simpa using hk2
        simp only [hk2', Bool.false_eq_true, if_false] at h
        rcases addToMap_sound t key key' w x l h hx with h1 | ⟨l0, h0, hx0⟩
        · exact Or.inl h1
        · exact Or.inr ⟨l0, by simp [findMap, hk2', h0], hx0⟩

theorem sound_gen (alpha : List Nat) :
    ∀ (ws : List Word) (acc : List (Str × List Word) × List Str) (key : Str) (l : List Word) (x : Word),
      findMap key (ws.foldl (step alpha) acc).1 = some l → x ∈ l →
      (x ∈ ws ∧ key = x.reading) ∨ ∃ l0, findMap key acc.1 = some l0 ∧ x ∈ l0
  | [], acc, key, l, x, h, hx => Or.inr ⟨l, h, hx⟩
  | w :: t, acc, key, l, x, h, hx => by
    simp only [List.foldl_cons] at h
    rcases sound_gen alpha t (step alpha acc w) key l x h hx with ⟨hm, hk⟩ | ⟨l0, h0, hx0⟩
    · exact Or.inl ⟨List.mem_cons_of_mem _ hm, hk⟩
    · rcases addToMap_sound acc.1 w.reading key w x l0 h0 hx0 with ⟨rfl, rfl⟩ | h1
      · exact Or.inl ⟨List.mem_cons_self, rfl⟩
      · exact Or.inr h1

/-- Sound: every stored word is one of the words that went into the fold, stored under its own reading. -/
theorem C11_sound (alpha : List Nat) (ws : List Word) (key : Str) (l : List Word) (x : Word)
    (h : findMap key (fill alpha ws).1 = some l) (hx : x ∈ l) : x ∈ ws ∧ key = x.reading := by
  rcases sound_gen alpha ws ([], []) key l x h hx with h1 | ⟨l0, h0, _⟩
  · exact h1
  · simp [findMap] at h0

theorem keep_key (alpha : List Nat) :
    ∀ (ws : List Word) (acc : List (Str × List Word) × List Str) (k : Str),
      acc.2.any (Kkc.beqStr k) = true → (ws.foldl (step alpha) acc).2.any (Kkc.beqStr k) = true
  | [], _, _, h => h
  | x :: t, acc, k, h => by
    simp only [List.foldl_cons]
    apply keep_key alpha t
    simp only [step]
    split <;> simp [h]

theorem trie_gen (alpha : List Nat) :
    ∀ (ws : List Word) (acc : List (Str × List Word) × List Str) (w : Word), w ∈ ws →
      inAlpha alpha w.reading = true → (ws.foldl (step alpha) acc).2.any (Kkc.beqStr w.reading) = true
  | [], _, _, hw, _ => by cases hw
  | x :: t, acc, w, hw, ha => by
    simp only [List.foldl_cons]
    rcases List.mem_cons.1 hw with rfl | hw
    · apply keep_key alpha t
      simp only [step, ha, Bool.true_and]
      by_cases h : acc.2.any (Kkc.beqStr w.reading) = true
      · simp [h]
      · simp only [h, Bool.not_false, if_true, List.any_append, List.any_cons, List.any_nil]
        simp [(Kkc.beqStr_iff _ _).2 rfl]
    · exact trie_gen alpha t (step alpha acc x) w hw ha

/-- The trie receives every reading spelled in the alphabet (others are logged and skipped). -/
theorem C11_trie_keys (alpha : List Nat) (ws : List Word) (w : Word) (hw : w ∈ ws)
    (ha : inAlpha alpha w.reading = true) : (fill alpha ws).2.any (Kkc.beqStr w.reading) = true :=
  trie_gen alpha ws ([], []) w hw ha

/-! ### the sort in front of the fold neither loses nor invents words -/

theorem mem_insertSorted (w x : Word) : ∀ l : List Word, x ∈ insertSorted w l ↔ (x = w ∨ x ∈ l)
  | [] => by simp [insertSorted]
  | y :: t => by
    unfold insertSorted
    split
    · simp
    · simp only [List.mem_cons, mem_insertSorted w x t]
      constructor
      · rintro (h | h | h)
        · exact Or.inr (Or.inl h)
        · exact Or.inl h
        · exact Or.inr (Or.inr h)
      · rintro (h | h | h)
        · exact Or.inr (Or.inl h)
        · exact Or.inl h
        · exact Or.inr (Or.inr h)

theorem mem_sortWords (x : Word) : ∀ l : List Word, x ∈ sortWords l ↔ x ∈ l
  | [] => by simp [sortWords]
  | w :: t => by simp [sortWords, mem_insertSorted, mem_sortWords x t]

/-- **The built dictionary is exactly the conjugated source** (model of `read_and_make_dictionary`):
every conjugated word of every entry read from the source is stored under its reading, nothing else
is stored, and every reading spelled in the alphabet is a key of the trie. -/
theorem C11_source (c : Cfg) (content : Str) (ws : List Word) (m : List (Str × List Word)) (keys : List Str)
    (hws : allWords c (Chokan.DicText.readAll c.kanaClass c.alts c.kata content) = some ws)
    (hb : buildMap c content = some (m, keys)) :
    (∀ w ∈ ws, ∃ l, findMap w.reading m = some l ∧ w ∈ l) ∧
    (∀ key l x, findMap key m = some l → x ∈ l → x ∈ ws ∧ key = x.reading) ∧
    (∀ w ∈ ws, inAlpha c.alpha w.reading = true → keys.any (Kkc.beqStr w.reading) = true) := by
  rw [buildMap_eq_fill, hws] at hb
  simp only [Option.map_some, Option.some.injEq] at hb
  have hmem : ∀ w, w ∈ sortWords ws.reverse ↔ w ∈ ws := fun w => by rw [mem_sortWords]; simp
  refine ⟨?_, ?_, ?_⟩
  · intro w hw
    have := C11_complete c.alpha (sortWords ws.reverse) w ((hmem w).2 hw)
    rw [hb] at this; exact this
  · intro key l x hl hx
    have := C11_sound c.alpha (sortWords ws.reverse) key l x (by rw [hb]; exact hl) hx
    exact ⟨(hmem x).1 this.1, this.2⟩
  · intro w hw ha
    have := C11_trie_keys c.alpha (sortWords ws.reverse) w ((hmem w).2 hw) ha
    rw [hb] at this; exact this


/-! ## the tankan (single-kanji) dictionary: same source pipeline, map only; look-up = `get_tankan_candidates` -/

/-- `TankanDictionary::get_candidates`: the written forms stored under exactly this reading, in stored order -/
def tankanLookup (m : List (Str × List Word)) (input : Str) : List Str := ((findMap input m).getD []).map (·.word)

theorem tankanLookup_eq (s : State) (input : Str) : tankanCandidates s input = tankanLookup s.tankan input := rfl

/-- **Tankan look-up loses nothing and invents nothing**: for the map the builder makes from a source, a text is
offered for a reading iff some conjugated word of some source entry has exactly that reading and that written form. -/
theorem C11_tankan_exact (c : Cfg) (content : Str) (ws : List Word) (m : List (Str × List Word)) (keys : List Str)
    (hws : allWords c (Chokan.DicText.readAll c.kanaClass c.alts c.kata content) = some ws)
    (hb : buildMap c content = some (m, keys)) (input text : Str) :
    text ∈ tankanLookup m input ↔ ∃ w ∈ ws, w.reading = input ∧ w.word = text := by
  obtain ⟨hc, hs, _⟩ := C11_source c content ws m keys hws hb
  unfold tankanLookup
  constructor
  · intro h
    cases hf : findMap input m with
    | none => rw [hf] at h; simp at h
    | some l =>
      rw [hf] at h
      simp only [Option.getD_some, List.mem_map] at h
      obtain ⟨w, hw, rfl⟩ := h
      obtain ⟨hin, hk⟩ := hs input l w hf hw
      exact ⟨w, hin, hk.symm, rfl⟩
  · rintro ⟨w, hw, rfl, rfl⟩
    obtain ⟨l, hl, hm⟩ := hc w hw
    rw [hl]
    simp only [Option.getD_some, List.mem_map]
    exact ⟨w, hm, rfl⟩

/-- … and a reading no source word has yields no candidate at all (the empty list, not an error). -/
theorem C11_tankan_unknown (c : Cfg) (content : Str) (ws : List Word) (m : List (Str × List Word)) (keys : List Str)
    (hws : allWords c (Chokan.DicText.readAll c.kanaClass c.alts c.kata content) = some ws)
    (hb : buildMap c content = some (m, keys)) (input : Str) (hno : ∀ w ∈ ws, w.reading ≠ input) :
    tankanLookup m input = [] := by
  cases hl : tankanLookup m input with
  | nil => rfl
  | cons t r =>
    have : t ∈ tankanLookup m input := by rw [hl]; exact List.mem_cons_self
    obtain ⟨w, hw, hr, _⟩ := (C11_tankan_exact c content ws m keys hws hb input t).1 this
    exact absurd hr (hno w hw)

end Chokan.Props.C11
