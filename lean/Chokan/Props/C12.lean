/-
C12 — Conjugation keeps stem and okurigana aligned; every guessable speech conjugates.

Model: Chokan.Model.Dic (hand-written from speech.rs / entry.rs, tied by the `conj`,
`guessform`, `newguessed`, `words` correspondence streams against the real `dic` crate).
Data: Chokan.Gen.Dic (the conjugation and guess tables, regenerated on every run).
Specification data (gojūon rows, euphonic set, core forms per class): Chokan.Lemmas.Dic.
-/
import Chokan.Lemmas.Dic

namespace Chokan.Props.C12
open Chokan.Dic Chokan.Gen.Dic

/-- (a) Alignment, for every (class,row) of the table and all stems/readings: every generated
form is `stem ++ ok`, `reading ++ ok` for one okurigana `ok` of the arm; the k-irregular verb
(the only `kahen` arm) replaces the reading's last kana: `stem ++ ok.tail`, `reading.dropLast ++ ok`. -/
theorem C12_aligned (cls : VerbClass) (row stem rd : Str) (fs : List (Str × Str))
    (h : toForms conjTable adjectiveForms adjectivalVerbForms (.verb cls row) stem rd = some fs) :
    ∃ arm, lookupArm cls row conjTable = some arm ∧ ∀ p ∈ fs,
      match arm with
      | .kahen o => ∃ ok ∈ o, p = (stem ++ ok.tail, rd.dropLast ++ ok)
      | a => ∃ o, a.okuriFor rd = some o ∧ ∃ ok ∈ o, p = (stem ++ ok, rd ++ ok) := by
  simp only [toForms] at h
  cases ha : lookupArm cls row conjTable with
  | none => simp [ha] at h
  | some arm =>
    refine ⟨arm, rfl, ?_⟩
    simp only [ha, Option.bind_some] at h
    intro p hp
    cases arm with
    | kahen o =>
      simp only [Arm.forms] at h
      split at h
      · cases h
      · simp only [Option.some.injEq] at h; subst h
        obtain ⟨ok, hok, rfl⟩ := List.mem_map.1 hp
        exact ⟨ok, hok, rfl⟩
    | unknown => simp [Arm.forms] at h
    | fixed o =>
      simp only [Arm.forms, Arm.okuriFor, Option.map_some, Option.some.injEq] at h; subst h
      obtain ⟨ok, hok, rfl⟩ := List.mem_map.1 hp
      exact ⟨o, rfl, ok, hok, rfl⟩
    | byteLen1 a b =>
      simp only [Arm.forms, Arm.okuriFor, Option.map_some, Option.some.injEq] at h; subst h
      obtain ⟨ok, hok, rfl⟩ := List.mem_map.1 hp
      exact ⟨_, rfl, ok, hok, rfl⟩
    | lastCharIs c a b =>
      simp only [Arm.forms, Arm.okuriFor, Option.map_some, Option.some.injEq] at h; subst h
      obtain ⟨ok, hok, rfl⟩ := List.mem_map.1 hp
      exact ⟨_, rfl, ok, hok, rfl⟩

/-- The k-irregular treatment is used by exactly one table row: カ行変. -/
theorem C12_kahen_only : ∀ e ∈ conjTable, (∃ o, e.2 = Arm.kahen o) → e.1 = (VerbClass.hen, [0x30AB]) := by
  have h : (conjTable.all fun e => match e.2 with
      | .kahen _ => decide (e.1 = (VerbClass.hen, [0x30AB])) | _ => true) = true := by decide +kernel
  intro e he ⟨o, ho⟩
  have := List.all_eq_true.1 h e he
  simp only [ho] at this
  exact of_decide_eq_true this

/-- (a') The same alignment for adjectives and adjectival verbs. -/
theorem C12_adjectives (stem rd : Str) (sp : Speech) (hs : sp = .adjective ∨ sp = .adjectivalVerb)
    (fs : List (Str × Str))
    (h : toForms conjTable adjectiveForms adjectivalVerbForms sp stem rd = some fs) :
    ∀ p ∈ fs, ∃ ok, ok ∈ (if sp = .adjective then adjectiveForms else adjectivalVerbForms) ∧
      p = (stem ++ ok, rd ++ ok) := by
  intro p hp
  rcases hs with rfl | rfl <;>
  · simp only [toForms, Option.some.injEq] at h; subst h
    obtain ⟨ok, hok, rfl⟩ := List.mem_map.1 hp
    exact ⟨ok, by simpa using hok, rfl⟩

/-- Words without conjugation are the entry itself. -/
theorem C12_plain (sp : Speech) (stem rd : Str)
    (h : ∀ c r, sp ≠ .verb c r) (h1 : sp ≠ .adjective) (h2 : sp ≠ .adjectivalVerb) :
    toForms conjTable adjectiveForms adjectivalVerbForms sp stem rd = some [(stem, rd)] := by
  cases sp <;> simp_all [toForms]

/-- (b) Every non-empty okurigana of every row starts in the verb's own kana row or is a
euphonic variant (っ ん い). Whole table, kernel-evaluated. -/
theorem C12_row : rowCheck conjTable = true := by decide +kernel

/-- (b') … at full strength: the head is in the verb's own row or is a euphonic variant **of that class and row**
(い for カ/ガ行五段, っ for タ/ラ/ワ行五段, ん for ナ/バ/マ行五段, nothing anywhere else), and the one stem-dependent
arm is カ行五段's, which takes っ after a stem reading in い (行く). -/
theorem C12_row_strict : rowCheckStrict conjTable = true := by decide +kernel

/-- (c) The core forms of each conjugation class are present in every branch of every row. -/
theorem C12_core : coreCheck conjTable = true := by decide +kernel

/-- (d) Every part of speech the guesser can return is conjugable — its row exists, its arm
cannot panic for any stem/reading — and the form that precedes ない is among its okurigana
(for every reading that is not a single byte; see `Arm.multiByteBranches`). -/
theorem C12_guess_conjugable : guessCheck conjTable guessTable = true := by decide +kernel

/-- (d') … hence conjugating a guessed verb never panics, for any stem and reading. -/
theorem C12_guess_total (ch : Nat) (cls : VerbClass) (row : Str)
    (hg : guessForm ch guessTable = some (cls, row)) (stem rd : Str) :
    ∃ fs, toForms conjTable adjectiveForms adjectivalVerbForms (.verb cls row) stem rd = some fs := by
  have hmem : ∀ (gt : GuessTable), guessForm ch gt = some (cls, row) → ∃ c, (c, cls, row) ∈ gt := by
    intro gt
    induction gt with
    | nil => intro h; simp [guessForm] at h
    | cons e t ih =>
      obtain ⟨c, cl, r⟩ := e
      intro h
      unfold guessForm at h
      split at h
      · simp only [Option.some.injEq, Prod.mk.injEq] at h
        obtain ⟨rfl, rfl⟩ := h
        exact ⟨c, List.mem_cons_self⟩
      · obtain ⟨c', hc'⟩ := ih h
        exact ⟨c', List.mem_cons_of_mem _ hc'⟩
  obtain ⟨c, hc⟩ := hmem guessTable hg
  have := List.all_eq_true.1 C12_guess_conjugable (c, cls, row) hc
  simp only at this
  cases ha : lookupArm cls row conjTable with
  | none => simp [ha] at this
  | some arm =>
    simp only [ha, Bool.and_eq_true] at this
    simp only [toForms, ha, Option.bind_some]
    cases arm <;> simp_all [Arm.total, Arm.forms, Arm.okuriFor]

/-- (e) Guessing accepts every well-formed pair: if word = stem ++ e and reading = srd ++ e share
the kana ending `e`, and the guesser cuts no more than `e`, an entry is produced (no panic in the
byte slicing) and the same cut is removed from the word and from the reading. -/
theorem C12_guess_accepts (stem srd e : Str)
    (hcut : (stem ++ e).length - (guess guessTable (stem ++ e)).2.length ≤ e.length) :
    ∃ entry, newGuessed guessTable (srd ++ e) (stem ++ e) = some entry ∧
      ∃ cut, entry.stem ++ cut = stem ++ e ∧ entry.stemReading ++ cut = srd ++ e ∧
        entry.speech = (guess guessTable (stem ++ e)).1 := by
  obtain ⟨k, hk, hstem⟩ := guess_stem guessTable (stem ++ e)
  have hlen : (guess guessTable (stem ++ e)).2.length = (stem ++ e).length - k := by
    rw [hstem, List.length_take]; omega
  rw [hlen] at hcut
  have hke : k ≤ e.length := by omega
  -- the cut is the last k characters of e
  let cut := e.drop (e.length - k)
  have hcutlen : cut.length = k := by simp [cut]; omega
  have hw : (stem ++ e).take ((stem ++ e).length - k) = stem ++ e.take (e.length - k) := by
    rw [List.length_append, List.take_append]
    have : stem.length + e.length - k - stem.length = e.length - k := by omega
    rw [this, List.take_of_length_le (by omega : stem.length ≤ stem.length + e.length - k)]
  have hword : (stem ++ e.take (e.length - k)) ++ cut = stem ++ e := by
    simp [cut, List.append_assoc, List.take_append_drop]
  have hread : (srd ++ e.take (e.length - k)) ++ cut = srd ++ e := by
    simp [cut, List.append_assoc, List.take_append_drop]
  unfold newGuessed
  have hg : guess guessTable (stem ++ e) =
      ((guess guessTable (stem ++ e)).1, stem ++ e.take (e.length - k)) := by
    rw [← hw, ← hstem]
  rw [hg]
  simp only
  have hbytes : utf8LenStr (stem ++ e) = utf8LenStr (stem ++ e.take (e.length - k)) + utf8LenStr cut := by
    rw [← utf8LenStr_append, hword]
  have hbytes2 : utf8LenStr (srd ++ e) = utf8LenStr (srd ++ e.take (e.length - k)) + utf8LenStr cut := by
    rw [← utf8LenStr_append, hread]
  split
  · next hpos =>
    have h1 : utf8LenStr (stem ++ e) - utf8LenStr (stem ++ e.take (e.length - k)) = utf8LenStr cut := by omega
    rw [h1]
    have h2 : ¬ utf8LenStr (srd ++ e) < utf8LenStr cut := by omega
    simp only [h2, if_false]
    have h3 : utf8LenStr (srd ++ e) - utf8LenStr cut = utf8LenStr (srd ++ e.take (e.length - k)) := by omega
    rw [h3]
    have hs := sliceBytes_prefix (srd ++ e.take (e.length - k)) cut
    rw [hread] at hs
    rw [hs]
    exact ⟨_, rfl, cut, hword, hread, rfl⟩
  · next hpos =>
    have hc0 : utf8LenStr cut = 0 := by omega
    have hcn : cut = [] := by
      rcases hce : cut with _ | ⟨c, t⟩
      · rfl
      · have := utf8LenStr_pos cut (by simp [hce]); omega
    refine ⟨_, rfl, [], ?_, ?_, rfl⟩
    · simpa [hcn] using hword
    · simp

/-- Non-vacuity: a guessed ichidan verb (食べない/たべない) and its forms. -/
example : newGuessed guessTable [0x305F, 0x3079, 0x306A, 0x3044] [0x98DF, 0x3079, 0x306A, 0x3044]
    = some ⟨[0x98DF], [0x305F], .verb .simoIchidan [0x30D0]⟩ := by decide +kernel
example : toForms conjTable adjectiveForms adjectivalVerbForms (.verb .simoIchidan [0x30D0]) [0x98DF] [0x305F]
    = some [([0x98DF, 0x3079], [0x305F, 0x3079])] := by decide +kernel

end Chokan.Props.C12
