/-
C13 — the server serves under every runtime thread configuration.

Model: Chokan.Model.Runtime (worker occupancy). Data: Chokan.Gen.Server (how each endless background
loop of main.rs is started), regenerated on every run.  tokio's real scheduler is not modelled:
the result is tied to the binary by starting it with TOKIO_WORKER_THREADS = 1..16 (partial).
-/
import Chokan.Model.Runtime

namespace Chokan.Props.C13
open Chokan.Runtime Chokan.Gen.Server

/-- No background loop that never yields is started on an async worker … -/
theorem C13_no_worker_occupied : workersOccupied = 0 := by decide

/-- The general law the configuration is judged by: with `k` never-yielding tasks on the async pool,
exactly the runtimes with more than `k` workers can serve. -/
theorem C13_occupancy (workers k : Nat) : serves workers k = true ↔ k < workers := by
  unfold serves lostWorkers
  rw [decide_eq_true_iff]
  exact ⟨fun h => by omega, fun h => by omega⟩

/-- … hence for every worker count from one upward a worker remains for the accept loop and the
request handlers. -/
theorem C13 (workers : Nat) (h : 1 ≤ workers) : serves workers workersOccupied = true := by
  rw [C13_occupancy, C13_no_worker_occupied]; omega

/-- Each background duty (periodic timer, saver, dictionary updater) gets a thread of its own
(blocking pool or OS thread), in every configuration. -/
theorem C13_duties : duties.length ≥ 3 ∧ ∀ d ∈ duties, d ≠ Spawn.asyncWorker := by decide


/-- the pool is smallest with one worker: `poolOk` is exactly "enough threads for every worker count from one upward" -/
theorem poolOk_spec (p : Pool) (n : Nat) : poolOk p n = true ↔ ∀ w, 1 ≤ w → n ≤ poolSize p w := by
  unfold poolOk
  rw [decide_eq_true_iff]
  constructor
  · intro h w hw
    cases p with
    | default => simpa [poolSize] using h
    | const c => simpa [poolSize] using h
    | perWorker k =>
      simp only [poolSize] at h ⊢
      calc n ≤ 1 * k := h
        _ ≤ w * k := Nat.mul_le_mul_right k hw
    | workersPlus k => simp only [poolSize] at h ⊢; omega
  · intro h; exact h 1 (Nat.le_refl 1)

/-- **Every never-ending blocking duty has a thread of the blocking pool to itself, for every worker count from one
upward** — with the runtime as `main.rs` builds it (`blockingPoolCfg`, regenerated: tokio's default pool, or the
`max_blocking_threads` expression of a hand-built runtime). A pool sized from the worker count (`workers * k`) that is too
small with one worker fails here. -/
theorem C13_blocking_pool (w : Nat) (hw : 1 ≤ w) : blockingDuties duties ≤ poolSize blockingPoolCfg w :=
  (poolOk_spec blockingPoolCfg (blockingDuties duties)).1 (by decide) w hw

end Chokan.Props.C13
