/-
C14 — concurrent clients never deadlock and see sequentially explainable states.

Data: Chokan.Gen.Server.lockEdges (every nested `held → acquired` pair of `.lock()` calls over all
RPC handlers and background tasks), regenerated on every run.  That each modelled step is one critical
section is validated by the concurrent driver against the real server (partial).
-/
import Chokan.Model.Runtime
import Chokan.Model.Server
import Chokan.Lemmas.Conc

namespace Chokan.Props.C14
open Chokan.Runtime Chokan.Gen.Server

/-- Every nested acquisition in the code goes strictly upwards in one fixed order of the locks. -/
theorem C14_lock_order : edgesRespectRank lockEdges = true := by decide

/-- Generic: if every thread waits only for a lock ranked above the one it holds, there is no cycle
of threads each waiting for a lock held by the next one. -/
theorem C14_no_deadlock (rank : Lock → Nat) (k : Nat) (hk : 0 < k) (holds waits : Nat → Lock)
    (hup : ∀ i, i < k → rank (holds i) < rank (waits i))
    (hcyc : ∀ i, i < k → waits i = holds ((i + 1) % k)) : False := by
  have key : ∀ j, j < k → rank (holds 0) + j ≤ rank (holds j) := by
    intro j
    induction j with
    | zero => intro _; omega
    | succ j ih =>
      intro hj
      have h1 := ih (by omega)
      have h2 := hup j (by omega)
      rw [hcyc j (by omega), Nat.mod_eq_of_lt hj] at h2
      omega
  have h1 := key (k - 1) (by omega)
  have h2 := hup (k - 1) (by omega)
  rw [hcyc (k - 1) (by omega)] at h2
  have : (k - 1 + 1) % k = 0 := by
    rw [show k - 1 + 1 = k by omega, Nat.mod_self]
  rw [this] at h2
  omega

/-- … instantiated with the order the code respects: no reachable waiting cycle over its locks. -/
theorem C14_no_deadlock_here (k : Nat) (hk : 0 < k) (holds waits : Nat → Lock)
    (hedge : ∀ i, i < k → (holds i, waits i) ∈ lockEdges)
    (hcyc : ∀ i, i < k → waits i = holds ((i + 1) % k)) : False := by
  apply C14_no_deadlock lockRank k hk holds waits _ hcyc
  intro i hi
  have := List.all_eq_true.1 C14_lock_order _ (hedge i hi)
  simpa using this

/-! ## sequentially explainable states: histories of atomic steps (Model/Server `Op`, `stepOp`) -/

open Chokan.Server Chokan.Kkc Chokan.Dic in
/-- **A registered entry is never half-visible.** In every history the running dictionary changes only in
updater steps, and an updater step adds *all* conjugated forms of one entry at once: no state of any
history — hence no conversion answer — sees some of an entry's forms without the others. -/
theorem C14_dict_changes_by_whole_entries (c : Cfg) (s : State) (op : Op) :
    (stepOp c s op).dict = s.dict ∨
    ∃ e ws, s.pending.head? = some e ∧ entryToWords c.conj c.adj c.adjv e = some ws ∧
      (stepOp c s op).dict = ws.foldl (addStdWord c.alpha) s.dict := by
  cases op with
  | convert ctx input =>
    left
    simp only [stepOp]
    cases hc : convert c s ctx input with
    | none => rfl
    | some r =>
      obtain ⟨s', sid, cs⟩ := r
      unfold convert at hc
      simp only [Option.map_eq_some_iff, Prod.mk.injEq] at hc
      obtain ⟨_, _, rfl, _, _⟩ := hc
      rfl
  | confirm sid cid now =>
    left
    simp only [stepOp]
    unfold confirm popSession
    cases hs : s.sessions.find? (·.sid == sid) with
    | none => rfl
    | some sess' =>
      simp only
      cases hcb : (cid.bind fun i => sess'.cands[i]?) with
      | none => rfl
      | some cand =>
        simp only
        cases independentWord cand.chain <;> cases withAffix cand.chain <;> rfl
  | register k r w =>
    left
    simp only [stepOp]
    cases hr : register c s k r w with
    | none => rfl
    | some s' =>
      unfold register at hr
      simp only [Option.map_eq_some_iff] at hr
      obtain ⟨e, _, rfl⟩ := hr
      rfl
  | apply =>
    simp only [stepOp]
    cases hp : s.pending with
    | nil => left; simp [applyEntry, hp]
    | cons e rest =>
      cases hm : mergeEntry c s.dict e with
      | none => left; simp [applyEntry, hp, hm]
      | some d =>
        right
        unfold mergeEntry at hm
        simp only [Option.map_eq_some_iff] at hm
        obtain ⟨ws, hws, rfl⟩ := hm
        refine ⟨e, ws, by simp, hws, ?_⟩
        simp [applyEntry, hp, mergeEntry, hws]
  | save =>
    left
    simp only [stepOp, save]
    split <;> rfl

open Chokan.Server Chokan.Kkc Chokan.Dic in
/-- **Every conversion answer is the sequential answer for the state of its own step**: it is a function
of the dictionary and the learned counts of the state reached by the steps before it (every earlier
update, no later one), whatever sessions, queued entries or saved files exist. -/
theorem C14_answer_is_sequential (c : Cfg) (s0 : State) (before : List Op) (ctx : Ctx) (input : Str) :
    (convert c (runOps c s0 before) ctx input).map (·.2.2) =
      getCandidates c.tables input (runOps c s0 before).dict ctx (toKkcFreq (runOps c s0 before).freq)
        c.nCandidates c.fuel := by
  unfold convert
  cases getCandidates c.tables input (runOps c s0 before).dict ctx (toKkcFreq (runOps c s0 before).freq)
    c.nCandidates c.fuel <;> rfl


/-! ## fine-grained interleavings (Model/Conc): one thread per in-flight request and per background loop,
interleaved event by event; the event lists are regenerated from main.rs / method.rs on every run -/

open Chokan.Conc in
/-- Every control-flow path of every RPC handler and of every background loop, as extracted from the code, keeps
the lock discipline under the one order `lockRank`: locks are taken in ascending order only and released by
their holder, nothing waits for a message (or sends on a bounded channel) while it holds a lock, a handler
never waits for a message at all, and every path ends holding nothing. -/
theorem C14_conc_discipline :
    (handlerPaths.all fun h => h.2.all fun p => disc lockRank chanUnbounded [] p && noWait chanUnbounded p) = true ∧
    (taskPaths.all fun ps => ps.all fun p => disc lockRank chanUnbounded [] p) = true := by decide

open Chokan.Conc in
theorem conc_inv (reqs : List (List Ev)) (hreq : ∀ p ∈ reqs, ∃ h ∈ handlerPaths, p ∈ h.2)
    (capOf : Chan → Nat) (sched : List (Nat × Nat)) :
    Inv lockRank chanUnbounded (run (initSt chanUnbounded capOf reqs taskPaths) sched) ∧
    ReqNoWait chanUnbounded (run (initSt chanUnbounded capOf reqs taskPaths) sched) := by
  have hd := C14_conc_discipline
  simp only [List.all_eq_true, Bool.and_eq_true] at hd
  refine ⟨Inv_run sched (Inv_init _ _ _ _ _ ?_ ?_), ReqNoWait_run sched (ReqNoWait_init _ _ _ _ ?_)⟩
  · intro p hp
    obtain ⟨h, hh, hph⟩ := hreq p hp
    exact (hd.1 h hh p hph).1
  · intro ps hps p hp
    exact hd.2 ps hps p hp
  · intro p hp
    obtain ⟨h, hh, hph⟩ := hreq p hp
    exact (hd.1 h hh p hph).2

open Chokan.Conc in
/-- **Mutual exclusion** in every reachable state of every interleaving: no lock has two holders. -/
theorem C14_conc_mutex (reqs : List (List Ev)) (hreq : ∀ p ∈ reqs, ∃ h ∈ handlerPaths, p ∈ h.2)
    (capOf : Chan → Nat) (sched : List (Nat × Nat)) (i j : Nat) (ti tj : Thread) (l : Lock)
    (hi : (run (initSt chanUnbounded capOf reqs taskPaths) sched).threads[i]? = some ti)
    (hj : (run (initSt chanUnbounded capOf reqs taskPaths) sched).threads[j]? = some tj)
    (hli : l ∈ ti.held) (hlj : l ∈ tj.held) : i = j :=
  (conc_inv reqs hreq capOf sched).1.excl i j ti tj l hi hj hli hlj

open Chokan.Conc in
/-- **No deadlock, operationally.** For any number of concurrent requests of any kinds (each following any
control-flow path of its handler), together with the background loops, and for every schedule: in the state
reached, every request that is not finished either can take its next event, or is waiting for a lock while
some thread that holds a lock can take *its* next event.  (A thread that holds a lock never waits for a
message — `C14_conc_discipline` — so critical sections always run to their release.) -/
theorem C14_conc_requests_never_stuck (reqs : List (List Ev)) (hreq : ∀ p ∈ reqs, ∃ h ∈ handlerPaths, p ∈ h.2)
    (capOf : Chan → Nat) (sched : List (Nat × Nat)) (t : Thread)
    (ht : t ∈ (run (initSt chanUnbounded capOf reqs taskPaths) sched).threads)
    (hb : t.body = none) (hunf : t.rest ≠ []) :
    enabled (run (initSt chanUnbounded capOf reqs taskPaths) sched) t = true ∨
    ((∃ l r, t.rest = .acq l :: r) ∧
      ∃ tj ∈ (run (initSt chanUnbounded capOf reqs taskPaths) sched).threads,
        tj.held ≠ [] ∧ enabled (run (initSt chanUnbounded capOf reqs taskPaths) sched) tj = true) := by
  obtain ⟨hinv, hnw⟩ := conc_inv reqs hreq capOf sched
  cases hr : t.rest with
  | nil => exact absurd hr hunf
  | cons e r =>
    by_cases hacq : ∃ l, e = .acq l
    · obtain ⟨l, rfl⟩ := hacq
      have hB : ∀ l, lockRank l ≤ 1 := by intro l; cases l <;> decide
      rcases wait_chain_ends hinv 1 hB 1 t l r ht hr (by omega) with h | h
      · exact Or.inl h
      · exact Or.inr ⟨⟨l, r, rfl⟩, h⟩
    · left
      exact request_enabled hinv.cap hnw t ht hb e r hr (fun l h => hacq ⟨l, h⟩)

open Chokan.Conc in
/-- The same for the background loops: whichever thread waits for a lock, some lock holder can move. -/
theorem C14_conc_lock_waiters_progress (reqs : List (List Ev)) (hreq : ∀ p ∈ reqs, ∃ h ∈ handlerPaths, p ∈ h.2)
    (capOf : Chan → Nat) (sched : List (Nat × Nat)) (t : Thread) (l : Lock) (r : List Ev)
    (ht : t ∈ (run (initSt chanUnbounded capOf reqs taskPaths) sched).threads) (hr : t.rest = .acq l :: r) :
    enabled (run (initSt chanUnbounded capOf reqs taskPaths) sched) t = true ∨
    ∃ tj ∈ (run (initSt chanUnbounded capOf reqs taskPaths) sched).threads,
      tj.held ≠ [] ∧ enabled (run (initSt chanUnbounded capOf reqs taskPaths) sched) tj = true := by
  have hB : ∀ l, lockRank l ≤ 1 := by intro l; cases l <;> decide
  exact wait_chain_ends (conc_inv reqs hreq capOf sched).1 1 hB 1 t l r ht hr (by omega)

open Chokan.Conc in
/-- **A registered entry is never half-visible (code shape).** On every path of every background loop the trie
and map insertions happen under the dictionary lock, and the whole loop over the entry's conjugated forms lies
inside one critical section (the lock is neither released nor re-taken between the loop's start and end); every
conversion computes its answer while it holds the dictionary and the learned counts. -/
theorem C14_conc_merge_one_section :
    (taskPaths.all fun ps => ps.all fun p =>
      actUnder .trieInsert .dictionary p && actUnder .mapInsert .dictionary p &&
      (!(p.contains (.act .mapInsert)) ||
        (occursBefore (.act .loopStart) (.act .mapInsert) p && occursBefore (.act .mapInsert) (.act .loopEnd) p &&
         sameSection (.act .loopStart) (.act .loopEnd) .dictionary p))) = true ∧
    ((convertingPaths handlerPaths).all fun p => actUnder .compute .dictionary p && actUnder .compute .userPref p) = true ∧
    (convertingPaths handlerPaths).length ≥ 2 := by decide

/-- non-vacuity: two conversions, a confirmation and a registration in flight with the three background loops;
after a schedule in which a conversion takes the dictionary and the confirmation the session store, the
conversion waits for nothing and the state is as the invariant says -/
example :
    let reqs := (Chokan.Conc.convertingPaths handlerPaths) ++ (Chokan.Conc.pathsOf "UpdateFrequency" handlerPaths)
    (∀ p ∈ reqs, ∃ h ∈ handlerPaths, p ∈ h.2) ∧ reqs.length = 5 ∧
    ((Chokan.Conc.run (Chokan.Conc.initSt chanUnbounded (fun _ => 0) reqs taskPaths) [(0, 0), (2, 0), (1, 0)]).threads.map
        (·.held)) = [[.dictionary], [], [.store], [], [], [], [], []] := by decide

end Chokan.Props.C14
