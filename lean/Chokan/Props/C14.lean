/-
C14 — concurrent clients never deadlock and see sequentially explainable states.

Data: Chokan.Gen.Server.lockEdges (every nested `held → acquired` pair of `.lock()` calls over all
RPC handlers and background tasks), regenerated on every run.  That each modelled step is one critical
section is validated by the concurrent driver against the real server (partial).
-/
import Chokan.Model.Runtime
import Chokan.Model.Server

namespace Chokan.Props.C14
open Chokan.Runtime Chokan.Gen.Server

/-- Every nested acquisition in the code goes strictly upwards in one fixed order of the locks. -/
theorem C14_lock_order : edgesRespectRank lockEdges = true := by decide

/-- Generic: if every thread waits only for a lock ranked above the one it holds, there is no cycle
of threads each waiting for a lock held by the next one. -/
theorem C14_no_deadlock (rank : Lock → Nat) (k : Nat) (hk : 0 < k) (holds waits : Nat → Lock)
    (hup : ∀ i, i < k → rank (holds i) < rank (waits i))
    (hcyc : ∀ i, i < k → waits i = holds ((i + 1) % k)) : False := by
  have key : ∀ j, j < k → rank (holds 0) + j ≤ rank (holds j) := by
    intro j
    induction j with
    | zero => intro _; omega
    | succ j ih =>
      intro hj
      have h1 := ih (by omega)
      have h2 := hup j (by omega)
      rw [hcyc j (by omega), Nat.mod_eq_of_lt hj] at h2
      omega
  have h1 := key (k - 1) (by omega)
  have h2 := hup (k - 1) (by omega)
  rw [hcyc (k - 1) (by omega)] at h2
  have : (k - 1 + 1) % k = 0 := by
    rw [show k - 1 + 1 = k by omega, Nat.mod_self]
  rw [this] at h2
  omega

/-- … instantiated with the order the code respects: no reachable waiting cycle over its locks. -/
theorem C14_no_deadlock_here (k : Nat) (hk : 0 < k) (holds waits : Nat → Lock)
    (hedge : ∀ i, i < k → (holds i, waits i) ∈ lockEdges)
    (hcyc : ∀ i, i < k → waits i = holds ((i + 1) % k)) : False := by
  apply C14_no_deadlock lockRank k hk holds waits _ hcyc
  intro i hi
  have := List.all_eq_true.1 C14_lock_order _ (hedge i hi)
  simpa using this

/-! ## sequentially explainable states: histories of atomic steps (Model/Server `Op`, `stepOp`) -/

open Chokan.Server Chokan.Kkc Chokan.Dic in
/-- **A registered entry is never half-visible.** In every history the running dictionary changes only in
updater steps, and an updater step adds *all* conjugated forms of one entry at once: no state of any
history — hence no conversion answer — sees some of an entry's forms without the others. -/
theorem C14_dict_changes_by_whole_entries (c : Cfg) (s : State) (op : Op) :
    (stepOp c s op).dict = s.dict ∨
    ∃ e ws, s.pending.head? = some e ∧ entryToWords c.conj c.adj c.adjv e = some ws ∧
      (stepOp c s op).dict = ws.foldl (addStdWord c.alpha) s.dict := by
  cases op with
  | convert ctx input =>
    left
    simp only [stepOp]
    cases hc : convert c s ctx input with
    | none => rfl
    | some r =>
      obtain ⟨s', sid, cs⟩ := r
      unfold convert at hc
      simp only [Option.map_eq_some_iff, Prod.mk.injEq] at hc
      obtain ⟨_, _, rfl, _, _⟩ := hc
      rfl
  | confirm sid cid now =>
    left
    simp only [stepOp]
    unfold confirm popSession
    cases hs : s.sessions.find? (·.sid == sid) with
    | none => rfl
    | some sess' =>
      simp only
      cases hcb : (cid.bind fun i => sess'.cands[i]?) with
      | none => rfl
      | some cand =>
        simp only
        cases independentWord cand.chain <;> cases withAffix cand.chain <;> rfl
  | register k r w =>
    left
    simp only [stepOp]
    cases hr : register c s k r w with
    | none => rfl
    | some s' =>
      unfold register at hr
      simp only [Option.map_eq_some_iff] at hr
      obtain ⟨e, _, rfl⟩ := hr
      rfl
  | apply =>
    simp only [stepOp]
    cases hp : s.pending with
    | nil => left; simp [applyEntry, hp]
    | cons e rest =>
      cases hm : mergeEntry c s.dict e with
      | none => left; simp [applyEntry, hp, hm]
      | some d =>
        right
        unfold mergeEntry at hm
        simp only [Option.map_eq_some_iff] at hm
        obtain ⟨ws, hws, rfl⟩ := hm
        refine ⟨e, ws, by simp, hws, ?_⟩
        simp [applyEntry, hp, mergeEntry, hws]
  | save =>
    left
    simp only [stepOp, save]
    split <;> rfl

open Chokan.Server Chokan.Kkc Chokan.Dic in
/-- **Every conversion answer is the sequential answer for the state of its own step**: it is a function
of the dictionary and the learned counts of the state reached by the steps before it (every earlier
update, no later one), whatever sessions, queued entries or saved files exist. -/
theorem C14_answer_is_sequential (c : Cfg) (s0 : State) (before : List Op) (ctx : Ctx) (input : Str) :
    (convert c (runOps c s0 before) ctx input).map (·.2.2) =
      getCandidates c.tables input (runOps c s0 before).dict ctx (toKkcFreq (runOps c s0 before).freq)
        c.nCandidates c.fuel := by
  unfold convert
  cases getCandidates c.tables input (runOps c s0 before).dict ctx (toKkcFreq (runOps c s0 before).freq)
    c.nCandidates c.fuel <;> rfl

end Chokan.Props.C14
