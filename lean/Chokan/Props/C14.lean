/-
C14 — concurrent clients never deadlock and see sequentially explainable states.

Data: Chokan.Gen.Server.lockEdges (every nested `held → acquired` pair of `.lock()` calls over all
RPC handlers and background tasks), regenerated on every run.  That each modelled step is one critical
section is validated by the concurrent driver against the real server (partial).
-/
import Chokan.Model.Runtime
import Chokan.Model.Server
import Chokan.Lemmas.Conc
import Chokan.Lemmas.Fine
import Chokan.Lemmas.FineSess

namespace Chokan.Props.C14
open Chokan.Runtime Chokan.Gen.Server

/-- Every nested acquisition in the code goes strictly upwards in one fixed order of the locks. -/
theorem C14_lock_order : edgesRespectRank lockEdges = true := by decide

/-- Generic: if every thread waits only for a lock ranked above the one it holds, there is no cycle
of threads each waiting for a lock held by the next one. -/
theorem C14_no_deadlock (rank : Lock → Nat) (k : Nat) (hk : 0 < k) (holds waits : Nat → Lock)
    (hup : ∀ i, i < k → rank (holds i) < rank (waits i))
    (hcyc : ∀ i, i < k → waits i = holds ((i + 1) % k)) : False := by
  have key : ∀ j, j < k → rank (holds 0) + j ≤ rank (holds j) := by
    intro j
    induction j with
    | zero => intro _; omega
    | succ j ih =>
      intro hj
      have h1 := ih (by omega)
      have h2 := hup j (by omega)
      rw [hcyc j (by omega), Nat.mod_eq_of_lt hj] at h2
      omega
  have h1 := key (k - 1) (by omega)
  have h2 := hup (k - 1) (by omega)
  rw [hcyc (k - 1) (by omega)] at h2
  have : (k - 1 + 1) % k = 0 := by
    rw [show k - 1 + 1 = k by omega, Nat.mod_self]
  rw [this] at h2
  omega

/-- … instantiated with the order the code respects: no reachable waiting cycle over its locks. -/
theorem C14_no_deadlock_here (k : Nat) (hk : 0 < k) (holds waits : Nat → Lock)
    (hedge : ∀ i, i < k → (holds i, waits i) ∈ lockEdges)
    (hcyc : ∀ i, i < k → waits i = holds ((i + 1) % k)) : False := by
  apply C14_no_deadlock lockRank k hk holds waits _ hcyc
  intro i hi
  have := List.all_eq_true.1 C14_lock_order _ (hedge i hi)
  simpa using this

/-! ## sequentially explainable states: histories of atomic steps (Model/Server `Op`, `stepOp`) -/

open Chokan.Server Chokan.Kkc Chokan.Dic in
/-- **A registered entry is never half-visible.** In every history the running dictionary changes only in
updater steps, and an updater step adds *all* conjugated forms of one entry at once: no state of any
history — hence no conversion answer — sees some of an entry's forms without the others. -/
theorem C14_dict_changes_by_whole_entries (c : Cfg) (s : State) (op : Op) :
    (stepOp c s op).dict = s.dict ∨
    ∃ e ws, s.pending.head? = some e ∧ entryToWords c.conj c.adj c.adjv e = some ws ∧
      (stepOp c s op).dict = ws.foldl (addStdWord c.alpha) s.dict := by
  cases op with
  | convert ctx input =>
    left
    simp only [stepOp]
    cases hc : convert c s ctx input with
    | none => rfl
    | some r =>
      obtain ⟨s', sid, cs⟩ := r
      unfold convert at hc
      simp only [Option.map_eq_some_iff, Prod.mk.injEq] at hc
      obtain ⟨_, _, rfl, _, _⟩ := hc
      rfl
  | confirm sid cid now =>
    left
    simp only [stepOp]
    unfold confirm popSession
    cases hs : s.sessions.find? (·.sid == sid) with
    | none => rfl
    | some sess' =>
      simp only
      cases hcb : (cid.bind fun i => sess'.cands[i]?) with
      | none => rfl
      | some cand =>
        simp only
        cases independentWord cand.chain <;> cases withAffix cand.chain <;> rfl
  | register k r w =>
    left
    simp only [stepOp]
    cases hr : register c s k r w with
    | none => rfl
    | some s' =>
      unfold register at hr
      simp only [Option.map_eq_some_iff] at hr
      obtain ⟨e, _, rfl⟩ := hr
      rfl
  | apply =>
    simp only [stepOp]
    cases hp : s.pending with
    | nil => left; simp [applyEntry, hp]
    | cons e rest =>
      cases hm : mergeEntry c s.dict e with
      | none => left; simp [applyEntry, hp, hm]
      | some d =>
        right
        unfold mergeEntry at hm
        simp only [Option.map_eq_some_iff] at hm
        obtain ⟨ws, hws, rfl⟩ := hm
        refine ⟨e, ws, by simp, hws, ?_⟩
        simp [applyEntry, hp, mergeEntry, hws]
  | save =>
    left
    simp only [stepOp, save]
    split <;> rfl

open Chokan.Server Chokan.Kkc Chokan.Dic in
/-- **Every conversion answer is the sequential answer for the state of its own step**: it is a function
of the dictionary and the learned counts of the state reached by the steps before it (every earlier
update, no later one), whatever sessions, queued entries or saved files exist. -/
theorem C14_answer_is_sequential (c : Cfg) (s0 : State) (before : List Op) (ctx : Ctx) (input : Str) :
    (convert c (runOps c s0 before) ctx input).map (·.2.2) =
      getCandidates c.tables input (runOps c s0 before).dict ctx (toKkcFreq (runOps c s0 before).freq)
        c.nCandidates c.fuel := by
  unfold convert
  cases getCandidates c.tables input (runOps c s0 before).dict ctx (toKkcFreq (runOps c s0 before).freq)
    c.nCandidates c.fuel <;> rfl


/-! ## fine-grained interleavings (Model/Conc): one thread per in-flight request and per background loop,
interleaved event by event; the event lists are regenerated from main.rs / method.rs on every run -/

open Chokan.Conc in
/-- Every control-flow path of every RPC handler and of every background loop, as extracted from the code, keeps
the lock discipline under the one order `lockRank`: locks are taken in ascending order only and released by
their holder, nothing waits for a message (or sends on a bounded channel) while it holds a lock, a handler
never waits for a message at all, and every path ends holding nothing. -/
theorem C14_conc_discipline :
    (handlerPaths.all fun h => h.2.all fun p => disc lockRank chanUnbounded [] p && noWait chanUnbounded p) = true ∧
    (taskPaths.all fun ps => ps.all fun p => disc lockRank chanUnbounded [] p) = true := by decide

open Chokan.Conc in
theorem conc_inv (reqs : List (List Ev)) (hreq : ∀ p ∈ reqs, ∃ h ∈ handlerPaths, p ∈ h.2)
    (capOf : Chan → Nat) (sched : List (Nat × Nat)) :
    Inv lockRank chanUnbounded (run (initSt chanUnbounded capOf reqs taskPaths) sched) ∧
    ReqNoWait chanUnbounded (run (initSt chanUnbounded capOf reqs taskPaths) sched) := by
  have hd := C14_conc_discipline
  simp only [List.all_eq_true, Bool.and_eq_true] at hd
  refine ⟨Inv_run sched (Inv_init _ _ _ _ _ ?_ ?_), ReqNoWait_run sched (ReqNoWait_init _ _ _ _ ?_)⟩
  · intro p hp
    obtain ⟨h, hh, hph⟩ := hreq p hp
    exact (hd.1 h hh p hph).1
  · intro ps hps p hp
    exact hd.2 ps hps p hp
  · intro p hp
    obtain ⟨h, hh, hph⟩ := hreq p hp
    exact (hd.1 h hh p hph).2

open Chokan.Conc in
/-- **Mutual exclusion** in every reachable state of every interleaving: no lock has two holders. -/
theorem C14_conc_mutex (reqs : List (List Ev)) (hreq : ∀ p ∈ reqs, ∃ h ∈ handlerPaths, p ∈ h.2)
    (capOf : Chan → Nat) (sched : List (Nat × Nat)) (i j : Nat) (ti tj : Thread) (l : Lock)
    (hi : (run (initSt chanUnbounded capOf reqs taskPaths) sched).threads[i]? = some ti)
    (hj : (run (initSt chanUnbounded capOf reqs taskPaths) sched).threads[j]? = some tj)
    (hli : l ∈ ti.held) (hlj : l ∈ tj.held) : i = j :=
  (conc_inv reqs hreq capOf sched).1.excl i j ti tj l hi hj hli hlj

open Chokan.Conc in
/-- **No deadlock, operationally.** For any number of concurrent requests of any kinds (each following any
control-flow path of its handler), together with the background loops, and for every schedule: in the state
reached, every request that is not finished either can take its next event, or is waiting for a lock while
some thread that holds a lock can take *its* next event.  (A thread that holds a lock never waits for a
message — `C14_conc_discipline` — so critical sections always run to their release.) -/
theorem C14_conc_requests_never_stuck (reqs : List (List Ev)) (hreq : ∀ p ∈ reqs, ∃ h ∈ handlerPaths, p ∈ h.2)
    (capOf : Chan → Nat) (sched : List (Nat × Nat)) (t : Thread)
    (ht : t ∈ (run (initSt chanUnbounded capOf reqs taskPaths) sched).threads)
    (hb : t.body = none) (hunf : t.rest ≠ []) :
    enabled (run (initSt chanUnbounded capOf reqs taskPaths) sched) t = true ∨
    ((∃ l r, t.rest = .acq l :: r) ∧
      ∃ tj ∈ (run (initSt chanUnbounded capOf reqs taskPaths) sched).threads,
        tj.held ≠ [] ∧ enabled (run (initSt chanUnbounded capOf reqs taskPaths) sched) tj = true) := by
  obtain ⟨hinv, hnw⟩ := conc_inv reqs hreq capOf sched
  cases hr : t.rest with
  | nil => exact absurd hr hunf
  | cons e r =>
    by_cases hacq : ∃ l, e = .acq l
    · obtain ⟨l, rfl⟩ := hacq
      have hB : ∀ l, lockRank l ≤ 1 := by intro l; cases l <;> decide
      rcases wait_chain_ends hinv 1 hB 1 t l r ht hr (by omega) with h | h
      · exact Or.inl h
      · exact Or.inr ⟨⟨l, r, rfl⟩, h⟩
    · left
      exact request_enabled hinv.cap hnw t ht hb e r hr (fun l h => hacq ⟨l, h⟩)

open Chokan.Conc in
/-- The same for the background loops: whichever thread waits for a lock, some lock holder can move. -/
theorem C14_conc_lock_waiters_progress (reqs : List (List Ev)) (hreq : ∀ p ∈ reqs, ∃ h ∈ handlerPaths, p ∈ h.2)
    (capOf : Chan → Nat) (sched : List (Nat × Nat)) (t : Thread) (l : Lock) (r : List Ev)
    (ht : t ∈ (run (initSt chanUnbounded capOf reqs taskPaths) sched).threads) (hr : t.rest = .acq l :: r) :
    enabled (run (initSt chanUnbounded capOf reqs taskPaths) sched) t = true ∨
    ∃ tj ∈ (run (initSt chanUnbounded capOf reqs taskPaths) sched).threads,
      tj.held ≠ [] ∧ enabled (run (initSt chanUnbounded capOf reqs taskPaths) sched) tj = true := by
  have hB : ∀ l, lockRank l ≤ 1 := by intro l; cases l <;> decide
  exact wait_chain_ends (conc_inv reqs hreq capOf sched).1 1 hB 1 t l r ht hr (by omega)

open Chokan.Conc in
/-- **A registered entry is never half-visible (code shape).** On every path of every background loop the trie
and map insertions happen under the dictionary lock, and the whole loop over the entry's conjugated forms lies
inside one critical section (the lock is neither released nor re-taken between the loop's start and end); every
conversion computes its answer while it holds the dictionary and the learned counts. -/
theorem C14_conc_merge_one_section :
    (taskPaths.all fun ps => ps.all fun p =>
      actUnder .trieInsert .dictionary p && actUnder .mapInsert .dictionary p &&
      (!(p.contains (.act .mapInsert)) ||
        (occursBefore (.act .loopStart) (.act .mapInsert) p && occursBefore (.act .mapInsert) (.act .loopEnd) p &&
         sameSection (.act .loopStart) (.act .loopEnd) .dictionary p))) = true ∧
    ((convertingPaths handlerPaths).all fun p => actUnder .compute .dictionary p && actUnder .compute .userPref p) = true ∧
    (convertingPaths handlerPaths).length ≥ 2 := by decide

/-- non-vacuity: two conversions, a confirmation and a registration in flight with the three background loops;
after a schedule in which a conversion takes the dictionary and the confirmation the session store, the
conversion waits for nothing and the state is as the invariant says -/
example :
    let reqs := (Chokan.Conc.convertingPaths handlerPaths) ++ (Chokan.Conc.pathsOf "UpdateFrequency" handlerPaths)
    (∀ p ∈ reqs, ∃ h ∈ handlerPaths, p ∈ h.2) ∧ reqs.length = 5 ∧
    ((Chokan.Conc.run (Chokan.Conc.initSt chanUnbounded (fun _ => 0) reqs taskPaths) [(0, 0), (2, 0), (1, 0)]).threads.map
        (·.held)) = [[.dictionary], [], [.store], [], [], [], [], []] := by decide


/-! ## the interleaving model with data (Model/Fine): handlers are atomic steps, and their critical sections are isolated -/

open Chokan.Conc Chokan.Fine in
/-- The data-touching events of the extracted bodies are the ones the atomic steps of Model/Server are made of: a
converting handler computes, stores the session, answers; the confirmation (every conditional entered) pops, updates
the count, learns the compound, queues it, answers; a registration queues and answers; one updater iteration takes an
entry, records it, merges it; one saver iteration waits for the tick and saves.  And every action of every path runs
while the locks that protect its data are held. -/
theorem C14_fine_shapes :
    ((convertingPaths handlerPaths).all fun p => dataEvents p == [.act .compute, .act .addSession, .respond]) = true ∧
    (((handlerMain.filter (·.1 == "UpdateFrequency")).map (·.2)).all fun p =>
      dataEvents p == [.act .popSession, .act .updFreq, .act .updCompound, .send .entry, .respond]) = true ∧
    ((pathsOf "RegisterWord" handlerPaths).all fun p => dataEvents p == [.send .entry, .respond]) = true ∧
    ((taskMain.filter (·.contains (.recv .entry))).all fun p =>
      dataEvents p == [.recv .entry, .act .addEntry, .act .loopStart, .act .trieInsert, .act .mapInsert, .act .loopEnd]) = true ∧
    ((taskMain.filter (·.contains (.act .saveFiles))).all fun p => dataEvents p == [.recv .tick, .act .saveFiles]) = true ∧
    (handlerPaths.all fun h => h.2.all (guarded [])) = true ∧ (taskPaths.all fun ps => ps.all (guarded [])) = true ∧
    [(convertingPaths handlerPaths).length, ((handlerMain.filter (·.1 == "UpdateFrequency")).map (·.2)).length,
      (pathsOf "RegisterWord" handlerPaths).length, (taskMain.filter (·.contains (.recv .entry))).length,
      (taskMain.filter (·.contains (.act .saveFiles))).length] = [2, 1, 1, 1, 1] := by decide

open Chokan.Conc Chokan.Fine Chokan.Server Chokan.Kkc Chokan.Dic in
/-- **Each handler, run with nothing in between, is the atomic step of the server model** — so the histories of atomic
steps that C05, C06, C08, C14, C15 and C20 reason about are exactly the executions in which critical sections do not
overlap. (conversion) -/
theorem C14_fine_convert_is_atomic (c : Cfg) (p : List Ev) (hp : p ∈ convertingPaths handlerPaths)
    (s s' : State) (ctx : Ctx) (input : Str) (sid : Nat) (cs : List Cand) (h : convert c s ctx input = some (s', sid, cs)) :
    (runAlone c p { req := .conv ctx input } s).2 = s' ∧ (runAlone c p { req := .conv ctx input } s).1.cands = cs ∧
    (runAlone c p { req := .conv ctx input } s).1.stored = some ⟨sid, ctx, cs⟩ := by
  have hs := List.all_eq_true.1 C14_fine_shapes.1 p hp
  have := alone_convert c p (by simpa using hs) s s' ctx input sid cs h
  exact ⟨this.1, this.2.1, this.2.2.1⟩

open Chokan.Conc Chokan.Fine Chokan.Server in
/-- (confirmation, registration, one updater iteration, one saver iteration) -/
theorem C14_fine_others_are_atomic (c : Cfg) (s : State) :
    (∀ p ∈ (handlerMain.filter (·.1 == "UpdateFrequency")).map (·.2), ∀ sid id now,
      (runAlone c p { req := .confirm sid id now } s).2 = confirmId c s sid id now) ∧
    (∀ p ∈ pathsOf "RegisterWord" handlerPaths, ∀ kind reading word,
      (runAlone c p { req := .register kind reading word } s).2 = (register c s kind reading word).getD s) ∧
    (∀ p ∈ taskMain.filter (·.contains (.recv .entry)),
      (∀ e, s.pending.head? = some e → (mergeEntry c s.dict e).isSome = true) →
      some (runAlone c p { req := .other } s).2 = applyEntry c s) ∧
    (∀ p ∈ taskMain.filter (·.contains (.act .saveFiles)), (runAlone c p { req := .other } s).2 = save c s) := by
  obtain ⟨_, h2, h3, h4, h5, _⟩ := C14_fine_shapes
  refine ⟨?_, ?_, ?_, ?_⟩
  · intro p hp sid id now
    exact alone_confirm c p (by simpa using List.all_eq_true.1 h2 p hp) s sid id now
  · intro p hp kind reading word
    exact alone_register c p (by simpa using List.all_eq_true.1 h3 p hp) s kind reading word
  · intro p hp hok
    exact alone_apply c p (by simpa using List.all_eq_true.1 h4 p hp) s hok
  · intro p hp
    exact alone_save c p (by simpa using List.all_eq_true.1 h5 p hp) s

open Chokan.Conc Chokan.Fine in
theorem frun_st (c : Chokan.Server.Cfg) (sched : List (Nat × Nat)) : ∀ d : FSt, (frun c d sched).st = run d.st sched := by
  induction sched with
  | nil => intro d; rfl
  | cons a t ih =>
    intro d
    show (frun c (fstep c d a) t).st = run (step d.st a) t
    rw [ih]
    congr 1
    unfold fstep
    split <;> rfl

open Chokan.Conc Chokan.Fine in
/-- **Critical sections are isolated, under every interleaving.**  Any number of concurrent requests (paths of the
extracted handlers) with the background loops, any schedule of the model with data: while one thread holds a lock, no
other thread is at an action on the data that lock protects — the sections of one lock never overlap, so what a
thread reads and writes under a lock is not touched by anyone else until it releases it. -/
theorem C14_fine_isolation (c : Chokan.Server.Cfg) (reqs : List (List Ev × Req)) (hreq : ∀ r ∈ reqs, ∃ h ∈ handlerPaths, r.1 ∈ h.2)
    (capOf : Chan → Nat) (s0 : Chokan.Server.State) (sched : List (Nat × Nat)) (i j : Nat) (ti tj : Thread)
    (hi : (frun c (finit chanUnbounded capOf reqs taskPaths s0) sched).st.threads[i]? = some ti)
    (hj : (frun c (finit chanUnbounded capOf reqs taskPaths s0) sched).st.threads[j]? = some tj) (hij : i ≠ j)
    (l : Lock) (hl : l ∈ ti.held) (b : Act) (r : List Ev) (hr : tj.rest = .act b :: r) : l ∉ protects b := by
  rw [frun_st] at hi hj
  have hreq' : ∀ p ∈ reqs.map (·.1), ∃ h ∈ handlerPaths, p ∈ h.2 := by
    intro p hp
    obtain ⟨r, hr, rfl⟩ := List.mem_map.1 hp
    exact hreq r hr
  have hinv := (conc_inv (reqs.map (·.1)) hreq' capOf sched).1
  obtain ⟨_, _, _, _, _, hgh, hgt, _⟩ := C14_fine_shapes
  have hg : GInv (run (initSt chanUnbounded capOf (reqs.map (·.1)) taskPaths) sched) := by
    refine GInv_run (rank := lockRank) sched (Inv_init lockRank _ _ _ _ ?_ ?_) (GInv_init _ _ _ _ ?_ ?_)
    · intro p hp
      obtain ⟨h, hh, hph⟩ := hreq' p hp
      have := C14_conc_discipline.1
      simp only [List.all_eq_true, Bool.and_eq_true] at this
      exact (this h hh p hph).1
    · intro ps hps p hp
      have := C14_conc_discipline.2
      simp only [List.all_eq_true] at this
      exact this ps hps p hp
    · intro p hp
      obtain ⟨h, hh, hph⟩ := hreq' p hp
      exact List.all_eq_true.1 (List.all_eq_true.1 hgh h hh) p hph
    · intro ps hps p hp
      exact List.all_eq_true.1 (List.all_eq_true.1 hgt ps hps) p hp
  exact isolated hinv hg i j ti tj hi hj hij l hl b r hr


open Chokan.Conc Chokan.Fine Chokan.Server in
/-- **Under every interleaving (model with data): a registered entry is never half-visible and every answer is
sequential.**  One step of any thread leaves the running dictionary alone or merges *all* conjugated forms of one entry;
and what a conversion thread computes is `getCandidates` on the dictionary and the learned counts of the very state its
compute event runs in (it holds both locks: `C14_fine_shapes`, `C14_fine_isolation`), changing nothing. -/
theorem C14_fine_whole_entries_and_sequential_answers (c : Cfg) (d : FSt) (ik : Nat × Nat) :
    ((fstep c d ik).data.dict = d.data.dict ∨
      ∃ en, (fstep c d ik).data.dict = (mergeEntry c d.data.dict en).getD d.data.dict) ∧
    (∀ (l : Fine.Local) (ctx : Chokan.Kkc.Ctx) (input : Chokan.Dic.Str), headEv d.st ik.1 = some (.act .compute) →
      d.locals[ik.1]? = some l → l.req = Req.conv ctx input →
      ∃ l', (fstep c d ik).locals[ik.1]? = some l' ∧
        l'.cands = (Chokan.Kkc.getCandidates c.tables input d.data.dict ctx (toKkcFreq d.data.freq) c.nCandidates c.fuel).getD [] ∧
        (fstep c d ik).data = d.data) :=
  ⟨fstep_dict c d ik, fun l ctx input hh hl hr => fstep_compute c d ik.1 ik.2 l ctx input hh hl hr⟩

end Chokan.Props.C14
