/-
C14 — concurrent clients never deadlock and see sequentially explainable states.

Data: Chokan.Gen.Server.lockEdges (every nested `held → acquired` pair of `.lock()` calls over all
RPC handlers and background tasks), regenerated on every run.  That each modelled step is one critical
section is validated by the concurrent driver against the real server (partial).
-/
import Chokan.Model.Runtime

namespace Chokan.Props.C14
open Chokan.Runtime Chokan.Gen.Server

/-- Every nested acquisition in the code goes strictly upwards in one fixed order of the locks. -/
theorem C14_lock_order : edgesRespectRank lockEdges = true := by decide

/-- Generic: if every thread waits only for a lock ranked above the one it holds, there is no cycle
of threads each waiting for a lock held by the next one. -/
theorem C14_no_deadlock (rank : Lock → Nat) (k : Nat) (hk : 0 < k) (holds waits : Nat → Lock)
    (hup : ∀ i, i < k → rank (holds i) < rank (waits i))
    (hcyc : ∀ i, i < k → waits i = holds ((i + 1) % k)) : False := by
  have key : ∀ j, j < k → rank (holds 0) + j ≤ rank (holds j) := by
    intro j
    induction j with
    | zero => intro _; omega
    | succ j ih =>
      intro hj
      have h1 := ih (by omega)
      have h2 := hup j (by omega)
      rw [hcyc j (by omega), Nat.mod_eq_of_lt hj] at h2
      omega
  have h1 := key (k - 1) (by omega)
  have h2 := hup (k - 1) (by omega)
  rw [hcyc (k - 1) (by omega)] at h2
  have : (k - 1 + 1) % k = 0 := by
    rw [show k - 1 + 1 = k by omega, Nat.mod_self]
  rw [this] at h2
  omega

/-- … instantiated with the order the code respects: no reachable waiting cycle over its locks. -/
theorem C14_no_deadlock_here (k : Nat) (hk : 0 < k) (holds waits : Nat → Lock)
    (hedge : ∀ i, i < k → (holds i, waits i) ∈ lockEdges)
    (hcyc : ∀ i, i < k → waits i = holds ((i + 1) % k)) : False := by
  apply C14_no_deadlock lockRank k hk holds waits _ hcyc
  intro i hi
  have := List.all_eq_true.1 C14_lock_order _ (hedge i hi)
  simpa using this

end Chokan.Props.C14
