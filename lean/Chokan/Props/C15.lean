/-
C15 — an acknowledged conversion can always be confirmed; no learning is silently lost.

Model: Chokan.Model.Server.  A conversion step records its session in the same step that produces the
answer (`convert`), so in every schedule a confirmation issued after the answer finds the session.
-/
import Chokan.Model.Server
import Chokan.Lemmas.Kkc
import Chokan.Props.C03
import Chokan.Props.C08
import Chokan.Lemmas.ConcSess
import Chokan.Lemmas.FineSess

namespace Chokan.Props.C15
open Chokan.Server Chokan.Kkc Chokan.Dic

/-- The session a conversion answers with is stored when the answer exists. -/
theorem C15_session_recorded (c : Cfg) (s s' : State) (ctx : Ctx) (input : Str) (sid : Nat) (cs : List Cand)
    (h : convert c s ctx input = some (s', sid, cs)) (hfresh : ∀ x ∈ s.sessions, x.sid ≠ sid) :
    ∃ sess, s'.sessions.find? (·.sid == sid) = some sess ∧ sess.ctx = ctx ∧ sess.cands = cs := by
  unfold convert at h
  simp only [Option.map_eq_some_iff] at h
  obtain ⟨cs', _, h⟩ := h
  simp only [Prod.mk.injEq] at h
  obtain ⟨rfl, rfl, rfl⟩ := h
  refine ⟨⟨s.nextSid, ctx, cs'⟩, ?_, rfl, rfl⟩
  rw [List.find?_append]
  have : s.sessions.find? (·.sid == s.nextSid) = none := by
    rw [List.find?_eq_none]
    intro x hx
    simpa using hfresh x hx
  simp [this]

/-- Session ids are fresh: every stored id is below the next one to be issued. -/
def SidsBelow (s : State) : Prop := ∀ x ∈ s.sessions, x.sid < s.nextSid

theorem C15_sids_fresh_convert (c : Cfg) (s s' : State) (ctx : Ctx) (input : Str) (sid : Nat) (cs : List Cand)
    (hinv : SidsBelow s) (h : convert c s ctx input = some (s', sid, cs)) : SidsBelow s' ∧ sid = s.nextSid := by
  unfold convert at h
  simp only [Option.map_eq_some_iff] at h
  obtain ⟨cs', _, h⟩ := h
  simp only [Prod.mk.injEq] at h
  obtain ⟨rfl, rfl, rfl⟩ := h
  refine ⟨?_, rfl⟩
  intro x hx
  simp only [List.mem_append, List.mem_singleton] at hx
  rcases hx with hx | rfl
  · have := hinv x hx; simp; omega
  · simp

theorem find_filter : ∀ (l : List Session) (sid sid' : Nat), sid' ≠ sid → ∀ sess,
    l.find? (·.sid == sid) = some sess → (l.filter (·.sid != sid')).find? (·.sid == sid) = some sess
  | [], _, _, _, _, h => by simp at h
  | x :: xs, sid, sid', hne, sess, h => by
    simp only [List.find?_cons] at h
    by_cases hx : (x.sid == sid) = true
    · simp only [hx] at h
      have hxs : x.sid = sid := by simpa using hx
      have : (x.sid != sid') = true := by simp [hxs, Ne.symm hne]
      simp [List.filter_cons, this, hx, h]
    · have hx' : (x.sid == sid) = false := by simpa using hx
      simp only [hx'] at h
      have ih := find_filter xs sid sid' hne sess h
      by_cases hy : (x.sid != sid') = true
      · simp [List.filter_cons, hy, hx', ih]
      · simp [List.filter_cons, hy, ih]

/-- Steps of other clients and of the background tasks between the answer and the confirmation keep
the session: only a confirmation with the same id removes it. -/
theorem C15_session_survives_other_confirm (c : Cfg) (s : State) (sid sid' : Nat) (cid : Option Nat) (now : Int)
    (sess : Session) (hne : sid' ≠ sid) (h : s.sessions.find? (·.sid == sid) = some sess) :
    (confirm c s sid' cid now).sessions.find? (·.sid == sid) = some sess := by
  have hf := find_filter s.sessions sid sid' hne sess h
  unfold confirm popSession
  cases hs : s.sessions.find? (·.sid == sid') with
  | none => simpa [hs] using hf
  | some sess' =>
    simp only [hs]
    cases hc : (cid.bind fun i => sess'.cands[i]?) with
    | none => simpa [hc] using hf
    | some cand =>
      simp only [hc]
      cases independentWord cand.chain <;> cases withAffix cand.chain <;> simpa using hf

/-- Every acknowledged registration is in the channel exactly once and is applied exactly once, in
order, by the updater (`applyEntry` pops the head). -/
theorem C15_register_once (c : Cfg) (s : State) (e : Entry) (rest : List Entry) (s' : State)
    (hp : s.pending = e :: rest) (h : applyEntry c s = some s') :
    s'.pending = rest ∧ s'.userDict = s.userDict ++ [e] := by
  simp only [applyEntry, hp, Option.map_eq_some_iff] at h
  obtain ⟨d, _, rfl⟩ := h
  exact ⟨rfl, rfl⟩

/-! ## every interleaving: histories of atomic steps -/

/-- What every step keeps of the session store: ids stay below the next id, … -/
theorem sidsBelow_step (c : Cfg) (s : State) (op : Op) (h : SidsBelow s) : SidsBelow (stepOp c s op) := by
  cases op with
  | convert ctx input =>
    simp only [stepOp]
    cases hc : convert c s ctx input with
    | none => exact h
    | some r =>
      obtain ⟨s', sid, cs⟩ := r
      exact (C15_sids_fresh_convert c s s' ctx input sid cs h hc).1
  | confirm sid cid now =>
    have hsub : ∀ x ∈ (confirm c s sid cid now).sessions, x ∈ s.sessions := by
      intro x hx
      have hf : ∀ x ∈ s.sessions.filter (·.sid != sid), x ∈ s.sessions := fun x hx => (List.mem_filter.1 hx).1
      unfold confirm popSession at hx
      cases hs : s.sessions.find? (·.sid == sid) with
      | none => simp only [hs] at hx; exact hf x hx
      | some sess' =>
        simp only [hs] at hx
        cases hcb : (cid.bind fun i => sess'.cands[i]?) with
        | none => simp only [hcb] at hx; exact hf x hx
        | some cand =>
          simp only [hcb] at hx
          cases hi : independentWord cand.chain <;> cases hw : withAffix cand.chain <;>
            (simp only [hi, hw] at hx; exact hf x hx)
    have hn : (confirm c s sid cid now).nextSid = s.nextSid := by
      unfold confirm popSession
      cases hs : s.sessions.find? (·.sid == sid) with
      | none => rfl
      | some sess' =>
        simp only
        cases hcb : (cid.bind fun i => sess'.cands[i]?) with
        | none => rfl
        | some cand =>
          simp only
          cases independentWord cand.chain <;> cases withAffix cand.chain <;> rfl
    intro x hx
    show x.sid < (confirm c s sid cid now).nextSid
    rw [hn]; exact h x (hsub x hx)
  | register k r w =>
    simp only [stepOp]
    cases hr : register c s k r w with
    | none => exact h
    | some s' =>
      unfold register at hr
      simp only [Option.map_eq_some_iff] at hr
      obtain ⟨e, _, rfl⟩ := hr
      exact h
  | apply =>
    simp only [stepOp]
    cases ha : applyEntry c s with
    | none => exact h
    | some s' =>
      unfold applyEntry at ha
      cases hp : s.pending with
      | nil => simp only [hp, Option.some.injEq] at ha; subst ha; exact h
      | cons e rest =>
        simp only [hp, Option.map_eq_some_iff] at ha
        obtain ⟨d, _, rfl⟩ := ha
        exact h
  | save =>
    simp only [stepOp, save]
    split
    · exact h
    · exact h

theorem nextSid_mono_step (c : Cfg) (s : State) (op : Op) : s.nextSid ≤ (stepOp c s op).nextSid := by
  cases op with
  | convert ctx input =>
    simp only [stepOp]
    cases hc : convert c s ctx input with
    | none => exact Nat.le_refl _
    | some r =>
      obtain ⟨s', sid, cs⟩ := r
      unfold convert at hc
      simp only [Option.map_eq_some_iff, Prod.mk.injEq] at hc
      obtain ⟨_, _, rfl, _, _⟩ := hc
      simp
  | confirm sid cid now =>
    simp only [stepOp]
    unfold confirm popSession
    cases hs : s.sessions.find? (·.sid == sid) with
    | none => exact Nat.le_refl _
    | some sess' =>
      simp only
      cases hcb : (cid.bind fun i => sess'.cands[i]?) with
      | none => exact Nat.le_refl _
      | some cand =>
        simp only
        cases independentWord cand.chain <;> cases withAffix cand.chain <;> exact Nat.le_refl _
  | register k r w =>
    simp only [stepOp]
    cases hr : register c s k r w with
    | none => exact Nat.le_refl _
    | some s' =>
      unfold register at hr
      simp only [Option.map_eq_some_iff] at hr
      obtain ⟨e, _, rfl⟩ := hr
      exact Nat.le_refl _
  | apply =>
    simp only [stepOp]
    cases ha : applyEntry c s with
    | none => exact Nat.le_refl _
    | some s' =>
      unfold applyEntry at ha
      cases hp : s.pending with
      | nil => simp only [hp, Option.some.injEq] at ha; subst ha; exact Nat.le_refl _
      | cons e rest =>
        simp only [hp, Option.map_eq_some_iff] at ha
        obtain ⟨d, _, rfl⟩ := ha
        exact Nat.le_refl _
  | save =>
    simp only [stepOp, save]
    split <;> exact Nat.le_refl _

/-- … and a stored session stays exactly as it is under every step that is not its own confirmation. -/
theorem session_kept_step (c : Cfg) (s : State) (op : Op) (sid : Nat) (sess : Session)
    (hb : SidsBelow s) (hlt : sid < s.nextSid)
    (hop : ∀ cid now, op ≠ .confirm sid cid now)
    (h : s.sessions.find? (·.sid == sid) = some sess) :
    (stepOp c s op).sessions.find? (·.sid == sid) = some sess := by
  cases op with
  | convert ctx input =>
    simp only [stepOp]
    cases hc : convert c s ctx input with
    | none => exact h
    | some r =>
      obtain ⟨s', sid', cs⟩ := r
      unfold convert at hc
      simp only [Option.map_eq_some_iff, Prod.mk.injEq] at hc
      obtain ⟨_, _, rfl, _, _⟩ := hc
      simp only
      rw [List.find?_append, h]; rfl
  | confirm sid' cid now =>
    have hne : sid' ≠ sid := by
      intro he; subst he; exact hop cid now rfl
    exact C15_session_survives_other_confirm c s sid sid' cid now sess hne h
  | register k r w =>
    simp only [stepOp]
    cases hr : register c s k r w with
    | none => exact h
    | some s' =>
      unfold register at hr
      simp only [Option.map_eq_some_iff] at hr
      obtain ⟨e, _, rfl⟩ := hr
      exact h
  | apply =>
    simp only [stepOp]
    cases ha : applyEntry c s with
    | none => exact h
    | some s' =>
      unfold applyEntry at ha
      cases hp : s.pending with
      | nil => simp only [hp, Option.some.injEq] at ha; subst ha; exact h
      | cons e rest =>
        simp only [hp, Option.map_eq_some_iff] at ha
        obtain ⟨d, _, rfl⟩ := ha
        exact h
  | save =>
    simp only [stepOp, save]
    split <;> exact h

/-- Session ids are fresh in every reachable state (any history from a start state). -/
theorem C15_sids_fresh_history (c : Cfg) (s : State) (ops : List Op) (h : SidsBelow s) :
    SidsBelow (runOps c s ops) := by
  induction ops generalizing s with
  | nil => exact h
  | cons op t ih => exact ih (stepOp c s op) (sidsBelow_step c s op h)

theorem session_kept_history (c : Cfg) (ops : List Op) : ∀ (s : State) (sid : Nat) (sess : Session),
    SidsBelow s → sid < s.nextSid → (∀ op ∈ ops, ∀ cid now, op ≠ .confirm sid cid now) →
    s.sessions.find? (·.sid == sid) = some sess →
    (runOps c s ops).sessions.find? (·.sid == sid) = some sess := by
  induction ops with
  | nil => intro s sid sess _ _ _ h; exact h
  | cons op t ih =>
    intro s sid sess hb hlt hops h
    exact ih (stepOp c s op) sid sess (sidsBelow_step c s op hb)
      (Nat.lt_of_lt_of_le hlt (nextSid_mono_step c s op))
      (fun o ho => hops o (List.mem_cons_of_mem _ ho))
      (session_kept_step c s op sid sess hb hlt (hops op (by simp)) h)

/-- **An acknowledged conversion can always be confirmed, under every interleaving**: after a conversion
answered with session id `sid`, let any sequence of steps of other clients and of the background tasks
happen (conversions, confirmations of other ids, registrations, updater steps, saves — anything but a
confirmation of `sid` itself). The confirmation of candidate `i` then finds the session and changes the
learned counts exactly as if it had been processed right after the conversion, on the counts of that
moment: the confirmed word's count in the conversion's context is updated once and stale entries expire. -/
theorem C15_confirm_honoured (c : Cfg) (s s1 : State) (ctx : Ctx) (input : Str) (sid : Nat) (cs : List Cand)
    (ops : List Op) (i : Nat) (cand : Cand) (w : Str) (now : Int)
    (hb : SidsBelow s) (hconv : convert c s ctx input = some (s1, sid, cs))
    (hops : ∀ op ∈ ops, ∀ cid now, op ≠ .confirm sid cid now)
    (hi : cs[i]? = some cand) (hw : independentWord cand.chain = some w) :
    let s2 := runOps c s1 ops
    (confirm c s2 sid (some i) now).freq = expire (updateWord s2.freq ctx w now) now c.expiryMs ∧
    (confirm c s2 sid (some i) now).sessions.find? (·.sid == sid) = none := by
  obtain ⟨hb1, hsid⟩ := C15_sids_fresh_convert c s s1 ctx input sid cs hb hconv
  have hfresh : ∀ x ∈ s.sessions, x.sid ≠ sid := by
    intro x hx; have := hb x hx; omega
  obtain ⟨sess, hfind, hctx, hcs⟩ := C15_session_recorded c s s1 ctx input sid cs hconv hfresh
  have hlt : sid < s1.nextSid := by
    unfold convert at hconv
    simp only [Option.map_eq_some_iff, Prod.mk.injEq] at hconv
    obtain ⟨_, _, rfl, _, _⟩ := hconv
    simp [hsid]
  have hkept := session_kept_history c ops s1 sid sess hb1 hlt hops hfind
  intro s2
  have hk : s2.sessions.find? (·.sid == sid) = some sess := hkept
  constructor
  · unfold confirm popSession
    simp only [hk, Option.bind_some, hcs, hi, hw, hctx]
    cases withAffix cand.chain <;> rfl
  · have hnone : (s2.sessions.filter (·.sid != sid)).find? (·.sid == sid) = none := by
      rw [List.find?_eq_none]
      intro x hx
      have := (List.mem_filter.1 hx).2
      simpa using this
    unfold confirm popSession
    simp only [hk, Option.bind_some, hcs, hi, hw]
    cases withAffix cand.chain <;> exact hnone

/-- Every step other than the updater's only appends to the entry channel … -/
theorem pending_append_step (c : Cfg) (s : State) (op : Op) (hop : op ≠ .apply) :
    ∃ suffix, (stepOp c s op).pending = s.pending ++ suffix := by
  cases op with
  | convert ctx input =>
    simp only [stepOp]
    cases hc : convert c s ctx input with
    | none => exact ⟨[], by simp⟩
    | some r =>
      obtain ⟨s', sid', cs⟩ := r
      unfold convert at hc
      simp only [Option.map_eq_some_iff, Prod.mk.injEq] at hc
      obtain ⟨_, _, rfl, _, _⟩ := hc
      exact ⟨[], by simp⟩
  | confirm sid cid now =>
    simp only [stepOp]
    unfold confirm popSession
    cases hs : s.sessions.find? (·.sid == sid) with
    | none => exact ⟨[], by simp⟩
    | some sess' =>
      simp only
      cases hcb : (cid.bind fun i => sess'.cands[i]?) with
      | none => exact ⟨[], by simp⟩
      | some cand =>
        simp only
        cases hwa : withAffix cand.chain with
        | none => cases independentWord cand.chain <;> exact ⟨[], by simp⟩
        | some p => cases independentWord cand.chain <;> exact ⟨[⟨p.1, p.2, .noun .common⟩], rfl⟩
  | register k r w =>
    simp only [stepOp]
    cases hr : register c s k r w with
    | none => exact ⟨[], by simp⟩
    | some s' =>
      unfold register at hr
      simp only [Option.map_eq_some_iff] at hr
      obtain ⟨e, _, rfl⟩ := hr
      exact ⟨[e], rfl⟩
  | apply => exact absurd rfl hop
  | save =>
    simp only [stepOp, save]
    split <;> exact ⟨[], by simp⟩

/-- … and the updater, run until the channel is empty, applies what was in it exactly once and in order
(`drain` = as many updater steps as there are entries; `none` = an updater panic). -/
def drain (c : Cfg) : Nat → State → Option State
  | 0, s => some s
  | n + 1, s => (applyEntry c s).bind (drain c n)

theorem C15_registrations_applied_once (c : Cfg) : ∀ (n : Nat) (s s' : State), s.pending.length = n →
    drain c n s = some s' → s'.pending = [] ∧ s'.userDict = s.userDict ++ s.pending
  | 0, s, s', hn, h => by
    simp only [drain, Option.some.injEq] at h
    subst h
    have : s.pending = [] := List.eq_nil_of_length_eq_zero hn
    simp [this]
  | n + 1, s, s', hn, h => by
    simp only [drain] at h
    cases ha : applyEntry c s with
    | none => simp [ha] at h
    | some s1 =>
      simp only [ha, Option.bind_some] at h
      cases hp : s.pending with
      | nil => simp [hp] at hn
      | cons e rest =>
        obtain ⟨h1, h2⟩ := C15_register_once c s e rest s1 hp ha
        have := C15_registrations_applied_once c n s1 s' (by rw [h1]; simp [hp] at hn; omega) h
        rw [h1, h2] at this
        exact ⟨this.1, by rw [this.2]; simp⟩

/-! Non-vacuity of `C15_confirm_honoured`: a concrete start state (two homophones for か), the real
configuration, a conversion that answers with session 0, and a history of other clients' steps. -/

def exState : State :=
  { base := C03.exDict, tankan := [], dict := C03.exDict, freq := [], userDict := [], sessions := [], pending := [],
    nextSid := 0, hasDir := true, saved := none }

def exOps : List Op :=
  [.convert .normal [12363, 12363], .confirm 1 (some 1) 5, .register .commonNoun [12363] [34442], .apply, .save]

example : SidsBelow exState := by intro x hx; cases hx

example : (convert C08.cfg exState .normal [12363]).map
      (fun r => (r.2.1, (r.2.2[0]?).bind fun cand => independentWord cand.chain)) = some (0, some [34442]) ∧
    (∀ op ∈ exOps, ∀ cid now, op ≠ Op.confirm 0 cid now) := by
  refine ⟨by decide +kernel, ?_⟩
  intro op hop cid now
  simp only [exOps, List.mem_cons, List.not_mem_nil, or_false] at hop
  rcases hop with rfl | rfl | rfl | rfl | rfl <;> simp


/-! ## order of events inside the handlers and the updater, as extracted from the code (Model/Conc, `Gen.Server`) -/

open Chokan.Conc Chokan.Gen.Server in
/-- **The session is stored before the answer leaves.** On every control-flow path of every converting handler
the session is added to the store — under the store's lock — before the response is built; a handler that has
answered has therefore executed `add_session` itself (nothing is handed to another thread). -/
theorem C15_conc_session_before_answer :
    ((convertingPaths handlerPaths).all fun p =>
      occursBefore (.act .addSession) .respond p && p.contains .respond && actUnder .addSession .store p &&
      occursBefore (.act .compute) (.act .addSession) p) = true ∧
    2 ≤ (convertingPaths handlerPaths).length := by decide

open Chokan.Conc Chokan.Gen.Server in
/-- **A confirmation is one critical section on the store and on the counts.** On every path of `UpdateFrequency`
the session is popped under the store lock, the count is updated under the lock of the learned data *while the
store lock is still held* (two confirmations can not interleave their read-modify-write), a learned compound is
queued before the answer, and the answer comes last. -/
theorem C15_conc_confirm_sections :
    ((pathsOf "UpdateFrequency" handlerPaths).all fun p =>
      occursBefore (.act .popSession) .respond p && actUnder .popSession .store p &&
      actUnder .updFreq .userPref p && actUnder .updFreq .store p &&
      actUnder .updCompound .userPref p &&
      (!(p.contains (.act .updCompound)) || occursBefore (.act .updCompound) (.send .entry) p) &&
      (!(p.contains (.send .entry)) || occursBefore (.send .entry) .respond p)) = true ∧
    (pathsOf "UpdateFrequency" handlerPaths).any (·.contains (.act .updFreq)) = true := by decide

open Chokan.Conc Chokan.Gen.Server in
/-- **An acknowledged registration is in the queue, and the queue is drained one entry at a time.** `RegisterWord`
sends the entry on the (unbounded) channel before it answers; the updater takes one entry per iteration, records
it in the user dictionary under that lock and then merges it under the dictionary lock — once each. -/
theorem C15_conc_registration_queued :
    ((pathsOf "RegisterWord" handlerPaths).all fun p => occursBefore (.send .entry) .respond p) = true ∧
    (pathsOf "RegisterWord" handlerPaths) ≠ [] ∧ chanUnbounded .entry = true ∧
    (taskMain.filter (·.contains (.recv .entry))).length = 1 ∧
    ((taskMain.filter (·.contains (.recv .entry))).all fun p =>
      (p.filter (· == .recv .entry)).length = 1 && (p.filter (· == .act .addEntry)).length = 1 &&
      occursBefore (.recv .entry) (.act .addEntry) p && occursBefore (.act .addEntry) (.act .mapInsert) p &&
      actUnder .addEntry .userPref p) = true := by decide


open Chokan.Conc Chokan.Gen.Server in
/-- **Under every interleaving, a confirmation that comes after the answer finds the session.**  Any number of
requests of any shape run concurrently with the background loops (`reqs`: event lists, each confirmation aimed at
the conversion thread whose answer it confirms); thread `c` runs a path of a converting handler *as extracted from
the code*.  In the state reached by any schedule, if `c` has sent its answer, `u` is a confirmation of that answer
about to execute `pop_session`, and no confirmation of the same answer has popped before, then the pop finds the
session — the very id `c` stored — and takes it out of the store.  (With the session handed to another thread, as
before fix 519c3f2, `C15_conc_session_before_answer` fails and with it this theorem.) -/
theorem C15_conc_confirmation_finds_session (reqs : List (List Ev × Option Nat)) (tasks : List (List (List Ev)))
    (capOf : Chan → Nat) (sched : List (Nat × Nat)) (c u k : Nat) (lu : Local)
    (hc : ∃ r, reqs[c]? = some r ∧ r.1 ∈ convertingPaths handlerPaths)
    (hans : answered (drun (dinit chanUnbounded capOf reqs tasks) sched).st c = true)
    (hu : (drun (dinit chanUnbounded capOf reqs tasks) sched).locals[u]? = some lu) (htu : lu.target = some c)
    (hhead : headEv (drun (dinit chanUnbounded capOf reqs tasks) sched).st u = some (.act .popSession))
    (hfirst : ∀ (u' : Nat) (lu' : Local), (drun (dinit chanUnbounded capOf reqs tasks) sched).locals[u']? = some lu' →
      lu'.target = some c → lu'.found = none) :
    ∃ lu' sid, (dstep (drun (dinit chanUnbounded capOf reqs tasks) sched) (u, k)).locals[u]? = some lu' ∧
      lu'.found = some true ∧
      (drun (dinit chanUnbounded capOf reqs tasks) sched).locals[c]?.bind (·.sid) = some sid ∧
      sid ∈ (drun (dinit chanUnbounded capOf reqs tasks) sched).sess ∧
      sid ∉ (dstep (drun (dinit chanUnbounded capOf reqs tasks) sched) (u, k)).sess := by
  have hpaths : ∀ p ∈ convertingPaths handlerPaths,
      occursBefore (.act .addSession) .respond p = true ∧ .respond ∈ p := by
    have h := C15_conc_session_before_answer.1
    rw [List.all_eq_true] at h
    intro p hp
    have := h p hp
    simp only [Bool.and_eq_true, List.contains_eq_mem, decide_eq_true_eq] at this
    exact ⟨this.1.1.1, this.1.1.2⟩
  have hinv := SInv_drun sched (SInv_dinit chanUnbounded capOf reqs tasks _ hpaths)
  exact pop_finds hinv c u k lu hc hans hu htu hhead hfirst

open Chokan.Conc Chokan.Gen.Server in
/-- non-vacuity: a conversion runs to its answer, then its confirmation takes the store lock and is about to pop —
the hypotheses of the theorem hold and the pop finds session 0 -/
example :
    let reqs : List (List Chokan.Gen.Server.Ev × Option Nat) :=
      ((Chokan.Conc.convertingPaths handlerPaths).take 1).map (·, none) ++
      ((Chokan.Conc.pathsOf "UpdateFrequency" handlerPaths).drop 2).map (·, some 0)
    let d := Chokan.Conc.drun (Chokan.Conc.dinit chanUnbounded (fun _ => 0) reqs taskPaths)
      [(0, 0), (0, 0), (0, 0), (0, 0), (0, 0), (0, 0), (0, 0), (0, 0), (0, 0), (1, 0)]
    reqs.length = 2 ∧ Chokan.Conc.answered d.st 0 = true ∧
    Chokan.Conc.headEv d.st 1 = some (.act .popSession) ∧ d.sess = [0] ∧
    (Chokan.Conc.dstep d (1, 0)).sess = [] ∧
    ((Chokan.Conc.dstep d (1, 0)).locals.map (·.found)) = [none, some true, none, none, none] := by decide


open Chokan.Conc Chokan.Fine Chokan.Gen.Server in
/-- **The same with the data** (Model/Fine: the interleaving model in which every event has its effect on the server
state of Model/Server).  Start from any server state with well-formed session ids, any requests, any schedule.  If the
conversion thread `c` (a path of a converting handler, as extracted) has answered, it has stored a session — its fresh id,
its context, the candidates it computed under the locks — and a confirmation thread that names this id and is about to
pop (no confirmation of the id having popped before) gets, as its `candidate`, exactly the candidate its request's string
names among those candidates, with the conversion's context; the session leaves the store.  When the thread then reaches
`update_frequency`, the count of that candidate's independent word in that context rises by one (`fine_updFreq`). -/
theorem C15_fine_confirmation_gets_answered_candidate (cfg : Chokan.Server.Cfg) (reqs : List (List Ev × Req))
    (tasks : List (List (List Ev))) (capOf : Chan → Nat) (s0 : Chokan.Server.State)
    (hs0 : ∀ x ∈ s0.sessions, x.sid < s0.nextSid) (sched : List (Nat × Nat)) (c u k : Nat)
    (hc : ∃ r, reqs[c]? = some r ∧ r.1 ∈ convertingPaths handlerPaths ∧ ∃ ctx input, r.2 = Req.conv ctx input)
    (hans : answered (frun cfg (finit chanUnbounded capOf reqs tasks s0) sched).st c = true) :
    ∃ (lc : Fine.Local) (sess : Chokan.Server.Session),
      (frun cfg (finit chanUnbounded capOf reqs tasks s0) sched).locals[c]? = some lc ∧ lc.stored = some sess ∧
      ∀ (lu : Fine.Local) (id : String) (now : Int),
        (frun cfg (finit chanUnbounded capOf reqs tasks s0) sched).locals[u]? = some lu → lu.req = Req.confirm sess.sid id now →
        headEv (frun cfg (finit chanUnbounded capOf reqs tasks s0) sched).st u = some (.act .popSession) →
        (∀ (u' : Nat) (lu' : Fine.Local), (frun cfg (finit chanUnbounded capOf reqs tasks s0) sched).locals[u']? = some lu' →
          isConfirmOf lu' sess.sid → lu'.popped = false) →
        ∃ lu', (fstep cfg (frun cfg (finit chanUnbounded capOf reqs tasks s0) sched) (u, k)).locals[u]? = some lu' ∧
          lu'.cand = (foundCand sess id).map (fun cd => (sess.ctx, cd)) ∧ lu'.popped = true ∧
          (fstep cfg (frun cfg (finit chanUnbounded capOf reqs tasks s0) sched) (u, k)).data.sessions.find? (·.sid == sess.sid) = none := by
  have hpaths : ∀ p ∈ convertingPaths handlerPaths,
      occursBefore (.act .addSession) .respond p = true ∧ .respond ∈ p := by
    have h := C15_conc_session_before_answer.1
    rw [List.all_eq_true] at h
    intro p hp
    have := h p hp
    simp only [Bool.and_eq_true, List.contains_eq_mem, decide_eq_true_eq] at this
    exact ⟨this.1.1.1, this.1.1.2⟩
  have hinv := FInv_frun cfg sched (FInv_finit chanUnbounded capOf reqs tasks s0 _ hpaths hs0)
  exact fine_pop_finds cfg hinv c u k hc hans


open Chokan.Conc Chokan.Fine Chokan.Gen.Server in
/-- non-vacuity, with data (the concrete configuration and start state of C08's examples): a conversion of か runs to its
answer and stores session 0 with its candidates; its confirmation with the request string "0" takes the store lock and pops:
the hypotheses of the theorem hold, the thread gets a candidate, the store is empty again — and running on to
`update_frequency` learns exactly one count -/
example :
    let reqs : List (List Chokan.Gen.Server.Ev × Req) :=
      ((convertingPaths handlerPaths).take 1).map (·, Req.conv .normal [12363]) ++
      ((handlerMain.filter (·.1 == "UpdateFrequency")).map (·.2)).map (·, Req.confirm 0 "0" 7)
    let d := frun C08.cfg (finit chanUnbounded (fun _ => 0) reqs taskPaths C08.exState)
      [(0, 0), (0, 0), (0, 0), (0, 0), (0, 0), (0, 0), (0, 0), (0, 0), (0, 0), (1, 0)]
    reqs.length = 2 ∧ answered d.st 0 = true ∧ headEv d.st 1 = some (.act .popSession) ∧
    d.data.sessions.map (·.sid) = [0] ∧ (d.locals.map fun l => l.stored.map (·.cands.length)) = [some 1, none, none, none, none] ∧
    (fstep C08.cfg d (1, 0)).data.sessions = [] ∧
    ((fstep C08.cfg d (1, 0)).locals.map fun l => l.cand.isSome) = [false, true, false, false, false] ∧
    (frun C08.cfg d [(1, 0), (1, 0), (1, 0)]).data.freq.map (fun e => (e.word, e.count)) = [([34442], 1)] := by
  decide +kernel


open Chokan.Conc Chokan.Fine Chokan.Gen.Server in
/-- **No acknowledged registration is lost or applied twice by the queue** (interleaving model with data): for every
start state, every set of threads and every schedule, the entries queued at the start followed by every entry sent — by
registrations (`RegisterWord` sends before it answers, `C15_conc_registration_queued`) and by compound confirmations — in
the order they were sent, are exactly the entries the updater has taken, in the order it took them, followed by the
entries still queued.  (Each taken entry is then applied by one iteration of the updater, which alone is `applyEntry`:
`C14_fine_others_are_atomic`.) -/
theorem C15_fine_queue_conserved (cfg : Chokan.Server.Cfg) (d : FSt) (sched : List (Nat × Nat)) :
    d.data.pending ++ sentLog cfg d sched = takenLog cfg d sched ++ (frun cfg d sched).data.pending :=
  queue_conserved cfg sched d

end Chokan.Props.C15
