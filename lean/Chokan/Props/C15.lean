/-
C15 — an acknowledged conversion can always be confirmed; no learning is silently lost.

Model: Chokan.Model.Server.  A conversion step records its session in the same step that produces the
answer (`convert`), so in every schedule a confirmation issued after the answer finds the session.
-/
import Chokan.Model.Server
import Chokan.Lemmas.Kkc

namespace Chokan.Props.C15
open Chokan.Server Chokan.Kkc Chokan.Dic

/-- The session a conversion answers with is stored when the answer exists. -/
theorem C15_session_recorded (c : Cfg) (s s' : State) (ctx : Ctx) (input : Str) (sid : Nat) (cs : List Cand)
    (h : convert c s ctx input = some (s', sid, cs)) (hfresh : ∀ x ∈ s.sessions, x.sid ≠ sid) :
    ∃ sess, s'.sessions.find? (·.sid == sid) = some sess ∧ sess.ctx = ctx ∧ sess.cands = cs := by
  unfold convert at h
  simp only [Option.map_eq_some_iff] at h
  obtain ⟨cs', _, h⟩ := h
  simp only [Prod.mk.injEq] at h
  obtain ⟨rfl, rfl, rfl⟩ := h
  refine ⟨⟨s.nextSid, ctx, cs'⟩, ?_, rfl, rfl⟩
  rw [List.find?_append]
  have : s.sessions.find? (·.sid == s.nextSid) = none := by
    rw [List.find?_eq_none]
    intro x hx
    simpa using hfresh x hx
  simp [this]

/-- Session ids are fresh: every stored id is below the next one to be issued. -/
def SidsBelow (s : State) : Prop := ∀ x ∈ s.sessions, x.sid < s.nextSid

theorem C15_sids_fresh_convert (c : Cfg) (s s' : State) (ctx : Ctx) (input : Str) (sid : Nat) (cs : List Cand)
    (hinv : SidsBelow s) (h : convert c s ctx input = some (s', sid, cs)) : SidsBelow s' ∧ sid = s.nextSid := by
  unfold convert at h
  simp only [Option.map_eq_some_iff] at h
  obtain ⟨cs', _, h⟩ := h
  simp only [Prod.mk.injEq] at h
  obtain ⟨rfl, rfl, rfl⟩ := h
  refine ⟨?_, rfl⟩
  intro x hx
  simp only [List.mem_append, List.mem_singleton] at hx
  rcases hx with hx | rfl
  · have := hinv x hx; simp; omega
  · simp

theorem find_filter : ∀ (l : List Session) (sid sid' : Nat), sid' ≠ sid → ∀ sess,
    l.find? (·.sid == sid) = some sess → (l.filter (·.sid != sid')).find? (·.sid == sid) = some sess
  | [], _, _, _, _, h => by simp at h
  | x :: xs, sid, sid', hne, sess, h => by
    simp only [List.find?_cons] at h
    by_cases hx : (x.sid == sid) = true
    · simp only [hx] at h
      have hxs : x.sid = sid := by simpa using hx
      have : (x.sid != sid') = true := by simp [hxs, Ne.symm hne]
      simp [List.filter_cons, this, hx, h]
    · have hx' : (x.sid == sid) = false := by simpa using hx
      simp only [hx'] at h
      have ih := find_filter xs sid sid' hne sess h
      by_cases hy : (x.sid != sid') = true
      · simp [List.filter_cons, hy, hx', ih]
      · simp [List.filter_cons, hy, ih]

/-- Steps of other clients and of the background tasks between the answer and the confirmation keep
the session: only a confirmation with the same id removes it. -/
theorem C15_session_survives_other_confirm (c : Cfg) (s : State) (sid sid' : Nat) (cid : Option Nat) (now : Int)
    (sess : Session) (hne : sid' ≠ sid) (h : s.sessions.find? (·.sid == sid) = some sess) :
    (confirm c s sid' cid now).sessions.find? (·.sid == sid) = some sess := by
  have hf := find_filter s.sessions sid sid' hne sess h
  unfold confirm popSession
  cases hs : s.sessions.find? (·.sid == sid') with
  | none => simpa [hs] using hf
  | some sess' =>
    simp only [hs]
    cases hc : (cid.bind fun i => sess'.cands[i]?) with
    | none => simpa [hc] using hf
    | some cand =>
      simp only [hc]
      cases independentWord cand.chain <;> cases withAffix cand.chain <;> simpa using hf

/-- Every acknowledged registration is in the channel exactly once and is applied exactly once, in
order, by the updater (`applyEntry` pops the head). -/
theorem C15_register_once (c : Cfg) (s : State) (e : Entry) (rest : List Entry) (s' : State)
    (hp : s.pending = e :: rest) (h : applyEntry c s = some s') :
    s'.pending = rest ∧ s'.userDict = s.userDict ++ [e] := by
  simp only [applyEntry, hp, Option.map_eq_some_iff] at h
  obtain ⟨d, _, rfl⟩ := h
  exact ⟨rfl, rfl⟩

end Chokan.Props.C15
