/-
C16 — conversion context changes only what it is documented to change.
-/
import Chokan.Lemmas.Kkc
import Chokan.Gen.Server

namespace Chokan.Props.C16
open Chokan.Kkc Chokan.Dic

def tables : Tables :=
  { wordEdges := Chokan.Gen.Kkc.wordEdges, virtEdges := Chokan.Gen.Kkc.virtEdges, headEdges := Chokan.Gen.Kkc.headEdges,
    mergeHead := Chokan.Gen.Kkc.mergeHead, properBonus := Chokan.Gen.Kkc.properBonus }

/-- Proper-noun mode builds exactly the lattice of normal mode: the only context-dependent step of
the construction (`is_mergeable_ancillary` at the head) does not distinguish them. -/
theorem C16_proper_mergeable (g : Graph) (node : Node) :
    isMergeable tables g .proper node = isMergeable tables g .normal node := by
  unfold isMergeable
  split
  · cases node with
    | word e i w f =>
      simp only [headMergeable]
      cases hfind : tables.mergeHead.find? (fun p => p.1.matches w.speech) with
      | none => rfl
      | some p =>
        obtain ⟨pat, when⟩ := p
        have hmem := List.mem_of_find?_eq_some hfind
        have hall : tables.mergeHead.all (fun p => match p.2 with
            | .always => true | .only c => decide (c ≠ .proper ∧ c ≠ .normal)) = true := by decide
        have := List.all_eq_true.1 hall _ hmem
        cases when with
        | always => rfl
        | only c => simp at this; simp [this.1, this.2]
    | _ => rfl
  · rfl

theorem C16_proper_lattice (input : Str) (d : Dict) :
    fromInput tables input d .proper = fromInput tables input d .normal := by
  unfold fromInput
  simp only [mergeAncillaries, C16_proper_mergeable]

/-- Edge scores do not depend on whether the context is proper or normal. -/
theorem C16_proper_edge (prev cur : Node) :
    edgeScore tables .proper prev cur = edgeScore tables .normal prev cur := by
  have hhead : ∀ sp, headEdge .proper sp tables.headEdges = headEdge .normal sp tables.headEdges := by
    intro sp
    have : tables.headEdges = Chokan.Gen.Kkc.headEdges := rfl
    rw [this]
    have hall : Chokan.Gen.Kkc.headEdges.all (fun p => decide (p.2.1 ≠ .proper ∧ p.2.1 ≠ .normal)) = true := by decide
    generalize Chokan.Gen.Kkc.headEdges = l at hall
    induction l with
    | nil => rfl
    | cons x xs ih =>
      obtain ⟨p, c, s⟩ := x
      simp only [List.all_cons, Bool.and_eq_true, decide_eq_true_eq] at hall
      simp only [headEdge, hall.1.1, hall.1.2, decide_false, Bool.and_false]
      exact ih hall.2
  cases prev <;> cases cur <;> simp [edgeScore, hhead]

/-- Node scores differ by exactly the fixed bonus for proper nouns (with the same learned count). -/
theorem C16_proper_node (f f' : Freq) (n : Node)
    (hf : ∀ w, freqOf f' .proper w = freqOf f .normal w) :
    nodeScore tables .proper f' n =
      (nodeScore tables .normal f n).map
        (· + (match n with | .word _ _ w _ => if w.speech.isNounProper then tables.properBonus else 0 | _ => 0)) := by
  cases n <;> simp [nodeScore, hf]

theorem C16_bonus_positive : 0 < tables.properBonus := by decide

/-- In no context can a particle or auxiliary verb of the ancillary dictionary be merged at the
head of the input. -/
theorem C16_no_ancillary_particle_head (g : Graph) (ctx : Ctx) (e i : Nat) (w : Word) (f : Score)
    (hs : (Node.word e i w f).startAt = 0)
    (hp : (∃ t, w.speech = .particle t) ∨ w.speech = .auxiliaryVerb) :
    isMergeable tables g ctx (.word e i w f) = false := by
  unfold isMergeable
  simp only [hs, beq_self_eq_true, if_true, headMergeable]
  have hall : tables.mergeHead.all (fun p => match p.1 with
      | .affix _ => true | .counter => true | _ => false) = true := by decide
  cases hfind : tables.mergeHead.find? (fun p => p.1.matches w.speech) with
  | none => rfl
  | some p =>
    exfalso
    have hmem := List.mem_of_find?_eq_some hfind
    have hm := List.find?_some hfind
    have := List.all_eq_true.1 hall _ hmem
    rcases hp with ⟨t, ht⟩ | ht <;> (rw [ht] at hm; cases hpat : p.1 <;> simp_all [SPat.matches])

/-! ### the "only suffix / counter headed additions" clause is false (recorded finding D11) -/

def headIs (p : Speech → Bool) (c : Cand) : Bool :=
  match c.chain with
  | .bos :: .word _ _ w _ :: _ => p w.speech
  | _ => false

/-- The clause, as a check of one query: every candidate of `ctx` is a candidate of the normal context
or begins with a word of the class that context adds. -/
def onlyAdds (ctx : Ctx) (p : Speech → Bool) (input : Str) (d : Dict) (n fuel : Nat) : Bool :=
  match getCandidates tables input d .normal [] n fuel, getCandidates tables input d ctx [] n fuel with
  | some R, some R' => R'.all fun c => memStr c.text (R.map Cand.text) || headIs p c
  | _, _ => true

def d11Dict : Dict :=
  Dict.mk [([12367, 12427, 12414], [⟨[36554], [12367, 12427, 12414], .noun .common⟩])] [[12367, 12427, 12414]]
    [([12391], [⟨[12487], [12391], .particle .case⟩]), ([12399], [⟨[12495], [12399], .particle .adverbial⟩]),
     ([12367, 12427, 12414, 12391], [⟨[36554, 20986], [12367, 12427, 12414, 12391], Speech.affix AffixVariant.suffix⟩])]
    [[12391], [12399], [12367, 12427, 12414, 12391]]

/-- **Refutation by a concrete witness** (kernel-evaluated): input くるまでは with 車/くるま, デ/で (case
particle), ハ/は (adverbial particle) and the suffix 車出/くるまで.  In foreign-word context the suffix is
merged at the head; it ends right before は, which makes the particle ハ mergeable there, and the
candidate 車デハ — which begins with a noun, not a suffix — appears only in that context.  The same
witness is replayed on the implementation by the C16 check (known finding D11-foreign). -/
theorem C16_only_suffix_headed_additions_false :
    onlyAdds .foreignWord Speech.isSuffix [12367, 12427, 12414, 12391, 12399] d11Dict 10 200 = false := by
  decide +kernel


/-- **Which context a request runs under** (regenerated from method.rs): the three kinds of GetCandidates' `context` map to
their own contexts, a request without `context` is a normal conversion, and GetProperCandidates — and only it — converts
(and files its session) under the proper-noun context. -/
theorem C16_rpc_contexts :
    Chokan.Gen.Server.rpcContexts = [("Normal", .normal), ("ForeignWord", .foreignWord), ("Numeral", .numeral)] ∧
    Chokan.Gen.Server.rpcDefaultKind = "Normal" ∧ Chokan.Gen.Server.rpcProperContext = .proper := by decide

end Chokan.Props.C16
