/-
C17 — Original-spelling conversion is total, ASCII-only and consistent with the client.

Models: Chokan.Model.KanaAlpha (server, kana_alpha::convert) and Chokan.Model.Romaji (client).
Data: Chokan.Gen.KanaAlpha (server table), Chokan.Gen.Romaji (client tables), and
Chokan.Gen.KnownFindings (units excluded from `C17_client_inverse` because they are recorded,
still-open findings; a new failing unit is not excluded and breaks the theorem).
-/
import Chokan.Lemmas.KanaAlpha
import Chokan.Lemmas.KanaAlphaOrder
import Chokan.Lemmas.KanaAlphaKata
import Chokan.Lemmas.Romaji
import Chokan.Gen.KnownFindings

namespace Chokan.Props.C17
open Chokan.KanaAlpha

def table := Chokan.Gen.KanaAlpha.table
def serverConv (s : Str) : Option Str := convert table s

def clientConv (s : Str) : Option Str :=
  Chokan.Romaji.conv Chokan.Gen.Romaji.romanTable Chokan.Gen.Romaji.consonants
    (Chokan.Gen.Romaji.dotimesBound (Chokan.Romaji.maxKey Chokan.Gen.Romaji.romanTable)) s

theorem hira_nonempty : hiraNonEmpty (sortTable table) = true := by decide +kernel
theorem alphas_ascii : alphasAscii (sortTable table) = true := by decide +kernel
theorem single_kana : singleKanaCovered (sortTable table) = true := by decide +kernel

/-- `okChar` is exactly the client's class. -/
theorem C17_okChar_class (c : Nat) : okChar c = true ↔ Chokan.Gen.Romaji.clientClass c = true := by
  simp only [okChar, asciiAlnum, plainHira, Chokan.Gen.Romaji.clientClass, Bool.or_eq_true,
    Bool.and_eq_true, Nat.ble_eq, decide_eq_true_eq] <;> omega

/-- Totality: for every input (any scalar values) the conversion loop terminates within |nfc s|+1
iterations and never gets stuck (every step consumes at least one character). -/
theorem C17_total (s : Str) : ∃ out, serverConv s = some out :=
  convFuel_total (sortTable table) hira_nonempty _ _ (Nat.lt_succ_self _)

/-- Every output character is a lower-case ASCII letter/digit taken from the table, or the
lower-cased copy of an input character that no table unit covered. -/
theorem C17_output_chars (s out : Str) (h : serverConv s = some out) :
    ∀ c ∈ out, asciiLower c = true ∨ ∃ x ∈ nfcKana s, c = lower x :=
  convFuel_chars (sortTable table) alphas_ascii _ _ out h

/-- The ASCII clause at full strength: for every input over the client's class `[a-zA-Z0-9あ-ん]`
the result consists of lower-case ASCII letters and digits only. -/
theorem C17_ascii (s out : Str) (hs : ∀ c ∈ s, Chokan.Gen.Romaji.clientClass c = true)
    (h : serverConv s = some out) : ∀ c ∈ out, asciiLower c = true := by
  have hs' : ∀ c ∈ s, okChar c = true := fun c hc => (C17_okChar_class c).2 (hs c hc)
  unfold serverConv convert at h
  rw [nfcKana_id s (fun c hc => okChar_not_mark c (hs' c hc))] at h
  exact convFuel_ascii (sortTable table) alphas_ascii single_kana _ s out hs' h

def memStr (s : Str) : List Str → Bool
  | [] => false
  | x :: t => beqStr s x || memStr s t

def optEq (a : Option Str) (b : Str) : Bool :=
  match a with
  | some x => beqStr x b
  | none => false

/-- The client reads the unit's spelling back as the unit, alone and after a sokuon. -/
def inverseRowOk (row : Row) : Bool :=
  let h := row.1
  let a := row.2.2
  beqStr h [0x3093] ||                                       -- ん is pinned to a single n by the repository's tests
  memStr h Chokan.Gen.KnownFindings.c17Alone ||
  (optEq (clientConv a) h &&
    (memStr h Chokan.Gen.KnownFindings.c17Sokuon ||
      optEq ((serverConv (0x3063 :: h)).bind clientConv) (0x3063 :: h)))     -- the server's own spelling of っ + unit

/-- Each kana unit of the server's table is given a spelling that the client's own romaji rules
turn back into exactly that unit, alone and after a sokuon — all rows except the recorded findings. -/
theorem C17_client_inverse : table.all inverseRowOk = true := by decide +kernel

/-- **The recorded findings are genuine**: without the exclusions the clause is false — the server
spells っな as "nna" and the client reads "nna" back as んあ (a doubled n is ん).  Kernel-evaluated witness;
the same unit is replayed on the implementation by the C17 check (D9).  (The vowel rows, っあ ↦ "aa",
were repaired by 6487e3c: a sokuon before a vowel is now spelled "xtu".) -/
theorem C17_client_inverse_false_for_sokuon_na :
    serverConv [0x3063, 0x306A] = some [110, 110, 97] ∧ clientConv [110, 110, 97] = some [0x3093, 0x3042] := by
  constructor <;> decide +kernel

/-- After the repair: っあ is spelled "xtua", which the client reads back as っあ. -/
theorem C17_sokuon_before_vowel :
    serverConv [0x3063, 0x3042] = some [120, 116, 117, 97] ∧ clientConv [120, 116, 117, 97] = some [0x3063, 0x3042] := by
  constructor <;> decide +kernel

/-- Katakana behaves as its hiragana: every row's katakana is the hiragana shifted by U+60. -/
theorem C17_katakana_rows : table.all (fun row => beqStr row.2.1 (row.1.map (· + 0x60))) = true := by
  decide +kernel

/-- Non-vacuity. -/
example : serverConv [0x3076, 0x3063, 0x3075, 0x3047, 114] = some [98, 117, 102, 102, 101, 114] := by
  decide +kernel   -- ぶっふぇr ↦ buffer
example : serverConv [0x3042, 0x3063] = some [97, 120, 116, 117] := by decide +kernel  -- あっ ↦ axtu

theorem kana_columns : kanaColumnsOk (sortTable table) = true := by decide +kernel

/-- **ASCII letters and digits stay in place and order**: for every input over the client's class, the
input's ASCII letters and digits, lower-cased, are a subsequence of the result (kana units only add
letters between them). -/
theorem C17_keeps_ascii (s out : Str) (hs : ∀ c ∈ s, Chokan.Gen.Romaji.clientClass c = true)
    (h : serverConv s = some out) : List.Sublist (asciiPart s) out := by
  have hs' : ∀ c ∈ s, okChar c = true := fun c hc => (C17_okChar_class c).2 (hs c hc)
  unfold serverConv convert at h
  rw [nfcKana_id s (fun c hc => okChar_not_mark c (hs' c hc))] at h
  exact convFuel_keeps_ascii (sortTable table) kana_columns _ s out h

/-- **The result is the concatenation of the results of its units**: the conversion of a non-empty
in-class input is the spelling of its first unit (the longest table unit at the head, a run of sokuon
doubling its first letter — `toRomaSequence`) followed by the conversion of the rest. -/
theorem C17_units (s : Str) (hs : ∀ c ∈ s, Chokan.Gen.Romaji.clientClass c = true) (hne : s ≠ []) :
    serverConv s = (serverConv (toRomaSequence (sortTable table) s).2).map
      ((toRomaSequence (sortTable table) s).1 ++ ·) := by
  have hs' : ∀ c ∈ s, okChar c = true := fun c hc => (C17_okChar_class c).2 (hs c hc)
  have hrest : ∀ c ∈ (toRomaSequence (sortTable table) s).2, okChar c = true :=
    fun c hc => hs' c (toRomaSequence_rest_sub _ s c hc)
  have hp := toRomaSequence_progress (sortTable table) hira_nonempty s hne
  unfold serverConv convert
  rw [nfcKana_id s (fun c hc => okChar_not_mark c (hs' c hc)),
    nfcKana_id _ (fun c hc => okChar_not_mark c (hrest c hc))]
  cases s with
  | nil => exact absurd rfl hne
  | cons a t =>
    simp only [List.length_cons]
    rw [convFuel]
    cases hr : toRomaSequence (sortTable table) (a :: t) with
    | mk v rest =>
      simp only
      rw [hr] at hp
      rw [convFuel_fuel (sortTable table) hira_nonempty (t.length + 1) (rest.length + 1) rest
        (by simp only [List.length_cons] at hp; omega) (Nat.lt_succ_self _)]

theorem kata_table : kataTableOk (sortTable table) = true := by decide +kernel

/-- **Katakana behaves as its hiragana**: replacing every hiragana of an in-class input by its katakana
gives exactly the same result (string level, every length). -/
theorem C17_katakana (s : Str) (hs : ∀ c ∈ s, Chokan.Gen.Romaji.clientClass c = true) :
    serverConv (s.map toKata) = serverConv s :=
  convert_toKata table kata_table single_kana s (fun c hc => (C17_okChar_class c).2 (hs c hc))

/-- **NFD-decomposed input behaves as the composed input**, in hiragana and in katakana (the server
normalises to NFC first; `nfdKana` is the canonical decomposition on the kana block). -/
theorem C17_nfd (s : Str) (hs : ∀ c ∈ s, Chokan.Gen.Romaji.clientClass c = true) :
    serverConv (nfdKana s) = serverConv s ∧ serverConv (nfdKana (s.map toKata)) = serverConv s := by
  have hs' : ∀ c ∈ s, okChar c = true := fun c hc => (C17_okChar_class c).2 (hs c hc)
  refine ⟨convert_nfd table s (fun c hc => okChar_isMark c (hs' c hc)), ?_⟩
  rw [← C17_katakana s hs]
  apply convert_nfd
  intro c hc
  obtain ⟨x, hx, rfl⟩ := List.mem_map.1 hc
  have := toKata_not_mark x (hs' x hx)
  simp only [isMark, Bool.or_eq_false_iff, nbeq_false]; exact this

/-- Non-vacuity: がっこう in katakana and decomposed (カ+゛ ッ コ ウ) converts like the hiragana. -/
example : nfdKana ([0x304C, 0x3063, 0x3053, 0x3046].map toKata) = [0x30AB, 0x3099, 0x30C3, 0x30B3, 0x30A6] ∧
    serverConv [0x30AB, 0x3099, 0x30C3, 0x30B3, 0x30A6] = some [103, 97, 107, 107, 111, 117] := by
  decide +kernel

end Chokan.Props.C17
