/-
C18 — SKK import is total and everything it emits is a valid, faithful dictionary line.

Model: Chokan.Model.Skk (skk-dic-parser and the noun / jinmei / tankan converters).  The notes
grammar and converter are checked on the implementation only (executable oracle of the C18 check);
they are not modelled — stated in MANIFEST as partial.
-/
import Chokan.Model.Skk
import Chokan.Props.C10

namespace Chokan.Props.C18
open Chokan.Skk Chokan.Dic Chokan.DicText

theorem spanClass_spec (p : Nat → Bool) : ∀ (s : Str),
    s = (spanClass p s).1 ++ (spanClass p s).2 ∧ (∀ c ∈ (spanClass p s).1, p c = true) ∧
    (∀ c rest, (spanClass p s).2 = c :: rest → p c = false)
  | [] => by simp [spanClass]
  | c :: t => by
    have ih := spanClass_spec p t
    unfold spanClass
    by_cases hc : p c = true
    · simp only [hc, if_true]
      refine ⟨by simp; exact ih.1, ?_, ih.2.2⟩
      intro x hx
      rcases List.mem_cons.1 hx with rfl | hx
      · exact hc
      · exact ih.2.1 x hx
    · have hc' : p c = false := by simpa using hc
      simp only [hc', Bool.false_eq_true, if_false]
      refine ⟨rfl, by simp, ?_⟩
      intro x rest h
      simp only [List.cons.injEq] at h
      rw [← h.1]; exact hc'

/-- Every SKK reading character is a reading character of the dictionary text format. -/
theorem skkKana_in_dic_class (c : Nat) (h : skkKana c = true) :
    isKana Chokan.Gen.DicGrammar.kanaClass c = true := by
  simp only [skkKana, Bool.or_eq_true, Bool.and_eq_true, Nat.ble_eq] at h
  rcases h with (h | h) | h
  · exact C10.C10_kana_class c (by omega) (by omega)
  · have := Nat.eq_of_beq_eq_true h; subst this; exact C10.C10_kana_class _ (by omega) (by omega)
  · have := Nat.eq_of_beq_eq_true h; subst this; decide +kernel

/-- Unfolding of a successful parse. -/
theorem parseSkk_some (s : Str) (e : SkkEntry) (h : parseSkk s = some e) :
    ∃ r4, e.reading = (spanClass skkKana s).1 ∧ e.reading ≠ [] ∧
      e.okuri = (if (spanClass isAlpha (spanClass skkKana s).2).1.isEmpty then none
                 else some (spanClass isAlpha (spanClass skkKana s).2).1) ∧
      e.words = (parseKanjis (r4.length + 1) r4).1 ∧ e.words ≠ [] := by
  unfold parseSkk at h
  simp only at h
  split at h
  · cases h
  · next hne =>
    split at h
    · next r4 hr3 =>
      split at h
      · cases h
      · next hk =>
        simp only [Option.some.injEq] at h
        subst h
        simp only [Bool.or_eq_true, not_or, Bool.not_eq_true, Bool.not_eq_true'] at hne hk
        refine ⟨r4, rfl, ?_, rfl, rfl, ?_⟩
        · intro hn
          have hn' : (spanClass skkKana s).1 = [] := hn
          simp [hn'] at hne
        · intro hn
          have hn' : (parseKanjis (r4.length + 1) r4).1 = [] := hn
          simp [hn'] at hk
    · cases h

/-- What the SKK-JISYO parser returns is read off the line: a non-empty kana reading and, if present,
a non-empty lower-case okuri letter string. -/
theorem C18_parse_shape (s : Str) (e : SkkEntry) (h : parseSkk s = some e) :
    e.reading ≠ [] ∧ (∀ c ∈ e.reading, skkKana c = true) ∧
    (∀ o, e.okuri = some o → o ≠ [] ∧ ∀ c ∈ o, isAlpha c = true) := by
  obtain ⟨r4, hr, hrne, ho, _, _⟩ := parseSkk_some s e h
  refine ⟨hrne, ?_, ?_⟩
  · rw [hr]; exact (spanClass_spec skkKana s).2.1
  · intro o hoo
    rw [ho] at hoo
    split at hoo
    · cases hoo
    · next hemp =>
      simp only [Option.some.injEq] at hoo
      subst hoo
      exact ⟨by intro hn; simp [hn] at hemp, (spanClass_spec isAlpha _).2.1⟩

theorem parseKanji_shape (s w r : Str) (h : parseKanji s = some (w, r)) :
    w ≠ [] ∧ ∀ c ∈ w, isKanjiCh c = true := by
  unfold parseKanji at h
  have hk := spanClass_spec isKanjiCh s
  cases hs : spanClass isKanjiCh s with
  | mk m rest =>
    rw [hs] at h hk
    cases m with
    | nil => simp at h
    | cons a t =>
      have hres : w = a :: t := by
        split at h
        · cases h
        · next hm => split at h <;> simp_all
        · next hm => simp_all
        · cases h
      subst hres
      exact ⟨by simp, hk.2.1⟩

theorem parseKanjis_shape : ∀ (fuel : Nat) (s : Str) (ws : List Str) (r : Str),
    parseKanjis fuel s = (ws, r) → ∀ w ∈ ws, w ≠ [] ∧ ∀ c ∈ w, isKanjiCh c = true
  | 0, s, ws, r, h => by simp [parseKanjis] at h; intro w hw; rw [h.1] at hw; cases hw
  | fuel + 1, s, ws, r, h => by
    unfold parseKanjis at h
    cases hk : parseKanji s with
    | none => simp [hk] at h; intro w hw; rw [h.1] at hw; cases hw
    | some p =>
      obtain ⟨w0, r0⟩ := p
      simp only [hk] at h
      cases hrec : parseKanjis fuel r0 with
      | mk l r' =>
        rw [hrec] at h
        simp only [Prod.mk.injEq] at h
        intro w hw
        rw [← h.1] at hw
        rcases List.mem_cons.1 hw with rfl | hw
        · exact parseKanji_shape s w r0 hk
        · exact parseKanjis_shape fuel r0 l r' hrec w hw

/-- Words returned by the parser contain no blank, slash or semicolon and are non-empty. -/
theorem C18_words_shape (s : Str) (e : SkkEntry) (h : parseSkk s = some e) :
    e.words ≠ [] ∧ ∀ w ∈ e.words, w ≠ [] ∧ ∀ c ∈ w, isKanjiCh c = true := by
  obtain ⟨r4, _, _, _, hw, hwne⟩ := parseSkk_some s e h
  refine ⟨hwne, ?_⟩
  rw [hw]
  exact parseKanjis_shape (r4.length + 1) r4 _ _ rfl

/-- Every line the noun / proper-noun / single-kanji converters emit is accepted by the dictionary
text format and reads back as the same reading, written form and part of speech — provided the
written form contains no TAB (the SKK candidate class excludes blank, slash and semicolon only). -/
theorem C18_emitted_valid (s : Str) (es : List Entry)
    (h : parseNouns s = some (some es) ∨ parsePropers s = some (some es) ∨ parseTankan s = some (some es)) :
    ∀ e ∈ es, (∀ c ∈ e.stem, c ≠ 9) → C10.parseL (C10.printE e) = some [e] := by
  intro e he hnotab
  apply C10.C10_entry
  have key : ∃ se, parseSkk s = some se ∧ e.stemReading = se.reading ∧ e.stem ∈ se.words ∧
      (e.speech = .noun .common ∨ e.speech = .noun .proper) := by
    rcases h with h | h | h
    · unfold parseNouns at h
      cases hp : parseSkk s with
      | none => simp [hp] at h
      | some se =>
        simp only [hp, Option.map_some, Option.some.injEq] at h
        split at h
        · cases h
        · simp only [Option.some.injEq] at h; subst h
          obtain ⟨w, hw, rfl⟩ := List.mem_map.1 he
          exact ⟨se, rfl, rfl, hw, Or.inl rfl⟩
    · unfold parsePropers at h
      cases hp : parseSkk s with
      | none => simp [hp] at h
      | some se =>
        simp only [hp, Option.map_some, Option.some.injEq] at h; subst h
        obtain ⟨w, hw, rfl⟩ := List.mem_map.1 he
        exact ⟨se, rfl, rfl, hw, Or.inr rfl⟩
    · unfold parseTankan at h
      cases hp : parseSkk s with
      | none => simp [hp] at h
      | some se =>
        simp only [hp, Option.map_some, Option.some.injEq] at h
        split at h
        · cases h
        · simp only [Option.some.injEq] at h; subst h
          obtain ⟨w, hw, rfl⟩ := List.mem_map.1 he
          exact ⟨se, rfl, rfl, (List.mem_filter.1 hw).1, Or.inl rfl⟩
  obtain ⟨se, hp, hr, hw, hsp⟩ := key
  obtain ⟨hrne, hrk, _⟩ := C18_parse_shape s se hp
  obtain ⟨_, hws⟩ := C18_words_shape s se hp
  obtain ⟨hwne, hwc⟩ := hws e.stem hw
  refine ⟨by rw [hr]; exact hrne, ?_, hwne, ?_, ?_⟩
  · intro c hc; rw [hr] at hc; exact skkKana_in_dic_class c (hrk c hc)
  · intro c hc
    have h1 := hwc c hc
    have h2 := hnotab c hc
    simp only [isKanjiCh, isNoSpace, Bool.not_eq_true', Bool.or_eq_false_iff] at h1 ⊢
    exact ⟨h1.1.1, by cases hb : Nat.beq c 9 with | false => rfl | true => exact absurd (Nat.eq_of_beq_eq_true hb) h2⟩
  · rcases hsp with hsp | hsp <;> (rw [hsp]; decide +kernel)

/-- Okuri-ari lines are ignored by the noun converter, single-kanji conversion keeps one-character
candidates only. -/
theorem C18_noun_skips_okuri (s : Str) (e : SkkEntry) (h : parseSkk s = some e) (ho : e.okuri.isSome = true) :
    parseNouns s = some none := by
  simp [parseNouns, h, ho]

end Chokan.Props.C18
