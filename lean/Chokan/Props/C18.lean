/-
C18 — SKK import is total and everything it emits is a valid, faithful dictionary line.

Models: Chokan.Model.Skk (skk-dic-parser and the noun / jinmei / tankan converters) and
Chokan.Model.SkkNotes (skk-notes-converter: the notes PEG grammar and `Note::to_entries`).  Both are
hand translations; `./check C18` runs them against the implementation on generated, mutated and
directed lines (ops skk / skknoun / skkproper / skktankan / skknote).
-/
import Chokan.Lemmas.SkkNotesConv

namespace Chokan.Props.C18
open Chokan.Skk Chokan.Dic Chokan.DicText Chokan.SkkNotes
open Chokan.Props.C10 (storableSpeeches Storable)

/-- Unfolding of a successful parse. -/
theorem parseSkk_some (s : Str) (e : SkkEntry) (h : parseSkk s = some e) :
    ∃ r4, e.reading = (spanClass skkKana s).1 ∧ e.reading ≠ [] ∧
      e.okuri = (if (spanClass isAlpha (spanClass skkKana s).2).1.isEmpty then none
                 else some (spanClass isAlpha (spanClass skkKana s).2).1) ∧
      e.words = (parseKanjis (r4.length + 1) r4).1 ∧ e.words ≠ [] := by
  unfold parseSkk at h
  simp only at h
  split at h
  · cases h
  · next hne =>
    split at h
    · next r4 hr3 =>
      split at h
      · cases h
      · next hk =>
        simp only [Option.some.injEq] at h
        subst h
        simp only [Bool.or_eq_true, not_or, Bool.not_eq_true, Bool.not_eq_true'] at hne hk
        refine ⟨r4, rfl, ?_, rfl, rfl, ?_⟩
        · intro hn
          have hn' : (spanClass skkKana s).1 = [] := hn
          simp [hn'] at hne
        · intro hn
          have hn' : (parseKanjis (r4.length + 1) r4).1 = [] := hn
          simp [hn'] at hk
    · cases h

/-- What the SKK-JISYO parser returns is read off the line: a non-empty kana reading and, if present,
a non-empty lower-case okuri letter string. -/
theorem C18_parse_shape (s : Str) (e : SkkEntry) (h : parseSkk s = some e) :
    e.reading ≠ [] ∧ (∀ c ∈ e.reading, skkKana c = true) ∧
    (∀ o, e.okuri = some o → o ≠ [] ∧ ∀ c ∈ o, isAlpha c = true) := by
  obtain ⟨r4, hr, hrne, ho, _, _⟩ := parseSkk_some s e h
  refine ⟨hrne, ?_, ?_⟩
  · rw [hr]; exact (spanClass_spec skkKana s).2.1
  · intro o hoo
    rw [ho] at hoo
    split at hoo
    · cases hoo
    · next hemp =>
      simp only [Option.some.injEq] at hoo
      subst hoo
      exact ⟨by intro hn; simp [hn] at hemp, (spanClass_spec isAlpha _).2.1⟩

theorem parseKanji_shape (s w r : Str) (h : parseKanji s = some (w, r)) :
    w ≠ [] ∧ ∀ c ∈ w, isKanjiCh c = true := by
  unfold parseKanji at h
  have hk := spanClass_spec isKanjiCh s
  cases hs : spanClass isKanjiCh s with
  | mk m rest =>
    rw [hs] at h hk
    cases m with
    | nil => simp at h
    | cons a t =>
      have hres : w = a :: t := by
        split at h
        · cases h
        · next hm => split at h <;> simp_all
        · next hm => simp_all
        · cases h
      subst hres
      exact ⟨by simp, hk.2.1⟩

theorem parseKanjis_shape : ∀ (fuel : Nat) (s : Str) (ws : List Str) (r : Str),
    parseKanjis fuel s = (ws, r) → ∀ w ∈ ws, w ≠ [] ∧ ∀ c ∈ w, isKanjiCh c = true
  | 0, s, ws, r, h => by simp [parseKanjis] at h; intro w hw; rw [h.1] at hw; cases hw
  | fuel + 1, s, ws, r, h => by
    unfold parseKanjis at h
    cases hk : parseKanji s with
    | none => simp [hk] at h; intro w hw; rw [h.1] at hw; cases hw
    | some p =>
      obtain ⟨w0, r0⟩ := p
      simp only [hk] at h
      cases hrec : parseKanjis fuel r0 with
      | mk l r' =>
        rw [hrec] at h
        simp only [Prod.mk.injEq] at h
        intro w hw
        rw [← h.1] at hw
        rcases List.mem_cons.1 hw with rfl | hw
        · exact parseKanji_shape s w r0 hk
        · exact parseKanjis_shape fuel r0 l r' hrec w hw

/-- Words returned by the parser contain no blank, slash or semicolon and are non-empty. -/
theorem C18_words_shape (s : Str) (e : SkkEntry) (h : parseSkk s = some e) :
    e.words ≠ [] ∧ ∀ w ∈ e.words, w ≠ [] ∧ ∀ c ∈ w, isKanjiCh c = true := by
  obtain ⟨r4, _, _, _, hw, hwne⟩ := parseSkk_some s e h
  refine ⟨hwne, ?_⟩
  rw [hw]
  exact parseKanjis_shape (r4.length + 1) r4 _ _ rfl

/-- Every line the noun / proper-noun / single-kanji converters emit is accepted by the dictionary
text format and reads back as the same reading, written form and part of speech — provided the
written form contains no TAB (the SKK candidate class excludes blank, slash and semicolon only). -/
theorem C18_emitted_valid (s : Str) (es : List Entry)
    (h : parseNouns s = some (some es) ∨ parsePropers s = some (some es) ∨ parseTankan s = some (some es)) :
    ∀ e ∈ es, (∀ c ∈ e.stem, c ≠ 9) → C10.parseL (C10.printE e) = some [e] := by
  intro e he hnotab
  apply C10.C10_entry
  have key : ∃ se, parseSkk s = some se ∧ e.stemReading = se.reading ∧ e.stem ∈ se.words ∧
      (e.speech = .noun .common ∨ e.speech = .noun .proper) := by
    rcases h with h | h | h
    · unfold parseNouns at h
      cases hp : parseSkk s with
      | none => simp [hp] at h
      | some se =>
        simp only [hp, Option.map_some, Option.some.injEq] at h
        split at h
        · cases h
        · simp only [Option.some.injEq] at h; subst h
          obtain ⟨w, hw, rfl⟩ := List.mem_map.1 he
          exact ⟨se, rfl, rfl, hw, Or.inl rfl⟩
    · unfold parsePropers at h
      cases hp : parseSkk s with
      | none => simp [hp] at h
      | some se =>
        simp only [hp, Option.map_some, Option.some.injEq] at h; subst h
        obtain ⟨w, hw, rfl⟩ := List.mem_map.1 he
        exact ⟨se, rfl, rfl, hw, Or.inr rfl⟩
    · unfold parseTankan at h
      cases hp : parseSkk s with
      | none => simp [hp] at h
      | some se =>
        simp only [hp, Option.map_some, Option.some.injEq] at h
        split at h
        · cases h
        · simp only [Option.some.injEq] at h; subst h
          obtain ⟨w, hw, rfl⟩ := List.mem_map.1 he
          exact ⟨se, rfl, rfl, (List.mem_filter.1 hw).1, Or.inl rfl⟩
  obtain ⟨se, hp, hr, hw, hsp⟩ := key
  obtain ⟨hrne, hrk, _⟩ := C18_parse_shape s se hp
  obtain ⟨_, hws⟩ := C18_words_shape s se hp
  obtain ⟨hwne, hwc⟩ := hws e.stem hw
  refine ⟨by rw [hr]; exact hrne, ?_, hwne, ?_, ?_⟩
  · intro c hc; rw [hr] at hc; exact skkKana_in_dic_class c (hrk c hc)
  · intro c hc
    have h1 := hwc c hc
    have h2 := hnotab c hc
    simp only [isKanjiCh, isNoSpace, Bool.not_eq_true', Bool.or_eq_false_iff] at h1 ⊢
    exact ⟨h1.1.1, by cases hb : Nat.beq c 9 with | false => rfl | true => exact absurd (Nat.eq_of_beq_eq_true hb) h2⟩
  · rcases hsp with hsp | hsp <;> (rw [hsp]; decide +kernel)

/-- Okuri-ari lines are ignored by the noun converter, single-kanji conversion keeps one-character
candidates only. -/
theorem C18_noun_skips_okuri (s : Str) (e : SkkEntry) (h : parseSkk s = some e) (ho : e.okuri.isSome = true) :
    parseNouns s = some none := by
  simp [parseNouns, h, ho]

/-! ## the notes converter -/

/-- A successfully parsed notes line has a non-empty kana headword, at most one okuri letter, at
least one entry, and every fixed okuri is a non-empty kana string. -/
theorem C18_notes_parse_shape (s : Str) (n : Note) (h : parseNote s = .note n) :
    n.headword ≠ [] ∧ (∀ c ∈ n.headword, skkKana c = true) ∧ n.okuri.length ≤ 1 ∧
    n.entries ≠ [] ∧ ∀ e ∈ n.entries, EntryOK e := by
  obtain ⟨a, b, c, _, d, e⟩ := parseNote_ok s n h
  exact ⟨a, b, c, d, e⟩

/-- Comment lines yield no note and no error. -/
theorem C18_notes_comment (rest : Str) : parseNote (59 :: rest) = .none := rfl

theorem speechOf_storable (sp : NoteSpeech) (h : ∀ cls row o, sp = .verb cls row o → Speech.verb cls row ∈ storableSpeeches) :
    speechOf sp ∈ storableSpeeches := by
  cases sp with
  | verb cls row o => exact h cls row o rfl
  | noun tag o =>
    show (if (tag == lit "サ変名詞") then Speech.noun .sahen else Speech.noun .common) ∈ storableSpeeches
    by_cases ht : (tag == lit "サ変名詞") = true
    · rw [if_pos ht]; decide +kernel
    · rw [if_neg ht]; decide +kernel
  | adjective o => show Speech.adjective ∈ storableSpeeches; decide +kernel
  | adjectivalVerb o => show Speech.adjectivalVerb ∈ storableSpeeches; decide +kernel
  | adverb o => show Speech.adverb ∈ storableSpeeches; decide +kernel
  | counter o => show Speech.counter ∈ storableSpeeches; decide +kernel
  | verbatim o => show Speech.verbatim ∈ storableSpeeches; decide +kernel
  | preNoun o => show Speech.preNounAdjectival ∈ storableSpeeches; decide +kernel
  | conjParticle o => show Speech.particle .conjunctive ∈ storableSpeeches; decide +kernel
  | conjunction o => show Speech.conjunction ∈ storableSpeeches; decide +kernel

theorem affix_storable : Speech.affix .prefix ∈ storableSpeeches ∧ Speech.affix .suffix ∈ storableSpeeches := by
  decide +kernel

theorem mem_of_prefix {a b : Str} (h : a <+: b) : ∀ c ∈ a, c ∈ b := by
  obtain ⟨t, rfl⟩ := h
  intro c hc; exact List.mem_append_left _ hc

/-- What `get_dictionary_form` returns: non-empty prefixes of `stem ++ okuri` and `headword ++ okuri`
where the okuri is a kana string. -/
theorem dictionaryForm_spec (e : NoteEntry) (hw : Str) (st rd : Str) (he : EntryOK e) (hhw : hw ≠ [])
    (h : dictionaryForm e hw = .ok (st, rd)) :
    ∃ ok, KanaStr ok ∧ st ≠ [] ∧ st <+: e.stem ++ ok ∧ rd ≠ [] ∧ rd <+: hw ++ ok ∧
      (∀ cls row o, e.speech = .verb cls row o → Speech.verb cls row ∈ storableSpeeches) := by
  unfold dictionaryForm at h
  cases hk : toOkuriKana e.speech with
  | unsupported => simp [hk] at h
  | panic => simp [hk] at h
  | ok ok =>
    simp only [hk] at h
    obtain ⟨hkana, hadjne⟩ := toOkuriKana_spec e.speech ok hk he.1
    cases h1 : dropDictionaryOkuri (e.stem ++ ok) e.speech with
    | unsupported => simp [h1] at h
    | panic => simp [h1] at h
    | ok st' =>
      simp only [h1] at h
      cases h2 : dropDictionaryOkuri (hw ++ ok) e.speech with
      | unsupported => simp [h2] at h
      | panic => simp [h2] at h
      | ok rd' =>
        simp only [h2, CRes.ok.injEq, Prod.mk.injEq] at h
        obtain ⟨rfl, rfl⟩ := h
        have hlen : ∀ (x : Str), x ≠ [] → isAdj e.speech = true → 3 < utf8LenStr (x ++ ok) := by
          intro x hx ha
          rw [Dic.utf8LenStr_append]
          have := SkkNotes.utf8LenStr_pos x hx
          have := utf8LenStr_kana ok hkana (hadjne ha)
          omega
        obtain ⟨a1, a2⟩ := dropDict_spec _ _ _ h1 (by simp [he.2.1]) (hlen _ he.2.1)
        obtain ⟨b1, b2⟩ := dropDict_spec _ _ _ h2 (by simp [hhw]) (hlen _ hhw)
        refine ⟨ok, hkana, a1, a2, b1, b2, ?_⟩
        intro cls row o hsp
        rw [hsp] at h1
        unfold dropDictionaryOkuri at h1
        simp only at h1
        cases hs : skkOkuri cls row with
        | none => simp [hs] at h1
        | some k => exact (skkOkuri_some cls row k hs).1

theorem entryToEntries_spec (e : NoteEntry) (hw : Str) (l : List Entry) (h : entryToEntries e hw = .ok l) :
    ∃ st rd, dictionaryForm e hw = .ok (st, rd) ∧
      ∀ x ∈ l, x.stem = st ∧ x.stemReading = rd ∧
        (x.speech = speechOf e.speech ∨ x.speech = .affix .prefix ∨ x.speech = .affix .suffix) := by
  unfold entryToEntries at h
  cases hd : dictionaryForm e hw with
  | unsupported => simp [hd] at h
  | panic => simp [hd] at h
  | ok p =>
    obtain ⟨st, rd⟩ := p
    refine ⟨st, rd, rfl, ?_⟩
    simp only [hd] at h
    split at h
    · next sp hsp =>
      simp only [CRes.ok.injEq] at h
      subst h
      have hsp' : sp = .affix .prefix ∨ sp = .affix .suffix := by
        cases ho : e.speech.okuri with
        | none => simp [ho] at hsp
        | some o =>
          simp only [ho, Option.bind_some] at hsp
          split at hsp
          · simp at hsp; exact Or.inl hsp.symm
          · split at hsp
            · simp at hsp; exact Or.inr hsp.symm
            · cases hsp
      intro x hx
      simp only [List.mem_cons, List.not_mem_nil, or_false] at hx
      rcases hx with rfl | rfl
      · exact ⟨rfl, rfl, Or.inl rfl⟩
      · exact ⟨rfl, rfl, Or.inr hsp'⟩
    · simp only [CRes.ok.injEq] at h
      subst h
      intro x hx
      simp only [List.mem_singleton] at hx
      subst hx
      exact ⟨rfl, rfl, Or.inl rfl⟩

theorem noteToEntries_mem (n : Note) (es : List Entry) (h : noteToEntries n = .ok es) :
    ∀ x ∈ es, ∃ e ∈ n.entries, ∃ l, entryToEntries e n.headword = .ok l ∧ x ∈ l := by
  unfold noteToEntries at h
  have gen : ∀ (l : List NoteEntry) (acc es : List Entry),
      (∀ x ∈ acc, ∃ e ∈ n.entries, ∃ l, entryToEntries e n.headword = .ok l ∧ x ∈ l) →
      (∀ e ∈ l, e ∈ n.entries) →
      l.foldl (fun acc e =>
        match acc with
        | .ok l => (match entryToEntries e n.headword with
          | .ok l2 => .ok (l ++ l2)
          | .unsupported => .unsupported
          | .panic => .panic)
        | r => r) (CRes.ok acc) = .ok es →
      ∀ x ∈ es, ∃ e ∈ n.entries, ∃ l, entryToEntries e n.headword = .ok l ∧ x ∈ l := by
    intro l
    induction l with
    | nil =>
      intro acc es hacc _ h
      simp only [List.foldl_nil, CRes.ok.injEq] at h
      subst h; exact hacc
    | cons e t ih =>
      intro acc es hacc hsub h
      simp only [List.foldl_cons] at h
      cases he : entryToEntries e n.headword with
      | ok l2 =>
        simp only [he] at h
        refine ih (acc ++ l2) es ?_ (fun e' he' => hsub e' (List.mem_cons_of_mem _ he')) h
        intro x hx
        rcases List.mem_append.1 hx with hx | hx
        · exact hacc x hx
        · exact ⟨e, hsub e (by simp), l2, he, hx⟩
      | unsupported =>
        simp only [he] at h
        exfalso
        have stuck : ∀ (t : List NoteEntry), t.foldl (fun acc e =>
            match acc with
            | .ok l => (match entryToEntries e n.headword with
              | .ok l2 => .ok (l ++ l2)
              | .unsupported => .unsupported
              | .panic => .panic)
            | r => r) (CRes.unsupported : CRes (List Entry)) = .unsupported := by
          intro t; induction t with
          | nil => rfl
          | cons a t ih => simpa using ih
        rw [stuck] at h; cases h
      | panic =>
        simp only [he] at h
        exfalso
        have stuck : ∀ (t : List NoteEntry), t.foldl (fun acc e =>
            match acc with
            | .ok l => (match entryToEntries e n.headword with
              | .ok l2 => .ok (l ++ l2)
              | .unsupported => .unsupported
              | .panic => .panic)
            | r => r) (CRes.panic : CRes (List Entry)) = .panic := by
          intro t; induction t with
          | nil => rfl
          | cons a t ih => simpa using ih
        rw [stuck] at h; cases h
  exact gen n.entries [] es (by intro x hx; cases hx) (fun e he => he) h

/-- **Every entry the notes converter emits for a parsed line is accepted by the dictionary text
format and reads back as the same reading, written form and part of speech** — provided the written
form holds no blank or TAB (the notes stem class excludes `;` and `/` only). -/
theorem C18_notes_emitted_valid (s : Str) (n : Note) (es : List Entry)
    (hp : parseNote s = .note n) (hc : noteToEntries n = .ok es) :
    ∀ x ∈ es, (∀ c ∈ x.stem, c ≠ 32 ∧ c ≠ 9) → C10.parseL (C10.printE x) = some [x] := by
  intro x hx hsp
  apply C10.C10_entry
  obtain ⟨hne, hkana, _, _, hents⟩ := C18_notes_parse_shape s n hp
  obtain ⟨e, he, l, hl, hxl⟩ := noteToEntries_mem n es hc x hx
  obtain ⟨st, rd, hdf, hall⟩ := entryToEntries_spec e n.headword l hl
  obtain ⟨hst, hrd, hspch⟩ := hall x hxl
  obtain ⟨ok, hok, st_ne, st_pre, rd_ne, rd_pre, hverb⟩ := dictionaryForm_spec e n.headword st rd (hents e he) hne hdf
  refine ⟨by rw [hrd]; exact rd_ne, ?_, by rw [hst]; exact st_ne, ?_, ?_⟩
  · intro c hc
    rw [hrd] at hc
    have := mem_of_prefix rd_pre c hc
    rcases List.mem_append.1 this with h | h
    · exact skkKana_in_dic_class c (hkana c h)
    · exact skkKana_in_dic_class c (hok c h)
  · intro c hc
    obtain ⟨h1, h2⟩ := hsp c hc
    simp only [isNoSpace, Bool.not_eq_true', Bool.or_eq_false_iff]
    exact ⟨by cases hb : Nat.beq c 32 with | false => rfl | true => exact absurd (Nat.eq_of_beq_eq_true hb) h1,
           by cases hb : Nat.beq c 9 with | false => rfl | true => exact absurd (Nat.eq_of_beq_eq_true hb) h2⟩
  · rcases hspch with h | h | h
    · rw [h]; exact speechOf_storable e.speech hverb
    · rw [h]; exact affix_storable.1
    · rw [h]; exact affix_storable.2

/-- The reading of every emitted entry starts with the headword's first kana and is a prefix of
headword ++ okuri; the written form likewise starts with the note stem's first character. -/
theorem C18_notes_faithful (s : Str) (n : Note) (es : List Entry)
    (hp : parseNote s = .note n) (hc : noteToEntries n = .ok es) :
    ∀ x ∈ es, ∃ e ∈ n.entries, ∃ ok, KanaStr ok ∧
      x.stem ≠ [] ∧ x.stem <+: e.stem ++ ok ∧ x.stemReading ≠ [] ∧ x.stemReading <+: n.headword ++ ok := by
  intro x hx
  obtain ⟨hne, _, _, _, hents⟩ := C18_notes_parse_shape s n hp
  obtain ⟨e, he, l, hl, hxl⟩ := noteToEntries_mem n es hc x hx
  obtain ⟨st, rd, hdf, hall⟩ := entryToEntries_spec e n.headword l hl
  obtain ⟨hst, hrd, _⟩ := hall x hxl
  obtain ⟨ok, hok, st_ne, st_pre, rd_ne, rd_pre, _⟩ := dictionaryForm_spec e n.headword st rd (hents e he) hne hdf
  exact ⟨e, he, ok, hok, by rw [hst]; exact st_ne, by rw [hst]; exact st_pre, by rw [hrd]; exact rd_ne, by rw [hrd]; exact rd_pre⟩

theorem dictionaryForm_no_panic (e : NoteEntry) (hw : Str) (he : EntryOK e) (hhw : hw ≠ []) :
    dictionaryForm e hw ≠ .panic := by
  unfold dictionaryForm
  cases hk : toOkuriKana e.speech with
  | unsupported => intro h; cases h
  | panic => exact absurd hk (toOkuriKana_no_panic _)
  | ok ok =>
    simp only
    obtain ⟨hkana, hadjne⟩ := toOkuriKana_spec e.speech ok hk he.1
    have hadj : ∀ (x : Str), isAdj e.speech = true → ∃ y c, x ++ ok = y ++ [c] ∧ utf8Len c = 3 := by
      intro x ha
      obtain ⟨y, c, hy, hc⟩ := kana_last ok hkana (hadjne ha)
      exact ⟨x ++ y, c, by rw [hy, List.append_assoc], hc⟩
    have n1 := dropDict_no_panic (e.stem ++ ok) e.speech (by simp [he.2.1]) (hadj _)
    have n2 := dropDict_no_panic (hw ++ ok) e.speech (by simp [hhw]) (hadj _)
    cases h1 : dropDictionaryOkuri (e.stem ++ ok) e.speech with
    | unsupported => intro h; cases h
    | panic => exact absurd h1 n1
    | ok st =>
      simp only
      cases h2 : dropDictionaryOkuri (hw ++ ok) e.speech with
      | unsupported => intro h; cases h
      | panic => exact absurd h2 n2
      | ok rd => intro h; cases h

theorem entryToEntries_no_panic (e : NoteEntry) (hw : Str) (he : EntryOK e) (hhw : hw ≠ []) :
    entryToEntries e hw ≠ .panic := by
  unfold entryToEntries
  cases hd : dictionaryForm e hw with
  | unsupported => intro h; cases h
  | panic => exact absurd hd (dictionaryForm_no_panic e hw he hhw)
  | ok p =>
    obtain ⟨st, rd⟩ := p
    simp only
    split <;> (intro h; cases h)

/-- **The notes converter never panics on a parsed line**: the only way a parsed note fails to
convert is the explicit unsupported-conjugation rejection (`form_to_skk_okuri`'s `panic!` arms). -/
theorem C18_notes_no_panic (s : Str) (n : Note) (hp : parseNote s = .note n) : noteToEntries n ≠ .panic := by
  obtain ⟨hne, _, _, _, hents⟩ := C18_notes_parse_shape s n hp
  unfold noteToEntries
  have gen : ∀ (l : List NoteEntry) (acc : CRes (List Entry)), acc ≠ .panic → (∀ e ∈ l, EntryOK e) →
      l.foldl (fun acc e =>
        match acc with
        | .ok l => (match entryToEntries e n.headword with
          | .ok l2 => .ok (l ++ l2)
          | .unsupported => .unsupported
          | .panic => .panic)
        | r => r) acc ≠ .panic := by
    intro l
    induction l with
    | nil => intro acc h _; simpa using h
    | cons e t ih =>
      intro acc hacc hall
      simp only [List.foldl_cons]
      apply ih _ _ (fun e' he' => hall e' (List.mem_cons_of_mem _ he'))
      cases acc with
      | panic => exact absurd rfl hacc
      | unsupported => intro h; cases h
      | ok l =>
        simp only
        cases he : entryToEntries e n.headword with
        | panic => exact absurd he (entryToEntries_no_panic e n.headword (hall e (by simp)) hne)
        | unsupported => intro h; cases h
        | ok l2 => intro h; cases h
  exact gen n.entries (.ok []) (by intro h; cases h) hents

/-! Non-vacuity: concrete lines meet the hypotheses (a verb with class okuri, an affix-producing
adverb, an adjective with a fixed okuri), and the D14 line panics in the converter. -/

def exLine1 : Str := lit "わらu /笑;∥<base>ワ行五段[wiueot(c)]/"
def exLine2 : Str := lit "ふ /不;∥副詞[>]/"
def exLine3 : Str := lit "おんみつ /隠密;∥形容動詞[φdn(s)]/"

def convOk (s : Str) : Bool :=
  match parseNote s with
  | .note n => (match noteToEntries n with | .ok es => !es.isEmpty | _ => false)
  | _ => false

example : convOk exLine1 = true ∧ convOk exLine2 = true ∧ convOk exLine3 = true := by decide +kernel

/-- The line that used to panic (a one-byte stem with a fixed okuri shorter than the class's
dictionary ending, finding D14) now converts. -/
example : convOk (lit "くし /a;∥文語ア行下一(-た)[--]/") = true := by decide +kernel


/-! ## what is written is what is parsed (SKK-JISYO lines) -/

open Chokan.Skk in
/-- **For well-formed lines the parser returns exactly the reading, okuri letter and candidate words written in the line,
annotations stripped** — stated against an independent printer of SKK lines (`printSkk`: reading in the SKK kana class,
optional lower-case okuri, blanks, then `/word[;annotation]/…/`), for every such line. -/
theorem C18_skk_exact (reading okuri sp : Str) (ws : List Written)
    (hr : reading ≠ []) (hrk : ∀ c ∈ reading, skkKana c = true) (hok : ∀ c ∈ okuri, isAlpha c = true)
    (hs : sp ≠ []) (hsp : ∀ c ∈ sp, isSpace c = true) (hws : ws ≠ []) (hw : ∀ w ∈ ws, WrittenOK w) :
    parseSkk (printSkk reading okuri sp ws) =
      some ⟨reading, if okuri.isEmpty then none else some okuri, ws.map (·.word)⟩ :=
  parseSkk_print reading okuri sp ws hr hrk hok hs hsp hws hw

open Chokan.Skk in
/-- … hence the noun converter emits one common noun per written word of an okuri-less line and skips okuri-ari lines, and
the jinmei converter one proper noun per written word. -/
theorem C18_skk_converters_exact (reading okuri sp : Str) (ws : List Written)
    (hr : reading ≠ []) (hrk : ∀ c ∈ reading, skkKana c = true) (hok : ∀ c ∈ okuri, isAlpha c = true)
    (hs : sp ≠ []) (hsp : ∀ c ∈ sp, isSpace c = true) (hws : ws ≠ []) (hw : ∀ w ∈ ws, WrittenOK w) :
    parseNouns (printSkk reading okuri sp ws) =
      some (if okuri.isEmpty then some (ws.map fun w => ⟨w.word, reading, .noun .common⟩) else none) ∧
    parsePropers (printSkk reading okuri sp ws) = some (some (ws.map fun w => ⟨w.word, reading, .noun .proper⟩)) := by
  unfold parseNouns parsePropers
  rw [parseSkk_print reading okuri sp ws hr hrk hok hs hsp hws hw]
  cases h : okuri.isEmpty <;> simp [h, List.map_map, Function.comp_def]

open Chokan.Skk in
/-- non-vacuity: `かk /書;write/描/` -/
example : parseSkk (printSkk [12363] [107] [32] [⟨[26360], some [119, 114, 105, 116, 101]⟩, ⟨[25551], none⟩]) =
    some ⟨[12363], some [107], [[26360], [25551]]⟩ := by decide


/-! ## each part of speech is converted on its own terms -/

/-- the step of `noteToEntries`' fold -/
def noteStep (hw : Str) (acc : CRes (List Entry)) (e : NoteEntry) : CRes (List Entry) :=
  match acc with
  | .ok l => (match entryToEntries e hw with
    | .ok l2 => .ok (l ++ l2)
    | .unsupported => .unsupported
    | .panic => .panic)
  | r => r

theorem noteToEntries_eq (n : Note) : noteToEntries n = n.entries.foldl (noteStep n.headword) (.ok []) := rfl

theorem noteFold_bad (hw : Str) : ∀ (es : List NoteEntry),
    es.foldl (noteStep hw) (.unsupported : CRes (List Entry)) = .unsupported ∧ es.foldl (noteStep hw) (.panic : CRes (List Entry)) = .panic
  | [] => ⟨rfl, rfl⟩
  | _ :: t => by simp only [List.foldl_cons, noteStep]; exact noteFold_bad hw t

theorem noteFold_acc (hw : Str) : ∀ (es : List NoteEntry) (a l : List Entry),
    es.foldl (noteStep hw) (.ok []) = .ok l → es.foldl (noteStep hw) (.ok a) = .ok (a ++ l)
  | [], a, l, h => by simp only [List.foldl_nil] at h ⊢; cases h; simp
  | e :: t, a, l, h => by
    simp only [List.foldl_cons, noteStep, List.nil_append] at h ⊢
    cases he : entryToEntries e hw with
    | ok l2 =>
      rw [he] at h
      simp only at h ⊢
      -- the rest of the fold from `.ok l2`
      cases hr : t.foldl (noteStep hw) (.ok []) with
      | ok lr =>
        have h2 := noteFold_acc hw t l2 lr hr
        rw [h2] at h
        cases h
        rw [noteFold_acc hw t (a ++ l2) lr hr, List.append_assoc]
      | unsupported =>
        -- then the fold from any `.ok` accumulator is not `.ok` either: contradiction with `h`
        exfalso
        have : ∀ (b : List Entry), t.foldl (noteStep hw) (.ok b) ≠ .ok l := by
          intro b hb
          exact noteFold_notok hw t b l hb (by rw [hr]; intro l' h'; cases h')
        exact this l2 h
      | panic =>
        exfalso
        have : ∀ (b : List Entry), t.foldl (noteStep hw) (.ok b) ≠ .ok l := by
          intro b hb
          exact noteFold_notok hw t b l hb (by rw [hr]; intro l' h'; cases h')
        exact this l2 h
    | unsupported => rw [he] at h; simp only at h; rw [(noteFold_bad hw t).1] at h; cases h
    | panic => rw [he] at h; simp only at h; rw [(noteFold_bad hw t).2] at h; cases h
where
  /-- if the fold from the empty accumulator fails, so it does from any accumulator -/
  noteFold_notok (hw : Str) : ∀ (es : List NoteEntry) (b l : List Entry),
      es.foldl (noteStep hw) (.ok b) = .ok l → (∀ l', es.foldl (noteStep hw) (.ok []) ≠ .ok l') → False
    | [], b, l, _, hno => hno [] rfl
    | e :: t, b, l, h, hno => by
      simp only [List.foldl_cons, noteStep, List.nil_append] at h hno
      cases he : entryToEntries e hw with
      | ok l2 =>
        rw [he] at h hno
        simp only at h hno
        exact noteFold_notok hw t (b ++ l2) l h (fun l' hl' => by
          -- from `.ok []` the rest succeeds with some list; then so it does from `.ok l2`
          exact hno (l2 ++ l') (noteFold_acc hw t l2 l' hl'))
      | unsupported => rw [he] at h; simp only at h; rw [(noteFold_bad hw t).1] at h; cases h
      | panic => rw [he] at h; simp only at h; rw [(noteFold_bad hw t).2] at h; cases h

/-- **Each part of speech of a note is converted on its own terms**: the entries a note with the candidates `es₁ ++ es₂`
emits are those of `es₁` followed by those of `es₂` — nothing computed for one candidate (its dictionary form, its okuri)
carries over to another, also when they share a stem. -/
theorem C18_notes_entrywise (hw ok : Str) (es1 es2 : List NoteEntry) (l1 l2 : List Entry)
    (h1 : noteToEntries ⟨hw, ok, es1⟩ = .ok l1) (h2 : noteToEntries ⟨hw, ok, es2⟩ = .ok l2) :
    noteToEntries ⟨hw, ok, es1 ++ es2⟩ = .ok (l1 ++ l2) := by
  rw [noteToEntries_eq] at h1 h2 ⊢
  simp only [List.foldl_append] at ⊢
  simp only at h1 h2
  rw [h1]
  exact noteFold_acc hw es2 l1 l2 h2

end Chokan.Props.C18
