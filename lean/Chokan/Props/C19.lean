/-
C19 — Client romaji engine: every table spelling is typeable, conversion is total.

Property theorems only.  Model: `Chokan.Model.Romaji` (hand-written from chokan.el,
tied by the correspondence run against `tools/elisp_eval.py` interpreting the
working-tree chokan.el).  Data: `Chokan.Gen.Romaji` (regenerated on every run).
-/
import Chokan.Lemmas.Romaji
import Chokan.Lemmas.RomajiIdem

namespace Chokan.Props.C19
open Chokan.Romaji Chokan.Gen.Romaji

/-- The client's conversion with the client's own tables. -/
def clientConv (s : Str) : Option Str :=
  conv romanTable consonants (dotimesBound (maxKey romanTable)) s

/-- Every spelling of the romaji table types exactly its table kana (all rows). -/
theorem C19_table : ∀ kv ∈ romanTable, clientConv kv.1 = some kv.2 := by
  have h : allRowsOk romanTable consonants (dotimesBound (maxKey romanTable)) romanTable = true := by
    decide +kernel
  exact allRowsOk_sound _ _ _ _ h

/-- Conversion of any key sequence terminates without a Lisp error (fuel |s|+1 suffices). -/
theorem C19_total (s : Str) : ∃ out, clientConv s = some out :=
  conv_total romanTable consonants _ (by decide +kernel) s

/-- A doubled consonant becomes っ followed by the conversion of the remaining consonant. -/
theorem C19_sokuon (c : Nat) (hc : c ∈ consonants) (rest : Str) :
    clientConv (c :: c :: rest) = (clientConv (c :: rest)).map (0x3063 :: ·) :=
  conv_sokuon romanTable consonants _ (by decide +kernel) c hc rest

/-- Kana and unmapped characters (not used by any spelling, not a consonant) pass through
unchanged and in order, wherever they stand. -/
theorem C19_passthrough (xs ys : Str) (c : Nat)
    (hk : keyChar romanTable c = false) (hc : memNat c consonants = false) :
    clientConv (xs ++ c :: ys) =
      (clientConv xs).bind fun a => (clientConv ys).map fun b => a ++ c :: b :=
  conv_passthrough romanTable consonants _ (by decide +kernel) xs ys c hk hc

/-- A string of unmapped characters only (e.g. kana) is a fixed point. -/
theorem C19_fixed_unmapped (s : Str)
    (h : ∀ c ∈ s, keyChar romanTable c = false ∧ memNat c consonants = false) :
    clientConv s = some s :=
  conv_unmapped romanTable consonants _ (by decide +kernel) s h

/-- Idempotence on the engine's output for every table row: the kana a spelling produces
is left unchanged by a second pass. (General idempotence: see `C19_idempotent_statement`.) -/
theorem C19_idempotent_rows : ∀ kv ∈ romanTable, clientConv kv.2 = some kv.2 := by
  intro kv hkv
  apply C19_fixed_unmapped
  have h : valuesUnmapped romanTable consonants romanTable = true := by decide +kernel
  exact valuesUnmapped_sound _ _ _ h kv hkv

/-- Full-strength idempotence. -/
def C19_idempotent_statement : Prop :=
  ∀ s out, clientConv s = some out → clientConv out = some out

/-- **Idempotence on its own output**, for every key sequence: the output consists of table values and
っ (no spelling uses them) and of characters passed through one at a time; a run of passed-through
characters is a dead end at each of its positions, so a second pass changes nothing. -/
theorem C19_idempotent : C19_idempotent_statement := by
  intro s out h
  exact conv_idempotent romanTable consonants _ (by decide +kernel) (by decide +kernel) (by decide +kernel)
    (by decide +kernel) s out h

/-- Hiragana→katakana: every table kana maps to its (first) table katakana. -/
theorem C19_kata_table : ∀ kv ∈ katakanaTable, kv.1.length = 1 →
    hiraToKata katakanaTable kv.1 = (assoc kv.1 katakanaTable).getD kv.1 ∧
    (assoc kv.1 katakanaTable).isSome := by
  have h : kataRowsOk katakanaTable katakanaTable = true := by decide +kernel
  exact kataRowsOk_sound _ _ h

/-- The first occurrence of each key is the value returned (`assoc` semantics). -/
theorem C19_kata_first : ∀ kv ∈ firstOccurrences katakanaTable, kv.1.length = 1 →
    hiraToKata katakanaTable kv.1 = kv.2 := by
  have h : kataFirstOk katakanaTable (firstOccurrences katakanaTable) = true := by decide +kernel
  exact kataFirstOk_sound _ _ h

/-- **"Maps every table kana"**: every character of every kana the romaji table can produce is a key of
the katakana table (so katakana mode never leaves hiragana behind) … -/
theorem C19_kata_covers_typed :
    romanTable.all (fun kv => kv.2.all fun c => (assoc [c] katakanaTable).isSome) = true := by
  decide +kernel

/-- … hence the katakana of a typed kana is, character by character, its table katakana. -/
theorem C19_kata_typed (kv : Str × Str) (h : kv ∈ romanTable) :
    hiraToKata katakanaTable kv.2 = kv.2.flatMap fun c => (assoc [c] katakanaTable).getD [c] := by
  have hall := List.all_eq_true.1 (List.all_eq_true.1 C19_kata_covers_typed kv h)
  have gen : ∀ (l : Str), hiraToKata katakanaTable l = l.flatMap fun c => (assoc [c] katakanaTable).getD [c] := by
    intro l
    induction l with
    | nil => rfl
    | cons c t ih =>
      have := hiraToKata_append katakanaTable [c] t
      simp only [List.singleton_append] at this
      rw [this, ih]
      simp only [List.flatMap_cons]
      congr 1
      cases hc : assoc [c] katakanaTable <;> simp [hiraToKata, hc]
  exact gen kv.2

/-- Every character that is not a table key is left untouched, and conversion is per character. -/
theorem C19_kata_other (c : Nat) (h : assoc [c] katakanaTable = none) :
    hiraToKata katakanaTable [c] = [c] := by
  simp [hiraToKata, h]

theorem C19_kata_append (a b : Str) :
    hiraToKata katakanaTable (a ++ b) = hiraToKata katakanaTable a ++ hiraToKata katakanaTable b :=
  hiraToKata_append _ a b

/-- Non-vacuity: concrete instances. -/
example : clientConv [107, 97, 116, 116, 97, 114, 97] = some [12363, 12387, 12383, 12425] := by
  decide +kernel  -- "kattara" ↦ "かったら"
example : clientConv [120, 116, 115, 117] = some [12387] := by decide +kernel  -- "xtsu" ↦ "っ"

end Chokan.Props.C19
