/-
C20 — confirming an affixed candidate teaches the compound as a user word.

Model: `withAffix` (Candidate::to_string_with_affix on the chain as the search returns it, i.e.
starting with the sentence-begin node) and `confirm` / `applyEntry` of Chokan.Model.Server.
-/
import Chokan.Model.Server
import Chokan.Lemmas.Kkc
import Chokan.Props.C07

namespace Chokan.Props.C20
open Chokan.Server Chokan.Kkc Chokan.Dic

def wordNode (e i : Nat) (w : Word) (f : Score) : Node := .word e i w f

theorem filter_word (e i : Nat) (w : Word) (f : Score) :
    Option.filter isWordNode (some (Node.word e i w f)) = some (Node.word e i w f) := by
  simp [Option.filter, isWordNode]

/-- prefix + independent word (followed by the sentence end or the unconverted tail) -/
theorem C20_prefix_word (e1 i1 e2 i2 : Nat) (p w : Word) (f1 f2 : Score) (rest : List Node)
    (hp : p.speech.isPrefix = true) (hw : w.speech.isAncillary = false)
    (hrest : (rest.head?.filter isWordNode) = none) :
    withAffix (.bos :: wordNode e1 i1 p f1 :: wordNode e2 i2 w f2 :: rest) =
      some (p.word ++ w.word, p.reading ++ w.reading) := by
  have hpa : p.speech.isAncillary = true := by
    cases hs : p.speech <;> simp_all [Speech.isPrefix, Speech.isAncillary]
  have hws : w.speech.isSuffix = false := by
    cases hs : w.speech <;> simp_all [Speech.isSuffix, Speech.isAncillary]
  simp [withAffix, wordNode, filter_word, asPrefix, asSuffix, asIndependent, isWordNode, hp, hw, hpa, hws, hrest]

/-- independent word + suffix -/
theorem C20_word_suffix (e1 i1 e2 i2 : Nat) (w s : Word) (f1 f2 : Score) (rest : List Node)
    (hw : w.speech.isAncillary = false) (hs : s.speech.isSuffix = true)
    (hrest : (rest.head?.filter isWordNode) = none) :
    withAffix (.bos :: wordNode e1 i1 w f1 :: wordNode e2 i2 s f2 :: rest) =
      some (w.word ++ s.word, w.reading ++ s.reading) := by
  have hwp : w.speech.isPrefix = false := by
    cases h : w.speech <;> simp_all [Speech.isPrefix, Speech.isAncillary]
  have hsa : s.speech.isAncillary = true := by
    cases h : s.speech <;> simp_all [Speech.isSuffix, Speech.isAncillary]
  simp [withAffix, wordNode, filter_word, asPrefix, asSuffix, asIndependent, isWordNode, hw, hs, hwp, hsa, hrest]

/-- prefix + independent word + suffix -/
theorem C20_prefix_word_suffix (e1 i1 e2 i2 e3 i3 : Nat) (p w s : Word) (f1 f2 f3 : Score) (rest : List Node)
    (hp : p.speech.isPrefix = true) (hw : w.speech.isAncillary = false) (hs : s.speech.isSuffix = true) :
    withAffix (.bos :: wordNode e1 i1 p f1 :: wordNode e2 i2 w f2 :: wordNode e3 i3 s f3 :: rest) =
      some (p.word ++ w.word ++ s.word, p.reading ++ w.reading ++ s.reading) := by
  simp [withAffix, wordNode, filter_word, asPrefix, asSuffix, asIndependent, isWordNode, hp, hw, hs]

/-- A candidate whose first converted word is an independent word followed by no word learns nothing. -/
theorem C20_none_single (e1 i1 : Nat) (w : Word) (f1 : Score) (rest : List Node)
    (hrest : (rest.head?.filter isWordNode) = none) :
    withAffix (.bos :: wordNode e1 i1 w f1 :: rest) = none := by
  simp [withAffix, wordNode, isWordNode, hrest]

/-- Confirming such a candidate queues the compound as a common noun for the updater (which records it in the user
dictionary when it applies it — once, since fix c5e9959). -/
theorem C20_confirm_queues (c : Cfg) (s : State) (sid : Nat) (cid : Nat) (now : Int) (sess : Session) (cand : Cand)
    (word reading : Str)
    (h : s.sessions.find? (·.sid == sid) = some sess) (hc : sess.cands[cid]? = some cand)
    (ha : withAffix cand.chain = some (word, reading)) :
    (confirm c s sid (some cid) now).pending = s.pending ++ [⟨word, reading, .noun .common⟩] := by
  simp only [confirm, popSession, h, Option.bind_some, hc, ha]
  cases independentWord cand.chain <;> rfl

/-- Once the updater has applied it, the compound is a word of the running dictionary under its
reading (so it converts as a single word: C03/C07), whenever the reading is spelled in the alphabet. -/
theorem C20_applied (c : Cfg) (s : State) (word reading : Str) (rest : List Entry)
    (hp : s.pending = ⟨word, reading, .noun .common⟩ :: rest) :
    ∃ s', applyEntry c s = some s' ∧ s'.pending = rest ∧
      s'.userDict = s.userDict ++ [⟨word, reading, .noun .common⟩] ∧
      s'.dict = addStdWord c.alpha s.dict ⟨word, reading, .noun .common⟩ := by
  simp [applyEntry, hp, mergeEntry, entryToWords, toForms]

/-- **Once applied, the compound converts as a single word**: after the updater has applied the queued
compound (a common noun whose non-empty reading is spelled in the trie alphabet), the compound's
reading — and every input that begins with it — gets the compound's written form as a candidate (then
followed by the rest of the input), in every context, unless the list is cut at `n`. -/
theorem C20_compound_converts (c : Cfg) (s : State) (word reading : Str) (rest : List Entry) (tail : Str)
    (ctx : Ctx) (f : Freq) (n : Nat) (hn : 1 ≤ n)
    (hp : s.pending = ⟨word, reading, .noun .common⟩ :: rest) (hd : Dict.WF s.dict)
    (hne : reading ≠ []) (ha : inAlpha c.alpha reading = true) :
    ∃ s', applyEntry c s = some s' ∧ ∃ fuel0 R, ∀ fuel, fuel0 ≤ fuel →
      getCandidates genTables (reading ++ tail) s'.dict ctx f n fuel = some R ∧
      (word ++ tail ∈ R.map Cand.text ∨ R.length = n) := by
  obtain ⟨s', hs', _, _, hdict⟩ := C20_applied c s word reading rest hp
  refine ⟨s', hs', ?_⟩
  rw [hdict]
  exact C07.C07_registered_word_offered c.alpha s.dict ⟨word, reading, .noun .common⟩ tail ctx f n hn hd hne ha rfl


/-- **What is learned about written forms does not decide whether a compound is learned.** Whatever the learned counts are
— in particular when the compound's written form already has a count from an earlier confirmation of a homograph — the
confirmation of an affixed candidate adds the same compound to the user dictionary and to the updater's queue. -/
theorem C20_compound_regardless_of_counts (c : Cfg) (s : State) (f' : List FreqEntry) (sid : Nat) (cid : Option Nat) (now : Int) :
    (confirm c { s with freq := f' } sid cid now).userDict = (confirm c s sid cid now).userDict ∧
    (confirm c { s with freq := f' } sid cid now).pending = (confirm c s sid cid now).pending := by
  unfold confirm popSession
  cases hs : s.sessions.find? (·.sid == sid) with
  | none => simp [hs]
  | some sess =>
    simp only [hs]
    cases hc : (cid.bind fun i => sess.cands[i]?) with
    | none => simp
    | some cand =>
      simp only
      cases independentWord cand.chain <;> cases withAffix cand.chain <;> simp

end Chokan.Props.C20
