import Driver.Main
