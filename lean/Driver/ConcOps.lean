import Driver.Util
import Chokan.Model.Conc
import Chokan.Model.Runtime
import Std.Data.HashSet

namespace Driver
open Chokan.Conc Chokan.Gen.Server

def concInit (ps : List (String × List Ev)) : St :=
  { threads := ps.map fun p => ⟨p.2, [], none⟩,
    -- a bounded channel starts full (capacity 1): the schedule in which its consumer is behind
    queued := fun c => if chanUnbounded c then 0 else 1,
    cap := fun c => if chanUnbounded c then none else some 1 }

abbrev Key := List (Nat × List Nat) × List Nat

/-- depth-first search over all schedules (at most `fuel` steps deep); returns a schedule that ends in a state in
which nobody in the lock-wait graph can ever move again -/
def findDeadlock (fuel : Nat) (s : St) (sched : List (Nat × Nat)) (seen : Std.HashSet Key) :
    Option (List (Nat × Nat)) × Std.HashSet Key :=
  if deadlocked s then (some sched.reverse, seen) else
  match fuel with
  | 0 => (none, seen)
  | fuel + 1 =>
    if seen.contains (key s) then (none, seen) else
    let seen := seen.insert (key s)
    (List.range s.threads.length).foldl (fun (acc : Option (List (Nat × Nat)) × Std.HashSet Key) i =>
      match acc.1 with
      | some _ => acc
      | none =>
        match s.threads[i]? with
        | none => acc
        | some t =>
          if !enabled s t || t.rest.isEmpty then acc else
          findDeadlock fuel (step s (i, 0)) ((i, 0) :: sched) acc.2) (none, seen)

def showSched (ps : List (String × List Ev)) (sched : List (Nat × Nat)) : String :=
  " ".intercalate (sched.map fun ik => (ps[ik.1]?.map (·.1)).getD "?")

/-- every pair of requests (main paths) together with one iteration of every background loop -/
def searchPairs : Option String :=
  let hs := handlerMain
  -- two iterations of every background loop: as many as there are requests that could feed it
  let ts := taskMain.zipIdx.map fun pi => ("task" ++ toString pi.2, pi.1 ++ pi.1)
  let tuples : List (List (String × List Ev)) := hs.flatMap fun a => hs.map fun b => ts ++ [a, b]
  tuples.findSome? fun tp =>
    match (findDeadlock 120 (concInit tp) [] {}).1 with
    | some sched => some ("deadlock threads=" ++ ",".intercalate (tp.map (·.1)) ++ " schedule=" ++ showSched tp sched)
    | none => none

def concOps (op : String) (_arg : String) : Option String :=
  match op with
  | "conc-search" => some (searchPairs.getD "none")
  | "conc-discipline" => some (
      let bad := (handlerPaths.flatMap fun h => h.2.filterMap fun p =>
          if disc Chokan.Runtime.lockRank chanUnbounded [] p && noWait chanUnbounded p then none else some h.1) ++
        (taskPaths.zipIdx.flatMap fun pi => pi.1.filterMap fun p =>
          if disc Chokan.Runtime.lockRank chanUnbounded [] p then none else some ("task" ++ toString pi.2))
      if bad.isEmpty then "ok" else "undisciplined " ++ ",".intercalate bad.eraseDups)
  | _ => none

end Driver
