import Driver.Util
import Chokan.Model.Dic
import Chokan.Model.DicText
import Chokan.Gen.Dic
import Chokan.Gen.DicGrammar

namespace Driver
open Chokan Chokan.Dic

def clsName : VerbClass → String
  | .godan => "godan" | .yodan => "yodan" | .simoIchidan => "simoIchidan" | .kamiIchidan => "kamiIchidan"
  | .simoNidan => "simoNidan" | .kamiNidan => "kamiNidan" | .hen => "hen"

def speechToken : Speech → String
  | .noun .sahen => "N.sahen" | .noun .proper => "N.proper" | .noun .common => "N.common"
  | .verb cls row => "V." ++ clsName cls ++ String.join (row.map fun c => "." ++ toString c)
  | .adjective => "ADJ" | .adverb => "ADV" | .adjectivalVerb => "ADJV" | .verbatim => "VERBATIM"
  | .conjunction => "CONJ"
  | .particle .case => "P.case" | .particle .adverbial => "P.adverbial" | .particle .conjunctive => "P.conjunctive"
  | .particle .sentenceFinal => "P.sentenceFinal" | .particle .other => "P.other"
  | .auxiliaryVerb => "AUX" | .preNounAdjectival => "PRE" | .counter => "CNT"
  | .affix .prefix => "AFX.prefix" | .affix .suffix => "AFX.suffix"

def parseSpeechToken (t : String) : Option Speech :=
  match t.splitOn "." with
  | ["N", "sahen"] => some (.noun .sahen) | ["N", "proper"] => some (.noun .proper) | ["N", "common"] => some (.noun .common)
  | "V" :: c :: row =>
    let r := row.filterMap (·.toNat?)
    (match c with
      | "godan" => some VerbClass.godan | "yodan" => some .yodan | "simoIchidan" => some .simoIchidan
      | "kamiIchidan" => some .kamiIchidan | "simoNidan" => some .simoNidan | "kamiNidan" => some .kamiNidan
      | "hen" => some .hen | _ => none).map fun cls => Speech.verb cls r
  | ["ADJ"] => some .adjective | ["ADV"] => some .adverb | ["ADJV"] => some .adjectivalVerb
  | ["VERBATIM"] => some .verbatim | ["CONJ"] => some .conjunction
  | ["P", "case"] => some (.particle .case) | ["P", "adverbial"] => some (.particle .adverbial)
  | ["P", "conjunctive"] => some (.particle .conjunctive) | ["P", "sentenceFinal"] => some (.particle .sentenceFinal)
  | ["P", "other"] => some (.particle .other)
  | ["AUX"] => some .auxiliaryVerb | ["PRE"] => some .preNounAdjectival | ["CNT"] => some .counter
  | ["AFX", "prefix"] => some (.affix .prefix) | ["AFX", "suffix"] => some (.affix .suffix)
  | _ => none

def fieldsOf (s : String) : List String := (s.splitOn "|").map fun f => f.trimAscii.toString

def sortDedup (l : List String) : List String :=
  let a := (l.toArray.qsort (fun a b => a < b)).toList
  a.eraseDups

def joinOk (l : List String) (sep : String) : String :=
  if l.isEmpty then "ok" else "ok " ++ sep.intercalate l

def ct := Gen.Dic.conjTable
def gt := Gen.Dic.guessTable
def adjF := Gen.Dic.adjectiveForms
def adjvF := Gen.Dic.adjectivalVerbForms
def names := Gen.Dic.simpleNames
def vsuf := Gen.Dic.verbSuffix
def kc := Gen.DicGrammar.kanaClass
def alts := Gen.DicGrammar.speechAlts
def kata := Gen.DicGrammar.katakanaClass

def showEntry (e : Entry) : String :=
  showCps (printEntry names vsuf e) ++ " ; " ++ speechToken e.speech

def showWords (ws : List Word) : String :=
  joinOk (sortDedup (ws.map fun w => showCps w.word ++ " : " ++ showCps w.reading ++ " : " ++ speechToken w.speech)) " ; "

def dicOps (op : String) (arg : String) : Option String :=
  let f := fieldsOf arg
  let g (i : Nat) : String := f.getD i ""
  match op with
  | "conj" => (parseSpeechToken (g 0)).map fun sp =>
      match toForms ct adjF adjvF sp (parseCps (g 1)) (parseCps (g 2)) with
      | some fs => joinOk (sortDedup (fs.map fun (a, b) => showCps a ++ " : " ++ showCps b)) " ; "
      | none => "panic"
  | "guessform" => (parseCps (g 0)).head?.map fun c =>
      match guessForm c gt with
      | some (cls, row) => "ok " ++ speechToken (.verb cls row)
      | none => "ok none"
  | "newguessed" => some (match newGuessed gt (parseCps (g 0)) (parseCps (g 1)) with
      | some e => "ok " ++ showEntry e
      | none => "panic")
  | "guessedwords" => some (match (newGuessed gt (parseCps (g 0)) (parseCps (g 1))).bind (entryToWords ct adjF adjvF) with
      | some ws => showWords ws
      | none => "panic")
  | "words" | "wordsref" => (parseSpeechToken (g 0)).map fun sp =>
      match entryToWords ct adjF adjvF ⟨parseCps (g 2), parseCps (g 1), sp⟩ with
      | some ws => showWords ws
      | none => "panic"
  | "print" => (parseSpeechToken (g 0)).map fun sp =>
      "ok " ++ showCps (printEntry names vsuf ⟨parseCps (g 2), parseCps (g 1), sp⟩)
  | "parse" => some (
      -- the implementation side reads the line through the real reader, which splits on '\n'
      joinOk ((DicText.readAll kc alts kata (parseCps (g 0))).map showEntry) " ;; ")
  | "readall" =>
      let es := DicText.readAll kc alts kata (parseCps (g 0))
      some ("ok " ++ toString es.length ++ " " ++ " ;; ".intercalate (es.map showEntry))
  | "rewrite" =>
      let es := DicText.readAll kc alts kata (parseCps (g 0))
      some ("ok " ++ showCps (DicText.writeAll names vsuf es))
  | _ => none

end Driver
