import Driver.Util
import Chokan.Model.KanaAlpha
import Chokan.Gen.KanaAlpha

namespace Driver
open Chokan

def kanaOps (op : String) (arg : String) : Option String :=
  match op with
  | "kana" => some (match KanaAlpha.convert Gen.KanaAlpha.table (parseCps arg) with
      | some r => "ok " ++ showCps r
      | none => "nonterminating")
  | "nfd" => some ("ok " ++ showCps (KanaAlpha.nfdKana (parseCps arg)))
  | _ => none

end Driver
