import Driver.Util
import Driver.DicOps
import Chokan.Model.Kkc
import Chokan.Gen.Kkc

namespace Driver
open Chokan Chokan.Kkc Chokan.Dic

structure KkcState where
  alpha : List Nat := []
  std : List (Str × List Word) := []
  stdTrie : List Str := []
  anc : List (Str × List Word) := []
  ancTrie : List Str := []
  freq : Freq := []

def tables : Tables :=
  { wordEdges := Gen.Kkc.wordEdges, virtEdges := Gen.Kkc.virtEdges, headEdges := Gen.Kkc.headEdges,
    mergeHead := Gen.Kkc.mergeHead, properBonus := Gen.Kkc.properBonus }

def dotted (s : List Nat) : String := if s.isEmpty then "-" else ".".intercalate (s.map toString)

def parseCtx : String → Ctx
  | "foreign" => .foreignWord | "numeral" => .numeral | "proper" => .proper | _ => .normal

def showScore : Score → String
  | some n => toString n
  | none => "-1"

def showNode : Node → String
  | .word e i w f => s!"w/{e}/{i}/{showScore f}/{dotted w.word}/{dotted w.reading}/{speechToken w.speech}"
  | .virt e i s f => s!"v/{e}/{i}/{showScore f}/{dotted s}/{dotted s}/-"
  | .bos => "bos"
  | .eos => "eos"

def nodeFull : Node → String
  | .word e i w _ => s!"w{e}.{i}~{dotted w.word}~{dotted w.reading}~{speechToken w.speech}"
  | .virt e i s _ => s!"v{e}.{i}~{dotted s}~{dotted s}~-"
  | .bos => "bos"
  | .eos => "eos"

def nodeId : Node → String
  | .word e i _ _ => s!"w{e}.{i}"
  | .virt e i _ _ => s!"v{e}.{i}"
  | .bos => "bos"
  | .eos => "eos"

def KkcState.dict (s : KkcState) : Dict :=
  { std := s.std, stdTrie := s.stdTrie, anc := s.anc, ancTrie := s.ancTrie }

def showCand (c : Cand) : String :=
  let aff := match withAffix c.chain with
    | some (w, r) => dotted w ++ "," ++ dotted r
    | none => "-"
  let ind := match independentWord c.chain with
    | some w => dotted w
    | none => "-"
  s!"{dotted c.text};{c.score};{c.priority};{",".intercalate (c.chain.map nodeFull)};{ind};{aff}"

def searchFuel : Nat := 2000000

def kkcOps (st : KkcState) (op : String) (arg : String) : Option (KkcState × String) :=
  let f := fieldsOf arg
  let g (i : Nat) : String := f.getD i ""
  match op with
  | "kreset" => some ({ alpha := parseCps arg }, "ok")
  | "kword" =>
    -- kword std|anc|stdmap|ancmap <reading> | <surface> | <speech token>
    let hd := (g 0).splitOn " "
    let which := hd.headD ""
    let reading := parseCps (" ".intercalate (hd.drop 1))
    match parseSpeechToken (g 2) with
    | none => some (st, "bad-speech")
    | some sp =>
      let w : Word := ⟨parseCps (g 1), reading, sp⟩
      let inAlpha := reading.all fun c => st.alpha.contains c
      let addTrie (t : List Str) : List Str := if inAlpha && !(t.any (Kkc.beqStr reading)) then t ++ [reading] else t
      match which with
      | "std" => some ({ st with std := addToMap st.std reading w, stdTrie := addTrie st.stdTrie }, "ok")
      | "anc" => some ({ st with anc := addToMap st.anc reading w, ancTrie := addTrie st.ancTrie }, "ok")
      | "stdmap" => some ({ st with std := addToMap st.std reading w }, "ok")
      | "ancmap" => some ({ st with anc := addToMap st.anc reading w }, "ok")
      | _ => some (st, "bad-dict")
  | "ktrie" =>
    -- ktrie std|anc <key>: a key present in the trie only
    let hd := (g 0).splitOn " "
    let key := parseCps (" ".intercalate (hd.drop 1))
    let inAlpha := key.all fun c => st.alpha.contains c
    if !inAlpha then some (st, "reject") else
    match hd.headD "" with
    | "std" => some ({ st with stdTrie := if st.stdTrie.any (Kkc.beqStr key) then st.stdTrie else st.stdTrie ++ [key] }, "ok")
    | "anc" => some ({ st with ancTrie := if st.ancTrie.any (Kkc.beqStr key) then st.ancTrie else st.ancTrie ++ [key] }, "ok")
    | _ => some (st, "bad-dict")
  | "kfreq" =>
    -- kfreq <ctx> <surface> | <count>: learned count (replaces an earlier one)
    let hd := (g 0).splitOn " "
    let ctx := parseCtx (hd.headD "")
    let w := parseCps (" ".intercalate (hd.drop 1))
    let n := (g 1).toNat?.getD 0
    some ({ st with freq := ((ctx, w), n) :: st.freq.filter fun p => !(p.1.1 = ctx ∧ Kkc.beqStr p.1.2 w) }, "ok")
  | "kfreqrt" =>
    -- the learned counts written and read back (what a restart does to them): the model's table is a value, nothing to do
    some (st, "ok")
  | "klattice" =>
    let hd := arg.splitOn " "
    let ctx := parseCtx (hd.headD "")
    let input := parseCps (" ".intercalate (hd.drop 1))
    match fromInput tables input st.dict ctx with
    | none => some (st, "panic")
    | some gr =>
      let gr := forwardDp tables ctx st.freq gr
      some (st, "ok " ++ " | ".intercalate (gr.map fun l => " ".intercalate (l.map showNode)))
  | "kedges" =>
    let hd := arg.splitOn " "
    let ctx := parseCtx (hd.headD "")
    let input := parseCps (" ".intercalate (hd.drop 1))
    match fromInput tables input st.dict ctx with
    | none => some (st, "panic")
    | some gr =>
      let gr := forwardDp tables ctx st.freq gr
      let all := gr.flatten ++ [Node.eos]
      let es := all.flatMap fun n => (previous gr n).map fun p =>
        s!"{nodeId p}>{nodeId n}:{showScore (edgeScore tables ctx p n)}:{showScore (nodeScore tables ctx st.freq n)}"
      some (st, "ok " ++ " ".intercalate es)
  | "kcands" =>
    -- kcands <ctx> <n> <input>
    let hd := arg.splitOn " "
    let ctx := parseCtx (hd.headD "")
    let n := ((hd.drop 1).headD "").toNat?.getD 1
    let input := parseCps (" ".intercalate (hd.drop 2))
    match getCandidates tables input st.dict ctx st.freq n searchFuel with
    | none => some (st, "panic")
    | some cs => some (st, "ok " ++ " | ".intercalate (cs.map showCand))
  | _ => none

end Driver
