/-
Line-protocol driver: one request per line on stdin, one canonical reply per line.
Strings travel as space-separated decimal code points ("-" = empty string).
Imports models and generated tables only (no Mathlib), so it links as a `lean_exe`.
-/
import Driver.Ops

partial def loop (h : IO.FS.Stream) (out : IO.FS.Stream) (st : Driver.State) : IO Unit := do
  let line ← h.getLine
  if line.isEmpty then return ()
  let l := line.trimAsciiEnd.toString
  if l.isEmpty then loop h out st
  else
    let (st', r) := Driver.handle st l
    out.putStrLn r
    loop h out st'

def main : IO Unit := do
  let stdin ← IO.getStdin
  let stdout ← IO.getStdout
  loop stdin stdout {}
  stdout.flush
