import Driver.Util
import Chokan.Model.Romaji
import Chokan.Gen.Romaji
import Driver.DicOps
import Driver.KanaOps
import Driver.TrieOps
import Driver.KkcOps
import Driver.ServerOps
import Driver.SkkOps
import Driver.ConcOps

namespace Driver
open Chokan

def romaOps (op : String) (arg : String) : Option String :=
  let t := Gen.Romaji.romanTable
  let cs := Gen.Romaji.consonants
  let b := Gen.Romaji.dotimesBound (Romaji.maxKey t)
  match op with
  | "roma" => some (match Romaji.conv t cs b (parseCps arg) with
      | some r => "ok " ++ showCps r
      | none => "error")
  | "kata" => some ("ok " ++ showCps (Romaji.hiraToKata Gen.Romaji.katakanaTable (parseCps arg)))
  | "sokuon" => some ("ok " ++ (if Romaji.sokuonP cs (parseCps arg) then "t" else "nil"))
  | _ => none

structure State where
  trie : Option Chokan.Trie.Trie := none
  kkc : KkcState := {}
  srv : Option Chokan.Server.State := none
  tankan : List (Chokan.Dic.Str × List Chokan.Dic.Word) := []

def handle (st : State) (line : String) : State × String :=
  let (op, arg) := splitOp line
  match trieOps st.trie op arg with
  | some (t, r) => ({ st with trie := t }, r.trimAsciiEnd.toString)
  | none =>
    match builderOps st.kkc st.tankan op arg with
    | some (k, tk, r) => ({ st with kkc := k, tankan := tk }, r.trimAsciiEnd.toString)
    | none =>
    match serverOps st.srv op arg with
    | some (sv, r) => ({ st with srv := sv }, r.trimAsciiEnd.toString)
    | none =>
    match kkcOps st.kkc op arg with
    | some (k, r) => ({ st with kkc := k }, r.trimAsciiEnd.toString)
    | none =>
    let r := (((romaOps op arg).orElse fun _ => dicOps op arg).orElse fun _ => kanaOps op arg).orElse fun _ => (skkOps op arg).orElse fun _ => concOps op arg
    match r with
    | some r => (st, r.trimAsciiEnd.toString)
    | none => (st, "bad-op")

end Driver
