import Driver.Util
import Chokan.Model.Romaji
import Chokan.Gen.Romaji
import Driver.DicOps
import Driver.KanaOps

namespace Driver
open Chokan

def romaOps (op : String) (arg : String) : Option String :=
  let t := Gen.Romaji.romanTable
  let cs := Gen.Romaji.consonants
  let b := Gen.Romaji.dotimesBound (Romaji.maxKey t)
  match op with
  | "roma" => some (match Romaji.conv t cs b (parseCps arg) with
      | some r => "ok " ++ showCps r
      | none => "error")
  | "kata" => some ("ok " ++ showCps (Romaji.hiraToKata Gen.Romaji.katakanaTable (parseCps arg)))
  | "sokuon" => some ("ok " ++ (if Romaji.sokuonP cs (parseCps arg) then "t" else "nil"))
  | _ => none

def handle (line : String) : String :=
  let (op, arg) := splitOp line
  let r := ((romaOps op arg).orElse fun _ => dicOps op arg).orElse fun _ => kanaOps op arg
  match r with
  | some r => r.trimAsciiEnd.toString
  | none => "bad-op"

end Driver
