import Driver.Util
import Driver.DicOps
import Driver.KkcOps
import Chokan.Model.Server
import Chokan.Gen.Server
import Chokan.Gen.KanaAlpha
import Chokan.Model.Fine

namespace Driver
open Chokan Chokan.Server Chokan.Kkc Chokan.Dic

def cfg : Cfg :=
  { tables := tables, conj := Gen.Dic.conjTable, adj := Gen.Dic.adjectiveForms, adjv := Gen.Dic.adjectivalVerbForms,
    guess := Gen.Dic.guessTable, names := Gen.Dic.simpleNames, vsuf := Gen.Dic.verbSuffix,
    kanaClass := Gen.DicGrammar.kanaClass, alts := Gen.DicGrammar.speechAlts, kata := Gen.DicGrammar.katakanaClass,
    alpha := Gen.Server.alphabet, kanaAlpha := Gen.KanaAlpha.table, expiryMs := Gen.Server.expiryMs,
    nCandidates := Gen.Server.nCandidates, fuel := searchFuel }

def ctxName : Ctx → String
  | .normal => "Normal" | .foreignWord => "ForeignWord" | .numeral => "Numeral" | .proper => "Proper"

def showInt (i : Int) : String := toString i

def dumpState (s : State) : String :=
  let fr := (s.freq.map fun e => s!"{ctxName e.ctx}:{dotted e.word}:{e.count}:{showInt e.last}")
  let fr := (fr.toArray.qsort (· < ·)).toList
  let ue := s.userDict.map fun e => dotted (printEntry cfg.names cfg.vsuf e)
  s!"freq={",".intercalate fr} user={",".intercalate ue} sessions={s.sessions.length} pending={s.pending.length}"

def dumpMap (m : List (Str × List Word)) : String :=
  let rows := m.map fun (k, ws) =>
    (k, dotted k ++ "=" ++ ",".intercalate (ws.map fun (w : Word) => s!"{dotted w.word}/{dotted w.reading}/{speechToken w.speech}"))
  let sorted := (rows.toArray.qsort (fun a b => ltStr a.1 b.1)).toList
  "ok " ++ " ".intercalate (sorted.map (·.2))

/-- Builder ops (C11): build the three maps from source text with the model of chokan-dic; the graph
dictionary is handed to the kkc ops state so that `kcands` converts on it. -/
def builderOps (k : KkcState) (tk : List (Str × List Word)) (op : String) (arg : String) :
    Option (KkcState × List (Str × List Word) × String) :=
  let f := fieldsOf arg
  let g (i : Nat) : String := f.getD i ""
  match op with
  | "bbuild" =>
    match buildMap cfg (parseCps (g 0)), buildMap cfg (parseCps (g 1)), buildMap cfg (parseCps (g 2)) with
    | some (std, stdT), some (anc, ancT), some (tkm, _) =>
      some ({ alpha := cfg.alpha, std := std, stdTrie := stdT, anc := anc, ancTrie := ancT, freq := [] }, tkm, "ok")
    | _, _, _ => some (k, tk, "panic")
  | "bdump" =>
    match arg.trimAscii.toString with
    | "std" => some (k, tk, dumpMap k.std)
    | "anc" => some (k, tk, dumpMap k.anc)
    | "tankan" => some (k, tk, dumpMap tk)
    | _ => some (k, tk, "bad-dict")
  | "bhas" =>
    let hd := arg.splitOn " "
    let key := parseCps (" ".intercalate (hd.drop 1))
    let t := if hd.headD "" == "std" then k.stdTrie else k.ancTrie
    some (k, tk, if t.any (Kkc.beqStr key) then "yes" else "no")
  | "btankan" =>
    some (k, tk, "ok " ++ ",".intercalate (((Kkc.findMap (parseCps arg) tk).getD []).map fun w => dotted w.word))
  | _ => none

def serverOps (st : Option State) (op : String) (arg : String) : Option (Option State × String) :=
  let f := fieldsOf arg
  let g (i : Nat) : String := f.getD i ""
  match op with
  | "sload" =>
    match buildMap cfg (parseCps (g 0)), buildMap cfg (parseCps (g 1)), buildMap cfg (parseCps (g 2)) with
    | some (std, stdT), some (anc, ancT), some (tk, _) =>
      let base : Dict := { std := std, stdTrie := stdT, anc := anc, ancTrie := ancT }
      match start cfg base tk ((g 3) == "1") none with
      | some s => some (some s, "ok")
      | none => some (none, "panic")
    | _, _, _ => some (none, "panic")
  | _ =>
    match st with
    | none => if op.startsWith "s" && ["sconv", "stankan", "sconfirm", "sregister", "sapply", "sapplyall", "ssave", "srestart", "sdump", "sfine-updater-split"].contains op
              then some (none, "no-server") else none
    | some s =>
      match op with
      | "sconv" =>
        let hd := arg.splitOn " "
        let ctx := parseCtx (hd.headD "")
        let input := parseCps (" ".intercalate (hd.drop 1))
        match convert cfg s ctx input with
        | some (s', sid, cs) => some (some s', s!"ok sid={sid} " ++ ",".intercalate (cs.map fun c => dotted c.text))
        | none => some (st, "panic")
      | "stankan" => some (st, "ok " ++ ",".intercalate ((tankanCandidates s (parseCps arg)).map dotted))
      | "sconfirm" =>
        let hd := arg.splitOn " "
        let sid := (hd.getD 0 "").toNat?
        -- the candidate id travels as the request's own string (code points joined by '.')
        let cid := String.ofList (((hd.getD 1 "").splitOn ".").filterMap fun w => w.toNat?.map Char.ofNat)
        let now := (hd.getD 2 "0").toInt?.getD 0
        match sid with
        | some sid => some (some (confirmId cfg s sid cid now), "ok")
        | none => some (st, "ok")       -- an id that is not a known session: nothing happens
      | "sregister" =>
        let hd := (g 0).splitOn " "
        let kind := match hd.headD "" with | "Guess" => RegKind.guess | "ProperNoun" => .properNoun | _ => .commonNoun
        match register cfg s kind (parseCps (" ".intercalate (hd.drop 1))) (parseCps (g 1)) with
        | some s' => some (some s', "ok")
        | none => some (st, "closed")
      | "sapplyall" =>
        let rec go (fuel : Nat) (s : State) : Option State :=
          match fuel with
          | 0 => some s
          | fuel + 1 => if s.pending.isEmpty then some s else (applyEntry cfg s).bind (go fuel)
        match go (s.pending.length + 1) s with
        | some s' => some (some s', "ok")
        | none => some (st, "panic")
      | "ssave" => some (some (save cfg s), "ok")
      | "srestart" =>
        match restart cfg s with
        | some s' => some (some s', "ok")
        | none => some (st, "panic")
      | "sfine-updater-split" =>
        -- the interleaving model with data, from the current server state: a registration is acknowledged, the updater
        -- records it in the user dictionary (first critical section) and is then held up before the dictionary lock;
        -- a conversion runs in between, the updater finishes, a second conversion runs
        let hd := (g 0).splitOn " "
        let kind := match hd.headD "" with | "Guess" => RegKind.guess | "ProperNoun" => .properNoun | _ => .commonNoun
        let reading := parseCps (" ".intercalate (hd.drop 1))
        let word := parseCps (g 1)
        let probe := parseCps (g 2)
        let convPath := ((Chokan.Conc.convertingPaths Gen.Server.handlerPaths).headD [])
        let regPath := ((Chokan.Conc.pathsOf "RegisterWord" Gen.Server.handlerPaths).headD [])
        let reqs : List (List Gen.Server.Ev × Chokan.Fine.Req) :=
          [(regPath, .register kind reading word), (convPath, .conv .normal probe), (convPath, .conv .normal probe)]
        let d0 := Chokan.Fine.finit Gen.Server.chanUnbounded (fun _ => 0) reqs Gen.Server.taskPaths s
        -- the updater is the loop that receives entries; its iteration restarts on the path on which every block is entered
        let ui := (Gen.Server.taskMain.findIdx fun p => p.contains (.recv .entry))
        let u := reqs.length + ui
        let k := ((Gen.Server.taskPaths.getD ui []).length - 1)
        let runThread (d : Chokan.Fine.FSt) (i : Nat) (stop : List Gen.Server.Ev → Bool) : Chokan.Fine.FSt :=
          (List.range 40).foldl (fun d _ =>
            match d.st.threads[i]? with
            | some t => if stop t.rest || !(Chokan.Conc.enabled d.st t) then d else Chokan.Fine.fstep cfg d (i, k)
            | none => d) d
        let d1 := runThread d0 0 (·.isEmpty)
        -- restart the loop, then run up to (not including) the acquisition of the dictionary lock
        let d2 := runThread (Chokan.Fine.fstep cfg d1 (u, k)) u (fun r => r.head? == some (.acq .dictionary) || r.isEmpty)
        let d3 := runThread d2 1 (·.isEmpty)
        let d4 := runThread d3 u (·.isEmpty)
        let d5 := runThread d4 2 (·.isEmpty)
        let cands (d : Chokan.Fine.FSt) (i : Nat) : String :=
          ",".intercalate (((d.locals[i]?.map (·.cands)).getD []).map fun c => dotted c.text)
        some (some d5.data, s!"ok between_user={d3.data.userDict.length} between={cands d3 1} after={cands d5 2} " ++
          s!"answered={(d5.locals.take 3).all (·.answered)}")
      | "sdump" => some (st, dumpState s)
      | _ => none

end Driver
