import Driver.Util
import Driver.DicOps
import Chokan.Model.Skk
import Chokan.Model.SkkNotes

namespace Driver
open Chokan Chokan.Dic Chokan.Skk

def showConv (r : Option (Option (List Entry))) : String :=
  match r with
  | none => "err"
  | some none => "none"
  | some (some es) => if es.isEmpty then "some" else "some " ++ " ;; ".intercalate (es.map showEntry)

def skkOps (op : String) (arg : String) : Option String :=
  let line := parseCps arg
  match op with
  | "skk" => some (match parseSkk line with
      | none => "err"
      | some e => s!"some {showCps e.reading} ; {match e.okuri with | some o => showCps o | none => "none"} ; {" , ".intercalate (e.words.map showCps)}")
  | "skknoun" => some (showConv (parseNouns line))
  | "skkproper" => some (showConv (parsePropers line))
  | "skktankan" => some (showConv (parseTankan line))
  | "skknote" => some (match Chokan.SkkNotes.parseNote line with
      | .err => "err"
      | .none => "none"
      | .note n => match Chokan.SkkNotes.noteToEntries n with
        | .ok es => if es.isEmpty then "some" else "some " ++ " ;; ".intercalate (es.map showEntry)
        | .unsupported => "unsupported"
        | .panic => "panic-convert")
  | _ => none

end Driver
