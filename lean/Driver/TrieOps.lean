import Driver.Util
import Chokan.Model.Trie

namespace Driver
open Chokan Chokan.Trie

def showOpt : Option Nat → String
  | some n => toString n
  | none => "-1"

def dumpNodes (s : Nodes) : String :=
  let slots := ",".intercalate (s.slots.map fun (b, c) => showOpt b ++ ":" ++ showOpt c)
  let free := ",".intercalate ((s.free.toArray.qsort (· < ·)).toList.map toString)
  "size=" ++ toString s.size ++ " slots=" ++ slots ++ " free=" ++ free

def parseNats (s : String) : List Nat :=
  (s.trimAscii.toString.splitOn " ").filterMap (·.toNat?)

/-- Returns (new trie state, reply). -/
def trieOps (st : Option Trie) (op : String) (arg : String) : Option (Option Trie × String) :=
  match op with
  | "tnew" => some (some (Trie.fromKeys (parseCps arg)), "ok")
  | "tins" =>
    match st with
    | none => some (st, "no-trie")
    | some t =>
      let parts := arg.splitOn "|"
      let key := parseCps (parts.getD 0 "")
      let oracle := parseNats (parts.getD 1 "")
      match t.insert key oracle with
      | .ok (t', rest) =>
        let used := oracle.take (oracle.length - rest.length)
        some (some t', "ok | " ++ " ".intercalate (used.map toString) ++ (if rest.isEmpty then "" else " unused=" ++ toString rest.length))
      | .reject => some (st, "reject")
      | .panic => some (st, "panic")
      | .badOracle => some (st, "badoracle")
  | "tq" =>
    match st with
    | none => some (st, "no-trie")
    | some t => some (st, match t.search (parseCps arg) with | some i => "some " ++ toString i | none => "none")
  | "tdump" =>
    match st with
    | none => some (st, "no-trie")
    | some t => some (st, dumpNodes t.nodes)
  | "trt" => some (st, "ok")      -- clone / serde round trip: identity on the abstract state
  | _ => none

end Driver
