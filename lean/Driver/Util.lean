namespace Driver

/-- "97 12354" → [97, 12354]; "-" or "" → []. Unparsable tokens are dropped. -/
def parseCps (s : String) : List Nat :=
  let t := s.trimAscii.toString
  if t == "-" || t == "" then [] else
  (t.splitOn " ").filterMap (fun w => w.toNat?)

def showCps (l : List Nat) : String :=
  if l.isEmpty then "-" else " ".intercalate (l.map toString)

/-- Split a request line into the operation word and the rest. -/
def splitOp (line : String) : String × String :=
  match line.splitOn " " with
  | [] => ("", "")
  | op :: rest => (op, " ".intercalate rest)

end Driver
