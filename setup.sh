#!/bin/sh
# Run once in /verif after a fresh restore, offline: build the framework from files on disk only.
set -e
cd "$(dirname "$0")"
export CARGO_NET_OFFLINE=true
python3 tools/extract.py >/dev/null
(cd lean && lake build Chokan chokan_driver)
if [ -d harness ]; then
  cp /repo/Cargo.lock harness/Cargo.lock 2>/dev/null || true
  (cd harness && RUSTFLAGS="--cfg chokan_verif" CARGO_TARGET_DIR=/verif/.cache/harness-target cargo build --offline --release)
fi
echo setup-ok
