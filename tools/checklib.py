"""Shared machinery of ./check: regenerate -> build obligations -> audit -> correspondence -> verdict.

See DESIGN.md section 3.  One instance of `Run` per invocation of ./check.
"""
import fcntl
import hashlib
import json
import os
import re
import subprocess
import sys
import time

VERIF = os.path.dirname(os.path.dirname(os.path.abspath(__file__)))
REPO = os.environ.get("CHOKAN_REPO", "/repo")
LEAN = os.path.join(VERIF, "lean")
CACHE = os.path.join(VERIF, ".cache")
EVID = os.path.join(VERIF, "evidence")
REPLAY = os.path.join(EVID, "replay")
ALLOWED_AXIOMS = {"propext", "Classical.choice", "Quot.sound"}
FORBIDDEN = re.compile(r"\bsorry\b|\badmit\b|^\s*axiom\s|native_decide|bv_decide|implemented_by|\bunsafe\s|maxHeartbeats\s+0|@\[extern")

sys.path.insert(0, os.path.join(VERIF, "tools"))
import extract  # noqa: E402


def sh(cmd, cwd=None, env=None, input=None, timeout=None):
    e = dict(os.environ)
    if env:
        e.update(env)
    p = subprocess.run(cmd, cwd=cwd, env=e, input=input, stdout=subprocess.PIPE, stderr=subprocess.STDOUT,
                       text=True, timeout=timeout, shell=isinstance(cmd, str))
    return p.returncode, p.stdout


class Lock:
    def __init__(self, name):
        os.makedirs(CACHE, exist_ok=True)
        self.path = os.path.join(CACHE, name + ".lock")

    def __enter__(self):
        self.f = open(self.path, "w")
        fcntl.flock(self.f, fcntl.LOCK_EX)
        return self

    def __exit__(self, *a):
        fcntl.flock(self.f, fcntl.LOCK_UN)
        self.f.close()


def strip_lean_comments(text):
    out = []
    i = 0
    depth = 0
    n = len(text)
    while i < n:
        if text.startswith("/-", i):
            depth += 1
            i += 2
            continue
        if depth and text.startswith("-/", i):
            depth -= 1
            i += 2
            continue
        if depth:
            if text[i] == "\n":
                out.append("\n")
            i += 1
            continue
        if text.startswith("--", i):
            while i < n and text[i] != "\n":
                i += 1
            continue
        out.append(text[i])
        i += 1
    return "".join(out)


class Failure:
    """Something that no longer checks. `witness` (JSON-able) is a concrete input/state/history on
    which the IMPLEMENTATION violates the property; None when none was found."""

    def __init__(self, kind, what, witness=None, key=None, detail=None):
        self.kind = kind          # extract | proof | audit | correspondence | oracle | infra
        self.what = what
        self.witness = witness
        self.key = key            # dict used to match known_findings.json entries
        self.detail = detail


class Run:
    def __init__(self, prop, tier, seed):
        self.prop = prop
        self.tier = tier
        self.seed = seed
        self.t0 = time.time()
        self.failures = []
        self.notes = []
        self.cov = {"evaluations": 0, "distinct_nontrivial": 0, "rule": "", "samples": [],
                    "obligations": 0, "discharged": 0, "checker_cmd": "", "trusted_base": []}
        self.assumptions = []
        self.extract_meta = None
        self.theorems = []
        self.axioms = {}
        os.makedirs(CACHE, exist_ok=True)
        os.makedirs(REPLAY, exist_ok=True)

    # ------------------------------------------------------------ step 1: regenerate
    def regenerate(self, modules):
        with Lock("lake"):
            meta = extract.run(REPO, os.path.join(LEAN, "Chokan", "Gen"), None)
        self.extract_meta = meta
        self.cov["translator"] = {"modules": modules, "changed": meta["changed"],
                                  "info": {m: meta["info"].get(m) for m in modules}}
        for p in meta["problems"]:
            if p["module"] in modules:
                self.failures.append(Failure("extract", "translator: %s: %s" % (p["module"], p["what"])))
        return meta

    # ------------------------------------------------------------ step 2: build obligations
    def props_file(self):
        return os.path.join(LEAN, "Chokan", "Props", self.prop + ".lean")

    def list_theorems(self):
        text = strip_lean_comments(open(self.props_file(), encoding="utf-8").read())
        names = re.findall(r"^\s*theorem\s+([A-Za-z0-9_'.]+)", text, flags=re.M)
        ns = re.search(r"^namespace\s+(\S+)", text, flags=re.M)
        self.namespace = ns.group(1) if ns else ""
        self.theorems = names
        return names

    def build_props(self, extra_targets=()):
        names = self.list_theorems()
        self.cov["obligations"] = len(names)
        target = "Chokan.Props." + self.prop
        cmd = ["lake", "build", target] + list(extra_targets)
        self.cov["checker_cmd"] = "cd /verif/lean && " + " ".join(cmd) + " && lake env lean <generated #print axioms file>"
        with Lock("lake"):
            t = time.time()
            rc, out = sh(cmd, cwd=LEAN, timeout=3600)
            self.cov["lake_build_s"] = round(time.time() - t, 1)
        self.build_log = out
        if rc != 0:
            failed = self.map_errors(out)
            self.cov["discharged"] = max(0, len(names) - len(failed)) if failed and "*" not in failed else 0
            for th in sorted(failed):
                self.failures.append(Failure("proof", "theorem %s no longer checks" % th
                                             if th != "*" else "a lemma/model/generated module the theorems depend on no longer builds",
                                             detail=self.error_excerpt(out)))
            self.cov["failed_theorems"] = sorted(failed)
            return False
        self.cov["discharged"] = len(names)
        return True

    def error_excerpt(self, out):
        lines = [l for l in out.splitlines() if l.startswith("error:")]
        return "\n".join(lines[:12])

    def map_errors(self, out):
        """Map `error: Chokan/Props/Cxx.lean:LINE:COL` to the enclosing theorem; errors elsewhere -> '*'."""
        failed = set()
        rel = "Chokan/Props/%s.lean" % self.prop
        src = open(self.props_file(), encoding="utf-8").read().splitlines()
        starts = []
        for i, l in enumerate(src):
            m = re.match(r"\s*(theorem|example|def|lemma|instance|abbrev)\s+([A-Za-z0-9_'.]+)?", l)
            if m:
                starts.append((i + 1, m.group(1), m.group(2)))
        any_err = False
        for m in re.finditer(r"^error: (\S+?):(\d+):(\d+):", out, flags=re.M):
            any_err = True
            f, line = m.group(1), int(m.group(2))
            if not f.endswith(rel):
                failed.add("*")
                continue
            enclosing = None
            for (ln, kind, name) in starts:
                if ln <= line:
                    enclosing = (kind, name)
            if enclosing and enclosing[0] == "theorem":
                failed.add(enclosing[1])
            else:
                failed.add("*")
        if not any_err:
            failed.add("*")
        return failed

    # ------------------------------------------------------------ step 3: audit
    def audit(self, thorough_leanchecker=True):
        # (a) forbidden tokens anywhere in the Lean tree (comments stripped)
        bad = []
        for root, _, files in os.walk(LEAN):
            if ".lake" in root:
                continue
            for fn in files:
                if fn.endswith(".lean"):
                    p = os.path.join(root, fn)
                    text = strip_lean_comments(open(p, encoding="utf-8").read())
                    for i, l in enumerate(text.splitlines()):
                        if FORBIDDEN.search(l):
                            bad.append("%s:%d: %s" % (os.path.relpath(p, LEAN), i + 1, l.strip()[:80]))
        if bad:
            self.failures.append(Failure("audit", "forbidden construct in Lean sources", detail="\n".join(bad[:10])))
        # (b) #print axioms for every property theorem
        if not self.theorems:
            self.list_theorems()
        body = "import Chokan.Props.%s\n" % self.prop
        for th in self.theorems:
            body += "#print axioms %s.%s\n" % (self.namespace, th) if self.namespace else "#print axioms %s\n" % th
        path = os.path.join(CACHE, "audit_%s.lean" % self.prop)
        with open(path, "w") as f:
            f.write(body)
        rc, out = sh(["lake", "env", "lean", path], cwd=LEAN, timeout=900)
        axioms = {}
        for m in re.finditer(r"'([^']+)' depends on axioms: \[([^\]]*)\]", out, flags=re.S):
            axioms[m.group(1).split(".")[-1]] = [a.strip() for a in m.group(2).replace("\n", " ").split(",") if a.strip()]
        for m in re.finditer(r"'([^']+)' does not depend on any axioms", out):
            axioms[m.group(1).split(".")[-1]] = []
        self.axioms = axioms
        used = set()
        ok = True
        for th in self.theorems:
            if th not in axioms:
                ok = False
                self.failures.append(Failure("audit", "no `#print axioms` result for %s" % th, detail=out[-600:]))
                continue
            extra = set(axioms[th]) - ALLOWED_AXIOMS
            used |= set(axioms[th])
            if extra:
                ok = False
                self.failures.append(Failure("audit", "theorem %s depends on non-standard axioms %s" % (th, sorted(extra))))
        if not ok:
            self.cov["discharged"] = min(self.cov["discharged"], sum(
                1 for th in self.theorems if th in axioms and not (set(axioms[th]) - ALLOWED_AXIOMS)))
        tb = ["Lean 4.33.0 kernel"] + ["axiom " + a for a in sorted(used)]
        self.cov["trusted_base"] = tb
        self.cov["axioms_per_theorem"] = axioms
        if self.tier == "thorough" and thorough_leanchecker:
            rc, out = sh(["lake", "env", "leanchecker", "Chokan.Props." + self.prop], cwd=LEAN, timeout=3600)
            self.cov["leanchecker_rc"] = rc
            if rc != 0:
                self.failures.append(Failure("audit", "leanchecker rejected Chokan.Props.%s" % self.prop, detail=out[-800:]))
        return ok

    # ------------------------------------------------------------ driver / harness
    def build_driver(self):
        with Lock("lake"):
            rc, out = sh(["lake", "build", "chokan_driver"], cwd=LEAN, timeout=3600)
        if rc != 0:
            self.failures.append(Failure("proof", "the executable model (driver) no longer builds against the regenerated tables",
                                         detail=self.error_excerpt(out)))
            return None
        return os.path.join(LEAN, ".lake", "build", "bin", "chokan_driver")

    def run_driver(self, lines, timeout=1800):
        exe = self.build_driver()
        if exe is None:
            return None
        p = subprocess.run([exe], input="\n".join(lines) + "\n", stdout=subprocess.PIPE, stderr=subprocess.PIPE,
                           text=True, timeout=timeout)
        if p.returncode != 0:
            self.failures.append(Failure("infra", "driver crashed", detail=p.stderr[-500:]))
            return None
        out = p.stdout.splitlines()
        if len(out) != len([l for l in lines if l.strip()]):
            self.failures.append(Failure("infra", "driver answered %d lines for %d requests" % (len(out), len(lines))))
            return None
        return out

    def build_harness(self, bins=None):
        hdir = os.path.join(VERIF, "harness")
        env = {"CARGO_NET_OFFLINE": "true", "RUSTFLAGS": "--cfg chokan_verif",
               "CARGO_TARGET_DIR": os.path.join(CACHE, "harness-target")}
        # the lock file of the harness follows /repo's (same registry cache, offline)
        cmd = ["cargo", "build", "--offline", "--release"]
        if bins:
            for b in bins:
                cmd += ["--bin", b]
        with Lock("cargo"):
            t = time.time()
            rc, out = sh(cmd, cwd=hdir, env=env, timeout=3600)
            self.cov["harness_build_s"] = round(time.time() - t, 1)
        if rc != 0:
            self.failures.append(Failure("infra", "harness does not build against /repo (with --cfg chokan_verif)",
                                         detail="\n".join(out.splitlines()[-25:])))
            return None
        return os.path.join(CACHE, "harness-target", "release")

    def run_harness(self, bindir, name, args=(), input=None, timeout=3600, env=None):
        e = dict(os.environ)
        if env:
            e.update(env)
        p = subprocess.run([os.path.join(bindir, name)] + list(args), input=input, stdout=subprocess.PIPE,
                           stderr=subprocess.PIPE, text=True, timeout=timeout, env=e)
        return p.returncode, p.stdout, p.stderr

    # ------------------------------------------------------------ known findings / verdict
    def known(self):
        p = os.path.join(VERIF, "known_findings.json")
        try:
            data = json.load(open(p, encoding="utf-8"))
        except FileNotFoundError:
            return []
        return [e for e in data.get("findings", []) if e.get("property") == self.prop and e.get("kind") == "known"]

    @staticmethod
    def matches(entry, key):
        if key is None:
            return False
        m = entry.get("match", {})
        return all(key.get(k) == v for k, v in m.items()) and len(m) > 0

    def finish(self):
        wall = round(time.time() - self.t0, 2)
        known = self.known()
        reported_known = {}
        violations = []
        for f in self.failures:
            if f.witness is not None:
                hit = None
                for e in known:
                    if self.matches(e, f.key):
                        hit = e
                        break
                if hit is not None:
                    reported_known.setdefault(hit["id"], hit)
                    continue
            violations.append(f)
        for kid, e in reported_known.items():
            print("KNOWN-FINDING: property=%s %s" % (self.prop, e["what"]))
        lines = []
        if violations:
            with_w = [f for f in violations if f.witness is not None]
            payload = {
                "property": self.prop, "tier": self.tier, "seed": self.seed,
                "failures": [{"kind": f.kind, "what": f.what, "witness": f.witness, "key": f.key, "detail": f.detail}
                             for f in violations],
                "how_to_replay": "./check %s --replay <this file>" % self.prop,
            }
            h = hashlib.sha1(json.dumps(payload, sort_keys=True, ensure_ascii=False, default=str).encode()).hexdigest()[:10]
            path = os.path.join(REPLAY, "%s-%s.json" % (self.prop, h))
            with open(path, "w", encoding="utf-8") as fh:
                json.dump(payload, fh, ensure_ascii=False, indent=1, default=str)
            tail = "" if with_w else " no-failing-input-found"
            lines.append("VIOLATION property=%s replay=%s%s" % (self.prop, path, tail))
        ev = {
            "property_id": self.prop, "tier": self.tier, "seed": self.seed, "level": "proof",
            "coverage": self.cov, "assumptions": self.assumptions, "wall_s": wall,
            "violations": len(violations),
        }
        ev["coverage"]["known_findings_reported"] = sorted(reported_known)
        ev["coverage"]["notes"] = self.notes
        os.makedirs(EVID, exist_ok=True)
        with open(os.path.join(EVID, self.prop + ".json"), "w", encoding="utf-8") as fh:
            json.dump(ev, fh, ensure_ascii=False, indent=1, default=str)
        # what has a concrete failing input comes first
        for f in sorted(violations, key=lambda f_: f_.witness is None)[:8]:
            print("  - [%s] %s" % (f.kind, f.what))
            if f.witness is not None:
                print("      witness: %s" % json.dumps(f.witness, ensure_ascii=False, default=str)[:400])
        for l in lines:
            print(l)
        print("%s %s tier=%s obligations=%d discharged=%d evaluations=%d wall=%.1fs" % (
            self.prop, "FAIL" if violations else "ok", self.tier, self.cov["obligations"], self.cov["discharged"],
            self.cov["evaluations"], wall))
        return 1 if violations else 0


# ------------------------------------------------------------------ small PRNG (one state per run)
class Rng:
    def __init__(self, seed):
        self.s = (seed * 0x9E3779B97F4A7C15 + 0x1234567) & 0xFFFFFFFFFFFFFFFF or 1

    def next(self):
        x = self.s
        x ^= (x << 13) & 0xFFFFFFFFFFFFFFFF
        x ^= x >> 7
        x ^= (x << 17) & 0xFFFFFFFFFFFFFFFF
        self.s = x
        return x

    def below(self, n):
        return self.next() % n

    def pick(self, seq):
        return seq[self.below(len(seq))]

    def chance(self, num, den):
        return self.below(den) < num

    def sample(self, seq, k):
        """k distinct elements, in the order drawn"""
        pool = list(seq)
        out = []
        for _ in range(min(k, len(pool))):
            out.append(pool.pop(self.below(len(pool))))
        return out


def cps(s):
    return "-" if s == "" else " ".join(str(ord(c)) for c in s)


def from_cps(t):
    t = t.strip()
    if t in ("-", ""):
        return ""
    return "".join(chr(int(x)) for x in t.split())
