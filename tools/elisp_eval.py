#!/usr/bin/env python3
"""A reader and evaluator for the Emacs-Lisp subset used by the romaji engine of chokan.el.

There is no Emacs in the sandbox, so this interprets the working-tree text of
/repo/chokan.el: the `defconst`/`defvar` tables and the defuns
chokan--roman-sokuon-p, chokan--roman-to-hiragana, chokan--roman-hira-to-kata.
Any form outside the supported subset raises Unsupported, which the check treats as
"correspondence broken" (never as a pass).

CLI:
  elisp_eval.py selftest  <chokan.el> <chokan-tests.el>   validate on the ERT expectations
  elisp_eval.py tables    <chokan.el>                     dump tables as JSON
  elisp_eval.py run       <chokan.el>                     line protocol on stdin:
        roma <cps> | kata <cps> | sokuon <cps>     (cps = space separated code points, '-' = empty)
"""
import json
import sys


class Unsupported(Exception):
    pass


class LispError(Exception):
    pass


class Sym:
    __slots__ = ("name",)
    _tab = {}

    def __new__(cls, name):
        s = cls._tab.get(name)
        if s is None:
            s = object.__new__(cls)
            s.name = name
            cls._tab[name] = s
        return s

    def __repr__(self):
        return self.name


class Cons:
    __slots__ = ("car", "cdr")

    def __init__(self, car, cdr):
        self.car = car
        self.cdr = cdr

    def __repr__(self):
        return "(%r . %r)" % (self.car, self.cdr)


class Vec:
    def __init__(self, items):
        self.items = items


NIL = Sym("nil")
T = Sym("t")


def lst(items, tail=NIL):
    r = tail
    for x in reversed(items):
        r = Cons(x, r)
    return r


def to_py(l):
    out = []
    while isinstance(l, Cons):
        out.append(l.car)
        l = l.cdr
    if l is not NIL:
        raise LispError("improper list")
    return out


# ---------------------------------------------------------------- reader
class Reader:
    def __init__(self, text):
        self.s = text
        self.i = 0

    def ws(self):
        s = self.s
        while self.i < len(s):
            c = s[self.i]
            if c == ";":
                while self.i < len(s) and s[self.i] != "\n":
                    self.i += 1
            elif c.isspace():
                self.i += 1
            else:
                break

    def eof(self):
        self.ws()
        return self.i >= len(self.s)

    def read(self):
        self.ws()
        s = self.s
        if self.i >= len(s):
            raise LispError("eof")
        c = s[self.i]
        if c == "(":
            self.i += 1
            items = []
            tail = NIL
            while True:
                self.ws()
                if self.i >= len(s):
                    raise LispError("eof in list")
                if s[self.i] == ")":
                    self.i += 1
                    break
                if s[self.i] == "." and self.i + 1 < len(s) and s[self.i + 1] in " \t\n":
                    self.i += 1
                    tail = self.read()
                    self.ws()
                    if s[self.i] != ")":
                        raise LispError("bad dotted list")
                    self.i += 1
                    break
                items.append(self.read())
            return lst(items, tail)
        if c == "[":
            self.i += 1
            items = []
            while True:
                self.ws()
                if s[self.i] == "]":
                    self.i += 1
                    break
                items.append(self.read())
            return Vec(items)
        if c == "'":
            self.i += 1
            return lst([Sym("quote"), self.read()])
        if c == "`":
            self.i += 1
            return lst([Sym("`"), self.read()])
        if c == ",":
            self.i += 1
            if s[self.i] == "@":
                self.i += 1
                return lst([Sym(",@"), self.read()])
            return lst([Sym(","), self.read()])
        if c == "#" and s[self.i + 1] == "'":
            self.i += 2
            return lst([Sym("function"), self.read()])
        if c == '"':
            self.i += 1
            out = []
            while True:
                ch = s[self.i]
                if ch == '"':
                    self.i += 1
                    break
                if ch == "\\":
                    nx = s[self.i + 1]
                    self.i += 2
                    if nx == "n":
                        out.append("\n")
                    elif nx == "t":
                        out.append("\t")
                    elif nx == "\n":
                        pass
                    elif nx in '"\\':
                        out.append(nx)
                    elif nx == "e":
                        out.append("\x1b")
                    else:
                        out.append(nx)
                    continue
                out.append(ch)
                self.i += 1
            return "".join(out)
        if c == "?":
            ch = s[self.i + 1]
            if ch == "\\":
                nx = s[self.i + 2]
                self.i += 3
                m = {"n": 10, "t": 9, "s": 32, "e": 27, "\\": 92}
                if nx in m:
                    return m[nx]
                if nx in "CMS" and s[self.i] == "-":
                    # modifier characters: not needed by the romaji engine; read as opaque symbol
                    j = self.i
                    while j < len(s) and not s[j].isspace() and s[j] not in "()":
                        j += 1
                    tok = s[self.i - 3:j]
                    self.i = j
                    return Sym(tok)
                return ord(nx)
            self.i += 2
            return ord(ch)
        # atom
        j = self.i
        while j < len(s) and not s[j].isspace() and s[j] not in "()[]\"';`,":
            if s[j] == "\\":
                j += 1
            j += 1
        tok = s[self.i:j]
        self.i = j
        try:
            return int(tok)
        except ValueError:
            pass
        if len(tok) > 2 and tok[0] == "#" and tok[1] in "xXoObB":
            try:
                return int(tok[2:], {"x": 16, "o": 8, "b": 2}[tok[1].lower()])
            except ValueError:
                pass
        try:
            if any(ch.isdigit() for ch in tok):
                return float(tok)
        except ValueError:
            pass
        return Sym(tok)


def read_all(text):
    r = Reader(text)
    forms = []
    while not r.eof():
        forms.append(r.read())
    return forms


# ---------------------------------------------------------------- evaluator
class Return(Exception):
    def __init__(self, v):
        self.v = v


def truthy(v):
    return v is not NIL


def l_equal(a, b):
    if isinstance(a, Cons) and isinstance(b, Cons):
        while isinstance(a, Cons) and isinstance(b, Cons):
            if not l_equal(a.car, b.car):
                return False
            a, b = a.cdr, b.cdr
        return l_equal(a, b)
    if isinstance(a, Vec) and isinstance(b, Vec):
        return len(a.items) == len(b.items) and all(l_equal(x, y) for x, y in zip(a.items, b.items))
    if type(a) is not type(b):
        if isinstance(a, (int, float)) and isinstance(b, (int, float)) and type(a) == type(b):
            return a == b
        return False
    if isinstance(a, Sym):
        return a is b
    return a == b


class Env:
    def __init__(self, parent=None):
        self.v = {}
        self.parent = parent

    def find(self, name):
        e = self
        while e is not None:
            if name in e.v:
                return e
            e = e.parent
        return None


class Interp:
    def __init__(self):
        self.globals = Env()
        self.funs = {}
        self.steps = 0
        self.max_steps = 5_000_000

    # ---- loading
    def load(self, text, wanted_funs):
        for f in read_all(text):
            if not isinstance(f, Cons) or not isinstance(f.car, Sym):
                continue
            head = f.car.name
            if head in ("defconst", "defvar"):
                parts = to_py(f)
                name = parts[1].name
                if name in ("chokan--roman-table", "chokan--katakana-table",
                            "chokan--target-character-regexp"):
                    self.globals.v[name] = self.eval(parts[2], self.globals)
                elif len(parts) > 2:
                    # any other global: evaluated on first use (a function may start to depend on a new constant)
                    if not hasattr(self, "deferred"):
                        self.deferred = {}
                    self.deferred[name] = parts[2]
            elif head == "defun":
                parts = to_py(f)
                name = parts[1].name
                if name in wanted_funs or name.startswith("chokan-"):
                    # helpers a wanted function may call are kept too (only evaluated when called)
                    body = parts[3:]
                    if body and isinstance(body[0], str) and len(body) > 1:
                        body = body[1:]
                    self.funs[name] = (to_py(parts[2]), body)

    # ---- eval
    def eval(self, x, env):
        self.steps += 1
        if self.steps > self.max_steps:
            raise LispError("step budget exceeded (non-termination?)")
        if isinstance(x, (int, float, str, Vec)):
            return x
        if isinstance(x, Sym):
            if x is NIL or x is T:
                return x
            if x.name.startswith(":"):
                return x
            e = env.find(x.name)
            if e is None:
                d = getattr(self, "deferred", {})
                if x.name in d:
                    form = d.pop(x.name)
                    self.globals.v[x.name] = self.eval(form, self.globals)
                    return self.globals.v[x.name]
                raise LispError("void variable %s" % x.name)
            return e.v[x.name]
        if not isinstance(x, Cons):
            raise Unsupported(repr(x))
        head = x.car
        if isinstance(head, Cons) and head.car is Sym("lambda"):
            fn = self.eval(head, env)
            return self.apply(fn, [self.eval(a, env) for a in to_py(x.cdr)])
        if not isinstance(head, Sym):
            raise Unsupported("call head %r" % (head,))
        name = head.name
        args = to_py(x.cdr)
        sf = getattr(self, "sf_" + name.replace("-", "_").replace("*", "_star"), None)
        if sf is not None:
            return sf(args, env)
        if name == "`":
            raise Unsupported("backquote outside pcase")
        vals = [self.eval(a, env) for a in args]
        return self.call(name, vals)

    def progn(self, body, env):
        r = NIL
        for b in body:
            r = self.eval(b, env)
        return r

    # special forms
    def sf_quote(self, a, env):
        return a[0]

    def sf_function(self, a, env):
        if isinstance(a[0], Cons):
            return self.eval(a[0], env)
        return a[0]

    def sf_progn(self, a, env):
        return self.progn(a, env)

    def sf_if(self, a, env):
        if truthy(self.eval(a[0], env)):
            return self.eval(a[1], env)
        return self.progn(a[2:], env)

    def sf_and(self, a, env):
        r = T
        for e in a:
            r = self.eval(e, env)
            if not truthy(r):
                return NIL
        return r

    def sf_or(self, a, env):
        for e in a:
            r = self.eval(e, env)
            if truthy(r):
                return r
        return NIL

    def sf_let(self, a, env):
        ne = Env(env)
        vals = []
        for b in to_py(a[0]):
            if isinstance(b, Sym):
                vals.append((b.name, NIL))
            else:
                bp = to_py(b)
                vals.append((bp[0].name, self.eval(bp[1], env) if len(bp) > 1 else NIL))
        for k, v in vals:
            ne.v[k] = v
        return self.progn(a[1:], ne)

    def sf_let_star(self, a, env):
        ne = Env(env)
        for b in to_py(a[0]):
            if isinstance(b, Sym):
                ne = Env(ne)
                ne.v[b.name] = NIL
            else:
                bp = to_py(b)
                v = self.eval(bp[1], ne) if len(bp) > 1 else NIL
                ne = Env(ne)
                ne.v[bp[0].name] = v
        return self.progn(a[1:], ne)

    def sf_if_let(self, a, env):
        ne = Env(env)
        spec = to_py(a[0])
        # (if-let ((var expr)...) then else...)  or (if-let (var expr) then else...)
        if spec and isinstance(spec[0], Sym) and len(spec) == 2:
            spec = [a[0]]
        else:
            spec = spec
        ok = True
        for b in spec:
            bp = to_py(b) if isinstance(b, Cons) else [b]
            if len(bp) == 2:
                v = self.eval(bp[1], ne)
                ne = Env(ne)
                ne.v[bp[0].name] = v
            else:
                v = self.eval(bp[0], ne)
            if not truthy(v):
                ok = False
                break
        if ok:
            return self.eval(a[1], ne)
        return self.progn(a[2:], env)

    def sf_setq(self, a, env):
        r = NIL
        for i in range(0, len(a), 2):
            r = self.eval(a[i + 1], env)
            e = env.find(a[i].name)
            if e is None:
                e = self.globals
            e.v[a[i].name] = r
        return r

    def sf_when(self, a, env):
        if truthy(self.eval(a[0], env)):
            return self.progn(a[1:], env)
        return NIL

    def sf_unless(self, a, env):
        if not truthy(self.eval(a[0], env)):
            return self.progn(a[1:], env)
        return NIL

    def sf_cond(self, a, env):
        for clause in a:
            parts = to_py(clause)
            v = self.eval(parts[0], env)
            if truthy(v):
                return self.progn(parts[1:], env) if len(parts) > 1 else v
        return NIL

    def sf_prog1(self, a, env):
        r = self.eval(a[0], env)
        self.progn(a[1:], env)
        return r

    def _place(self, sym, env):
        if not isinstance(sym, Sym):
            raise Unsupported("generalised place %r" % (sym,))
        e = env.find(sym.name)
        if e is None:
            raise LispError("void variable %s" % sym.name)
        return e

    def sf_push(self, a, env):
        v = self.eval(a[0], env)
        e = self._place(a[1], env)
        e.v[a[1].name] = Cons(v, e.v[a[1].name])
        return e.v[a[1].name]

    def sf_pop(self, a, env):
        e = self._place(a[0], env)
        cur = e.v[a[0].name]
        if cur is NIL:
            return NIL
        if not isinstance(cur, Cons):
            raise LispError("wrong-type-argument listp")
        e.v[a[0].name] = cur.cdr
        return cur.car

    def sf_setf(self, a, env):
        r = NIL
        for i in range(0, len(a), 2):
            if not isinstance(a[i], Sym):
                raise Unsupported("setf of a generalised place")
            r = self.sf_setq([a[i], a[i + 1]], env)
        return r

    def sf_cl_incf(self, a, env):
        e = self._place(a[0], env)
        d = self.eval(a[1], env) if len(a) > 1 else 1
        e.v[a[0].name] = e.v[a[0].name] + d
        return e.v[a[0].name]

    sf_incf = sf_cl_incf

    def sf_cl_decf(self, a, env):
        e = self._place(a[0], env)
        d = self.eval(a[1], env) if len(a) > 1 else 1
        e.v[a[0].name] = e.v[a[0].name] - d
        return e.v[a[0].name]

    sf_decf = sf_cl_decf

    def sf_dolist(self, a, env):
        spec = to_py(a[0])
        items = self.seq_items(self.eval(spec[1], env))
        ne = Env(env)
        for it in items:
            ne.v[spec[0].name] = it
            self.progn(a[1:], ne)
        if len(spec) > 2:
            ne.v[spec[0].name] = NIL
            return self.eval(spec[2], ne)
        return NIL

    def sf_dotimes(self, a, env):
        spec = to_py(a[0])
        n = self.eval(spec[1], env)
        ne = Env(env)
        for i in range(n):
            ne.v[spec[0].name] = i
            self.progn(a[1:], ne)
        if len(spec) > 2:
            ne.v[spec[0].name] = n
            return self.eval(spec[2], ne)
        return NIL

    def sf_while(self, a, env):
        while truthy(self.eval(a[0], env)):
            self.progn(a[1:], env)
        return NIL

    def sf_lambda(self, a, env):
        return ("closure", to_py(a[0]), a[1:], env)

    def sf_cl_dotimes(self, a, env):
        spec = to_py(a[0])
        var = spec[0].name
        count = self.eval(spec[1], env)
        if not isinstance(count, int):
            raise LispError("cl-dotimes count")
        try:
            for i in range(count):
                ne = Env(env)
                ne.v[var] = i
                self.progn(a[1:], ne)
        except Return as r:
            return r.v
        if len(spec) > 2:
            ne = Env(env)
            ne.v[var] = count
            return self.eval(spec[2], ne)
        return NIL

    sf_dotimes = sf_cl_dotimes

    def sf_cl_return(self, a, env):
        raise Return(self.eval(a[0], env) if a else NIL)

    def sf_pcase(self, a, env):
        v = self.eval(a[0], env)
        for clause in a[1:]:
            cp = to_py(clause)
            pat = cp[0]
            ne = Env(env)
            if self.pmatch(pat, v, ne):
                return self.progn(cp[1:], ne)
        return NIL

    def pmatch(self, pat, v, env):
        if isinstance(pat, Sym):
            if pat.name == "_":
                return True
            env.v[pat.name] = v
            return True
        if isinstance(pat, Cons) and pat.car is Sym("`"):
            return self.qmatch(pat.cdr.car, v, env)
        if isinstance(pat, Cons) and pat.car is Sym("quote"):
            return l_equal(pat.cdr.car, v)
        if isinstance(pat, (int, str)):
            return l_equal(pat, v)
        raise Unsupported("pcase pattern %r" % (pat,))

    def qmatch(self, q, v, env):
        if isinstance(q, Cons):
            if q.car is Sym(","):
                return self.pmatch(q.cdr.car, v, env)
            if not isinstance(v, Cons):
                return False
            return self.qmatch(q.car, v.car, env) and self.qmatch(q.cdr, v.cdr, env)
        return l_equal(q, v)

    # functions
    def apply(self, fn, vals):
        if isinstance(fn, tuple) and fn[0] == "closure":
            _, params, body, cenv = fn
            ne = Env(cenv)
            self.bind(params, vals, ne)
            return self.progn(body, ne)
        if isinstance(fn, Sym):
            return self.call(fn.name, vals)
        raise Unsupported("apply %r" % (fn,))

    def bind(self, params, vals, env):
        i = 0
        optional = False
        for p in params:
            if p.name == "&optional":
                optional = True
                continue
            if p.name == "&rest":
                raise Unsupported("&rest")
            if i < len(vals):
                env.v[p.name] = vals[i]
            elif optional:
                env.v[p.name] = NIL
            else:
                raise LispError("wrong number of arguments")
            i += 1
        if i < len(vals):
            raise LispError("wrong number of arguments")

    def call(self, name, v):
        if name in self.funs:
            params, body = self.funs[name]
            ne = Env(self.globals)
            self.bind(params, v, ne)
            return self.progn(body, ne)
        fn = getattr(self, "fn_" + name.replace("-", "_").replace("=", "eq").replace(">", "gt").replace("<", "lt").replace("+", "plus").replace("*", "star"), None)
        if fn is None:
            raise Unsupported("function %s" % name)
        return fn(*v)

    @staticmethod
    def seq_items(s):
        if isinstance(s, str):
            return [ord(c) for c in s]
        if isinstance(s, Vec):
            return list(s.items)
        return to_py(s)

    def fn_seq_reduce(self, f, seq, init):
        acc = init
        for it in self.seq_items(seq):
            acc = self.apply(f, [acc, it])
        return acc

    def fn_length(self, s):
        return len(self.seq_items(s))

    fn_seq_length = fn_length

    def fn_seq_empty_p(self, s):
        return T if len(self.seq_items(s)) == 0 else NIL

    def fn_car(self, c):
        if c is NIL:
            return NIL
        if not isinstance(c, Cons):
            raise LispError("car of non-list")
        return c.car

    def fn_last(self, c, n=1):
        items = []
        while isinstance(c, Cons):
            items.append(c)
            c = c.cdr
        if not items:
            return NIL
        return items[max(0, len(items) - n)] if n > 0 else NIL

    def fn_nth(self, n, c):
        while n > 0 and isinstance(c, Cons):
            c = c.cdr
            n -= 1
        return c.car if isinstance(c, Cons) else NIL

    def fn_nthcdr(self, n, c):
        while n > 0 and isinstance(c, Cons):
            c = c.cdr
            n -= 1
        return c

    def fn_caar(self, c):
        return self.fn_car(self.fn_car(c))

    def fn_cadr(self, c):
        return self.fn_car(self.fn_cdr(c))

    def fn_cdar(self, c):
        return self.fn_cdr(self.fn_car(c))

    def fn_cddr(self, c):
        return self.fn_cdr(self.fn_cdr(c))

    def fn_null(self, a):
        return T if a is NIL else NIL

    def fn_cdr(self, c):
        if c is NIL:
            return NIL
        if not isinstance(c, Cons):
            raise LispError("cdr of non-list")
        return c.cdr

    def fn_max(self, *a):
        return max(a)

    def fn_min(self, *a):
        return min(a)

    def fn_1plus(self, a):
        return a + 1

    def fn_1_(self, a):
        return a - 1

    def fn_plus(self, *a):
        return sum(a)

    def fn__(self, *a):
        if len(a) == 1:
            return -a[0]
        r = a[0]
        for x in a[1:]:
            r -= x
        return r

    def fn_gteq(self, *a):
        return T if all(x >= y for x, y in zip(a, a[1:])) else NIL

    def fn_lteq(self, *a):
        return T if all(x <= y for x, y in zip(a, a[1:])) else NIL

    def fn_gt(self, *a):
        return T if all(x > y for x, y in zip(a, a[1:])) else NIL

    def fn_lt(self, *a):
        return T if all(x < y for x, y in zip(a, a[1:])) else NIL

    def fn_eq(self, *a):
        return T if all(x == y for x, y in zip(a, a[1:])) else NIL

    def fn_not(self, a):
        return T if a is NIL else NIL

    def fn_char_equal(self, a, b):
        """Emacs: ignores case when `case-fold-search` is non-nil in the current buffer — the default (and never changed by chokan.el)."""
        if not isinstance(a, int) or not isinstance(b, int):
            raise LispError("char-equal of non-characters")
        e_ = self.globals.find("case-fold-search")
        fold = e_.v["case-fold-search"] if e_ is not None else T
        if fold is NIL:
            return T if a == b else NIL
        return T if chr(a).lower() == chr(b).lower() else NIL

    def fn_downcase(self, a):
        return ord(chr(a).lower()) if isinstance(a, int) else a.lower()

    def fn_upcase(self, a):
        return ord(chr(a).upper()) if isinstance(a, int) else a.upper()

    def fn_eql(self, a, b):
        return T if (a.__class__ is b.__class__ and a == b) or a is b else NIL

    fn_null = fn_not

    def fn_equal(self, a, b):
        return T if l_equal(a, b) else NIL

    def fn_aref(self, s, i):
        items = self.seq_items(s)
        if not (0 <= i < len(items)):
            raise LispError("args-out-of-range aref")
        return items[i]

    def fn_memq(self, x, l):
        """`eq`: characters and other fixnums are `eq` when they are the same number; strings and conses only to themselves"""
        while isinstance(l, Cons):
            c = l.car
            if c is x or (isinstance(x, int) and isinstance(c, int) and not isinstance(x, bool) and x == c):
                return l
            l = l.cdr
        return NIL

    fn_memql = fn_memq

    def fn_assq(self, k, al):
        while isinstance(al, Cons):
            e = al.car
            if isinstance(e, Cons) and (e.car is k or (isinstance(k, int) and isinstance(e.car, int) and k == e.car)):
                return e
            al = al.cdr
        return NIL

    def fn_member(self, x, l):
        while isinstance(l, Cons):
            if l_equal(x, l.car):
                return l
            l = l.cdr
        return NIL

    def fn_assoc(self, k, al):
        if isinstance(k, str):      # fast path: string keys compare with `equal` = same type and contents
            while isinstance(al, Cons):
                e = al.car
                if isinstance(e, Cons):
                    c = e.car
                    if c.__class__ is str and c == k:
                        return e
                al = al.cdr
            return NIL
        while isinstance(al, Cons):
            e = al.car
            if isinstance(e, Cons) and l_equal(k, e.car):
                return e
            al = al.cdr
        return NIL

    def fn_substring(self, s, frm=0, to=NIL):
        if not isinstance(s, str):
            raise LispError("substring of non-string")
        n = len(s)
        if to is NIL:
            to = n
        if frm < 0:
            frm += n
        if to < 0:
            to += n
        if not (0 <= frm <= to <= n):
            raise LispError("args-out-of-range substring")
        return s[frm:to]

    def fn_seq_concatenate(self, typ, *seqs):
        if typ is not Sym("string"):
            raise Unsupported("seq-concatenate type")
        out = []
        for s in seqs:
            for c in self.seq_items(s):
                out.append(chr(c))
        return "".join(out)

    def fn_concat(self, *seqs):
        return self.fn_seq_concatenate(Sym("string"), *seqs)

    def fn_split_string(self, s, sep=NIL, omit=NIL, trim=NIL):
        if sep == "" and omit is NIL and trim is NIL:
            # Emacs: (split-string "abc" "") => ("" "a" "b" "c" "")
            return lst([""] + list(s) + [""])
        raise Unsupported("split-string with these arguments")

    def fn_mapconcat(self, f, seq, sep=""):
        parts = [self.apply(f, [it]) for it in self.seq_items(seq)]
        for p in parts:
            if not isinstance(p, str):
                raise LispError("mapconcat non-string")
        return sep.join(parts)

    def fn_nreverse(self, l):
        if isinstance(l, str):
            return l[::-1]
        return lst(list(reversed(self.seq_items(l))))

    fn_reverse = fn_nreverse
    fn_seq_reverse = fn_nreverse

    def fn_apply(self, f, *args):
        if not args:
            raise LispError("apply without argument list")
        vals = list(args[:-1]) + to_py(args[-1])
        return self.apply(f, vals)

    def fn_funcall(self, f, *args):
        return self.apply(f, list(args))

    def fn_append(self, *ls):
        if not ls:
            return NIL
        out = []
        for l in ls[:-1]:
            out.extend(self.seq_items(l))
        return lst(out, ls[-1])

    def fn_mapcar(self, f, seq):
        return lst([self.apply(f, [it]) for it in self.seq_items(seq)])

    def fn_identity(self, a):
        return a

    def fn_stringeq(self, a, b):
        a = a.name if isinstance(a, Sym) else a
        b = b.name if isinstance(b, Sym) else b
        if not isinstance(a, str) or not isinstance(b, str):
            raise LispError("wrong-type-argument stringp")
        return T if a == b else NIL

    fn_string_equal = fn_stringeq

    def fn_string_prefix_p(self, pre, s, ignore_case=NIL):
        if ignore_case is not NIL:
            return T if s.lower().startswith(pre.lower()) else NIL
        return T if s.startswith(pre) else NIL

    def fn_string_suffix_p(self, suf, s, ignore_case=NIL):
        if ignore_case is not NIL:
            return T if s.lower().endswith(suf.lower()) else NIL
        return T if s.endswith(suf) else NIL

    def fn_stringp(self, a):
        return T if isinstance(a, str) else NIL

    def fn_consp(self, a):
        return T if isinstance(a, Cons) else NIL

    def fn_listp(self, a):
        return T if isinstance(a, Cons) or a is NIL else NIL

    def fn_integerp(self, a):
        return T if isinstance(a, int) else NIL

    fn_natnump = lambda self, a: T if isinstance(a, int) and a >= 0 else NIL
    fn_characterp = fn_integerp
    fn_numberp = lambda self, a: T if isinstance(a, (int, float)) else NIL

    def fn_zerop(self, a):
        return T if a == 0 else NIL

    def fn_mod(self, a, b):
        if b == 0:
            raise LispError("arith-error")
        return a % b

    def fn_star(self, *a):
        r = 1
        for x in a:
            r *= x
        return r

    def fn_elt(self, s, i):
        items = self.seq_items(s)
        if not (0 <= i < len(items)):
            raise LispError("args-out-of-range elt")
        return items[i]

    fn_seq_elt = fn_elt

    def fn_seq_subseq(self, s, frm, to=NIL):
        if isinstance(s, str):
            return self.fn_substring(s, frm, to)
        items = self.seq_items(s)
        n = len(items)
        to = n if to is NIL else to
        if frm < 0:
            frm += n
        if to < 0:
            to += n
        if not (0 <= frm <= to <= n):
            raise LispError("args-out-of-range seq-subseq")
        return lst(items[frm:to])

    def fn_seq_take(self, s, n):
        n = max(0, n)
        return s[:n] if isinstance(s, str) else lst(self.seq_items(s)[:n])

    def fn_seq_drop(self, s, n):
        n = max(0, n)
        return s[n:] if isinstance(s, str) else lst(self.seq_items(s)[n:])

    def fn_rassoc(self, v, al):
        for it in to_py(al):
            if isinstance(it, Cons) and l_equal(it.cdr, v):
                return it
        return NIL

    def fn_string_join(self, strs, sep=NIL):
        return ("" if sep is NIL else sep).join(to_py(strs))

    def fn_number_to_string(self, n):
        return str(n)

    def fn_list(self, *a):
        return lst(list(a))

    def fn_cons(self, a, b):
        return Cons(a, b)

    def fn_string_to_char(self, s):
        return ord(s[0]) if s else 0

    def fn_char_to_string(self, c):
        return chr(c)

    def fn_string(self, *cs):
        return "".join(chr(c) for c in cs)


FUNS = ("chokan--roman-sokuon-p", "chokan--roman-to-hiragana", "chokan--roman-hira-to-kata")


def load(path):
    it = Interp()
    it.load(open(path, encoding="utf-8").read(), FUNS)
    for f in FUNS:
        if f not in it.funs:
            raise Unsupported("defun %s not found" % f)
    for t in ("chokan--roman-table", "chokan--katakana-table"):
        if t not in it.globals.v:
            raise Unsupported("table %s not found" % t)
    return it


def call(it, fn, *args):
    it.steps = 0
    return it.call(fn, list(args))


def selftest(el, tests):
    """Run every (should (equal EXPECTED (FN ARG))) of chokan-tests.el that targets the three defuns."""
    it = load(el)
    n = 0
    bad = []
    for form in read_all(open(tests, encoding="utf-8").read()):
        if not (isinstance(form, Cons) and form.car is Sym("ert-deftest")):
            continue
        stack = [form]
        while stack:
            f = stack.pop()
            if isinstance(f, Cons):
                if f.car is Sym("should"):
                    inner = f.cdr.car
                    ip = to_py(inner) if isinstance(inner, Cons) else []
                    if len(ip) == 3 and ip[0] is Sym("equal") and isinstance(ip[1], str) and isinstance(ip[2], Cons):
                        cp = to_py(ip[2])
                        if isinstance(cp[0], Sym) and cp[0].name in FUNS and all(isinstance(a, str) for a in cp[1:]):
                            got = call(it, cp[0].name, *cp[1:])
                            n += 1
                            if got != ip[1]:
                                bad.append((cp[0].name, cp[1:], ip[1], got))
                    continue
                p = f
                while isinstance(p, Cons):
                    stack.append(p.car)
                    p = p.cdr
    return n, bad


def alist_to_pairs(al):
    out = []
    for e in to_py(al):
        if isinstance(e, Cons) and isinstance(e.car, str) and isinstance(e.cdr, str):
            out.append([e.car, e.cdr])
        else:
            out.append(None)
    return out


def cps(s):
    return "-" if s == "" else " ".join(str(ord(c)) for c in s)


def from_cps(t):
    t = t.strip()
    if t == "-" or t == "":
        return ""
    return "".join(chr(int(x)) for x in t.split())


def main(argv):
    if argv[1] == "selftest":
        n, bad = selftest(argv[2], argv[3])
        print(json.dumps({"checked": n, "bad": bad}, ensure_ascii=False))
        return 0 if (n > 0 and not bad) else 1
    if argv[1] == "tables":
        it = load(argv[2])
        print(json.dumps({
            "roman": alist_to_pairs(it.globals.v["chokan--roman-table"]),
            "katakana": alist_to_pairs(it.globals.v["chokan--katakana-table"]),
        }, ensure_ascii=False))
        return 0
    if argv[1] == "run":
        it = load(argv[2])
        for line in sys.stdin:
            line = line.rstrip("\n")
            if not line:
                continue
            op, _, rest = line.partition(" ")
            s = from_cps(rest)
            try:
                if op == "roma":
                    r = call(it, "chokan--roman-to-hiragana", s)
                    print("ok " + cps(r))
                elif op == "kata":
                    r = call(it, "chokan--roman-hira-to-kata", s)
                    print("ok " + cps(r))
                elif op == "sokuon":
                    r = call(it, "chokan--roman-sokuon-p", s)
                    print("ok " + ("t" if truthy(r) else "nil"))
                else:
                    print("bad-op")
            except LispError as e:
                print("error " + str(e).replace("\n", " "))
        return 0
    return 2


if __name__ == "__main__":
    sys.exit(main(sys.argv))
