#!/usr/bin/env python3
"""Writes /verif/MANIFEST.json from the table below (kept in one place so it stays valid)."""
import json
import os

VERIF = os.path.dirname(os.path.dirname(os.path.abspath(__file__)))

BASELINE_OFF = ("cd /repo && (cargo nextest run --workspace --no-fail-fast --tool-config-file pb:/w/lib/nextest.toml "
                "--profile pb --test-threads 8 --offline 2>/dev/null || cargo test --workspace --no-fail-fast --offline)")

CLAIMED = {
    "C19": dict(
        engine="lean+elisp-evaluator",
        technique="Lean 4 theorems over the regenerated romaji tables (decide +kernel on all rows, induction for totality/"
                  "pass-through/sokuon) + differential run of the model against chokan.el under a Lisp-subset evaluator",
        text="Kernel-checked theorems about the model of the three client defuns, stated over tables/consonants/loop bound "
             "re-extracted from chokan.el on every run; the model is tied to chokan.el by executing both on the same inputs.",
        note="No Emacs in the sandbox: chokan.el runs under tools/elisp_eval.py (validated on chokan-tests.el each run). "
             "All clauses, idempotence for every key sequence included (C19_idempotent), are proved on the model. "
             "Axioms: propext, Classical.choice, Quot.sound.",
        design="5/C19"),
}

CLAIMED["C12"] = dict(
    engine="lean+corr_dic",
    technique="Lean 4 theorems over the regenerated conjugation/guess tables (structural alignment proof for any stem/reading, "
              "decide +kernel over the whole tables for row/core/guess facts, byte-slicing lemma for new_guessed) + "
              "differential run of the model against the real dic crate",
    text="Alignment is proved for all stems and readings and every table row; row membership, core forms and guess "
         "conjugability are kernel-evaluated over the complete regenerated tables; the model is tied to speech.rs/entry.rs "
         "by running both on the same requests (conj, guess_form over all kana, new_guessed, words).",
    note="Specification data authored in Lean (gojūon rows, euphonic heads per class and row, core forms per class). Rust String/UTF-8 slicing "
         "modelled by utf8Len/sliceBytes; HashSet results compared as sets. C12_guess_accepts assumes the guesser's cut lies "
         "inside the shared kana ending. Axioms: propext, Classical.choice, Quot.sound.",
    design="5/C12")

CLAIMED["C10"] = dict(
    engine="lean+corr_dic",
    technique="Lean 4 proof of the print/parse round trip for all storable entries (induction over readings, stems and speech "
              "lists; a three-valued symbolic run of the PEG, kernel-evaluated on all 116 printed names and lifted to every "
              "continuation by soundness lemmas) + differential run against the real reader/writer",
    text="C10_entry/C10_multi/C10_injective/C10_isolation/C10_file are proved for every kana reading, every stem without "
         "blank/TAB and all 116 part-of-speech values, over grammar data re-extracted from dic_grammer.rs on every run; the "
         "hand-written PEG model is tied to the code by running both on printed, multi-speech, corrupt lines and files.",
    note="rust-peg semantics (ordered choice, greedy repetition, full-input match) are modelled, not verified; reader exercised "
         "on valid UTF-8 only; short writes of Write::write outside the model. Axioms: propext, Classical.choice, Quot.sound.",
    design="5/C10")

CLAIMED["C17"] = dict(
    engine="lean+corr_kana+elisp-evaluator",
    technique="Lean 4 proofs over the regenerated server and client tables: totality (every step consumes a character), "
              "ASCII-only output for every input over the client's class (induction on the conversion loop), client-inverse of "
              "every table unit by decide +kernel evaluating the client's model on the server's table + differential runs "
              "against kana_alpha::convert and chokan.el",
    text="C17_total, C17_ascii (full client class), C17_output_chars, C17_keeps_ascii (ASCII letters/digits stay in place and "
         "order), C17_units (result = spelling of the first unit ++ conversion of the rest), C17_client_inverse (all rows but the "
         "recorded findings), C17_katakana_rows, C17_katakana (string level: the katakana image of any in-class input converts "
         "identically) and C17_nfd (the NFD decomposition of an in-class input or of its katakana image converts identically) are kernel-checked; the models are tied to conversion.rs/lib.rs (shape-checked by the translator, "
         "run differentially on ~7000 inputs) and to chokan.el (evaluator).",
    note="NFC is modelled on kana + combining (han)dakuten only; arbitrary Unicode is run on the implementation for totality but "
         "not compared with the model. The model's decomposition decompKana is compared with Unicode NFD on the whole kana block; the "
         "real server's GetAlphabeticCandidate is compared with the library. "
         "11 client-inverse witnesses are known findings (5 vowel rows repaired by 6487e3c) (known_findings.json). "
         "Axioms: propext, Classical.choice, Quot.sound.",
    design="5/C17")

CLAIMED["C04"] = dict(
    engine="lean+corr_trie",
    technique="Lean 4 model of the double-array trie with the xcheck choice as an explicit oracle; kernel-checked theorem C04 "
              "(exact set of keys for every alphabet, every history of insertions, round trips and rejected keys, and every "
              "base the xcheck calls may return) by a ghost path map and an invariant preserved by record_transition_at, every "
              "iteration of rebase and insert + two-pass correspondence replaying the implementation's own xcheck choices and "
              "comparing complete base/check/free states",
    text="C04 (= C04_statement) is proved on the model for unbounded histories; the model reproduces the implementation's exact "
         "array state after every operation of random histories with relocations, clone/postcard round trips and rejected "
         "keys; the exact-set oracle and the structural invariant are also evaluated on the implementation.",
    note="C04_no_panic / C04_only_bad_oracle: no reachable state panics on an insertion (expect, index, Base+Label, the assertions "
         "of xcheck and rebase); a history fails to run in the model only at an xcheck answer the loop could not return. serde/Clone "
         "modelled as identity; find_labels_of order canonicalised (ascending labels); re-parenting of grandchildren written as a "
         "map over all slots. Axioms: propext, Classical.choice, Quot.sound.",
    design="5/C04")

KKC_NOTE = ("Tries abstracted as key sets (C04); dictionary well-formedness (word stored under its own reading) assumed; "
            "Score i32 modelled as Option Nat (sums < 2^31); std BinaryHeap replicated (tie order), validated by exact "
            "list equality in the correspondence run. Axioms: propext, Classical.choice, Quot.sound.")
CLAIMED["C01"] = dict(
    engine="lean+corr_kkc",
    technique="Lean 4 model of lattice construction + Viterbi + A* (BinaryHeap replica) over regenerated score tables; theorems on "
              "the model + differential run against kkc through the chokan_verif hooks with the tiling oracle on every candidate",
    text="The model reproduces the implementation's lattices, forward scores, edge scores and ordered candidate lists exactly on "
         "random dictionaries/inputs in 4 contexts; the tiling oracle is evaluated on every implementation candidate.",
    note="C01 is proved at full strength on the model for every well-formed dictionary, non-empty input, context, counts, n and "
         "fuel (lattice invariant through the five passes and the forward pass, chains through the A* loop, tiling of a chain). "
         + KKC_NOTE, design="5/C01")
CLAIMED["C02"] = dict(
    engine="lean+corr_kkc",
    technique="Lean 4 proof on the model that the A* n-best search is best-first and optimal over all connectable paths (max-heap "
              "property of the BinaryHeap replica, exact Viterbi steps of the forward pass, suffix-cover invariant of the loop) + "
              "exhaustive path enumeration oracle on the implementation's own lattice and scores + exact list equality model vs "
              "implementation",
    text="C02_full (= C02_statement): for every input, well-formed dictionary, context, counts and n >= 1 the while-let loop ends by "
         "itself from some number of iterations on (the total weight of the heap decreases with every iteration), always with the "
         "same list, which has at most n entries with pairwise different texts, is in non-increasing order of path score, and "
         "every connectable bos-to-eos path either has its text in the list or the list has n entries none scoring less; "
         "C02_forward_step_*, C02_is_connectable_path, C02_deterministic as before. The five conjuncts are also checked against "
         "exhaustive enumeration of every connectable path of the implementation's lattice for every generated case.",
    note="Proved at full strength on the model, termination included. The enumeration oracle skips (and counts) lattices above "
         "20000 paths. " + KKC_NOTE, design="5/C02")
CLAIMED["C03"] = dict(
    engine="lean+corr_kkc+corr_trie",
    technique="Lean 4 proofs on the lattice/search model: soundness of every converted word of every candidate; completeness at the "
              "head at candidate level from the optimality theorem of C02 and connectability facts of the regenerated score tables "
              "+ differential run with real tries + oracle on the implementation's untruncated candidate lists",
    text="C03_sound (every converted word of every candidate is a dictionary entry under its own reading over exactly its stretch "
         "of the input), C03_head_word_is_node and C03_complete_head (for every independent standard word whose reading is a prefix "
         "of the input, the list contains written form + rest of the input unless it is cut at n) and C03_complete_after_prefix "
         "(the same right after a leading prefix-affix for every word the engine's connection rule lets follow a prefix) are "
         "proved on the model; "
         "soundness and completeness (head and after a prefix) are also checked on the implementation's untruncated candidate "
         "lists for dictionaries whose tries are built by the real trie::Trie.",
    note="All three clauses are proved on the model with the regenerated score/merge tables. " + KKC_NOTE, design="5/C03")
CLAIMED["C16"] = dict(
    engine="lean+corr_kkc",
    technique="Lean 4 proofs over the regenerated score/merge tables: proper and normal contexts build the same lattice and the "
              "same edge scores, node scores differ by the fixed positive bonus per proper noun, no particle/auxiliary is "
              "mergeable at the head in any context + pairwise differential comparison of the four contexts",
    text="C16_proper_lattice, C16_proper_edge, C16_proper_node, C16_bonus_positive, C16_no_ancillary_particle_head are "
         "kernel-checked for all inputs and dictionaries; foreign/numeral superset claims are checked pairwise on the implementation.",
    note="The 'only suffix/counter-headed additions' clause is false at full strength (known finding D11, contrived dictionary); it "
         "is checked by the oracle with that mechanism recorded in known_findings.json. " + KKC_NOTE, design="5/C16")

SRV_NOTE = ("jsonrpsee/tokio/uuid/std Mutex+mpsc are modelled, not verified: each RPC handler body and each background action is one "
            "atomic step; a handler panic closes the connection. Tied to the real binaries (release build, --cfg chokan_verif hooks "
            "Verif.Dump / injectable clock / delay points) by running histories on both. Axioms: propext, Classical.choice, Quot.sound.")
CLAIMED["C05"] = dict(
    engine="lean+corr_server",
    technique="Lean 4 totality theorems on the server state-machine model (steps that hold locks cannot panic) + adversarial RPC "
              "histories on the real server compared step by step with the model, probes and a restart after every history",
    text="C05_convert_total (any input incl. empty, any dictionary), C05_confirm_total, C05_register_no_partial_effect, "
         "C05_noun_entry_applies, and over every history of atomic steps C05_history_convert_answered, "
         "C05_answer_depends_on_dict_and_counts, C05_failed_requests_change_nothing are kernel-checked; the real server is driven with malformed/odd requests, probed after each "
         "request (answer, no poisoned lock), restarted on its own user data and compared with the model throughout.",
    note="PARTIAL: 'answered in bounded time' is observed (5 s deadline), not proved; cubic lattice construction on very long inputs "
         "is outside the model. " + SRV_NOTE, design="5/C05")
CLAIMED["C06"] = dict(
    engine="lean+corr_kkc+corr_server",
    technique="Lean 4 theorems on confirm/updateWord/expire and on node scores (unknown session/candidate change nothing, single "
              "use, expiry boundary, count enters exactly one node score, context isolation) and, from the optimality theorem of C02, "
              "that any two states of the learned counts give the same untruncated set of candidate texts + differential runs at "
              "library and server level (Verif.Dump, injected clock around the expiry boundary, never-issued candidate ids)",
    text="Theorems kernel-checked on the model, among them C06_update_exact / C06_confirmation_counts / C06_confirm_exactly_one (a "
         "confirmation raises exactly the count filed under (context of the session, independent word) by one, leaves every count not due "
         "for expiry as it was and drops exactly the counts all of whose entries are older than three days), C06_candidate_id_exact, "
         "C06_path_score and C06_same_untruncated_set (learning only re-ranks: lattice, previous "
         "relation and connectability of a path do not depend on the counts); re-ranking-only and score-rise are also checked on the "
         "implementation's own edge/node scores for every generated case, also after the count table was serialised and read back "
         "and after counts were raised between two searches in one context; exact count changes per confirmation are checked on the "
         "real server.",
    note="The per-path score rise (count x occurrences) is proved per node (C06_node_score) and checked per path by the oracle. "
         + SRV_NOTE, design="5/C06")
CLAIMED["C07"] = dict(
    engine="lean+corr_server+corr_dic",
    technique="Lean 4 proofs that an applied word is found by look-up under its reading and that adding words never removes a "
              "look-up result (induction on the map), guess conjugability by decide +kernel + registrations of every kind on the "
              "real server with polling conversions of every conjugated form",
    text="C07_added_word_found, C07_monotone, C07_guess_conjugable and C07_registered_word_offered (candidate level: once applied, "
         "an independent word is offered for every input beginning with its reading, in every context, unless the list is cut at n "
         "- from C03_complete_head and C02_full) are kernel-checked; every conjugated form (computed by the real "
         "dic crate and by the model) of every registration must be offered for its reading by the real server within 3 s.",
    note="PARTIAL: 'within bounded time' is the updater getting scheduled (observed); the real trie being the key set is C04. "
         + SRV_NOTE, design="5/C07")
CLAIMED["C08"] = dict(
    engine="lean+corr_server",
    technique="Lean 4 proofs: user.dic round trip for storable user dictionaries (from C10_file), accepted registrations are "
              "storable, restart restores counts/user words/save directory, save is idempotent, the dictionary invariant holds at "
              "start and is kept by every step of every history of atomic steps, hence a save + restart changes no conversion answer "
              "(C08_full: the property at full strength on the model) + save/restart histories on the real server with 56 ordered probe conversions",
    text="Sixteen theorems kernel-checked (C08_user_dic_roundtrip, C08_register_storable, C08_restart_restores, C08_idempotent, "
         "C08_inv_at_start, C08_inv_apply, C08_inv_step, C08_inv_history, C08_same_answers_partial, quiet_all, C08_full, …); the real "
         "server is taken through mixed registration/confirmation histories (incl. counters that only the ancillary dictionary has), "
         "saved and restarted twice, and every probe answer, Verif.Dump and the bytes of user.dic are compared; directed histories: "
         "a written form registered again with another part of speech, and registrations queued together while the updater is delayed.",
    note="frequency.bin's postcard encoding is not modelled (compared through the real files/dumps). Until fix c5e9959 a learned compound "
         "was stored in the user dictionary twice; the thorough tier found a history after which a restart flipped two equal-score "
         "candidates (genuine defect D5b, repaired), and the theorem was partial; it is full now. " + SRV_NOTE, design="5/C08")
CLAIMED["C09"] = dict(
    engine="lean+strace+fault-enumeration",
    technique="Lean 4 theorems by kernel evaluation over every crash point of the extracted file-operation sequence (boundaries "
              "and inside writes), from every start state a past crash can leave (any leftover temporary file), lifted by induction "
              "to every history of completed and crashed saves + strace of the real save compared with that sequence + the real server restarted on every "
              "materialised crash directory",
    text="C09_first_save (a directory in which a file was never saved: every crash leaves each file as the save found it — complete or still absent — or new), "
         "C09 (every crash state restores a complete old-or-new version of both files, saving continues), "
         "C09_from_any_leftover and C09_history (the same for every history of saves and crashes, stale temporary files "
         "included) are kernel-checked over saveOps regenerated from user_pref.rs; the traced system calls of a real save must equal saveOps; each crash directory "
         "is restored by the real binary.",
    note="Process death only (atomic rename, durable completed writes). File contents are abstract in the theorem "
         "(old/new/torn/empty); byte-level cuts are exercised on the real files. " + SRV_NOTE, design="5/C09")
CLAIMED["C13"] = dict(
    engine="lean+corr_runtime",
    technique="Lean 4 theorem over the task inventory extracted from main.rs (no never-yielding loop on an async worker, hence "
              "serving for every worker count >= 1) + the real binary started with TOKIO_WORKER_THREADS = 1..16",
    text="C13, C13_occupancy, C13_duties and C13_blocking_pool (with the blocking pool as main.rs builds the runtime — tokio's default, a "
         "constant, workers*k or workers+k, regenerated — every never-ending blocking duty has a pool thread for every worker count >= 1) "
         "are kernel-checked over the regenerated inventory; each worker count's observation (answers, registration applied, periodic "
         "save, sessions recorded, requests arriving during the saves with as few workers as clients) is compared with the model's prediction.",
    note="PARTIAL: tokio's scheduler is not modelled, only worker occupancy and the size of the blocking pool; waiting for the async "
         "runtime from inside a duty (block_on) is reported by the translator, not modelled. " + SRV_NOTE, design="5/C13")
CLAIMED["C14"] = dict(
    engine="lean+corr_concurrent",
    technique="Lean 4 proofs on an interleaving model whose per-handler / per-loop event lists (lock acquisitions, scope-end releases, "
              "channel operations, data actions) are regenerated from main.rs/method.rs on every run: the lock discipline is an invariant "
              "of every schedule, hence mutual exclusion and no deadlock for any number of concurrent requests; each handler run alone "
              "equals the atomic step of the server model and critical sections are isolated under every schedule; when the discipline "
              "breaks, an exhaustive search of the model for a deadlocking schedule + concurrent clients (up to 32) with delay hooks "
              "against the real server",
    text="C14_lock_order, C14_no_deadlock(_here) (static), and operationally on Model/Conc: C14_conc_discipline (decide over the generated "
         "paths), C14_conc_mutex, C14_conc_requests_never_stuck, C14_conc_lock_waiters_progress, C14_conc_merge_one_section; on Model/Fine "
         "(the same interleavings with the data): C14_fine_shapes, C14_fine_convert_is_atomic / C14_fine_others_are_atomic (a handler or loop "
         "iteration with nothing in between = convert / confirmId / register / applyEntry / save of Model/Server) and C14_fine_isolation "
         "(while a thread holds a lock nobody else is at an action on the data it protects); on histories of atomic steps "
         "C14_dict_changes_by_whole_entries and C14_answer_is_sequential. Concurrently, on the real server, every request must complete, "
         "registrations become visible atomically and monotonically, confirmations are not lost.",
    note="PARTIAL: the step from (handlers alone = atomic steps) + (sections isolated) to 'every interleaving is equivalent to a history of "
         "atomic steps' is the standard reduction argument and is not mechanised; liveness under an unfair mutex is not claimed; "
         "std::sync::Mutex / mpsc are modelled (acq enabled iff free, unbounded send never waits), the event extraction is syntactic "
         "(scope-end release, statement-end release of temporaries, drop()). " + SRV_NOTE, design="5/C14")
CLAIMED["C15"] = dict(
    engine="lean+corr_concurrent",
    technique="Lean 4 proofs on the state machine (the answering step stores the session, ids fresh, a registration applied once) and on "
              "the interleaving model with the extracted event lists: the session is stored before the answer on every path, and under every "
              "schedule a confirmation that pops after the answer finds exactly the stored session and its candidates + back-to-back "
              "conversion/confirmation pairs from 1–32 concurrent clients and concurrent confirmations on a large learned table on the real server",
    text="C15_session_recorded, C15_sids_fresh_convert, C15_session_survives_other_confirm, C15_register_once, and over arbitrary histories "
         "of atomic steps C15_sids_fresh_history, C15_confirm_honoured, C15_registrations_applied_once; on the extracted event lists "
         "C15_conc_session_before_answer, C15_conc_confirm_sections, C15_conc_registration_queued (decide), and for every schedule of the "
         "interleaving model C15_conc_confirmation_finds_session (ids only) and C15_fine_confirmation_gets_answered_candidate (with the data: "
         "the confirmation's candidate is the one its request string names among the answered candidates, in the conversion's context); "
         "on the real server the learned count must equal the number of acknowledged confirmations in every configuration.",
    note="PARTIAL: OS/tokio interleavings are sampled on the real server; the theorems quantify over all schedules of the model, whose "
         "event lists are extracted syntactically. " + SRV_NOTE, design="5/C15")
CLAIMED["C20"] = dict(
    engine="lean+corr_kkc+corr_server",
    technique="Lean 4 proofs about to_string_with_affix on chains as the search returns them (three affix patterns, no-affix case) "
              "and about confirm/applyEntry + oracle on every implementation candidate + the real session protocol with restart",
    text="Eight theorems kernel-checked, among them C20_compound_converts (once applied, the compound's reading converts to the "
         "compound as one word, candidate level); for every generated candidate the extracted compound is compared with the expected one; "
         "confirming affixed candidates on the real server must make the compound convertible, saved and restart-proof.",
    note="The compound used to be recorded in the user dictionary twice (handler and updater); repaired by c5e9959 (see C08). "
         + SRV_NOTE, design="5/C20")

CLAIMED["C11"] = dict(
    engine="lean+corr_builder",
    technique="Lean 4 proofs about the builder's fold (every word that enters is stored under its reading, nothing else is stored, "
              "every reading spelled in the alphabet reaches the trie key set; induction over the word list) + the real chokan-dic "
              "binary on generated sources, image loaded through postcard and compared with the model",
    text="C11_complete, C11_sound, C11_trie_keys and C11_source (the model of read_and_make_dictionary stores exactly the "
         "conjugated words of the source, each under its reading, and every reading over the alphabet is a trie key) are "
         "kernel-checked; images built by the real binary from sources up to 1500 (thorough 20000) entries are dumped, compared "
         "with the model, queried for trie membership, conversion and single-kanji lookup.",
    note="postcard/serde modelled as identity (validated by loading the real image); the stable sort is modelled by insertion sort "
         "(membership preservation proved); real trie = key set is C04. Axioms: propext, Classical.choice, Quot.sound.",
    design="5/C11")
CLAIMED["C18"] = dict(
    engine="lean+corr_skk",
    technique="Lean 4 models of the SKK-JISYO grammar, the noun/jinmei/tankan converters and the whole notes grammar + converter "
              "(dictionary-ending table generated from converter.rs) with proofs about what a successful parse returns, that the "
              "notes converter never panics on a parsed line, and that every emitted line is a storable dictionary line (via "
              "C10_entry) + differential run of all five parsers/converters on well-formed, mutated, directed, odd and arbitrary lines",
    text="C18_parse_shape, C18_words_shape, C18_emitted_valid (nouns, propers, single kanji; for candidates without TAB), "
         "C18_noun_skips_okuri, C18_notes_parse_shape, C18_notes_no_panic, C18_notes_emitted_valid (stems without blank/TAB), "
         "C18_notes_faithful are kernel-checked; all five real parsers/converters are run against the models on generated lines "
         "(notes: 10 reference kinds, structured + mutated lines, a directed table of every class x row x okuri shape x stem "
         "shape), every emitted line is re-read by the real dictionary reader, base verb notes are conjugated and their okuri row "
         "checked.",
    note="The models are hand translations tied by the differential run (the notes ending table is generated); arbitrary-Unicode "
         "totality of the PEG parsers is checked on the implementation and the model side by side, not proved beyond the model's "
         "own totality. One known finding (D13), two fixed (D12a, D14). Axioms: propext, Classical.choice, Quot.sound.",
    design="5/C18")

NOT_YET = "machinery for this property is not built yet in this round (work in progress; see DESIGN.md section 9)"


def main():
    props = [json.loads(l)["id"] for l in open(os.path.join(VERIF, "properties.jsonl"), encoding="utf-8")]
    checks = []
    for pid in props:
        if pid not in CLAIMED:
            continue
        c = CLAIMED[pid]
        checks.append({
            "property_id": pid,
            "quick_cmd": "./check %s --tier quick" % pid,
            "thorough_cmd": "./check %s --tier thorough" % pid,
            "evidence_file": "/verif/evidence/%s.json" % pid,
            "replay_cmd_template": "./check %s --replay {path}" % pid,
            "engine": c["engine"],
            "level_claimed": {"category": "proof", "text": c["text"], "design_ref": "DESIGN.md " + c["design"]},
            "level_note": c["note"],
            "technique": c["technique"],
        })
    man = {
        "version": 1,
        "setup_cmd": "./setup.sh",
        "hooks": {
            "guard": "chokan_verif",
            "enable": "RUSTFLAGS='--cfg chokan_verif' (set by ./check when it builds /verif/harness against /repo)",
            "baseline_off_cmd": BASELINE_OFF,
            "source_commits": json.load(open(os.path.join(VERIF, "hooks.json")))["commits"] if os.path.exists(os.path.join(VERIF, "hooks.json")) else [],
            "add_only": True,
        },
        "engines": [
            {"name": "lean", "path": "/verif/lean", "serves_properties": sorted(CLAIMED),
             "kind_free_text": "Lean 4 library Chokan: models, generated tables, lemmas, property theorems; lean_exe chokan_driver"},
            {"name": "translator", "path": "/verif/tools/extract.py", "serves_properties": sorted(CLAIMED),
             "kind_free_text": "re-extracts tables/constants/inventories from /repo into Chokan/Gen/*.lean on every run"},
            {"name": "harness", "path": "/verif/harness", "serves_properties": [p for p in sorted(CLAIMED) if p != "C19"],
             "kind_free_text": "Rust crate calling the real chokan crates in-process; correspondence with the Lean driver"},
        ],
        "checks": checks,
        "not_applicable": [{"property_id": p, "reason": NOT_YET} for p in props if p not in CLAIMED],
        "notes": "All checks: ./check <id> --tier quick|thorough. Known defects of the unchanged tree are listed in "
                 "known_findings.json (KNOWN-FINDING lines, exit 0); repaired ones are `fix:` commits in /repo.",
    }
    with open(os.path.join(VERIF, "MANIFEST.json"), "w", encoding="utf-8") as f:
        json.dump(man, f, ensure_ascii=False, indent=1)
    print("MANIFEST.json: %d claimed, %d not_applicable" % (len(checks), len(man["not_applicable"])))


if __name__ == "__main__":
    main()
