"""C01 — every candidate re-reads to exactly the input; only a leading run is converted."""
from props import kkc_common as K


def check_candidate(inp, cd):
    ch = cd["chain"]
    if len(ch) < 3 or ch[0]["kind"] != "bos" or ch[-1]["kind"] != "eos":
        return "chain does not run from the sentence start to the sentence end"
    mid = ch[1:-1]
    kinds = [n["kind"] for n in mid]
    if "virtual" in kinds[:-1]:
        return "unconverted text is followed by a converted word"
    if any(k in ("bos", "eos") for k in kinds):
        return "sentence marker inside the chain"
    if kinds[0] != "word":
        return "no converted word at the first character"
    if "".join(n["reading"] for n in mid) != inp:
        return "covered kana %r differ from the input" % "".join(n["reading"] for n in mid)
    if "".join(n["surface"] for n in mid) != cd["text"]:
        return "candidate text is not the concatenation of its parts"
    pos = -1
    for n in mid:
        pos += len(n["reading"])
        if n["end"] != pos:
            return "part %s does not end where its reading ends" % n["id"]
    if mid[-1]["kind"] == "virtual" and mid[-1]["surface"] != inp[len(inp) - len(mid[-1]["surface"]):]:
        return "unconverted tail is not the input's own text"
    return None


def run(run, replay=None):
    run.assumptions += ["dictionary well-formedness: every word stored under key k has reading k (true of every dictionary the "
                        "builder or the server's updater produces); tries abstracted as key sets (C04)"]
    run.regenerate(["Kkc", "Dic"])
    if run.build_props():
        run.audit()
    results, dis, cases = K.run_cases(run)
    if results is None:
        return
    fails = []
    n = 0
    for r in results:
        for store in (r.base, r.learned):
            if store is None:
                continue
            for ctx in K.CTXS:
                for which in ("cands", "all"):
                    cds = store[ctx][which]
                    if cds is None:
                        if r.case.inp != "":
                            fails.append(("panic", {"kind": "panic"}, dict(r.case.describe(), context=ctx)))
                        continue
                    if r.case.inp == "":
                        continue        # the property quantifies over inputs of length >= 1
                    for cd in cds:
                        n += 1
                        why = check_candidate(r.case.inp, cd)
                        if why:
                            fails.append(("tiling", {"kind": "tiling", "why": why.split(" ")[0]},
                                          dict(r.case.describe(), context=ctx, candidate=cd["text"],
                                               parts=[(x.get("surface"), x.get("reading")) for x in cd["chain"][1:-1]], why=why)))
    K.coverage(run, results, cases)
    run.cov["oracle_checks"] = {"candidates_checked": n}
    K.report(run, "C01", fails, dis, "lattice/edges/candidates")
